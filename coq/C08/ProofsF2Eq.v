(* F2: answers are invariant under Type.__eq__ (unions compared as sets), hence the subtype caches, whose keys are
   compared with that equality, never change an answer *)
From Coq Require Import ZArith List Bool PArith Lia.
From C08 Require Import Model Proofs ProofsKind ProofsTrans ProofsTrans2 ProofsF2 ProofsF2Sound ProofsF2Comp.
Import ListNotations.

(* ---------------------------------------------------------------- ty_eqb is symmetric *)
Lemma ty_eqb_sym : forall a b, ty_eqb a b = true -> ty_eqb b a = true.
Proof.
  induction a using ty_ind'; intros b E; destruct b; simpl in E; try discriminate; auto.
  - (* Inst *)
    apply andb_prop in E. destruct E as [Ec Ea]. simpl. rewrite Pos.eqb_sym, Ec. simpl.
    revert args0 Ea. induction H; intros ys Ea; destruct ys; try discriminate; auto.
    apply andb_prop in Ea. destruct Ea as [E1 E2]. simpl. rewrite (H t E1). simpl. apply IHForall; auto.
  - apply andb_prop in E. destruct E as [E1 E2]. simpl. rewrite Pos.eqb_sym, E1, Z.eqb_sym, E2. reflexivity.
  - (* Union *)
    assert (I1 := ty_eqb_union_incl _ _ E). assert (I2 := eqb_union_incl2 _ _ E).
    rewrite Forall_forall in H.
    assert (J1 : forall y, In y ts0 -> existsb (ty_eqb y) ts = true).
    { intros y Hy. destruct (I2 y Hy) as [x [Hx Exy]]. apply existsb_exists. exists x. split; auto. }
    assert (J2 : forall x, In x ts -> exists y, In y ts0 /\ ty_eqb y x = true).
    { intros x Hx. assert (M := I1 x Hx). apply existsb_exists in M. destruct M as [y [Hy Exy]]. exists y. split; auto. }
    simpl. apply andb_true_intro. split.
    + clear - J1. induction ts0 as [|y l IH]; auto. rewrite (J1 y (or_introl eq_refl)). simpl.
      apply IH. intros; apply J1; right; auto.
    + apply forallb_forall. intros x Hx. destruct (J2 x Hx) as [y [Hy Eyx]].
      clear - Hy Eyx. induction ts0 as [|y0 l IH]; [destruct Hy|]. destruct Hy as [<-|Hy].
      * rewrite Eyx. reflexivity.
      * rewrite (IH Hy). apply orb_true_r.
  - (* Tuple *)
    simpl. revert ts0 E. induction H; intros ys E; destruct ys; try discriminate; auto.
    apply andb_prop in E. destruct E as [E1 E2]. simpl. rewrite (H t E1). simpl. apply IHForall; auto.
Qed.

Lemma Forall2_zip3_l : forall (R : ty -> ty -> Prop) (xs xs' ys : list ty) (vs : list variance) a' b v,
  Forall2 R xs xs' -> In (a', b, v) (zip3 xs' ys vs) -> exists a, In (a, b, v) (zip3 xs ys vs) /\ R a a'.
Proof.
  intros R xs xs' ys vs a' b v F. revert ys vs. induction F; intros ys vs Hin; [destruct ys, vs; destruct Hin|].
  destruct ys as [|y0 ys], vs as [|v0 vs]; try destruct Hin.
  - inversion H0; subst. exists x. split; [left; auto|auto].
  - destruct (IHF ys vs H0) as [a [Ha Ra]]. exists a. split; [right; auto|auto].
Qed.
Lemma Forall2_zip3_r : forall (R : ty -> ty -> Prop) (xs ys ys' : list ty) (vs : list variance) a b' v,
  Forall2 R ys ys' -> In (a, b', v) (zip3 xs ys' vs) -> exists b, In (a, b, v) (zip3 xs ys vs) /\ R b b'.
Proof.
  intros R xs ys ys' vs a b' v F. revert xs vs. induction F; intros xs vs Hin; [destruct xs, vs; destruct Hin|].
  destruct xs as [|x0 xs], vs as [|v0 vs]; try destruct Hin.
  - inversion H0; subst. exists x. split; [left; auto|auto].
  - destruct (IHF xs vs H0) as [b [Hb Rb]]. exists b. split; [right; auto|auto].
Qed.

Definition eqR (a b : ty) : Prop := ty_eqb a b = true.

Lemma eqb_inst_args : forall c xs d ys, ty_eqb (TInst c xs) (TInst d ys) = true -> c = d /\ Forall2 eqR xs ys.
Proof.
  intros c xs d ys E. simpl in E. apply andb_prop in E. destruct E as [Ec Ea]. apply Pos.eqb_eq in Ec. split; auto.
  clear Ec. revert ys Ea. induction xs; destruct ys; intros Ea; try discriminate; constructor.
  - apply andb_prop in Ea. destruct Ea; auto.
  - apply IHxs. apply andb_prop in Ea. destruct Ea; auto.
Qed.

Section E2.
Variable ct : ctable.
Hypothesis Hwf : wf_ct ct = true.

Lemma mts_eqb : forall c xs xs' d, Forall2 eqR xs xs' ->
  Forall2 eqR (map_to_super ct c xs d) (map_to_super ct c xs' d).
Proof.
  intros c xs xs' d F. unfold map_to_super. destruct (Pos.eqb c d); auto.
  destruct (c_var (cls_of ct d)); [constructor|].
  destruct (assoc_cid (c_amap (cls_of ct c)) d) as [specs|].
  - induction specs as [|s r IH]; simpl; constructor; auto.
    destruct s as [i|t]; simpl; [|apply ty_eqb_refl].
    clear - F. revert i. induction F; intros i; destruct i; simpl; auto; try apply ty_eqb_refl.
  - clear. induction (v :: l); simpl; constructor; auto. apply ty_eqb_refl.
Qed.

Lemma eqb_atomish : forall a b, ty_eqb a b = true -> is_atomish a = is_atomish b.
Proof. destruct a, b; simpl; intros; try discriminate; auto. Qed.

Lemma lit_in_eqb : forall c v rs rs', In (TLit c v) rs ->
  (forall x, In x rs -> existsb (ty_eqb x) rs' = true) -> In (TLit c v) rs'.
Proof.
  intros c v rs rs' Hin H. assert (M := H _ Hin). apply existsb_exists in M. destruct M as [y [Hy E]].
  destruct y; simpl in E; try discriminate. apply andb_prop in E. destruct E as [E1 E2].
  apply Pos.eqb_eq in E1. apply Z.eqb_eq in E2. subst. exact Hy.
Qed.

Lemma complete_eqb : forall rs rs' c, (forall x, In x rs -> existsb (ty_eqb x) rs' = true) ->
  complete ct rs c = true -> complete ct rs' c = true.
Proof.
  intros rs rs' c H C. unfold complete in *. rewrite forallb_forall in *. intros m0 Hm. specialize (C m0 Hm).
  apply existsb_exists in C. destruct C as [x [Hx Lx]]. destruct x; simpl in Lx; try discriminate.
  apply andb_prop in Lx. destruct Lx as [L1 L2]. apply Pos.eqb_eq in L1. apply Z.eqb_eq in L2. subst.
  apply existsb_exists. exists (TLit c0 v). split; [eapply lit_in_eqb; eauto|]. simpl. rewrite Pos.eqb_refl, Z.eqb_refl. reflexivity.
Qed.

Definition RespL (h : nat) : Prop := forall np l r l', leh ct np h l r ->
  frag2 ct l = true -> frag2 ct r = true -> frag2 ct l' = true -> ty_eqb l l' = true -> LE ct np l' r.
Definition RespR (h : nat) : Prop := forall np l r r', leh ct np h l r ->
  frag2 ct l = true -> frag2 ct r = true -> frag2 ct r' = true -> ty_eqb r r' = true -> LE ct np l r'.

Lemma args_frag : forall c xs d la ra v ys, frag2 ct (TInst c xs) = true -> frag2 ct (TInst d ys) = true ->
  (has_base ct c d = true \/ d = k_object ct) ->
  In (la, ra, v) (zip3 (map_to_super ct c xs d) ys (c_var (cls_of ct d))) -> frag2 ct la = true /\ frag2 ct ra = true.
Proof.
  intros c xs d la ra v ys Fl Fr HB Hin. split.
  - apply (mts_frag ct Hwf c xs d Fl HB). eapply in_combine_l. eapply in_zip3_combine; eauto.
  - destruct (frag2_inst ct _ _ Fr) as [_ [_ Fys]]. apply Fys. eapply in_combine_r. eapply in_zip3_combine; eauto.
Qed.

Lemma resp_step : forall h, RespL h -> RespR h -> RespL (S h) /\ RespR (S h).
Proof.
  intros h RL RR.
  assert (Hitems : forall ts x, frag2 ct (TUnion ts) = true -> In x ts -> is_atomish x = true /\ frag2 ct x = true)
    by (intros; eapply frag2_atomish; eauto).
  split.
  - (* left *)
    intros np l r l' L Fl Fr Fl' E. rewrite leh_eq in L. unfold leh_step in L.
    destruct l as [| | |c xs|c v|ls|]; try (simpl in Fl; discriminate).
    + destruct l'; simpl in E; try discriminate. apply LE_never.
    + destruct l'; simpl in E; try discriminate. exists (S h). rewrite leh_eq. exact L.
    + (* Inst *)
      destruct l' as [| | |c' xs'| | |]; try (simpl in E; discriminate).
      destruct (eqb_inst_args _ _ _ _ E) as [<- F2].
      destruct r as [| | |d ys|d w|rs|]; try (simpl in Fr; discriminate); try contradiction.
      * destruct L as [[Np [Pd [b [p [Hb [Hp Lp]]]]]]|[HB P]].
        -- subst np. eapply LE_promo; eauto. exists h; auto.
        -- apply LE_inst_nom; auto. intros [[la' ra] v] Hin.
           destruct (Forall2_zip3_l eqR _ _ _ _ _ _ _ (mts_eqb c xs xs' d F2) Hin) as [la [Hin0 Ela]].
           specialize (P _ _ _ Hin0).
           destruct (args_frag _ _ _ _ _ _ _ Fl Fr HB Hin0) as [Fla Fra].
           destruct (args_frag _ _ _ _ _ _ _ Fl' Fr HB Hin) as [Fla' _].
           destruct v; simpl.
           ++ destruct P as [P1 P2]. split; [apply (RL np la ra la')|apply (RR np ra la la')]; auto.
           ++ apply (RL np la ra la'); auto.
           ++ apply (RR np ra la la'); auto.
      * destruct L as [[x [Hx Lx]]|[Cc [c' [C1 [C2 [[v Hv] Lc]]]]]].
        -- destruct (Hitems _ _ Fr Hx) as [Ax Fx].
           apply (LE_union_r ct np _ rs x); auto. apply (RL np (TInst c xs) x); auto.
        -- destruct (Hitems _ _ Fr Hv) as [_ Fv].
           apply (LE_contract ct np c xs' rs c' v); auto.
           apply (RL np (TInst c xs) (TInst c' [])); auto. eapply lit_inst_frag; eauto.
    + (* Lit *)
      destruct l'; simpl in E; try discriminate. apply andb_prop in E. destruct E as [E1 E2].
      apply Pos.eqb_eq in E1. apply Z.eqb_eq in E2. subst. exists (S h). rewrite leh_eq. exact L.
    + (* Union *)
      destruct l' as [| | | | |ls'|]; try (simpl in E; discriminate).
      apply LE_union_l. intros x' Hx'. destruct (eqb_union_incl2 _ _ E x' Hx') as [x [Hx Exx]].
      destruct (Hitems _ _ Fl Hx) as [_ Fx]. destruct (Hitems _ _ Fl' Hx') as [_ Fx'].
      apply (RL np x r x'); auto.
  - (* right *)
    intros np l r r' L Fl Fr Fr' E. rewrite leh_eq in L. unfold leh_step in L.
    destruct (is_never l) eqn:Nv; [destruct l; try discriminate; apply LE_never|].
    destruct (is_union l) eqn:Ul.
    { destruct l as [| | | | |ls|]; try discriminate. apply LE_union_l. intros x Hx.
      destruct (Hitems _ _ Fl Hx) as [_ Fx]. apply (RR np x r r'); auto. }
    assert (Al : is_atomish l = true) by (unfold is_atomish; rewrite Nv, Ul; auto).
    destruct r as [| | |d ys|d w|rs|]; try (simpl in Fr; discriminate).
    + destruct r'; simpl in E; try discriminate. exists (S h). rewrite leh_eq. exact L.
    + destruct r'; simpl in E; try discriminate. exists (S h). rewrite leh_eq. exact L.
    + (* r = Inst d ys *)
      destruct r' as [| | |d' ys'| | |]; try (simpl in E; discriminate).
      destruct (eqb_inst_args _ _ _ _ E) as [<- F2].
      destruct l as [| | |c xs|c v|ls|]; try discriminate; try contradiction.
      * subst d. apply LE_none_obj.
      * destruct L as [[Np [Pd [b [p [Hb [Hp Lp]]]]]]|[HB P]].
        -- subst np. eapply LE_promo; eauto. apply (RR false (TInst p []) (TInst d ys)); auto.
           apply plain_frag2. apply (promote_plain ct Hwf b p Hp).
        -- apply LE_inst_nom; auto. intros [[la ra'] v] Hin.
           destruct (Forall2_zip3_r eqR _ _ _ _ _ _ _ F2 Hin) as [ra [Hin0 Era]].
           specialize (P _ _ _ Hin0).
           destruct (args_frag _ _ _ _ _ _ _ Fl Fr HB Hin0) as [Fla Fra].
           destruct (args_frag _ _ _ _ _ _ _ Fl Fr' HB Hin) as [_ Fra'].
           destruct v; simpl.
           ++ destruct P as [P1 P2]. split; [apply (RR np la ra ra')|apply (RL np ra la ra')]; auto.
           ++ apply (RR np la ra ra'); auto.
           ++ apply (RL np ra la ra'); auto.
      * apply LE_lit_inst. apply (RR np (TInst c []) (TInst d ys)); auto. eapply lit_inst_frag; eauto.
    + destruct r'; simpl in E; try discriminate. apply andb_prop in E. destruct E as [E1 E2].
      apply Pos.eqb_eq in E1. apply Z.eqb_eq in E2. subst. exists (S h). rewrite leh_eq. exact L.
    + (* r = Union rs *)
      destruct r' as [| | | | |rs'|]; try (simpl in E; discriminate).
      assert (Lx : (exists x, In x rs /\ leh ct np h l x) \/
                   (exists c xs c' v, l = TInst c xs /\ contractible ct c = true /\ contractible ct c' = true /\
                      complete ct rs c' = true /\ In (TLit c' v) rs /\ leh ct np h l (TInst c' []))).
      { destruct l; try discriminate; destruct L as [L|L]; auto; try contradiction.
        destruct L as [Cc [c' [C1 [C2 [[v Hv] Lc]]]]]. right. exists c, args, c', v. auto 10. }
      assert (I1 := ty_eqb_union_incl _ _ E).
      destruct Lx as [[x [Hx Lx]]|[c [xs [c' [v [-> [Cc [C1 [C2 [Hv Lc]]]]]]]]]].
      * assert (M := I1 x Hx). apply existsb_exists in M.
        destruct M as [x' [Hx' Exx]]. destruct (Hitems _ _ Fr Hx) as [_ Fx]. destruct (Hitems _ _ Fr' Hx') as [_ Fx'].
        apply (LE_union_r ct np l rs' x'); auto. apply (RR np l x x'); auto.
      * apply (LE_contract ct np c xs rs' c' v); auto.
        -- eapply complete_eqb; eauto.
        -- eapply lit_in_eqb; eauto.
        -- exists h; auto.
Qed.

Lemma resp : forall h, RespL h /\ RespR h.
Proof.
  induction h as [|h [A B]]; [split; intros ? ? ? ? H; contradiction|]. apply resp_step; auto.
Qed.

Lemma Hlk0 : forall k l r b, no_cache k l r = Some b -> k_notparams k = false -> kind_ok k = true ->
  frag2 ct l = true -> frag2 ct r = true -> (b = true <-> LE ct (k_nopromo k) l r).
Proof. intros k l r b H. discriminate. Qed.

(* the answers only depend on the ==-classes of the two types *)
Theorem eq_invariant2 : forall k l r l' r', k_notparams k = false -> kind_ok k = true ->
  frag2 ct l = true -> frag2 ct r = true -> frag2 ct l' = true -> frag2 ct r' = true ->
  ty_eqb l l' = true -> ty_eqb r r' = true ->
  forall n m x y, sub ct no_cache n k l r = Some x -> sub ct no_cache m k l' r' = Some y -> x = y.
Proof.
  assert (Half : forall k l r l' r', k_notparams k = false -> kind_ok k = true ->
    frag2 ct l = true -> frag2 ct r = true -> frag2 ct l' = true -> frag2 ct r' = true ->
    ty_eqb l l' = true -> ty_eqb r r' = true ->
    forall n m y, sub ct no_cache n k l r = Some true -> sub ct no_cache m k l' r' = Some y -> y = true).
  { intros k l r l' r' Kn Kk Fl Fr Fl' Fr' El Er n m y H1 H2.
    destruct (sub_sound2 ct Hwf no_cache Hlk0 n k l r Kn Kk Fl Fr H1) as [h L].
    destruct (resp h) as [RL _]. destruct (RL _ l r l' L Fl Fr Fl' El) as [h2 L2].
    destruct (resp h2) as [_ RR]. assert (L3 := RR _ l' r r' L2 Fl' Fr Fr' Er).
    apply (sub_complete2 ct Hwf no_cache Hlk0 _ l' r' L3 Fl' Fr' k eq_refl Kn Kk m y H2). }
  intros k l r l' r' Kn Kk Fl Fr Fl' Fr' El Er n m x y H1 H2.
  destruct x.
  - symmetry. exact (Half k l r l' r' Kn Kk Fl Fr Fl' Fr' El Er n m y H1 H2).
  - destruct y; auto.
    exact (Half k l' r' l r Kn Kk Fl' Fr' Fl Fr (ty_eqb_sym _ _ El) (ty_eqb_sym _ _ Er) m n false H2 H1).
Qed.

(* ---------------------------------------------------------------- the subtype caches on F2 *)
Lemma frag2_eqb : forall a b, ty_eqb a b = true -> frag2 ct b = true -> frag2 ct a = true.
Proof.
  induction a using ty_ind'; intros b E Fb; destruct b; simpl in E; try discriminate; auto.
  - (* Inst *)
    destruct (eqb_inst_args _ _ _ _ E) as [<- F2]. destruct (frag2_inst ct _ _ Fb) as [G [Len Fys]].
    simpl. rewrite G. simpl.
    assert (Hl : length args = length args0) by (clear - F2; induction F2; simpl; auto).
    rewrite Hl, Len, Nat.eqb_refl. simpl.
    apply forallb_forall. intros x Hx. rewrite Forall_forall in H.
    clear - F2 Hx H Fys. induction F2 as [|a0 b0 l1 l2 Hab F2 IH2]; [destruct Hx|].
    destruct Hx as [Hx|Hx].
    + subst x. apply (H a0 (or_introl eq_refl) b0); auto. apply Fys. left; auto.
    + apply IH2; auto; [intros x0 Hx0 b1; apply (H x0 (or_intror Hx0) b1)|intros x0 Hx0; apply Fys; right; auto].
  - (* Lit *)
    apply andb_prop in E. destruct E as [E1 E2]. apply Pos.eqb_eq in E1. subst. exact Fb.
  - (* Union *)
    assert (I1 := ty_eqb_union_incl _ _ E). rewrite Forall_forall in H.
    simpl. destruct ts as [|x0 ts'].
    + exfalso. destruct ts0 as [|y0 l0]; [simpl in Fb; discriminate|]. simpl in E. discriminate.
    + apply forallb_forall. intros x Hx. assert (M := I1 x Hx). apply existsb_exists in M. destruct M as [y [Hy Exy]].
      destruct (frag2_atomish ct _ y Fb Hy) as [Ay Fy].
      rewrite <- (eqb_atomish _ _ Exy) in Ay. unfold is_atomish in Ay. rewrite Ay. simpl. apply (H x Hx y); auto.
Qed.

(* a cache whose entries are in F2 and semantically right *)
Definition entries_ok2 (es : list centry) (b : bool) : Prop :=
  forall k l r, In (k, l, r) es ->
    frag2 ct l = true /\ frag2 ct r = true /\ k_notparams k = false /\ kind_ok k = true /\
    (if b then LE ct (k_nopromo k) l r else ~ LE ct (k_nopromo k) l r).
Definition cache_ok2 (c : cache) : Prop := entries_ok2 (c_pos c) true /\ entries_ok2 (c_neg c) false.

Lemma LE_eqb_iff : forall np l r l' r', frag2 ct l = true -> frag2 ct r = true -> frag2 ct l' = true -> frag2 ct r' = true ->
  ty_eqb l l' = true -> ty_eqb r r' = true -> LE ct np l r -> LE ct np l' r'.
Proof.
  intros np l r l' r' Fl Fr Fl' Fr' El Er [h L].
  destruct (resp h) as [RL _]. destruct (RL _ l r l' L Fl Fr Fl' El) as [h2 L2].
  destruct (resp h2) as [_ RR]. exact (RR _ l' r r' L2 Fl' Fr Fr' Er).
Qed.

Lemma lookup_semantic : forall c, cache_ok2 c ->
  forall k l r b, lookup c k l r = Some b -> k_notparams k = false -> kind_ok k = true ->
  frag2 ct l = true -> frag2 ct r = true -> (b = true <-> LE ct (k_nopromo k) l r).
Proof.
  intros c [Hp Hn] k l r b Hl Kn Kk Fl Fr. unfold lookup in Hl.
  assert (Hent : forall es b0, entries_ok2 es b0 -> in_cache k l r es = true ->
            (if b0 then LE ct (k_nopromo k) l r else ~ LE ct (k_nopromo k) l r)).
  { intros es b0 Hok Hin. unfold in_cache in Hin. apply existsb_exists in Hin.
    destruct Hin as [[[k' l'] r'] [Hin He]]. unfold entry_eqb in He.
    apply andb_prop in He. destruct He as [He Hr]. apply andb_prop in He. destruct He as [Hk Hll].
    apply kind_eqb_eq in Hk. subst k'. destruct (Hok _ _ _ Hin) as [Fl' [Fr' [_ [_ Hs]]]].
    destruct b0.
    - apply (LE_eqb_iff _ l' r' l r); auto using ty_eqb_sym.
    - intros L. apply Hs. apply (LE_eqb_iff _ l r l' r'); auto. }
  destruct (in_cache k l r (c_pos c)) eqn:E1.
  - injection Hl as <-. assert (L := Hent _ true Hp E1). simpl in L. tauto.
  - destruct (in_cache k l r (c_neg c)) eqn:E2; [|discriminate].
    injection Hl as <-. assert (L := Hent _ false Hn E2). simpl in L. split; [discriminate|tauto].
Qed.

(* the lookup table of an ok cache never contradicts the uncached function (the notion used by sub_agree) *)
Lemma cache_ok2_sound : forall c, cache_ok2 c -> sound ct (lookup c).
Proof.
  intros c Hc k l r b Hl n y Hy.
  assert (Hfr : frag2 ct l = true /\ frag2 ct r = true /\ k_notparams k = false /\ kind_ok k = true).
  { destruct Hc as [Hp Hn]. unfold lookup in Hl.
    assert (Hent : forall es b0, entries_ok2 es b0 -> in_cache k l r es = true ->
              frag2 ct l = true /\ frag2 ct r = true /\ k_notparams k = false /\ kind_ok k = true).
    { intros es b0 Hok Hin. unfold in_cache in Hin. apply existsb_exists in Hin.
      destruct Hin as [[[k' l'] r'] [Hin He]]. unfold entry_eqb in He.
      apply andb_prop in He. destruct He as [He Hr]. apply andb_prop in He. destruct He as [Hk Hll].
      apply kind_eqb_eq in Hk. subst k'. destruct (Hok _ _ _ Hin) as [Fl' [Fr' [Kn [Kk _]]]].
      repeat split; auto; eapply frag2_eqb; eauto. }
    destruct (in_cache k l r (c_pos c)) eqn:E1; [eapply Hent; [apply Hp|auto]|].
    destruct (in_cache k l r (c_neg c)) eqn:E2; [eapply Hent; [apply Hn|auto]|discriminate]. }
  destruct Hfr as [Fl [Fr [Kn Kk]]].
  assert (Sem := lookup_semantic c Hc k l r b Hl Kn Kk Fl Fr).
  destruct y.
  - destruct b; auto. exfalso. assert (L := sub_sound2 ct Hwf no_cache Hlk0 n k l r Kn Kk Fl Fr Hy).
    apply Sem in L. discriminate.
  - destruct b; auto. assert (L : LE ct (k_nopromo k) l r) by (apply Sem; auto).
    assert (T := sub_complete2 ct Hwf no_cache Hlk0 _ l r L Fl Fr k eq_refl Kn Kk n _ Hy). discriminate.
Qed.

Definition op_ok2 (o : op) : Prop :=
  match o with
  | Query k l r => is_inst l && is_inst r = true ->
      frag2 ct l = true /\ frag2 ct r = true /\ k_notparams k = false /\ kind_ok k = true
  | Reset => True
  end.

Lemma cache_ok2_empty : cache_ok2 empty_cache.
Proof. split; intros k l r []. Qed.

Theorem run_cache_agree2 : forall fuel ops c, cache_ok2 c -> Forall op_ok2 ops ->
  Forall2 agree (run_with_cache ct fuel c ops) (run_uncached ct fuel ops).
Proof.
  intros fuel. induction ops as [|o ops IH]; intros c Hc Hops; simpl; [constructor|].
  inversion Hops as [|? ? Ho Hops']; subst.
  destruct o as [k l r|]; [|apply IH; auto; apply cache_ok2_empty].
  assert (Ha : forall m, agree (sub ct (lookup c) fuel k l r) (sub ct no_cache m k l r))
    by (intros; apply sub_agree; apply cache_ok2_sound; auto).
  constructor; [apply Ha|]. apply IH; auto.
  destruct (sub ct (lookup c) fuel k l r) as [b|] eqn:E; auto.
  destruct (is_inst l && is_inst r) eqn:Ei; auto.
  simpl in Ho. destruct (Ho Ei) as [Fl [Fr [Kn Kk]]].
  assert (Hsem : if b then LE ct (k_nopromo k) l r else ~ LE ct (k_nopromo k) l r).
  { destruct b.
    - apply (sub_sound2 ct Hwf (lookup c) (lookup_semantic c Hc) fuel k l r Kn Kk Fl Fr E).
    - intros L. assert (T := sub_complete2 ct Hwf (lookup c) (lookup_semantic c Hc) _ l r L Fl Fr k eq_refl Kn Kk fuel _ E).
      discriminate. }
  destruct Hc as [Hp Hn]. unfold record. destruct b; split; simpl; auto;
    intros k' l' r' [He|Hin]; auto; inversion He; subst; repeat split; auto.
Qed.
End E2.
