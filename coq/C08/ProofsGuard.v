(* The guarded laws: corollaries of the F2 theorems, with every hypothesis folded into one decidable guard that is
   defined on the whole type language. *)
From Coq Require Import ZArith List Bool PArith.
From C08 Require Import Model Proofs ProofsKind ProofsTrans ProofsF2 ProofsF2Sound ProofsF2Comp ProofsF2Eq ProofsF2Trans
  ProofsF2Union ProofsF2Meet ProofsF2MeetComm.
Import ListNotations.

Lemma table_guard_parts : forall ct, table_guard ct = true -> wf_ct ct = true /\ wf_gen ct = true /\ wf_contr ct = true.
Proof. intros ct H. unfold table_guard in H. apply andb_prop in H. destruct H as [H C]. apply andb_prop in H. tauto. Qed.

Lemma type_guard_parts : forall ct x, type_guard ct x = true -> frag2 ct x = true /\ lits_ok ct x = true.
Proof. intros ct x H. unfold type_guard in H. apply andb_prop in H. exact H. Qed.

Lemma trans_guarded : forall ct a b c, trans_guard ct a b c = true ->
  forall k, k_notparams k = false -> kind_ok k = true ->
  forall n m, sub ct no_cache n k a b = Some true -> sub ct no_cache m k b c = Some true ->
  forall q y, sub ct no_cache q k a c = Some y -> y = true.
Proof.
  intros ct a b c G k Kn Kk n m H1 H2 q y H3. unfold trans_guard in G.
  apply andb_prop in G. destruct G as [G Gc]. apply andb_prop in G. destruct G as [G Gb].
  apply andb_prop in G. destruct G as [Gt Ga].
  destruct (table_guard_parts ct Gt) as [W1 [W2 W3]].
  destruct (type_guard_parts ct a Ga) as [Fa La]. destruct (type_guard_parts ct b Gb) as [Fb Lb].
  destruct (type_guard_parts ct c Gc) as [Fc Lc].
  exact (sub_trans_F2 ct W1 W2 W3 k a b c Kn Kk Fa Fb Fc La Lb Lc n m H1 H2 q y H3).
Qed.

(* the statement about the two public entry points is_subtype / is_proper_subtype(ignore_promotions) *)
Lemma trans_guarded_entry : forall ct a b c, trans_guard ct a b c = true ->
  (forall n m, is_subtype ct n a b = Some true -> is_subtype ct m b c = Some true ->
     forall q y, is_subtype ct q a c = Some y -> y = true) /\
  (forall n m, sub ct no_cache n K_proper_np a b = Some true -> sub ct no_cache m K_proper_np b c = Some true ->
     forall q y, sub ct no_cache q K_proper_np a c = Some y -> y = true).
Proof.
  intros ct a b c G. split; intros n m H1 H2 q y H3.
  - exact (trans_guarded ct a b c G K_sub eq_refl eq_refl n m H1 H2 q y H3).
  - exact (trans_guarded ct a b c G K_proper_np eq_refl eq_refl n m H1 H2 q y H3).
Qed.

Lemma meet_guard_parts : forall ct s t, meet_guard ct s t = true ->
  wf_ct ct = true /\ wf_gen ct = true /\ wf_contr ct = true /\ goodm ct s = true /\ goodm ct t = true.
Proof.
  intros ct s t H. unfold meet_guard in H. apply andb_prop in H. destruct H as [H Gt]. apply andb_prop in H. destruct H as [T Gs].
  destruct (table_guard_parts ct T) as [W1 [W2 W3]]. unfold type_guard in Gs, Gt. unfold goodm. rewrite Gs, Gt. tauto.
Qed.

Lemma goodm_guard : forall ct x, table_guard ct = true -> goodm ct x = true -> meet_guard ct x x = true.
Proof. intros ct x T G. unfold meet_guard, type_guard. unfold goodm in G. rewrite T, G. reflexivity. Qed.

Lemma meet_lower_guarded_l : forall ct s t, meet_guard ct s t = true ->
  forall n x, meet_types ct n s t = Some x ->
  meet_guard ct x x = true /\ forall m y, (is_subtype ct m x s = Some y -> y = true) /\ (is_subtype ct m x t = Some y -> y = true).
Proof.
  intros ct s t G n x H. destruct (meet_guard_parts ct s t G) as [W1 [W2 [W3 [Gs Gt]]]].
  destruct (meet_spec2 ct W1 W2 W3 n n s t x Gs Gt H) as [Gx [L1 [L2 _]]].
  destruct (goodm_parts ct _ Gx) as [Fx _]. destruct (goodm_parts ct _ Gs) as [Fs _]. destruct (goodm_parts ct _ Gt) as [Ft _].
  split.
  - apply goodm_guard; auto. unfold table_guard. rewrite W1, W2, W3. reflexivity.
  - intros m y. split.
    + exact (sub_complete2 ct W1 no_cache (Hlk0 ct) false x s L1 Fx Fs K_sub eq_refl eq_refl eq_refl m y).
    + exact (sub_complete2 ct W1 no_cache (Hlk0 ct) false x t L2 Fx Ft K_sub eq_refl eq_refl eq_refl m y).
Qed.

Lemma meet_comm_guarded_l : forall ct s t, meet_guard ct s t = true ->
  forall n x y, meet_types ct n s t = Some x -> meet_types ct n t s = Some y ->
  forall m b, (is_subtype ct m x y = Some b -> b = true) /\ (is_subtype ct m y x = Some b -> b = true).
Proof.
  intros ct s t G n x y H1 H2. destruct (meet_guard_parts ct s t G) as [W1 [W2 [W3 [Gs Gt]]]].
  destruct (meet_comm_F2 ct W1 W2 W3 n n s t x y Gs Gt H1 H2) as [Gx [Gy [L1 L2]]].
  destruct (goodm_parts ct _ Gx) as [Fx _]. destruct (goodm_parts ct _ Gy) as [Fy _].
  intros m b. split.
  - exact (sub_complete2 ct W1 no_cache (Hlk0 ct) false x y L1 Fx Fy K_sub eq_refl eq_refl eq_refl m b).
  - exact (sub_complete2 ct W1 no_cache (Hlk0 ct) false y x L2 Fy Fx K_sub eq_refl eq_refl eq_refl m b).
Qed.

(* the witness of subtype_trans_refuted is excluded by the guard: its literal belongs to family X2 (lits_ok = false) *)
Lemma trans_witness_outside_guard :
  trans_guard refute_ct r_a r_b r_c = false /\ lits_ok refute_ct r_c = false /\ table_guard refute_ct = true.
Proof. vm_compute. repeat split; reflexivity. Qed.
