(* The subtype-cache key contains every answer-affecting flag: finite table regenerated from mypy/subtypes.py
   (coq/gen/SubtypeKind.v, tools/extractors/t08.py), decided by vm_compute. *)
From Coq Require Import List String Bool.
From Gen Require Import SubtypeKind.
Import ListNotations.
Open Scope string_scope.

Definition smem (s : string) (l : list string) : bool := existsb (String.eqb s) l.
(* SubtypeContext.options is the one field that is not part of the key: it is the Options object of the build
   (read for extra_checks / strict_concatenate in callable compatibility), assumed constant while the caches live *)
Definition key_exempt : list string := ["options"].

Definition key_table_ok : bool :=
  forallb (fun f => smem f kind_key_fields || smem f key_exempt) context_fields
  && forallb (fun f => smem f context_fields) context_reads
  && smem "strict_optional" kind_key_fields && smem "proper_subtype" kind_key_fields.

Lemma key_table : key_table_ok = true.
Proof. vm_compute. reflexivity. Qed.

Lemma smem_In : forall s l, smem s l = true -> In s l.
Proof.
  intros s l H. unfold smem in H. apply existsb_exists in H. destruct H as [x [Hx E]].
  apply String.eqb_eq in E. subst. exact Hx.
Qed.

Lemma key_complete : forall f, In f context_reads -> f <> "options" -> In f kind_key_fields.
Proof.
  intros f Hf Hne. assert (T := key_table). unfold key_table_ok in T.
  apply andb_prop in T. destruct T as [T _]. apply andb_prop in T. destruct T as [T _].
  apply andb_prop in T. destruct T as [T TB].
  rewrite forallb_forall in TB. assert (Hc := smem_In _ _ (TB f Hf)).
  rewrite forallb_forall in T. specialize (T f Hc). apply orb_true_iff in T. destruct T as [T|T].
  - apply smem_In; auto.
  - apply smem_In in T. simpl in T. destruct T as [T|[]]. congruence.
Qed.
