(* meet_types on F2 outside families X2 (bad bool/enum literals) and X3 (classes with an invariant or contravariant
   parameter): the meet is a lower bound of both arguments *)
From Coq Require Import ZArith List Bool PArith Lia.
From C08 Require Import Model Proofs ProofsKind ProofsTrans ProofsTrans2 ProofsUnion ProofsMeet
  ProofsF2 ProofsF2Sound ProofsF2Comp ProofsF2Eq ProofsF2Trans ProofsF2Union.
Import ListNotations.

Section M2.
Variable ct : ctable.
Hypothesis Hwf : wf_ct ct = true.
Hypothesis Hgen : wf_gen ct = true.
Hypothesis Hcontr : wf_contr ct = true.
Variable m : nat.
Notation sq := (sub ct no_cache m).

Definition nn (x : ty) : bool := negb (is_never x).
Definition goodn (x : ty) : bool := good ct x || is_never x.

Lemma rr_pass_filter : forall f items new fbs, rr_pass f items new fbs = rr_pass f (filter nn items) new fbs.
Proof.
  intros f. induction items as [|a r IH]; intros new fbs; auto. simpl. unfold nn at 1.
  destruct (is_never a) eqn:E; simpl; [apply IH|]. rewrite E.
  match goal with |- match ?d with _ => _ end = _ => destruct d as [[|]|] end; auto.
Qed.

(* simplified union of a list that may contain Never *)
Lemma simpl_never_items : forall n items u, forallb goodn items = true ->
  simpl_union ct (sub ct no_cache n) items = Some u ->
  (filter nn items = [] /\ u = TNever) \/
  (filter nn items <> [] /\ forallb (good ct) (filter nn items) = true /\
   simpl_union ct (sub ct no_cache n) (filter nn items) = Some u /\
   frag2 ct u = true /\ lits_ok ct u = true /\
   (forall np, LE ct np u (TUnion (filter nn items))) /\ (forall np, LE ct np (TUnion (filter nn items)) u)).
Proof.
  intros n items u G H.
  assert (Gf : forallb (good ct) (filter nn items) = true).
  { apply forallb_forall. intros x Hx. apply filter_In in Hx. destruct Hx as [Hx Nx]. rewrite forallb_forall in G.
    specialize (G x Hx). unfold goodn in G. unfold nn in Nx. apply negb_true_iff in Nx. rewrite Nx, orb_false_r in G. auto. }
  assert (Hfl : flatten items = items).
  { clear - G. induction items as [|a l IH]; auto. simpl in G. apply andb_prop in G. destruct G as [G1 G2].
    unfold flatten in *. simpl. rewrite IH; auto. unfold goodn in G1. apply orb_true_iff in G1. destruct G1 as [G1|G1].
    - destruct (good_parts ct a G1) as [_ [A _]]. destruct a; simpl in *; auto; discriminate.
    - destruct a; simpl in *; auto; discriminate. }
  assert (Hrr : remove_redundant (sub ct no_cache n) items = remove_redundant (sub ct no_cache n) (filter nn items)).
  { unfold remove_redundant. rewrite rr_pass_filter. reflexivity. }
  destruct (filter nn items) as [|a [|b l]] eqn:Ef.
  - left. split; auto. unfold simpl_union in H. rewrite Hfl in H.
    assert (R : remove_redundant (sub ct no_cache n) items = Some []) by (rewrite Hrr; reflexivity).
    destruct items as [|x [|y l0]].
    + rewrite R in H. injection H as <-. reflexivity.
    + simpl in Ef. unfold nn in Ef. destruct (is_never x) eqn:E; [|discriminate]. injection H as <-. destruct x; try discriminate; auto.
    + rewrite R in H. injection H as <-. reflexivity.
  - right. split; [discriminate|]. split; auto.
    assert (Ga : good ct a = true) by (simpl in Gf; rewrite andb_true_r in Gf; auto).
    assert (Hu : u = a).
    { unfold simpl_union in H. rewrite Hfl in H.
      assert (R : remove_redundant (sub ct no_cache n) items = Some [a]).
      { rewrite Hrr. unfold remove_redundant. simpl. rewrite (good_never ct a Ga). simpl.
        destruct a; simpl; reflexivity. }
      destruct items as [|x [|y l0]]; [discriminate| |].
      - simpl in Ef. unfold nn in Ef. destruct (is_never x); [discriminate|]. injection Ef as ->. injection H as <-. auto.
      - rewrite R in H. unfold count_lit in H. simpl in H. destruct (is_lit a); simpl in H; injection H as <-; auto. }
    subst u. destruct (good_parts ct a Ga) as [Fa [Aa Na]].
    split; [unfold simpl_union; rewrite (flatten_good ct [a] Gf); reflexivity|]. repeat split; auto.
    + intros np. apply (LE_union_r ct np a [a] a); simpl; auto. apply LE_refl2; auto.
    + intros np. apply LE_union_l. intros z [<-|[]]. apply LE_refl2; auto.
  - right. split; [discriminate|]. split; auto.
    assert (H' : simpl_union ct (sub ct no_cache n) (a :: b :: l) = Some u).
    { unfold simpl_union in *. rewrite Hfl in H. rewrite (flatten_good ct (a :: b :: l) Gf).
      destruct items as [|x [|y l0]]; [discriminate| |].
      - simpl in Ef. destruct (nn x); discriminate.
      - rewrite Hrr in H. exact H. }
    destruct (simpl_union_le2 ct Hwf Hgen Hcontr n (a :: b :: l) u ltac:(discriminate) Gf H') as [A [B [C D]]].
    auto.
Qed.

Lemma covt_lit_inst : forall c v, frag2 ct (TLit c v) = true -> covt ct (TInst c []) = true.
Proof.
  intros c v F. simpl in F. apply andb_prop in F. destruct F as [_ F]. apply Nat.eqb_eq in F.
  simpl. unfold arity in F. destruct (c_var (cls_of ct c)); [reflexivity|discriminate].
Qed.

Lemma simpl_covt : forall n items u, items <> [] -> forallb (good ct) items = true -> forallb (covt ct) items = true ->
  simpl_union ct (sub ct no_cache n) items = Some u -> covt ct u = true.
Proof.
  intros n items u Hne G Cv H. unfold simpl_union in H. rewrite (flatten_good ct items G) in H.
  assert (Hg : forall rr, remove_redundant (sub ct no_cache n) items = Some rr -> u = make_union (post ct rr) -> covt ct u = true).
  { intros rr Hrr ->. destruct (remove_redundant_spec2 ct Hwf Hgen Hcontr n items rr G Hrr) as [Grr [Irr _]].
    assert (Hy : forall y, In y (post ct rr) -> covt ct y = true).
    { intros y Hy. destruct (post_in ct rr y Hy) as [Hi|[c' [v [-> [_ [_ Hv]]]]]].
      - rewrite forallb_forall in Cv. apply Cv. apply Irr; auto.
      - rewrite forallb_forall in G. destruct (good_parts ct _ (G _ (Irr _ Hv))) as [Fv _]. eapply covt_lit_inst; eauto. }
    destruct (post ct rr) as [|y [|z l']]; [reflexivity|apply Hy; left; auto|].
    unfold make_union. cbn [covt]. apply forallb_forall. exact Hy. }
  destruct items as [|x [|y l]]; [congruence| |].
  - injection H as <-. simpl in Cv. rewrite andb_true_r in Cv. auto.
  - destruct (remove_redundant _ _) as [rr|] eqn:E; [|discriminate]. injection H as Hu. apply (Hg rr); auto.
Qed.

(* ---------------------------------------------------------------- meet *)
Definition goodm (x : ty) : bool := frag2 ct x && lits_ok ct x && covt ct x.
Lemma goodm_parts : forall x, goodm x = true -> frag2 ct x = true /\ lits_ok ct x = true /\ covt ct x = true.
Proof. intros x H. unfold goodm in H. apply andb_prop in H. destruct H as [H H3]. apply andb_prop in H. tauto. Qed.

Definition meet_ok2 (s t x : ty) : Prop :=
  goodm x = true /\ LE ct false x s /\ LE ct false x t /\
  (is_union s = false -> is_union t = false -> is_union x = false).

Lemma meet_ok2_sym : forall s t x, meet_ok2 s t x -> meet_ok2 t s x.
Proof. intros s t x [A [B [C D]]]. repeat split; auto. Qed.

Lemma never_ok2 : forall s t, meet_ok2 s t TNever.
Proof. intros. repeat split; auto; apply LE_never. Qed.

Lemma LE_refl_f : forall x, frag2 ct x = true -> LE ct false x x.
Proof. intros. apply (LE_refl2 ct); auto. Qed.

Lemma dec2 : forall k l r, k_notparams k = false -> kind_ok k = true -> frag2 ct l = true -> frag2 ct r = true ->
  sq k l r = Some true -> LE ct false l r.
Proof.
  intros k l r Kn Kk Fl Fr H. assert (L := sub_sound2 ct Hwf no_cache (Hlk0 ct) m k l r Kn Kk Fl Fr H).
  destruct (k_nopromo k); auto. apply LE_np; auto.
Qed.

Section Visit.
Variable mf : ty -> ty -> option ty.
Hypothesis IH : forall a b y, goodm a = true -> goodm b = true -> mf a b = Some y -> meet_ok2 a b y.

Lemma goodm_items : forall ts x, goodm (TUnion ts) = true -> In x ts -> goodm x = true /\ is_atomish x = true.
Proof.
  intros ts x G Hx. destruct (goodm_parts _ G) as [F [N C]]. destruct (frag2_atomish ct ts x F Hx) as [A Fx].
  split; auto. unfold goodm. rewrite Fx. simpl in N, C. rewrite forallb_forall in N, C. rewrite (N x Hx), (C x Hx). auto.
Qed.

Lemma union_case2 : forall (pairs : list (ty * ty)) meets x s t,
  mapM (fun xy => mf (fst xy) (snd xy)) pairs = Some meets ->
  (forall a b, In (a, b) pairs -> goodm a = true /\ is_atomish a = true /\ goodm b = true /\ is_atomish b = true /\
      (forall y, goodm y = true -> LE ct false y a -> LE ct false y t) /\
      (forall y, goodm y = true -> LE ct false y b -> LE ct false y s)) ->
  goodm s = true -> goodm t = true ->
  simpl_union ct sq meets = Some x -> is_union t = true -> meet_ok2 s t x.
Proof.
  intros pairs meets x s t Hm Hp Gs Gt Hs Ut.
  assert (Hy : forall y, In y meets -> exists a b, In (a, b) pairs /\ meet_ok2 a b y).
  { intros y Hy. destruct (mapM_in _ _ _ _ _ Hm y Hy) as [[a b] [Hab Hf]]. simpl in Hf.
    destruct (Hp a b Hab) as [Ga [_ [Gb _]]]. exists a, b. split; auto. }
  assert (Hgn : forallb goodn meets = true).
  { apply forallb_forall. intros y Hin. destruct (Hy y Hin) as [a [b [Hab [Gy [_ [_ D]]]]]].
    destruct (Hp a b Hab) as [_ [Aa [_ [Ab _]]]].
    unfold is_atomish in Aa, Ab. apply andb_prop in Aa. destruct Aa as [Ua _]. apply andb_prop in Ab. destruct Ab as [Ub _].
    apply negb_true_iff in Ua. apply negb_true_iff in Ub. assert (Uy := D Ua Ub).
    destruct (goodm_parts y Gy) as [Fy [Ny _]]. unfold goodn, good, is_atomish. rewrite Fy, Ny, Uy. simpl.
    destruct (is_never y); auto. }
  destruct (goodm_parts s Gs) as [Fs [Ns Cs]]. destruct (goodm_parts t Gt) as [Ft [Nt Ct]].
  destruct (simpl_never_items m meets x Hgn Hs) as [[Ef ->]|[Hne [Gf [Hs' [Fx [Nx [L1 L2]]]]]]].
  - apply never_ok2.
  - assert (Cx : covt ct x = true).
    { apply (simpl_covt m (filter nn meets) x Hne Gf); auto.
      apply forallb_forall. intros y Hyf. apply filter_In in Hyf. destruct Hyf as [Hyin _].
      destruct (Hy y Hyin) as [a [b [_ [Gy _]]]]. destruct (goodm_parts y Gy) as [_ [_ C]]. auto. }
    assert (Gx : goodm x = true) by (unfold goodm; rewrite Fx, Nx, Cx; auto).
    destruct (union_good_frag ct _ Hne Gf) as [FU NU].
    assert (Hbelow : forall r, frag2 ct r = true -> lits_ok ct r = true ->
              (forall y, In y (filter nn meets) -> LE ct false y r) -> LE ct false x r).
    { intros r Fr Nr Hall. apply (LE_trans ct Hwf Hgen Hcontr false x (TUnion (filter nn meets)) r); auto.
      apply LE_union_l. exact Hall. }
    split; [exact Gx|]. split; [|split].
    + apply Hbelow; auto. intros y Hyf. apply filter_In in Hyf. destruct Hyf as [Hyin _].
      destruct (Hy y Hyin) as [a [b [Hab [Gy0 [La [Lb _]]]]]]. destruct (Hp a b Hab) as [_ [_ [_ [_ [_ Hb]]]]]. auto.
    + apply Hbelow; auto. intros y Hyf. apply filter_In in Hyf. destruct Hyf as [Hyin _].
      destruct (Hy y Hyin) as [a [b [Hab [Gy0 [La [Lb _]]]]]]. destruct (Hp a b Hab) as [_ [_ [_ [_ [Ha _]]]]]. auto.
    + intros _ U. rewrite Ut in U. discriminate.
Qed.

Lemma goodm_atom_union : forall y a items, goodm a = true -> is_atomish a = true -> In a items ->
  LE ct false y a -> is_atomish y = true \/ y = TNever -> LE ct false y (TUnion items).
Proof.
  intros y a items Ga Aa Hin L [Ay| ->]; [|apply LE_never]. apply (LE_union_r ct false y items a); auto.
Qed.

(* the arguments of a same-class meet *)
Lemma mapM_zip3_inv : forall (xs ys : list ty) (vs : list variance) zs,
  mapM (fun q : ty * ty * variance => mf (fst (fst q)) (snd (fst q))) (zip3 xs ys vs) = Some zs ->
  length zs = length (zip3 xs ys vs) /\
  forall z x v, In (z, x, v) (zip3 zs xs vs) -> exists y, In (x, y, v) (zip3 xs ys vs) /\ mf x y = Some z.
Proof.
  induction xs; intros ys vs zs H; [simpl in H; injection H as <-; split; auto; intros z x v []|].
  destruct ys as [|y ys]; [simpl in H; injection H as <-; split; auto; intros z x v []|].
  destruct vs as [|v0 vs]; [simpl in H; injection H as <-; split; auto; intros z x v []|].
  simpl in H. destruct (mf a y) as [z0|] eqn:E; [|discriminate].
  destruct (mapM _ (zip3 xs ys vs)) as [zs'|] eqn:E2; [|discriminate]. injection H as <-.
  destruct (IHxs ys vs zs' E2) as [L P]. split; [simpl; auto|].
  intros z x v [Hq|Hq]; [inversion Hq; subst; exists y; split; [left; auto|auto]|].
  destruct (P z x v Hq) as [y' [Hy' Hm]]. exists y'. split; [right; auto|auto].
Qed.
Lemma mapM_zip3_inv_r : forall (xs ys : list ty) (vs : list variance) zs,
  mapM (fun q : ty * ty * variance => mf (fst (fst q)) (snd (fst q))) (zip3 xs ys vs) = Some zs ->
  forall z y v, In (z, y, v) (zip3 zs ys vs) -> exists x, In (x, y, v) (zip3 xs ys vs) /\ mf x y = Some z.
Proof.
  induction xs; intros ys vs zs H; [simpl in H; injection H as <-; intros z y v []|].
  destruct ys as [|y0 ys]; [simpl in H; injection H as <-; intros z y v []|].
  destruct vs as [|v0 vs]; [simpl in H; injection H as <-; intros z y v []|].
  simpl in H. destruct (mf a y0) as [z0|] eqn:E; [|discriminate].
  destruct (mapM _ (zip3 xs ys vs)) as [zs'|] eqn:E2; [|discriminate]. injection H as <-.
  intros z y v [Hq|Hq]; [inversion Hq; subst; exists a; split; [left; auto|auto]|].
  destruct (IHxs ys vs zs' E2 z y v Hq) as [x' [Hx' Hm]]. exists x'. split; [right; auto|auto].
Qed.
Lemma zip3_length : forall (xs ys : list ty) (vs : list variance), length xs = length vs -> length ys = length vs ->
  length (zip3 xs ys vs) = length vs.
Proof.
  induction xs; destruct ys, vs; simpl; intros; try lia. f_equal. apply IHxs; lia.
Qed.

Lemma visit_spec2 : forall s t x, goodm s = true -> goodm t = true -> s <> TNever -> t <> TNever ->
  (is_union s = true -> is_union t = true) -> meet_visit ct m mf s t = Some x -> meet_ok2 s t x.
Proof.
  intros s t x Gs Gt Ns Nt Hu H.
  destruct (goodm_parts s Gs) as [Fs [Ls Cs]]. destruct (goodm_parts t Gt) as [Ft [Lt Ct]].
  destruct t as [| | |c xs|c v|titems|]; try (simpl in Ft; discriminate); try congruence.
  - (* t = None *)
    destruct s as [| | |d ys|d w|sitems|]; try (simpl in Fs; discriminate); try congruence; simpl in H.
    + injection H as <-. repeat split; auto; apply LE_none_none.
    + destruct (Pos.eqb d (k_object ct)) eqn:E; injection H as <-; [|apply never_ok2].
      apply Pos.eqb_eq in E. subst. repeat split; auto; [apply LE_none_obj|apply LE_none_none].
    + injection H as <-. apply never_ok2.
    + specialize (Hu eq_refl). discriminate.
  - (* t = Inst c xs *)
    destruct s as [| | |d ys|d w|sitems|]; try (simpl in Fs; discriminate); try congruence; simpl in H.
    + injection H as <-. apply never_ok2.
    + destruct (Pos.eqb c d) eqn:E.
      * apply Pos.eqb_eq in E. subst d.
        match type of H with match ?a with _ => _ end = _ => destruct a as [[|]|] end; try discriminate;
          [|injection H as <-; apply never_ok2].
        destruct (mapM _ _) as [zs|] eqn:Em; [|discriminate]. injection H as <-.
        destruct (frag2_inst ct _ _ Ft) as [Gc [Lx Fxs]]. destruct (frag2_inst ct _ _ Fs) as [_ [Ly Fys]].
        destruct (mapM_zip3_inv _ _ _ _ Em) as [Lz Pz]. assert (Pr := mapM_zip3_inv_r _ _ _ _ Em).
        assert (Lzz : length zs = arity ct c).
        { rewrite Lz. unfold arity in *. apply zip3_length; auto. }
        assert (Hcv : forallb is_cov (c_var (cls_of ct c)) = true) by (simpl in Ct; apply andb_prop in Ct; tauto).
        assert (Gargs : forall x0 y0 v0, In (x0, y0, v0) (zip3 xs ys (c_var (cls_of ct c))) -> goodm x0 = true /\ goodm y0 = true).
        { intros x0 y0 v0 Hin. assert (Hc := in_zip3_combine _ _ _ _ _ _ _ _ _ Hin).
          assert (Hx := in_combine_l _ _ _ _ Hc). assert (Hy := in_combine_r _ _ _ _ Hc).
          unfold goodm. rewrite (Fxs _ Hx), (Fys _ Hy). simpl in Lt, Ls, Ct, Cs.
          apply andb_prop in Ct. destruct Ct as [_ Ct]. apply andb_prop in Cs. destruct Cs as [_ Cs].
          rewrite forallb_forall in Lt, Ls, Ct, Cs. rewrite (Lt _ Hx), (Ls _ Hy), (Ct _ Hx), (Cs _ Hy). auto. }
        assert (Gz : forall z, In z zs -> goodm z = true).
        { intros z Hz. destruct (In_nth zs z TAny Hz) as [i [Hi <-]].
          assert (Hin : exists x0 v0, In (nth i zs TAny, x0, v0) (zip3 zs xs (c_var (cls_of ct c)))).
          { exists (nth i xs TAny). destruct (nth_error (c_var (cls_of ct c)) i) as [v0|] eqn:Ev.
            - exists v0. apply nth_zip3; auto. lia.
            - apply nth_error_None in Ev. unfold arity in Lzz. lia. }
          destruct Hin as [x0 [v0 Hin]]. destruct (Pz _ _ _ Hin) as [y0 [Hxy Hm]].
          destruct (Gargs _ _ _ Hxy) as [Gx0 Gy0]. destruct (IH _ _ _ Gx0 Gy0 Hm) as [G _]. exact G. }
        assert (Gres : goodm (TInst c zs) = true).
        { unfold goodm. simpl. rewrite Gc, Lzz, Nat.eqb_refl, Hcv. simpl.
          assert (A1 : forallb (frag2 ct) zs = true) by (apply forallb_forall; intros z Hz; destruct (goodm_parts z (Gz z Hz)); auto).
          assert (A2 : forallb (lits_ok ct) zs = true) by (apply forallb_forall; intros z Hz; destruct (goodm_parts z (Gz z Hz)) as [_ [A _]]; auto).
          assert (A3 : forallb (covt ct) zs = true) by (apply forallb_forall; intros z Hz; destruct (goodm_parts z (Gz z Hz)) as [_ [_ A]]; auto).
          rewrite A1, A2, A3. reflexivity. }
        assert (Hb : has_base ct c c = true \/ c = k_object ct) by (left; unfold has_base; rewrite Pos.eqb_refl; auto).
        assert (Hm : forall l0, map_to_super ct c l0 c = l0) by (intros; unfold map_to_super; rewrite Pos.eqb_refl; auto).
        split; [exact Gres|]. split; [|split; [|auto]].
        -- (* below s = Inst c ys *)
           apply LE_inst_nom; auto. rewrite Hm. intros [[z y0] v0] Hin.
           assert (Vc : v0 = Cov).
           { assert (Hv := in_zip3_third _ _ _ _ _ _ _ _ _ Hin). rewrite forallb_forall in Hcv. specialize (Hcv _ Hv).
             destruct v0; simpl in Hcv; try discriminate; auto. }
           subst v0. simpl. destruct (Pr _ _ _ Hin) as [x0 [Hxy Hmf]]. destruct (Gargs _ _ _ Hxy) as [Gx0 Gy0].
           destruct (IH _ _ _ Gx0 Gy0 Hmf) as [_ [_ [L _]]]. exact L.
        -- apply LE_inst_nom; auto. rewrite Hm. intros [[z x0] v0] Hin.
           assert (Vc : v0 = Cov).
           { assert (Hv := in_zip3_third _ _ _ _ _ _ _ _ _ Hin). rewrite forallb_forall in Hcv. specialize (Hcv _ Hv).
             destruct v0; simpl in Hcv; try discriminate; auto. }
           subst v0. simpl. destruct (Pz _ _ _ Hin) as [y0 [Hxy Hmf]]. destruct (Gargs _ _ _ Hxy) as [Gx0 Gy0].
           destruct (IH _ _ _ Gx0 Gy0 Hmf) as [_ [L _]]. exact L.
      * destruct (sq K_sub (TInst c xs) (TInst d ys)) as [[|]|] eqn:E1; try discriminate.
        -- injection H as <-. split; [exact Gt|]. split; [|split; auto].
           ++ apply (dec2 K_sub); auto.
           ++ apply LE_refl_f; auto.
        -- destruct (sq K_sub (TInst d ys) (TInst c xs)) as [[|]|] eqn:E2; try discriminate; injection H as <-.
           ++ split; [exact Gs|]. split; [|split; auto]; [apply LE_refl_f; auto|apply (dec2 K_sub); auto].
           ++ apply never_ok2.
    + apply meet_ok2_sym. apply IH; auto.
    + specialize (Hu eq_refl). discriminate.
  - (* t = Lit c v *)
    destruct s as [| | |d ys|d w|sitems|]; try (simpl in Fs; discriminate); try congruence; simpl in H.
    + injection H as <-. apply never_ok2.
    + destruct (sq K_sub (TInst c []) (TInst d ys)) as [[|]|] eqn:E1; try discriminate; injection H as <-; [|apply never_ok2].
      split; [exact Gt|]. split; [|split; auto].
      * apply LE_lit_inst. apply (dec2 K_sub); auto. eapply lit_inst_frag; eauto.
      * apply LE_refl_f; auto.
    + destruct (Pos.eqb d c && Z.eqb w v) eqn:E; injection H as <-; [|apply never_ok2].
      apply andb_prop in E. destruct E as [E1 E2]. apply Pos.eqb_eq in E1. apply Z.eqb_eq in E2. subst.
      split; [exact Gt|]. split; [|split; auto]; apply LE_lit_lit.
    + specialize (Hu eq_refl). discriminate.
  - (* t = Union titems *)
    simpl in H.
    assert (Hti : forall a, In a titems -> goodm a = true /\ is_atomish a = true)
      by (intros a0 Ha0; apply (goodm_items titems a0 Gt Ha0)).
    (* anything good below an item of a union is below the union *)
    assert (Hup : forall items a y, goodm (TUnion items) = true -> In a items -> goodm y = true ->
              LE ct false y a -> LE ct false y (TUnion items)).
    { intros items a y Gu Ha Gy L. destruct (goodm_items items a Gu Ha) as [Ga Aa].
      destruct (goodm_parts _ Gu) as [Fu [Nu _]]. destruct (goodm_parts a Ga) as [Fa [Na _]]. destruct (goodm_parts y Gy) as [Fy [Ny _]].
      apply (LE_trans ct Hwf Hgen Hcontr false y a (TUnion items)); auto.
      apply (LE_union_r ct false a items a); auto. apply LE_refl_f; auto. }
    destruct (is_union s) eqn:Us.
    + destruct s as [| | | | |sitems|]; try discriminate.
      assert (Hsi : forall b, In b sitems -> goodm b = true /\ is_atomish b = true)
        by (intros b0 Hb0; apply (goodm_items sitems b0 Gs Hb0)).
      destruct (mapM _ _) as [meets|] eqn:Em; [|discriminate].
      apply (union_case2 _ meets x (TUnion sitems) (TUnion titems) Em); auto.
      intros a b Hab. apply in_pairs in Hab. destruct Hab as [Ha Hb].
      destruct (Hti a Ha) as [Ga Aa]. destruct (Hsi b Hb) as [Gb Ab]. repeat split; auto.
      * intros y Gy L. apply (Hup titems a y); auto.
      * intros y Gy L. apply (Hup sitems b y); auto.
    + assert (As : is_atomish s = true).
      { unfold is_atomish. rewrite Us. simpl. destruct s; simpl; auto; congruence. }
      assert (Em' : forall meets, mapM (fun x0 => mf x0 s) titems = Some meets ->
                 mapM (fun xy : ty * ty => mf (fst xy) (snd xy)) (map (fun x0 => (x0, s)) titems) = Some meets).
      { clear. induction titems as [|a l IHl]; simpl; intros meets Hm; auto.
        destruct (mf a s); [|discriminate]. destruct (mapM _ l) as [r|]; [|discriminate].
        rewrite (IHl r eq_refl). exact Hm. }
      assert (Hmap : exists meets, mapM (fun x0 => mf x0 s) titems = Some meets /\ simpl_union ct sq meets = Some x).
      { destruct s; try discriminate; simpl in H; destruct (mapM _ titems) as [meets|]; try discriminate; exists meets; auto. }
      destruct Hmap as [meets [Em Hs]].
      apply (union_case2 _ meets x s (TUnion titems) (Em' meets Em)); auto.
      intros a b Hab. apply in_map_iff in Hab. destruct Hab as [a0 [E Ha0]]. inversion E; subst.
      destruct (Hti a Ha0) as [Ga Aa]. repeat split; auto.
      intros y Gy L. apply (Hup titems a y); auto.
Qed.
End Visit.

Theorem meet_spec2 : forall n s t x, goodm s = true -> goodm t = true ->
  meet ct no_cache m n s t = Some x -> meet_ok2 s t x.
Proof.
  induction n; intros s0 t0 x Gs Gt H; [discriminate|].
  destruct (goodm_parts s0 Gs) as [Fs [Ls Cs]]. destruct (goodm_parts t0 Gt) as [Ft [Lt Ct]].
  rewrite meet_unfold in H.
  destruct (sq K_proper_np s0 t0) as [[|]|] eqn:E1; try discriminate.
  { injection H as <-. split; [exact Gs|]. split; [|split; auto]; [apply LE_refl_f; auto|apply (dec2 K_proper_np); auto]. }
  destruct (sq K_proper_np t0 s0) as [[|]|] eqn:E2; try discriminate.
  { injection H as <-. split; [exact Gt|]. split; [|split; auto]; [apply (dec2 K_proper_np); auto|apply LE_refl_f; auto]. }
  assert (Hs_nv : s0 <> TNever).
  { intros ->. assert (T := never2 ct no_cache K_proper_np t0 m Ft _ E1). discriminate. }
  assert (Ht_nv : t0 <> TNever).
  { intros ->. assert (T := never2 ct no_cache K_proper_np s0 m Fs _ E2). discriminate. }
  rewrite (frag2_not_any ct s0 Fs) in H. cbv zeta in H. unfold swap_if in H.
  destruct (is_union s0) eqn:U1; destruct (is_union t0) eqn:U2; cbn [andb negb fst snd] in H.
  - apply (visit_spec2 _ IHn); auto.
  - apply meet_ok2_sym. apply (visit_spec2 _ IHn); auto; intros; congruence.
  - apply (visit_spec2 _ IHn); auto; intros; congruence.
  - apply (visit_spec2 _ IHn); auto; intros; congruence.
Qed.
End M2.
