(* make_simplified_union on F2 atoms (generic instances, bool/enum literals with contraction, the literal-fallback
   shortcut): the result is equivalent to the plain union, whatever the item order *)
From Coq Require Import ZArith List Bool PArith Lia Sorting.Permutation.
From C08 Require Import Model Proofs ProofsKind ProofsTrans ProofsTrans2 ProofsF2 ProofsF2Sound ProofsF2Comp ProofsF2Eq ProofsF2Trans.
Import ListNotations.

Section U2.
Variable ct : ctable.
Hypothesis Hwf : wf_ct ct = true.
Hypothesis Hgen : wf_gen ct = true.
Hypothesis Hcontr : wf_contr ct = true.

(* atoms of F2 outside family X2 *)
Definition good (x : ty) : bool := frag2 ct x && is_atomish x && lits_ok ct x.

Lemma good_parts : forall x, good x = true -> frag2 ct x = true /\ is_atomish x = true /\ lits_ok ct x = true.
Proof. intros x H. unfold good in H. apply andb_prop in H. destruct H as [H H3]. apply andb_prop in H. tauto. Qed.

Lemma LE_refl2 : forall np x, frag2 ct x = true -> LE ct np x x.
Proof. intros np x F. destruct (eq_le2 ct np x x F F (ty_eqb_refl x)); auto. Qed.

Definition cov2 (x : ty) (ys : list ty) : Prop := exists y, In y ys /\ LE ct true x y.

Lemma good_never : forall x, good x = true -> is_never x = false.
Proof. intros x H. destruct (good_parts x H) as [_ [A _]]. unfold is_atomish in A. apply andb_prop in A. destruct A as [_ A]. apply negb_true_iff; auto. Qed.

Lemma rr_pass_spec2 : forall n items new fbs out,
  forallb good items = true -> forallb good new = true ->
  rr_pass (sub ct no_cache n) items new fbs = Some out ->
  forallb good out = true /\ incl new out /\ (forall x, In x out -> In x new \/ In x items) /\
  (forall x, In x items -> cov2 x out).
Proof.
  intros n. induction items as [|ti rest IH]; intros new fbs out Hi Hnew H; simpl in H.
  - inversion H; subst. repeat split; auto using incl_refl. intros x [].
  - simpl in Hi. apply andb_prop in Hi. destruct Hi as [Hti Hrest].
    rewrite (good_never ti Hti) in H.
    destruct (good_parts ti Hti) as [Fti [Ati Nti]].
    assert (Hdup : rr_pass (sub ct no_cache n) rest new fbs = Some out -> cov2 ti new ->
              forallb good out = true /\ incl new out /\
              (forall x, In x out -> In x new \/ In x (ti :: rest)) /\
              (forall x, In x (ti :: rest) -> cov2 x out)).
    { intros H' [y [Hy Ly]]. destruct (IH _ _ _ Hrest Hnew H') as [A [B [C D]]]. repeat split; auto.
      - intros x Hx. destruct (C x Hx); auto. right; right; auto.
      - intros x [<-|Hx]; [exists y; auto|auto]. }
    assert (Hkeep : forall fbs', rr_pass (sub ct no_cache n) rest (new ++ [ti]) fbs' = Some out ->
              forallb good out = true /\ incl new out /\
              (forall x, In x out -> In x new \/ In x (ti :: rest)) /\
              (forall x, In x (ti :: rest) -> cov2 x out)).
    { intros fbs' H'.
      assert (Hn' : forallb good (new ++ [ti]) = true) by (rewrite forallb_app, Hnew; simpl; rewrite Hti; auto).
      destruct (IH _ _ _ Hrest Hn' H') as [A [B [C D]]]. repeat split; auto.
      - intros x Hx. apply B. apply in_or_app; auto.
      - intros x Hx. destruct (C x Hx) as [Hc|Hc]; [|right; right; auto].
        apply in_app_or in Hc. destruct Hc as [Hc|[<-|[]]]; auto. right; left; auto.
      - intros x [<-|Hx]; [|auto]. exists ti. split; [apply B; apply in_or_app; right; left; auto|apply LE_refl2; auto]. }
    assert (Hany : forall b, anyM (fun tj : ty => sub ct no_cache n K_proper_np ti tj) new = Some b ->
              (if b then rr_pass (sub ct no_cache n) rest new fbs
               else rr_pass (sub ct no_cache n) rest (new ++ [ti]) (match ti with TLit c _ => c :: fbs | _ => fbs end)) = Some out ->
              forallb good out = true /\ incl new out /\
              (forall x, In x out -> In x new \/ In x (ti :: rest)) /\
              (forall x, In x (ti :: rest) -> cov2 x out)).
    { intros [|] Hb H'; [|eapply Hkeep; eauto].
      apply Hdup; auto. apply anyM_true_inv in Hb. destruct Hb as [tj [Htj Hs]].
      rewrite forallb_forall in Hnew. destruct (good_parts tj (Hnew tj Htj)) as [Ftj _].
      exists tj. split; auto.
      exact (sub_sound2 ct Hwf no_cache (Hlk0 ct) n K_proper_np ti tj eq_refl eq_refl Fti Ftj Hs). }
    destruct (mem_ty ti new) eqn:M.
    + apply Hdup; auto. unfold mem_ty in M. apply existsb_exists in M. destruct M as [y [Hy E]].
      rewrite forallb_forall in Hnew. destruct (good_parts y (Hnew y Hy)) as [Fy _].
      exists y. split; auto. destruct (eq_le2 ct true ti y Fti Fy E); auto.
    + destruct ti as [| | |ci ai|cl vl|us|us]; try (destruct (anyM _ new) as [b|] eqn:EA; [|discriminate]; apply (Hany b eq_refl); destruct b; exact H).
      destruct (mem_cid cl fbs).
      * eapply Hkeep; eauto.
      * destruct (anyM _ new) as [b|] eqn:EA; [|discriminate]. apply (Hany b eq_refl); destruct b; exact H.
Qed.

Lemma cov2_trans : forall x ys zs, good x = true -> forallb good ys = true -> forallb good zs = true ->
  cov2 x ys -> (forall y, In y ys -> cov2 y zs) -> cov2 x zs.
Proof.
  intros x ys zs Gx Gy Gz [y [Hy Lxy]] H. destruct (H y Hy) as [z [Hz Lyz]]. exists z. split; auto.
  rewrite forallb_forall in Gy, Gz.
  destruct (good_parts x Gx) as [Fx [_ Nx]]. destruct (good_parts y (Gy y Hy)) as [Fy [_ Ny]].
  destruct (good_parts z (Gz z Hz)) as [Fz [_ Nz]].
  apply (LE_trans ct Hwf Hgen Hcontr true x y z); auto.
Qed.

Lemma remove_redundant_spec2 : forall n items out,
  forallb good items = true -> remove_redundant (sub ct no_cache n) items = Some out ->
  forallb good out = true /\ incl out items /\ (forall x, In x items -> cov2 x out).
Proof.
  intros n items out Hi H. unfold remove_redundant in H.
  destruct (rr_pass (sub ct no_cache n) items [] []) as [p1|] eqn:E1; [|discriminate].
  destruct (rr_pass_spec2 n items [] [] p1 Hi eq_refl E1) as [A1 [_ [C1 D1]]].
  assert (I1 : incl p1 items) by (intros x Hx; destruct (C1 x Hx) as [[]|]; auto).
  destruct (short p1); [inversion H; subst; auto|].
  destruct (rr_pass (sub ct no_cache n) (rev p1) [] []) as [p2|] eqn:E2; [|discriminate].
  assert (Hr : forallb good (rev p1) = true).
  { rewrite forallb_forall in *. intros x Hx. apply A1. apply in_rev; auto. }
  destruct (rr_pass_spec2 n (rev p1) [] [] p2 Hr eq_refl E2) as [A2 [_ [C2 D2]]].
  assert (I2 : incl p2 items).
  { intros x Hx. destruct (C2 x Hx) as [[]|Hc]. apply I1. apply in_rev; auto. }
  assert (V2 : forall x, In x items -> cov2 x p2).
  { intros x Hx. apply (cov2_trans x p1 p2); auto.
    - rewrite forallb_forall in Hi; auto.
    - intros y Hy. apply D2. apply in_rev. rewrite rev_involutive. auto. }
  destruct (short p2); inversion H; subst; auto.
  repeat split.
  - rewrite forallb_forall in *. intros x Hx. apply A2. apply in_rev; auto.
  - intros x Hx. apply I2. apply in_rev; auto.
  - intros x Hx. destruct (V2 x Hx) as [y [Hy Hxy]]. exists y. split; auto. apply in_rev in Hy; auto.
Qed.

Lemma contract_go_keep : forall all items done y, In y items ->
  In y (contract_go ct all items done) \/
  exists c v, y = TLit c v /\ contractible ct c = true /\ complete ct all c = true.
Proof.
  induction items as [|a r IH]; intros done y Hy; [destruct Hy|].
  simpl. destruct Hy as [->|Hy].
  - destruct y; try (left; left; reflexivity).
    destruct (contractible ct c && complete ct all c) eqn:E; [|left; left; reflexivity].
    apply andb_prop in E. destruct E. right. exists c, v. auto.
  - destruct a; try (destruct (IH done y Hy) as [H|H]; [left; right; auto|right; auto]; fail).
    destruct (contractible ct c && complete ct all c).
    + destruct (mem_cid c done); [apply IH; auto|].
      destruct (IH (c :: done) y Hy) as [H|H]; [left; right; auto|right; auto].
    + destruct (IH done y Hy) as [H|H]; [left; right; auto|right; auto].
Qed.

Lemma flatten_good : forall l, forallb good l = true -> flatten l = l.
Proof.
  induction l as [|a l IH]; simpl; intros H; auto. apply andb_prop in H. destruct H as [H1 H2].
  unfold flatten in *. simpl. rewrite IH; auto.
  destruct (good_parts a H1) as [_ [A _]]. unfold is_atomish in A. destruct a; simpl in *; auto; discriminate.
Qed.

Lemma complete_incl : forall l l' c, incl l l' -> complete ct l c = true -> complete ct l' c = true.
Proof.
  intros l l' c Hi C. apply in_complete. intros m0 Hm. apply Hi. apply (complete_in ct l c m0 C Hm).
Qed.

(* the possibly contracted list *)
Definition post (rr : list ty) : list ty := if Nat.ltb 1 (count_lit rr) then contract ct rr else rr.

Lemma post_in : forall rr y, In y (post rr) ->
  In y rr \/ exists c' v, y = TInst c' [] /\ contractible ct c' = true /\ complete ct rr c' = true /\ In (TLit c' v) rr.
Proof.
  intros rr y H. unfold post in H. destruct (Nat.ltb 1 (count_lit rr)); auto.
  unfold contract in H. destruct (contract_go_in ct rr rr [] y H) as [Hi|[c' [-> [C1 [C2 [v Hv]]]]]]; auto.
  right. exists c', v. auto.
Qed.

Lemma post_cov : forall rr x, forallb good rr = true -> In x rr -> cov2 x (post rr).
Proof.
  intros rr x G Hx. rewrite forallb_forall in G. destruct (good_parts x (G x Hx)) as [Fx _].
  unfold post. destruct (Nat.ltb 1 (count_lit rr)); [|exists x; split; auto; apply LE_refl2; auto].
  unfold contract. destruct (contract_go_keep rr rr [] x Hx) as [H|[c [v [-> [C1 C2]]]]].
  - exists x. split; auto. apply LE_refl2; auto.
  - exists (TInst c []). split.
    + destruct (contract_go_has ct rr rr [] c v C1 C2 Hx) as [H|H]; [auto|discriminate].
    + apply LE_lit_inst. apply LE_refl2. eapply lit_inst_frag; eauto.
Qed.

Lemma post_good : forall rr, forallb good rr = true -> forallb good (post rr) = true.
Proof.
  intros rr G. apply forallb_forall. intros y Hy. destruct (post_in rr y Hy) as [Hi|[c' [v [-> [C1 [C2 Hv]]]]]].
  - rewrite forallb_forall in G; auto.
  - rewrite forallb_forall in G. destruct (good_parts _ (G _ Hv)) as [Fv _].
    unfold good. rewrite (lit_inst_frag ct c' v Fv). reflexivity.
Qed.

Lemma union_good_frag : forall l, l <> [] -> forallb good l = true -> frag2 ct (TUnion l) = true /\ lits_ok ct (TUnion l) = true.
Proof.
  intros l Hne G. split.
  - simpl. destruct l; [congruence|]. apply forallb_forall. intros x Hx. rewrite forallb_forall in G.
    destruct (good_parts x (G x Hx)) as [F [A _]]. unfold is_atomish in A. apply andb_prop in A. destruct A as [A1 A2].
    rewrite A1, A2, F. reflexivity.
  - simpl. apply forallb_forall. intros x Hx. rewrite forallb_forall in G. destruct (good_parts x (G x Hx)) as [_ [_ N]]. auto.
Qed.

(* make_union of good atoms is below r when every atom is *)
Lemma make_union_le_l : forall np l r, (forall y, In y l -> LE ct np y r) -> LE ct np (make_union l) r.
Proof.
  intros np l r H. destruct l as [|y [|z l']]; simpl.
  - apply LE_never.
  - apply H; left; auto.
  - apply LE_union_l. exact H.
Qed.
Lemma make_union_le_r : forall np x l y, is_atomish x = true -> In y l -> LE ct np x y -> LE ct np x (make_union l).
Proof.
  intros np x l y A Hy L. destruct l as [|y0 [|z l']]; simpl.
  - destruct Hy.
  - destruct Hy as [<-|[]]; auto.
  - apply (LE_union_r ct np x _ y); auto.
Qed.

Theorem simpl_union_le2 : forall n items u, items <> [] -> forallb good items = true ->
  simpl_union ct (sub ct no_cache n) items = Some u ->
  frag2 ct u = true /\ lits_ok ct u = true /\
  (forall np, LE ct np u (TUnion items)) /\ (forall np, LE ct np (TUnion items) u).
Proof.
  intros n items u Hne G H. unfold simpl_union in H. rewrite (flatten_good items G) in H.
  destruct (union_good_frag items Hne G) as [FU NU].
  assert (Gi : forall x, In x items -> frag2 ct x = true /\ is_atomish x = true /\ lits_ok ct x = true)
    by (intros x Hx; rewrite forallb_forall in G; apply good_parts; auto).
  assert (Hgen2 : forall rr, remove_redundant (sub ct no_cache n) items = Some rr -> u = make_union (post rr) ->
            frag2 ct u = true /\ lits_ok ct u = true /\
            (forall np, LE ct np u (TUnion items)) /\ (forall np, LE ct np (TUnion items) u)).
  { intros rr Hrr ->. destruct (remove_redundant_spec2 n items rr G Hrr) as [Grr [Irr Crr]].
    assert (Gp := post_good rr Grr).
    assert (Hcov : forall x, In x items -> cov2 x (post rr)).
    { intros x Hx. apply (cov2_trans x rr (post rr)); auto.
      - rewrite forallb_forall in G; auto.
      - intros y Hy. apply post_cov; auto. }
    assert (Pne : post rr <> []).
    { destruct items as [|x0 l0]; [congruence|]. destruct (Hcov x0 (or_introl eq_refl)) as [y [Hy _]].
      intros E. rewrite E in Hy. destruct Hy. }
    assert (Fu : frag2 ct (make_union (post rr)) = true /\ lits_ok ct (make_union (post rr)) = true).
    { destruct (post rr) as [|y [|z l']] eqn:Ep; [congruence| |].
      - simpl. simpl in Gp. rewrite andb_true_r in Gp. destruct (good_parts y Gp) as [F [_ N]]. auto.
      - rewrite <- Ep in *. simpl make_union. rewrite Ep. simpl make_union. rewrite <- Ep. apply union_good_frag; auto. }
    destruct Fu as [Fu Nu]. repeat split; auto.
    - intros np. apply make_union_le_l. intros y Hy.
      destruct (post_in rr y Hy) as [Hi|[c' [v [-> [C1 [C2 Hv]]]]]].
      + destruct (Gi y (Irr y Hi)) as [Fy [Ay _]]. apply (LE_union_r ct np y items y); auto. apply LE_refl2; auto.
      + destruct (Gi _ (Irr _ Hv)) as [Fv _].
        apply (LE_contract ct np c' [] items c' v); auto.
        * apply (complete_incl rr items c' Irr C2).
        * apply LE_refl2. eapply lit_inst_frag; eauto.
    - intros np. apply LE_union_l. intros x Hx. destruct (Hcov x Hx) as [y [Hy L]].
      destruct (Gi x Hx) as [_ [Ax _]]. apply (make_union_le_r np x (post rr) y); auto. apply LE_np; auto. }
  destruct items as [|x [|y l]]; [congruence| |].
  - injection H as <-. destruct (Gi x (or_introl eq_refl)) as [Fx [Ax Nx]]. repeat split; auto.
    + intros np. apply (LE_union_r ct np x [x] x); simpl; auto. apply LE_refl2; auto.
    + intros np. apply LE_union_l. intros z [<-|[]]. apply LE_refl2; auto.
  - destruct (remove_redundant (sub ct no_cache n) (x :: y :: l)) as [rr|] eqn:E; [|discriminate].
    injection H as Hu. apply (Hgen2 rr); auto.
Qed.

Theorem simplified_union_equiv_F2_thm : forall n n' items items' u u',
  items <> [] -> forallb good items = true -> Permutation items items' ->
  simplified_union ct no_cache n items = Some u -> simplified_union ct no_cache n' items' = Some u' ->
  frag2 ct u = true /\
  forall k, k_notparams k = false -> kind_ok k = true -> forall m,
    trueish (sub ct no_cache m k u (TUnion items)) /\ trueish (sub ct no_cache m k (TUnion items) u) /\
    trueish (sub ct no_cache m k u u') /\ trueish (sub ct no_cache m k u' u).
Proof.
  intros n n' items items' u u' Hne G Hp H H'.
  assert (Hne' : items' <> []).
  { intros ->. apply Permutation_sym in Hp. apply Permutation_nil in Hp. contradiction. }
  assert (G' : forallb good items' = true).
  { rewrite forallb_forall in *. intros x Hx. apply G. eapply Permutation_in; [apply Permutation_sym; eauto|auto]. }
  destruct (simpl_union_le2 n items u Hne G H) as [Fu [Nu [L1 L2]]].
  destruct (simpl_union_le2 n' items' u' Hne' G' H') as [Fu' [Nu' [L1' L2']]].
  destruct (union_good_frag items Hne G) as [FU NU]. destruct (union_good_frag items' Hne' G') as [FU' NU'].
  assert (Hinc : forall np l l', forallb good l = true -> incl l l' -> LE ct np (TUnion l) (TUnion l')).
  { intros np l l' Gl Hi. apply LE_union_l. intros x Hx. rewrite forallb_forall in Gl.
    destruct (good_parts x (Gl x Hx)) as [Fx [Ax _]]. apply (LE_union_r ct np x l' x); auto. apply LE_refl2; auto. }
  assert (I : incl items items') by (intros x Hx; eapply Permutation_in; eauto).
  assert (I' : incl items' items) by (intros x Hx; eapply Permutation_in; [apply Permutation_sym; eauto|auto]).
  split; auto. intros k Kn Kk m.
  assert (T := LE_trans ct Hwf Hgen Hcontr (k_nopromo k)).
  assert (C := fun l r L Fl Fr => sub_complete2 ct Hwf no_cache (Hlk0 ct) (k_nopromo k) l r L Fl Fr k eq_refl Kn Kk m).
  repeat split; apply C; auto.
  - apply (T u (TUnion items) u'); auto. apply (T (TUnion items) (TUnion items') u'); auto.
  - apply (T u' (TUnion items') u); auto. apply (T (TUnion items') (TUnion items) u); auto.
Qed.
End U2.
