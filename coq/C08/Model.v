(* C08 model: the shared type language (coq/Types) plus the TypeState subtype caches as a state
   machine and the well-formedness predicate on class tables.  Executable definitions only. *)
From Coq Require Import ZArith List Bool PArith.
From Types Require Export Ty Subtype Join.
Import ListNotations.

(* ---------------------------------------------------------------- TypeState subtype caches
   _subtype_caches / _negative_subtype_caches: info -> kind -> set of (left, right).
   The `info` level is determined by `right`, so a flat association list is equivalent.
   Lookups compare with Instance.__eq__ (ty_eqb) and the kind tuple. *)
Definition centry := (kind * ty * ty)%type.
Record cache := { c_pos : list centry; c_neg : list centry }.
Definition empty_cache : cache := {| c_pos := []; c_neg := [] |}.

Definition entry_eqb (k : kind) (l r : ty) (e : centry) : bool :=
  let '(k', l', r') := e in kind_eqb k k' && ty_eqb l l' && ty_eqb r r'.
Definition in_cache (k : kind) (l r : ty) (es : list centry) : bool := existsb (entry_eqb k l r) es.

(* is_cached_subtype_check first, then is_cached_negative_subtype_check (visit_instance) *)
Definition lookup (c : cache) (k : kind) (l r : ty) : option bool :=
  if in_cache k l r (c_pos c) then Some true
  else if in_cache k l r (c_neg c) then Some false
  else None.

(* record_subtype_cache_entry / record_negative_subtype_cache_entry *)
Definition record (c : cache) (k : kind) (l r : ty) (b : bool) : cache :=
  if b then {| c_pos := (k, l, r) :: c_pos c; c_neg := c_neg c |}
  else {| c_pos := c_pos c; c_neg := (k, l, r) :: c_neg c |}.

Inductive op :=
| Query (k : kind) (l r : ty)
| Reset.                                  (* reset_all_subtype_caches *)

Definition is_inst (t : ty) : bool := match t with TInst _ _ => true | _ => false end.

Section Run.
Variable ct : ctable.
Variable fuel : nat.

Fixpoint run_with_cache (c : cache) (ops : list op) : list ob :=
  match ops with
  | [] => []
  | Reset :: r => run_with_cache empty_cache r
  | Query k l rr :: r =>
      let a := sub ct (lookup c) fuel k l rr in
      let c' := match a with
                | Some b => if is_inst l && is_inst rr then record c k l rr b else c
                | None => c
                end in
      a :: run_with_cache c' r
  end.

Fixpoint run_uncached (ops : list op) : list ob :=
  match ops with
  | [] => []
  | Reset :: r => run_uncached r
  | Query k l rr :: r => sub ct no_cache fuel k l rr :: run_uncached r
  end.
End Run.

(* ---------------------------------------------------------------- top-level entry points *)
Definition is_subtype (ct : ctable) (n : nat) (l r : ty) : ob := sub ct no_cache n K_sub l r.
Definition is_proper_subtype (ct : ctable) (n : nat) (l r : ty) : ob := sub ct no_cache n K_proper l r.
Definition is_same_type (ct : ctable) (n : nat) (a b : ty) : ob := same_type ct no_cache n a b.
Definition make_simplified_union (ct : ctable) (n : nat) (items : list ty) : option ty :=
  simplified_union ct no_cache n items.
Definition join_types (ct : ctable) (n : nat) (s t : ty) : option ty := join ct no_cache n n s t.
Definition meet_types (ct : ctable) (n : nat) (s t : ty) : option ty := meet ct no_cache n n s t.

(* with a given cache content *)
Definition is_subtype_c (ct : ctable) (c : cache) (n : nat) (k : kind) (l r : ty) : ob :=
  sub ct (lookup c) n k l r.

(* ---------------------------------------------------------------- well-formed class tables *)
Definition cids_of (ct : ctable) : list cid := map fst (classes ct).

Definition wf_class (ct : ctable) (c : cid) : bool :=
  let x := cls_of ct c in
  (* mro starts with the class itself and ends with object; all listed classes are in the table *)
  match c_mro x with
  | h :: _ => Pos.eqb h c
  | [] => false
  end
  && Pos.eqb (last (c_mro x) c) (k_object ct)
  && forallb (fun d => mem_cid d (cids_of ct)) (c_mro x)
  (* direct bases are in the mro, every non-object class has a base *)
  && forallb (fun d => mem_cid d (c_mro x)) (c_bases x)
  && (Pos.eqb c (k_object ct) || negb (Nat.eqb (length (c_bases x)) 0))
  (* the mro of a superclass is contained in the mro of the class *)
  && forallb (fun d => forallb (fun e => mem_cid e (c_mro x)) (c_mro (cls_of ct d))) (c_mro x)
  (* arguments of every generic ancestor are given, with the right arity, over own parameters *)
  && forallb (fun d =>
        Pos.eqb d c || Nat.eqb (arity ct d) 0 ||
        match assoc_cid (c_amap x) d with
        | Some specs => Nat.eqb (length specs) (arity ct d)
                        && forallb (fun s => match s with AP i => Nat.ltb i (arity ct c) | AC _ => true end) specs
        | None => false
        end) (c_mro x)
  (* promotion targets are non-generic classes of the table *)
  && forallb (fun p => mem_cid p (cids_of ct) && Nat.eqb (arity ct p) 0) (c_promote x).

(* ---------------------------------------------------------------- fragment F1 (nominal core)
   None, Never, non-generic non-protocol classes other than bool/enums, their literals, and flat non-empty
   unions of these.  Used by the transitivity theorem. *)
Definition plain (ct : ctable) (c : cid) : bool :=
  Nat.eqb (arity ct c) 0 && negb (contractible ct c) && negb (c_protocol (cls_of ct c)).
Definition atom_ok (ct : ctable) (t : ty) : bool :=
  match t with
  | TNone => true
  | TInst c [] => plain ct c
  | TLit c _ => plain ct c
  | _ => false
  end.
Definition frag1 (ct : ctable) (t : ty) : bool :=
  match t with
  | TNever => true
  | TUnion ts => match ts with [] => false | _ => forallb (atom_ok ct) ts end
  | _ => atom_ok ct t
  end.

(* fragment F1up (used by the join theorem): as F1, and every ancestor of every class is plain too
   (so that the supertype search of join_instances stays inside the fragment) *)
Definition plain_up (ct : ctable) (c : cid) : bool :=
  plain ct c && forallb (plain ct) (c_mro (cls_of ct c)).
Definition atom_up (ct : ctable) (t : ty) : bool :=
  match t with
  | TNone => true
  | TInst c [] => plain_up ct c
  | TLit c _ => plain_up ct c
  | _ => false
  end.
Definition frag_up (ct : ctable) (t : ty) : bool :=
  match t with
  | TNever => true
  | TUnion ts => match ts with [] => false | _ => forallb (atom_up ct) ts end
  | _ => atom_up ct t
  end.

(* facts about the class table used by the lattice theorems: the mro of an ancestor is contained in the
   mro of the class; promotion targets are plain classes with plain ancestors; object is plain *)
Definition wf_lat (ct : ctable) : bool :=
  plain ct (k_object ct) &&
  forallb (fun p : cid * cls =>
             forallb (fun d => forallb (fun e => mem_cid e (c_mro (snd p))) (c_mro (cls_of ct d))) (c_mro (snd p))
             && forallb (plain_up ct) (c_promote (snd p))) (classes ct).

(* ---------------------------------------------------------------- fragment F2
   F1 extended with generic instances: None, Never, literals of non-generic classes, instances C[args] of
   non-protocol classes (bool/enums included, with the literal contraction rule) with the declared number of arguments, every argument again in F2
   (unbounded nesting), and flat non-empty unions of such atoms. *)
Definition gcls_ok (ct : ctable) (c : cid) : bool :=
  negb (contractible ct c) && negb (c_protocol (cls_of ct c)).
(* bool / enum classes are admitted when non-generic (their literals can be contracted back to the class) *)
Definition cls_ok2 (ct : ctable) (c : cid) : bool :=
  negb (c_protocol (cls_of ct c)) && (negb (contractible ct c) || Nat.eqb (arity ct c) 0).
Fixpoint frag2 (ct : ctable) (t : ty) : bool :=
  match t with
  | TNever => true
  | TNone => true
  | TLit c _ => cls_ok2 ct c && Nat.eqb (arity ct c) 0
  | TInst c args => cls_ok2 ct c && Nat.eqb (length args) (arity ct c) && forallb (frag2 ct) args
  | TUnion ts =>
      match ts with
      | [] => false
      | _ => forallb (fun x => negb (is_union x) && negb (is_never x) && frag2 ct x) ts
      end
  | _ => false
  end.
(* family X1 = types mentioning bool / an enum class (where the single-member-enum counterexample lives) *)
Fixpoint no_contr (ct : ctable) (t : ty) : bool :=
  match t with
  | TLit c _ => negb (contractible ct c)
  | TInst c args => negb (contractible ct c) && forallb (no_contr ct) args
  | TUnion ts => forallb (no_contr ct) ts
  | TTuple ts => forallb (no_contr ct) ts
  | _ => true
  end.
(* family X2 (finer than X1): a literal of bool / an enum whose value is not a declared member, or whose class has fewer
   than two distinct members (the single-member-enum counterexample); lits_ok t = true means t is NOT in X2 *)
Definition has_two (l : list Z) : bool := existsb (fun a => existsb (fun b => negb (Z.eqb a b)) l) l.
Fixpoint lits_ok (ct : ctable) (t : ty) : bool :=
  match t with
  | TLit c v => negb (contractible ct c) || (existsb (Z.eqb v) (members ct c) && has_two (members ct c))
  | TInst _ args => forallb (lits_ok ct) args
  | TUnion ts => forallb (lits_ok ct) ts
  | TTuple ts => forallb (lits_ok ct) ts
  | _ => true
  end.
(* bool/enum classes in the table: a class below one is one itself, and proper bool/enum ancestors have no members *)
Definition wf_contr (ct : ctable) : bool :=
  forallb (fun p : cid * cls =>
             (negb (existsb (contractible ct) (c_mro (snd p))) || contractible ct (fst p))
             && forallb (fun d => Pos.eqb d (fst p) || negb (contractible ct d)
                                  || match members ct d with [] => true | _ => false end) (c_mro (snd p)))
          (classes ct).
(* family X3 = types mentioning a class with an invariant or contravariant parameter (where meet_lower_refuted lives);
   covt t = true means t is NOT in X3 *)
Definition is_cov (v : variance) : bool := match v with Cov => true | _ => false end.
Fixpoint covt (ct : ctable) (t : ty) : bool :=
  match t with
  | TInst c args => forallb is_cov (c_var (cls_of ct c)) && forallb (covt ct) args
  | TUnion ts => forallb (covt ct) ts
  | TTuple ts => forallb (covt ct) ts
  | _ => true
  end.
Definition atom2 (ct : ctable) (t : ty) : bool := negb (is_union t) && negb (is_never t) && frag2 ct t.

(* closed argument types of generic bases are in F2 *)
Definition wf_ac (ct : ctable) : bool :=
  forallb (fun p : cid * cls =>
             forallb (fun e : cid * list aspec =>
                        forallb (fun s => match s with AC t => frag2 ct t | AP _ => true end) (snd e))
                     (c_amap (snd p))) (classes ct).

(* ---------------------------------------------------------------- coherence of generic bases (used by transitivity on F2)
   amap_of c d: the arguments of ancestor d in terms of the parameters of c, as data; wf_gen checks that
   (W2) mapping c -> d -> e equals mapping c -> e, and (W3) a parameter of variance v is only passed to a position of
   variance v (or is invariant). *)
Fixpoint ty_seqb (a b : ty) {struct a} : bool :=
  match a, b with
  | TAny, TAny => true
  | TNever, TNever => true
  | TNone, TNone => true
  | TInst c xs, TInst d ys =>
      Pos.eqb c d && (fix go (xs ys : list ty) {struct xs} : bool :=
                        match xs, ys with
                        | [], [] => true
                        | x :: xs', y :: ys' => ty_seqb x y && go xs' ys'
                        | _, _ => false
                        end) xs ys
  | TLit c v, TLit d w => Pos.eqb c d && Z.eqb v w
  | TUnion xs, TUnion ys =>
      (fix go (xs ys : list ty) {struct xs} : bool :=
         match xs, ys with
         | [], [] => true
         | x :: xs', y :: ys' => ty_seqb x y && go xs' ys'
         | _, _ => false
         end) xs ys
  | TTuple xs, TTuple ys =>
      (fix go (xs ys : list ty) {struct xs} : bool :=
         match xs, ys with
         | [], [] => true
         | x :: xs', y :: ys' => ty_seqb x y && go xs' ys'
         | _, _ => false
         end) xs ys
  | _, _ => false
  end.
Definition aspec_seqb (a b : aspec) : bool :=
  match a, b with
  | AP i, AP j => Nat.eqb i j
  | AC t, AC u => ty_seqb t u
  | _, _ => false
  end.
Fixpoint specs_seqb (a b : list aspec) : bool :=
  match a, b with
  | [], [] => true
  | x :: a', y :: b' => aspec_seqb x y && specs_seqb a' b'
  | _, _ => false
  end.
Definition amap_of (ct : ctable) (c d : cid) : list aspec :=
  if Pos.eqb c d then map AP (seq 0 (arity ct c))
  else match c_var (cls_of ct d) with
       | [] => []
       | vs => match assoc_cid (c_amap (cls_of ct c)) d with
               | Some specs => specs
               | None => map (fun _ => AC TAny) vs
               end
       end.
Definition spec_subst (outer : list aspec) (s : aspec) : aspec :=
  match s with
  | AP i => nth i outer (AC TAny)
  | AC t => AC t
  end.
Definition variance_eqb (a b : variance) : bool :=
  match a, b with Inv, Inv | Cov, Cov | Contra, Contra => true | _, _ => false end.
Definition var_ok (ct : ctable) (d e : cid) : bool :=
  forallb (fun sw : aspec * variance =>
             match fst sw with
             | AP i => match nth_error (c_var (cls_of ct d)) i with
                       | Some vi => variance_eqb vi Inv || variance_eqb vi (snd sw)
                       | None => false
                       end
             | AC _ => true
             end) (combine (amap_of ct d e) (c_var (cls_of ct e))).
Definition wf_acn (ct : ctable) : bool :=
  forallb (fun p : cid * cls =>
             forallb (fun e : cid * list aspec =>
                        forallb (fun s => match s with AC t => no_contr ct t | AP _ => true end) (snd e))
                     (c_amap (snd p))) (classes ct).
Definition wf_gen (ct : ctable) : bool :=
  wf_acn ct &&
  forallb (fun c =>
             forallb (fun d =>
                        var_ok ct c d &&
                        Nat.eqb (length (amap_of ct c d)) (arity ct d) &&
                        forallb (fun s => match s with AP i => Nat.ltb i (arity ct c) | AC _ => true end) (amap_of ct c d) &&
                        forallb (fun e => specs_seqb (amap_of ct c e)
                                            (map (spec_subst (amap_of ct c d)) (amap_of ct d e)))
                                (c_mro (cls_of ct d)))
                     (c_mro (cls_of ct c))) (cids_of ct).

(* promotion chains starting at c (through any ancestor) have length <= n; gives a sufficient fuel *)
Fixpoint chain_ok (ct : ctable) (n : nat) (c : cid) : bool :=
  forallb (fun b => forallb (fun p => match n with O => false | S n' => chain_ok ct n' p end)
                            (c_promote (cls_of ct b))) (c_mro (cls_of ct c)).
Definition chains_ok (ct : ctable) (n : nat) : bool := forallb (chain_ok ct n) (cids_of ct).

Definition wf_ct (ct : ctable) : bool :=
  wf_ac ct && wf_lat ct &&
  mem_cid (k_object ct) (cids_of ct)
  && Nat.eqb (length (c_mro (cls_of ct (k_object ct)))) 1
  && Nat.eqb (arity ct (k_object ct)) 0
  && Nat.eqb (length (c_promote (cls_of ct (k_object ct)))) 0
  && forallb (wf_class ct) (cids_of ct).

(* ---- decidable guards of the guarded laws (Properties.subtype_trans_guarded, meet_lower_guarded, meet_comm_equiv_guarded).
   They are total boolean functions on the WHOLE type language and on every class table; the harness evaluates the
   extracted functions on the real class table and on every triple / pair of the law search.
   table_guard: the three table hypotheses.  type_guard x: x is in fragment F2 and outside the refuted family X2 (no
   literal of bool / an enum that is not a member or whose class has fewer than two members; Any, fixed tuples, protocol
   classes and Never inside unions are outside F2).  meet_guard additionally excludes family X3 (a class with an
   invariant or contravariant parameter, the family of meet_lower_refuted). *)
Definition table_guard (ct : ctable) : bool := wf_ct ct && wf_gen ct && wf_contr ct.
Definition type_guard (ct : ctable) (x : ty) : bool := frag2 ct x && lits_ok ct x.
Definition trans_guard (ct : ctable) (a b c : ty) : bool :=
  table_guard ct && type_guard ct a && type_guard ct b && type_guard ct c.
Definition meet_guard (ct : ctable) (s t : ty) : bool :=
  table_guard ct && (type_guard ct s && covt ct s) && (type_guard ct t && covt ct t).
