(* F2: transitivity of the order LE, hence of `sub`, for class tables with coherent generic bases (wf_gen) *)
From Coq Require Import ZArith List Bool PArith Lia.
From C08 Require Import Model Proofs ProofsKind ProofsTrans ProofsTrans2 ProofsF2 ProofsF2Sound ProofsF2Comp ProofsF2Eq.
Import ListNotations.

(* ---------------------------------------------------------------- strict equality *)
Lemma ty_seqb_eq : forall a b, ty_seqb a b = true -> a = b.
Proof.
  induction a using ty_ind'; intros b E; destruct b; simpl in E; try discriminate; auto.
  - apply andb_prop in E. destruct E as [Ec Ea]. apply Pos.eqb_eq in Ec. subst. f_equal.
    revert args0 Ea. induction H; intros ys Ea; destruct ys; try discriminate; auto.
    apply andb_prop in Ea. destruct Ea. f_equal; auto.
  - apply andb_prop in E. destruct E as [E1 E2]. apply Pos.eqb_eq in E1. apply Z.eqb_eq in E2. congruence.
  - f_equal. revert ts0 E. induction H; intros ys Ea; destruct ys; try discriminate; auto.
    apply andb_prop in Ea. destruct Ea. f_equal; auto.
  - f_equal. revert ts0 E. induction H; intros ys Ea; destruct ys; try discriminate; auto.
    apply andb_prop in Ea. destruct Ea. f_equal; auto.
Qed.
Lemma specs_seqb_eq : forall a b, specs_seqb a b = true -> a = b.
Proof.
  induction a; destruct b; simpl; intros E; try discriminate; auto.
  apply andb_prop in E. destruct E as [E1 E2]. f_equal; auto.
  destruct a, a1; simpl in E1; try discriminate.
  - apply Nat.eqb_eq in E1. congruence.
  - apply ty_seqb_eq in E1. congruence.
Qed.

(* ---------------------------------------------------------------- list lemmas *)
Lemma map_nth_seq : forall (xs : list ty) d0, map (fun i => nth i xs d0) (seq 0 (length xs)) = xs.
Proof.
  induction xs; intros d0; simpl; auto. f_equal. rewrite <- seq_shift, map_map. simpl. apply IHxs.
Qed.
Lemma zip3_map_inv : forall A B C D (f : A -> B) (l : list A) (ys : list C) (vs : list D) b y v,
  In (b, y, v) (zip3 (map f l) ys vs) -> exists a, In (a, y, v) (zip3 l ys vs) /\ b = f a.
Proof.
  induction l; destruct ys, vs; simpl; intros b y v H; try contradiction.
  destruct H as [H|H]; [inversion H; subst; exists a; auto|].
  destruct (IHl _ _ _ _ _ H) as [a' [Ha E]]. exists a'; auto.
Qed.
Lemma zip3_map_fwd : forall A B C D (f : A -> B) (l : list A) (ys : list C) (vs : list D) a y v,
  In (a, y, v) (zip3 l ys vs) -> In (f a, y, v) (zip3 (map f l) ys vs).
Proof.
  induction l; destruct ys, vs; simpl; intros a0 y v H; try contradiction.
  destruct H as [H|H]; [inversion H; subst; left; auto|right; auto].
Qed.
Lemma zip3_combine13 : forall A B C (l : list A) (ys : list B) (vs : list C) a y v,
  In (a, y, v) (zip3 l ys vs) -> In (a, v) (combine l vs).
Proof.
  induction l; destruct ys, vs; simpl; intros a0 y v H; try contradiction.
  destruct H as [H|H]; [inversion H; subst; left; auto|right; eauto].
Qed.
Lemma nth_zip3 : forall (xs ys : list ty) (vs : list variance) i vi d1 d2,
  i < length xs -> i < length ys -> nth_error vs i = Some vi -> In (nth i xs d1, nth i ys d2, vi) (zip3 xs ys vs).
Proof.
  induction xs; destruct ys, vs; intros i vi d1 d2 H1 H2 H3; simpl in *; try lia; try (destruct i; discriminate).
  destruct i; simpl in *; [inversion H3; auto|]. right. apply IHxs; auto; lia.
Qed.

Section T2.
Variable ct : ctable.
Hypothesis Hwf : wf_ct ct = true.
Hypothesis Hgen : wf_gen ct = true.
Hypothesis Hcontr : wf_contr ct = true.

Lemma mts_amap : forall c xs d, length xs = arity ct c ->
  map_to_super ct c xs d = map (inst_spec xs) (amap_of ct c d).
Proof.
  intros c xs d L. unfold map_to_super, amap_of. destruct (Pos.eqb c d).
  - rewrite map_map. simpl. rewrite <- L. symmetry. apply map_nth_seq.
  - destruct (c_var (cls_of ct d)); auto. destruct (assoc_cid _ d); auto. rewrite map_map. reflexivity.
Qed.

(* facts extracted from wf_gen *)
Lemma gen_facts : forall c d, In d (c_mro (cls_of ct c)) ->
  var_ok ct c d = true /\ length (amap_of ct c d) = arity ct d /\
  forall e, In e (c_mro (cls_of ct d)) -> amap_of ct c e = map (spec_subst (amap_of ct c d)) (amap_of ct d e).
Proof.
  intros c d Hd.
  assert (Hc : In c (cids_of ct)).
  { destruct (lookup_in (classes ct) c) as [E|Hin].
    - unfold cls_of in Hd. rewrite E in Hd. destruct Hd.
    - unfold cids_of. apply in_map_iff. exists (c, lookup_cls (classes ct) c). auto. }
  assert (G := Hgen). unfold wf_gen in G. apply andb_prop in G. destruct G as [_ G]. rewrite forallb_forall in G. specialize (G c Hc).
  rewrite forallb_forall in G. specialize (G d Hd).
  apply andb_prop in G. destruct G as [G G4]. apply andb_prop in G. destruct G as [G G3].
  apply andb_prop in G. destruct G as [G1 G2].
  split; auto. split; [apply Nat.eqb_eq; auto|].
  intros e He. rewrite forallb_forall in G4. apply specs_seqb_eq. apply G4; auto.
Qed.

Lemma mts_len : forall c xs d, length xs = arity ct c -> (has_base ct c d = true \/ d = k_object ct) ->
  frag2 ct (TInst c xs) = true -> length (map_to_super ct c xs d) = arity ct d.
Proof.
  intros c xs d L HB F. unfold map_to_super. destruct (Pos.eqb c d) eqn:E.
  - apply Pos.eqb_eq in E. subst. auto.
  - destruct (c_var (cls_of ct d)) eqn:Ev; [unfold arity; rewrite Ev; auto|].
    assert (Hd : In d (c_mro (cls_of ct c))).
    { destruct HB as [HB|HB].
      - unfold has_base in HB. rewrite E in HB. apply mem_cid_in; auto.
      - subst d. assert (A : arity ct (k_object ct) = 0).
        { assert (W := Hwf). unfold wf_ct in W. do 5 (apply andb_prop in W; destruct W as [W ?]).
          match goal with H : (arity ct (k_object ct) =? 0) = true |- _ => apply Nat.eqb_eq in H; exact H end. }
        unfold arity in A. rewrite Ev in A. discriminate. }
    destruct (gen_facts c d Hd) as [_ [Len _]]. unfold amap_of in Len. rewrite E, Ev in Len.
    destruct (assoc_cid _ d); rewrite map_length; auto. rewrite map_length in Len. auto.
Qed.

(* mapping to e directly or through d gives the same arguments *)
Lemma mts_coherent : forall c xs d e, length xs = arity ct c ->
  In d (c_mro (cls_of ct c)) -> In e (c_mro (cls_of ct d)) ->
  map_to_super ct c xs e = map (inst_spec (map (inst_spec xs) (amap_of ct c d))) (amap_of ct d e).
Proof.
  intros c xs d e L Hd He. destruct (gen_facts c d Hd) as [_ [_ Coh]].
  rewrite (mts_amap c xs e L), (Coh e He), map_map. apply map_ext. intros s.
  destruct s as [i|t]; simpl; auto.
  change TAny with (inst_spec xs (AC TAny)). rewrite map_nth. reflexivity.
Qed.

Lemma mts_self : forall c xs, map_to_super ct c xs c = xs.
Proof. intros. unfold map_to_super. rewrite Pos.eqb_refl. reflexivity. Qed.

Lemma hb_cases : forall c d, has_base ct c d = true -> c = d \/ In d (c_mro (cls_of ct c)).
Proof.
  intros c d H. unfold has_base in H. apply orb_true_iff in H. destruct H as [H|H].
  - left. apply Pos.eqb_eq; auto.
  - right. apply mem_cid_in; auto.
Qed.

(* arguments for e computed through d *)
Lemma mts_via : forall c xs d e, length xs = arity ct c -> frag2 ct (TInst c xs) = true ->
  has_base ct c d = true -> has_base ct d e = true ->
  map_to_super ct c xs e = map (inst_spec (map_to_super ct c xs d)) (amap_of ct d e).
Proof.
  intros c xs d e L F H1 H2.
  destruct (hb_cases _ _ H1) as [<-|Hd].
  - rewrite mts_self. apply mts_amap; auto.
  - destruct (hb_cases _ _ H2) as [<-|He].
    + rewrite <- mts_amap; [rewrite mts_self; auto|]. apply mts_len; auto.
    + rewrite (mts_coherent c xs d e L Hd He). rewrite <- (mts_amap c xs d L). reflexivity.
Qed.

Lemma combine_seq_AP : forall (vs : list variance) k n i w,
  In (AP i, w) (combine (map AP (seq k n)) vs) -> k <= i /\ nth_error vs (i - k) = Some w.
Proof.
  induction vs as [|v vs IH]; intros k n i w H; [destruct (map AP (seq k n)); destruct H|].
  destruct n; [destruct H|]. simpl in H. destruct H as [H|H].
  - inversion H; subst. split; auto. rewrite Nat.sub_diag. reflexivity.
  - destruct (IH (S k) n i w H) as [Hk Hn]. split; [lia|].
    replace (i - k) with (S (i - S k)) by lia. exact Hn.
Qed.

Lemma var_compat : forall d e i w, has_base ct d e = true ->
  In (AP i, w) (combine (amap_of ct d e) (c_var (cls_of ct e))) ->
  exists vi, nth_error (c_var (cls_of ct d)) i = Some vi /\ (vi = Inv \/ vi = w).
Proof.
  intros d e i w HB Hin. destruct (hb_cases _ _ HB) as [<-|He].
  - unfold amap_of in Hin. rewrite Pos.eqb_refl in Hin.
    destruct (combine_seq_AP _ _ _ _ _ Hin) as [_ Hn]. rewrite Nat.sub_0_r in Hn. exists w. auto.
  - destruct (gen_facts d e He) as [V _]. unfold var_ok in V. rewrite forallb_forall in V.
    specialize (V _ Hin). simpl in V. destruct (nth_error (c_var (cls_of ct d)) i) as [vi|]; [|discriminate].
    exists vi. split; auto. apply orb_true_iff in V. destruct V as [V|V].
    + left. destruct vi; simpl in V; try discriminate; auto.
    + right. destruct vi, w; simpl in V; try discriminate; auto.
Qed.

Lemma zip3_nil3 : forall A B C (a : list A) (b : list B), zip3 a b (@nil C) = [].
Proof. destruct a, b; auto. Qed.

Lemma le_from_obj : forall np h ys e zs, leh ct np h (TInst (k_object ct) ys) (TInst e zs) -> e = k_object ct.
Proof.
  intros np h ys e zs L. destruct h; [contradiction|]. rewrite leh_eq in L. unfold leh_step in L.
  destruct L as [[_ [_ [b [p [Hb [Hp _]]]]]]|[[HB|HB] _]]; auto.
  - rewrite (object_mro ct Hwf) in Hb. destruct Hb as [<-|[]]. rewrite (object_promote ct Hwf) in Hp. destruct Hp.
  - apply (has_base_object ct Hwf); auto.
Qed.

Lemma lok_items : forall ts x, lits_ok ct (TUnion ts) = true -> In x ts -> lits_ok ct x = true.
Proof. intros ts x H Hx. simpl in H. rewrite forallb_forall in H. auto. Qed.
Lemma lok_inst : forall c xs, lits_ok ct (TInst c xs) = true -> forall x, In x xs -> lits_ok ct x = true.
Proof. intros c xs H. simpl in H. rewrite forallb_forall in H. auto. Qed.
Lemma lok_inst_nil : forall c, lits_ok ct (TInst c []) = true.
Proof. reflexivity. Qed.

Lemma nocontr_lok : forall t, no_contr ct t = true -> lits_ok ct t = true.
Proof.
  induction t using ty_ind'; simpl; intros N; auto.
  - apply andb_prop in N. destruct N as [_ N]. rewrite forallb_forall in *. rewrite Forall_forall in H. intros x Hx. apply H; auto.
  - rewrite N. reflexivity.
  - rewrite forallb_forall in *. rewrite Forall_forall in H. intros x Hx. apply H; auto.
  - rewrite forallb_forall in *. rewrite Forall_forall in H. intros x Hx. apply H; auto.
Qed.

Lemma mts_lok : forall c xs d, lits_ok ct (TInst c xs) = true ->
  forall x, In x (map_to_super ct c xs d) -> lits_ok ct x = true.
Proof.
  intros c xs d N x Hx. assert (Nx := lok_inst _ _ N).
  unfold map_to_super in Hx. destruct (Pos.eqb c d); [auto|].
  destruct (c_var (cls_of ct d)); [destruct Hx|].
  destruct (assoc_cid (c_amap (cls_of ct c)) d) as [specs|] eqn:Ea.
  - apply in_map_iff in Hx. destruct Hx as [sp [<- Hs]]. destruct sp as [i|t]; simpl.
    + destruct (nth_in_or_default i xs TAny) as [Hin| ->]; auto.
    + apply nocontr_lok. assert (G := Hgen). unfold wf_gen in G. apply andb_prop in G. destruct G as [G _].
      unfold wf_acn in G. rewrite forallb_forall in G.
      destruct (lookup_in (classes ct) c) as [E0|Hin].
      * unfold cls_of in Ea. rewrite E0 in Ea. discriminate.
      * specialize (G _ Hin). simpl in G. rewrite forallb_forall in G. apply assoc_in in Ea. unfold cls_of in Ea.
        specialize (G _ Ea). simpl in G. rewrite forallb_forall in G. apply (G _ Hs).
  - apply in_map_iff in Hx. destruct Hx as [? [<- _]]. reflexivity.
Qed.

(* ---- bool / enum classes *)
Lemma contr_up : forall x y, has_base ct x y = true -> contractible ct y = true -> contractible ct x = true.
Proof.
  intros x y HB Cy. destruct (hb_cases _ _ HB) as [<-|Hy]; auto.
  destruct (lookup_in (classes ct) x) as [E|Hin]; [unfold cls_of in Hy; rewrite E in Hy; destruct Hy|].
  assert (W := Hcontr). unfold wf_contr in W. rewrite forallb_forall in W. specialize (W _ Hin). simpl in W.
  apply andb_prop in W. destruct W as [W _]. apply orb_true_iff in W. destruct W as [W|W]; auto.
  apply negb_true_iff in W. assert (E : existsb (contractible ct) (c_mro (cls_of ct x)) = true).
  { apply existsb_exists. exists y. auto. } unfold cls_of in E. congruence.
Qed.

Lemma contr_proper_nomembers : forall x y, In y (c_mro (cls_of ct x)) -> y <> x -> contractible ct y = true ->
  members ct y = [].
Proof.
  intros x y Hy Hne Cy.
  destruct (lookup_in (classes ct) x) as [E|Hin]; [unfold cls_of in Hy; rewrite E in Hy; destruct Hy|].
  assert (W := Hcontr). unfold wf_contr in W. rewrite forallb_forall in W. specialize (W _ Hin). simpl in W.
  apply andb_prop in W. destruct W as [_ W]. rewrite forallb_forall in W. specialize (W y Hy).
  apply orb_true_iff in W. destruct W as [W|W].
  - apply orb_true_iff in W. destruct W as [W|W]; [apply Pos.eqb_eq in W; contradiction|].
    apply negb_true_iff in W. congruence.
  - destruct (members ct y); auto. discriminate.
Qed.

Lemma plain_not_contr : forall p, plain ct p = true -> contractible ct p = false.
Proof.
  intros p H. unfold plain in H. apply andb_prop in H. destruct H as [H _]. apply andb_prop in H. destruct H as [_ H].
  apply negb_true_iff; auto.
Qed.

(* nothing is promoted into a bool / enum class *)
Lemma promo_not_contr : forall np h p y ys, plain_up ct p = true -> leh ct np h (TInst p []) (TInst y ys) ->
  contractible ct y = false.
Proof.
  intros np. induction h; intros p y ys Pp L; [contradiction|].
  rewrite leh_eq in L. unfold leh_step in L.
  destruct L as [[_ [_ [b0 [p' [Hb [Hp L]]]]]]|[[HB|HB] _]].
  - apply (IHh p' y ys); auto. apply (promote_plain_up ct Hwf b0 p' Hp).
  - unfold plain_up in Pp. apply andb_prop in Pp. destruct Pp as [P1 P2].
    destruct (hb_cases _ _ HB) as [<-|Hy]; [apply plain_not_contr; auto|].
    rewrite forallb_forall in P2. apply plain_not_contr. auto.
  - subst y. apply plain_not_contr. apply (object_plain ct Hwf).
Qed.

Lemma to_contr_nominal : forall np h x xs y ys, leh ct np h (TInst x xs) (TInst y ys) -> contractible ct y = true ->
  has_base ct x y = true.
Proof.
  intros np h x xs y ys L Cy. destruct h; [contradiction|]. rewrite leh_eq in L. unfold leh_step in L.
  destruct L as [[_ [_ [b0 [p [Hb [Hp L]]]]]]|[[HB|HB] _]]; auto.
  - assert (F := promo_not_contr np h p y ys (promote_plain_up ct Hwf b0 p Hp) L). congruence.
  - subst y. assert (F := plain_not_contr _ (object_plain ct Hwf)). congruence.
Qed.

Lemma lok_lit_members : forall c v, lits_ok ct (TLit c v) = true -> contractible ct c = true ->
  In v (members ct c) /\ exists m1 m2, In m1 (members ct c) /\ In m2 (members ct c) /\ m1 <> m2.
Proof.
  intros c v H Cc. simpl in H. rewrite Cc in H. simpl in H. apply andb_prop in H. destruct H as [H1 H2]. split.
  - apply existsb_exists in H1. destruct H1 as [x [Hx E]]. apply Z.eqb_eq in E. subst. auto.
  - unfold has_two in H2. apply existsb_exists in H2. destruct H2 as [a [Ha H2]].
    apply existsb_exists in H2. destruct H2 as [b [Hb E]]. exists a, b. repeat split; auto.
    apply negb_true_iff in E. apply Z.eqb_neq in E. auto.
Qed.

Lemma complete_in : forall rs c m0, complete ct rs c = true -> In m0 (members ct c) -> In (TLit c m0) rs.
Proof.
  intros rs c m0 C Hm. unfold complete in C. rewrite forallb_forall in C. specialize (C m0 Hm).
  apply existsb_exists in C. destruct C as [x [Hx L]]. destruct x; simpl in L; try discriminate.
  apply andb_prop in L. destruct L as [L1 L2]. apply Pos.eqb_eq in L1. apply Z.eqb_eq in L2. subst. auto.
Qed.
Lemma in_complete : forall rs c, (forall m0, In m0 (members ct c) -> In (TLit c m0) rs) -> complete ct rs c = true.
Proof.
  intros rs c H. unfold complete. apply forallb_forall. intros m0 Hm. apply existsb_exists.
  exists (TLit c m0). split; auto. simpl. rewrite Pos.eqb_refl, Z.eqb_refl. reflexivity.
Qed.

Definition TR (s : nat) : Prop := forall n m, n + m <= s -> forall np a b c,
  frag2 ct a = true -> frag2 ct b = true -> frag2 ct c = true ->
  lits_ok ct a = true -> lits_ok ct b = true -> lits_ok ct c = true ->
  leh ct np n a b -> leh ct np m b c -> LE ct np a c.

(* the generic-instance case *)
Lemma tr_inst : forall s, TR s -> forall n m, S n + S m <= S s -> forall np c xs d ys e zs,
  frag2 ct (TInst c xs) = true -> frag2 ct (TInst d ys) = true -> frag2 ct (TInst e zs) = true ->
  lits_ok ct (TInst c xs) = true -> lits_ok ct (TInst d ys) = true -> lits_ok ct (TInst e zs) = true ->
  leh ct np (S n) (TInst c xs) (TInst d ys) -> leh ct np (S m) (TInst d ys) (TInst e zs) ->
  LE ct np (TInst c xs) (TInst e zs).
Proof.
  intros s IH n m Hs np c xs d ys e zs Fa Fb Fc Na Nb Nc L1 L2.
  assert (L2' := L2). rewrite leh_eq in L1, L2. unfold leh_step in L1, L2.
  destruct (frag2_inst ct _ _ Fa) as [_ [Lx _]]. destruct (frag2_inst ct _ _ Fb) as [_ [Ly _]].
  destruct (frag2_inst ct _ _ Fc) as [Ge [Lz _]].
  assert (Pe : c_protocol (cls_of ct e) = false).
  { apply (cls_ok2_proto ct); auto. }
  destruct L1 as [[Np [Pd [b0 [p [Hb [Hp Lp]]]]]]|[HB1 P1]].
  - (* first step by promotion *)
    subst np. assert (Fp := plain_frag2 ct p (promote_plain ct Hwf b0 p Hp)).
    assert (L := IH n (S m) ltac:(lia) false (TInst p []) (TInst d ys) (TInst e zs) Fp Fb Fc
                 (lok_inst_nil p) Nb Nc Lp L2').
    eapply LE_promo; eauto.
  - destruct L2 as [[Np [_ [b0 [p [Hb [Hp Lp]]]]]]|[HB2 P2]].
    + (* second step by promotion *)
      subst np. assert (Hb' : In b0 (c_mro (cls_of ct c))).
      { destruct HB1 as [HB1|HB1].
        - destruct (hb_cases _ _ HB1) as [<-|Hd]; auto. eapply mro_trans; eauto.
        - subst d. rewrite (object_mro ct Hwf) in Hb. destruct Hb as [<-|[]].
          rewrite (object_promote ct Hwf) in Hp. destruct Hp. }
      eapply LE_promo; eauto. exists m; auto.
    + (* both nominal *)
      assert (HB3 : has_base ct c e = true \/ e = k_object ct).
      { destruct HB2 as [HB2|HB2]; auto. destruct HB1 as [HB1|HB1].
        - left. eapply has_base_trans; eauto.
        - subst d. right. apply (has_base_object ct Hwf); auto. }
      apply LE_inst_nom; auto.
      destruct (c_var (cls_of ct e)) as [|w0 ws] eqn:Ev; [rewrite zip3_nil3; intros p0 []|].
      assert (Ae : arity ct e <> 0) by (unfold arity; rewrite Ev; discriminate).
      assert (Ao : arity ct (k_object ct) = 0).
      { assert (W := Hwf). unfold wf_ct in W. do 5 (apply andb_prop in W; destruct W as [W ?]).
        match goal with H : (arity ct (k_object ct) =? 0) = true |- _ => apply Nat.eqb_eq in H; exact H end. }
      assert (HB2' : has_base ct d e = true) by (destruct HB2 as [HB2|HB2]; auto; subst e; contradiction).
      assert (HB1' : has_base ct c d = true).
      { destruct HB1 as [HB1|HB1]; auto. subst d. apply (has_base_object ct Hwf) in HB2'. subst e. contradiction. }
      rewrite <- Ev in P2 |- *.
      rewrite (mts_via c xs d e Lx Fa HB1' HB2').
      set (X' := map_to_super ct c xs d) in *.
      assert (LX : length X' = arity ct d) by (apply mts_len; auto).
      rewrite (mts_amap d ys e Ly) in P2.
      intros [[la z] w] Hin.
      destruct (zip3_map_inv _ _ _ _ _ _ _ _ _ _ _ Hin) as [sp [Hsp ->]].
      assert (P2s := P2 _ _ _ (zip3_map_fwd _ _ _ _ (inst_spec ys) _ _ _ _ _ _ Hsp)).
      assert (Fz : frag2 ct z = true).
      { destruct (frag2_inst ct _ _ Fc) as [_ [_ Fzs]]. apply Fzs. eapply in_combine_r. eapply in_zip3_combine; eauto. }
      destruct sp as [i|t].
      * (* a parameter of d passed to e *)
        destruct (var_compat d e i w HB2' (zip3_combine13 _ _ _ _ _ _ _ _ _ Hsp)) as [vi [Hvi Hcomp]].
        assert (Hi : i < arity ct d) by (unfold arity; apply nth_error_Some; congruence).
        assert (Hi1 : i < length X') by (rewrite LX; exact Hi).
        assert (Hi2 : i < length ys) by (rewrite Ly; exact Hi).
        assert (P1i := P1 _ _ _ (nth_zip3 X' ys _ i vi TAny TAny Hi1 Hi2 Hvi)).
        simpl inst_spec in *.
        assert (Fx : frag2 ct (nth i X' TAny) = true).
        { apply (mts_frag ct Hwf c xs d Fa HB1). apply nth_In. exact Hi1. }
        assert (Fy : frag2 ct (nth i ys TAny) = true).
        { destruct (frag2_inst ct _ _ Fb) as [_ [_ Fys]]. apply Fys. apply nth_In. exact Hi2. }
        assert (Nxi : lits_ok ct (nth i X' TAny) = true) by (apply (mts_lok c xs d Na); apply nth_In; exact Hi1).
        assert (Nyi : lits_ok ct (nth i ys TAny) = true) by (apply (lok_inst _ _ Nb); apply nth_In; exact Hi2).
        assert (Nz : lits_ok ct z = true).
        { apply (lok_inst _ _ Nc). eapply in_combine_r. eapply in_zip3_combine; eauto. }
        assert (Tf : forall u v0 t0, frag2 ct u = true -> frag2 ct v0 = true -> frag2 ct t0 = true ->
                  lits_ok ct u = true -> lits_ok ct v0 = true -> lits_ok ct t0 = true ->
                  leh ct np n u v0 -> leh ct np m v0 t0 -> LE ct np u t0)
          by (intros u v0 t0 F1 F2 F3 N1 N2 N3 A1 A2; assert (Hnm : n + m <= s) by lia; exact (IH n m Hnm np u v0 t0 F1 F2 F3 N1 N2 N3 A1 A2)).
        assert (Tb : forall u v0 t0, frag2 ct u = true -> frag2 ct v0 = true -> frag2 ct t0 = true ->
                  lits_ok ct u = true -> lits_ok ct v0 = true -> lits_ok ct t0 = true ->
                  leh ct np m u v0 -> leh ct np n v0 t0 -> LE ct np u t0)
          by (intros u v0 t0 F1 F2 F3 N1 N2 N3 A1 A2; assert (Hnm : m + n <= s) by lia; exact (IH m n Hnm np u v0 t0 F1 F2 F3 N1 N2 N3 A1 A2)).
        set (xi := nth i X' TAny) in *. set (yi := nth i ys TAny) in *.
        destruct w; simpl.
        -- assert (vi = Inv) by (destruct Hcomp; auto). subst vi. destruct P1i as [A B]. destruct P2s as [C D].
           split; [exact (Tf xi yi z Fx Fy Fz Nxi Nyi Nz A C)|exact (Tb z yi xi Fz Fy Fx Nz Nyi Nxi D B)].
        -- destruct Hcomp as [Hc0|Hc0]; subst vi.
           ++ destruct P1i as [A B]. exact (Tf xi yi z Fx Fy Fz Nxi Nyi Nz A P2s).
           ++ exact (Tf xi yi z Fx Fy Fz Nxi Nyi Nz P1i P2s).
        -- destruct Hcomp as [Hc0|Hc0]; subst vi.
           ++ destruct P1i as [A B]. exact (Tb z yi xi Fz Fy Fx Nz Nyi Nxi P2s B).
           ++ exact (Tb z yi xi Fz Fy Fx Nz Nyi Nxi P2s P1i).
      * (* a closed argument *)
        simpl inst_spec in *. destruct w; simpl; [destruct P2s as [C D]; split; [exists m; exact C|exists m; exact D]|exists m; exact P2s|exists m; exact P2s].
Qed.

Lemma leh_atom_shape : forall np h l r, leh ct np h l r -> is_atomish l = true -> is_union r = false ->
  is_atomish r = true.
Proof.
  intros np h l r L A U. destruct h; [contradiction|]. rewrite leh_eq in L. unfold leh_step in L.
  unfold is_atomish. rewrite U. simpl.
  destruct l; simpl in A; try discriminate; destruct r; simpl in *; auto; try contradiction; discriminate.
Qed.


(* ---------------------------------------------------------------- transitivity through the literal contraction rule *)
Lemma lit_le_shape : forall np h c' m0 z, leh ct np (S h) (TLit c' m0) z -> is_union z = false ->
  z = TLit c' m0 \/ (exists e zs, z = TInst e zs /\ leh ct np h (TInst c' []) z).
Proof.
  intros np h c' m0 z L U. rewrite leh_eq in L. unfold leh_step in L.
  destruct z; try discriminate; try contradiction.
  - right. exists c, args. auto.
  - destruct L as [-> ->]. left; auto.
Qed.

(* a <= Union bs by contraction to c', and every item of bs is below c *)
Lemma tr_contr_l : forall s, TR s -> forall n m, S n + S m <= S s -> forall np ca xs bs c' v c,
  frag2 ct (TInst ca xs) = true -> frag2 ct (TUnion bs) = true -> frag2 ct c = true ->
  lits_ok ct (TInst ca xs) = true -> lits_ok ct (TUnion bs) = true -> lits_ok ct c = true ->
  contractible ct ca = true -> contractible ct c' = true -> complete ct bs c' = true -> In (TLit c' v) bs ->
  leh ct np n (TInst ca xs) (TInst c' []) -> (forall y, In y bs -> leh ct np m y c) ->
  LE ct np (TInst ca xs) c.
Proof.
  intros s IH n m Hs np ca xs bs c' v c Fa Fb Fc Na Nb Nc Cca Cc' Cmp Hv La Lb.
  destruct (frag2_atomish ct _ _ Fb Hv) as [_ Fv]. assert (Fi := lit_inst_frag ct c' v Fv).
  assert (Nv := lok_items _ _ Nb Hv). destruct (lok_lit_members c' v Nv Cc') as [Hvm [m1 [m2 [H1 [H2 Hne]]]]].
  assert (Hmem : forall m0, In m0 (members ct c') -> leh ct np m (TLit c' m0) c).
  { intros m0 Hm. apply Lb. apply (complete_in bs c' m0 Cmp Hm). }
  (* going on from Inst c' [] *)
  assert (Hroute : forall h' z, S h' <= m -> frag2 ct z = true -> lits_ok ct z = true ->
            leh ct np h' (TInst c' []) z -> LE ct np (TInst ca xs) z).
  { intros h' z Hh Fz Nz Lz. apply (IH n h' ltac:(lia) np (TInst ca xs) (TInst c' []) z); auto. }
  destruct (is_union c) eqn:Uc.
  - destruct c as [| | | | |cs|]; try discriminate.
    assert (Hitems : forall x, In x cs -> is_atomish x = true /\ frag2 ct x = true) by (intros; eapply frag2_atomish; eauto).
    destruct m as [|m']; [destruct (Hmem v Hvm)|].
    assert (Hdec : forall ms, incl ms (members ct c') ->
              LE ct np (TInst ca xs) (TUnion cs) \/ (forall m0, In m0 ms -> In (TLit c' m0) cs)).
    { induction ms as [|m0 ms IHm]; intros Hi; [right; intros ? []|].
      assert (L := Hmem m0 (Hi m0 (or_introl eq_refl))). rewrite leh_eq in L. unfold leh_step in L.
      destruct L as [[z [Hz Lz]]|[]].
      destruct (Hitems z Hz) as [Az Fz]. assert (Uz : is_union z = false).
      { unfold is_atomish in Az. apply andb_prop in Az. destruct Az as [Uz _]. apply negb_true_iff; auto. }
      destruct m' as [|m'']; [contradiction|].
      destruct (lit_le_shape np m'' c' m0 z Lz Uz) as [->|[e [zs [-> Lh]]]].
      - assert (Hi' : incl ms (members ct c')) by (intros x Hx; apply Hi; right; auto).
        destruct (IHm Hi') as [G|Hall]; [left; auto|].
        right. intros m3 [<-|Hm3]; auto.
      - left. apply (LE_union_r ct np _ cs (TInst e zs)); auto.
        apply (Hroute m'' (TInst e zs)); [lia|exact Fz|apply (lok_items _ _ Nc Hz)|exact Lh]. }
    destruct (Hdec (members ct c') (incl_refl _)) as [G|Hall]; auto.
    apply (LE_contract ct np ca xs cs c' v); auto.
    + apply in_complete; auto.
    + exists n; auto.
  - (* c is not a union: two distinct member literals below it *)
    destruct m as [|m']; [destruct (Hmem v Hvm)|].
    destruct (lit_le_shape np m' c' m1 c (Hmem m1 H1) Uc) as [E1|[e [zs [-> Lh]]]].
    + destruct (lit_le_shape np m' c' m2 c (Hmem m2 H2) Uc) as [E2|[e [zs [-> Lh]]]].
      * rewrite E1 in E2. inversion E2. contradiction.
      * apply (Hroute m' (TInst e zs)); auto.
    + apply (Hroute m' (TInst e zs)); auto.
Qed.

(* a <= Inst cb (an atom) and Inst cb <= Union cs by contraction to c2 *)
Lemma tr_contr_r : forall s, TR s -> forall n m, S n + S m <= S s -> forall np a cb ys cs c2 v,
  is_atomish a = true ->
  frag2 ct a = true -> frag2 ct (TInst cb ys) = true -> frag2 ct (TUnion cs) = true ->
  lits_ok ct a = true -> lits_ok ct (TInst cb ys) = true -> lits_ok ct (TUnion cs) = true ->
  contractible ct cb = true -> contractible ct c2 = true -> complete ct cs c2 = true -> In (TLit c2 v) cs ->
  leh ct np (S n) a (TInst cb ys) -> leh ct np m (TInst cb ys) (TInst c2 []) ->
  LE ct np a (TUnion cs).
Proof.
  intros s IH n m Hs np a cb ys cs c2 v Aa Fa Fb Fc Na Nb Nc Ccb Cc2 Cmp Hv La Lb.
  destruct (frag2_atomish ct _ _ Fc Hv) as [_ Fv]. assert (Fi := lit_inst_frag ct c2 v Fv).
  assert (Nv := lok_items _ _ Nc Hv). destruct (lok_lit_members c2 v Nv Cc2) as [Hvm _].
  assert (HB2 := to_contr_nominal np m cb ys c2 [] Lb Cc2).
  destruct a as [| | |ca xs|ca va| |]; try discriminate.
  - (* None *)
    rewrite leh_eq in La. unfold leh_step in La. subst cb.
    assert (F := plain_not_contr _ (object_plain ct Hwf)). congruence.
  - (* Inst *)
    assert (HB1 := to_contr_nominal np (S n) ca xs cb ys La Ccb).
    assert (Cca := contr_up ca cb HB1 Ccb).
    apply (LE_contract ct np ca xs cs c2 v); auto.
    apply (IH (S n) m ltac:(lia) np (TInst ca xs) (TInst cb ys) (TInst c2 [])); auto.
  - (* Lit ca va *)
    rewrite leh_eq in La. unfold leh_step in La.
    assert (HB1 := to_contr_nominal np n ca [] cb ys La Ccb).
    assert (HB := has_base_trans ct Hwf ca cb c2 HB1 HB2).
    destruct (hb_cases _ _ HB) as [<-|Hp].
    + assert (Cca := Cc2). destruct (lok_lit_members ca va Na Cca) as [Hva _].
      apply (LE_union_r ct np _ cs (TLit ca va)); auto. apply (complete_in cs ca va Cmp Hva). apply LE_lit_lit.
    + destruct (Pos.eq_dec c2 ca) as [->|Hne].
      * destruct (lok_lit_members ca va Na Cc2) as [Hva _].
        apply (LE_union_r ct np _ cs (TLit ca va)); auto. apply (complete_in cs ca va Cmp Hva). apply LE_lit_lit.
      * assert (E := contr_proper_nomembers ca c2 Hp Hne Cc2). rewrite E in Hvm. destruct Hvm.
Qed.

Theorem tr_all : forall s, TR s.
Proof.
  induction s as [|s IH]; intros n m Hs np a b c Fa Fb Fc Na Nb Nc L1 L2.
  - destruct n; [contradiction|lia].
  - destruct n; [contradiction|]. destruct m; [contradiction|].
    assert (L1' := L1). assert (L2' := L2).
    rewrite leh_eq in L1, L2. unfold leh_step in L1, L2.
    assert (Hitems : forall ts x, frag2 ct (TUnion ts) = true -> In x ts -> is_atomish x = true /\ frag2 ct x = true)
      by (intros; eapply frag2_atomish; eauto).
    destruct (is_never a) eqn:EnA; [destruct a; try discriminate; apply LE_never|].
    destruct (is_union a) eqn:Ua.
    { destruct a as [| | | | |als|]; try discriminate. apply LE_union_l. intros x Hx.
      destruct (Hitems _ _ Fa Hx) as [_ Fx]. assert (Nx := lok_items _ _ Na Hx).
      apply (IH n (S m) ltac:(lia) np x b c); auto. }
    assert (Aa : is_atomish a = true) by (unfold is_atomish; rewrite EnA, Ua; auto).
    (* b *)
    destruct (is_union b) eqn:Ub.
    { destruct b as [| | | | |bs|]; try discriminate.
      assert (Lb : forall y, In y bs -> leh ct np m y c) by exact L2.
      assert (Lx : (exists y, In y bs /\ leh ct np n a y) \/
                   (exists ca xs c' v, a = TInst ca xs /\ contractible ct ca = true /\ contractible ct c' = true /\
                      complete ct bs c' = true /\ In (TLit c' v) bs /\ leh ct np n a (TInst c' []))).
      { destruct a as [| | |ca0 xs0|ca0 va0| |]; try discriminate; destruct L1 as [L1|L1]; auto; try contradiction.
        destruct L1 as [Cc [c' [C1 [C2 [[v Hv] Lc]]]]]. right. exists ca0, xs0, c', v. auto 10. }
      destruct Lx as [[y [Hy Ly]]|[ca [xs [c' [v [-> [Cc [C1 [C2 [Hv Lc]]]]]]]]]].
      - destruct (Hitems _ _ Fb Hy) as [_ Fy]. assert (Ny := lok_items _ _ Nb Hy).
        apply (IH n m ltac:(lia) np a y c); auto.
      - apply (tr_contr_l s IH n m Hs np ca xs bs c' v c); auto. }
    assert (Ab := leh_atom_shape np (S n) a b L1' Aa Ub).
    (* c *)
    destruct (is_union c) eqn:Uc.
    { destruct c as [| | | | |cs|]; try discriminate.
      assert (Lz : (exists z, In z cs /\ leh ct np m b z) \/
                   (exists cb ys c2 v, b = TInst cb ys /\ contractible ct cb = true /\ contractible ct c2 = true /\
                      complete ct cs c2 = true /\ In (TLit c2 v) cs /\ leh ct np m b (TInst c2 []))).
      { unfold is_atomish in Ab. destruct b as [| | |cb0 ys0|cb0 vb0| |]; simpl in Ab, Ub; try discriminate;
          destruct L2 as [L2|L2]; auto; try contradiction.
        destruct L2 as [Cc [c2 [C1 [C2 [[v Hv] Lc]]]]]. right. exists cb0, ys0, c2, v. auto 10. }
      destruct Lz as [[z [Hz Lz]]|[cb [ys [c2 [v [-> [Cc [C1 [C2 [Hv Lc]]]]]]]]]].
      - destruct (Hitems _ _ Fc Hz) as [_ Fz]. assert (Nz := lok_items _ _ Nc Hz).
        apply (LE_union_r ct np a cs z); auto. apply (IH (S n) m ltac:(lia) np a b z); auto.
      - apply (tr_contr_r s IH n m Hs np a cb ys cs c2 v); auto. }
    assert (Ac := leh_atom_shape np (S m) b c L2' Ab Uc).
    (* three atoms *)
    destruct a as [| | |ca xs|ca va| |]; try (simpl in Fa; discriminate); try discriminate;
    destruct b as [| | |cb ys|cb vb| |]; try (simpl in Fb; discriminate); try discriminate; try contradiction;
    destruct c as [| | |cc zs|cc vc| |]; try (simpl in Fc; discriminate); try discriminate; try contradiction.
    + apply LE_none_none.
    + subst cc. apply LE_none_obj.
    + subst cb. rewrite (le_from_obj _ _ _ _ _ L2'). apply LE_none_obj.
    + apply (tr_inst s IH n m Hs np ca xs cb ys cc zs); auto.
    + apply LE_lit_inst. assert (Ni := lok_inst_nil ca).
      apply (IH n (S m) ltac:(lia) np (TInst ca []) (TInst cb ys) (TInst cc zs)); auto.
      eapply lit_inst_frag; eauto.
    + destruct L1 as [-> ->]. apply LE_lit_inst. exists m. exact L2.
    + destruct L1 as [-> ->]. destruct L2 as [-> ->]. apply LE_lit_lit.
Qed.

Theorem LE_trans : forall np a b c, frag2 ct a = true -> frag2 ct b = true -> frag2 ct c = true ->
  lits_ok ct a = true -> lits_ok ct b = true -> lits_ok ct c = true ->
  LE ct np a b -> LE ct np b c -> LE ct np a c.
Proof. intros np a b c Fa Fb Fc Na Nb Nc [n L1] [m L2]. exact (tr_all (n + m) n m (le_n _) np a b c Fa Fb Fc Na Nb Nc L1 L2). Qed.

(* transitivity of the subtype function on F2 *)
Theorem sub_trans_F2 : forall k a b c, k_notparams k = false -> kind_ok k = true ->
  frag2 ct a = true -> frag2 ct b = true -> frag2 ct c = true ->
  lits_ok ct a = true -> lits_ok ct b = true -> lits_ok ct c = true ->
  forall n m, sub ct no_cache n k a b = Some true -> sub ct no_cache m k b c = Some true ->
  forall q, trueish (sub ct no_cache q k a c).
Proof.
  intros k a b c Kn Kk Fa Fb Fc Na Nb Nc n m H1 H2 q.
  assert (L1 := sub_sound2 ct Hwf no_cache (Hlk0 ct) n k a b Kn Kk Fa Fb H1).
  assert (L2 := sub_sound2 ct Hwf no_cache (Hlk0 ct) m k b c Kn Kk Fb Fc H2).
  exact (sub_complete2 ct Hwf no_cache (Hlk0 ct) _ a c (LE_trans _ a b c Fa Fb Fc Na Nb Nc L1 L2) Fa Fc k eq_refl Kn Kk q).
Qed.
End T2.
