(* Property C08: the type lattice obeys its laws.  Only theorem statements closed by `exact`,
   each followed by Print Assumptions; Examples show that hypotheses are satisfiable. *)
From Coq Require Import ZArith List Bool PArith String.
From Coq Require Import Sorting.Permutation.
From C08 Require Import Model Proofs ProofsKind ProofsTrans ProofsTrans2 ProofsUnion ProofsMeet ProofsMeetComm ProofsJoin ProofsFuel ProofsKey ProofsF2 ProofsF2Sound ProofsF2Comp ProofsF2Eq ProofsF2Trans ProofsF2Union ProofsF2Meet ProofsF2MeetComm ProofsGuard Statement.
From Gen Require Import SubtypeKind.
Import ListNotations.

(* subtyping and proper subtyping are reflexive: every kind, every cache content, every class table *)
Theorem subtype_refl : forall ct lk n k t, sub ct lk (S n) k t t = Some true.
Proof. exact sub_refl. Qed.
Print Assumptions subtype_refl.

Theorem subtype_refl_statement : Statement.subtype_refl.
Proof. intros ct n t. split; apply sub_refl. Qed.
Print Assumptions subtype_refl_statement.

(* an answer never depends on the fuel: two defined answers are equal *)
Theorem answers_fuel_independent : forall ct n m k l r x y,
  sub ct no_cache n k l r = Some x -> sub ct no_cache m k l r = Some y -> x = y.
Proof. exact fuel_irrelevant. Qed.
Print Assumptions answers_fuel_independent.

(* invariant "cache is contained in the graph of the relation for its kind" => same answers,
   for ANY way of filling the cache *)
Theorem cache_sound_transparent : forall ct lk, sound ct lk ->
  forall n m k l r x y, sub ct lk n k l r = Some x -> sub ct no_cache m k l r = Some y -> x = y.
Proof. exact sub_agree. Qed.
Print Assumptions cache_sound_transparent.

(* the TypeState state machine (lookup / record / reset) never changes an answer; partial: recorded
   Instance keys are union-free *)
Theorem cache_transparent_partial : forall ct fuel ops, Forall op_ok ops ->
  Forall2 (fun a b => forall x y, a = Some x -> b = Some y -> x = y)
          (run_with_cache ct fuel empty_cache ops) (run_uncached ct fuel ops).
Proof. intros ct fuel ops H. exact (run_cache_agree ct fuel ops empty_cache (cache_ok_empty ct) H). Qed.
Print Assumptions cache_transparent_partial.

(* proper subtype => subtype, for EVERY class table (incl. invariant parameters: is_same_type fast path) *)
Theorem proper_implies_subtype : forall ct n l r, is_proper_subtype ct n l r = Some true ->
  forall m b, is_subtype ct m l r = Some b -> b = true.
Proof. intros ct n l r Hp m. exact (sub_kind_mono_full ct n m K_proper K_sub l r kle_proper_sub Hp). Qed.
Print Assumptions proper_implies_subtype.

Theorem proper_implies_subtype_statement : Statement.proper_implies_subtype.
Proof. intros ct _ n l r Hp m b. exact (sub_kind_mono_full ct n m K_proper K_sub l r kle_proper_sub Hp b). Qed.
Print Assumptions proper_implies_subtype_statement.

(* the kind used by make_simplified_union / meet_types (ignore_promotions=True) is below the default kinds *)
Theorem proper_np_implies_proper : forall ct n l r, sub ct no_cache n K_proper_np l r = Some true ->
  forall m b, (is_proper_subtype ct m l r = Some b -> b = true) /\ (is_subtype ct m l r = Some b -> b = true).
Proof.
  intros ct n l r Hp m b. split.
  - exact (sub_kind_mono_full ct n m K_proper_np K_proper l r kle_proper_np_proper Hp b).
  - exact (sub_kind_mono_full ct n m K_proper_np K_sub l r kle_proper_np_sub Hp b).
Qed.
Print Assumptions proper_np_implies_proper.

(* is_same_type => subtype in both directions *)
Theorem same_type_implies_equivalent : forall ct n a b, is_same_type ct n a b = Some true ->
  forall m x, (is_subtype ct m a b = Some x -> x = true) /\ (is_subtype ct m b a = Some x -> x = true).
Proof.
  intros ct n a b H m x.
  destruct (same_lemma ct n (sub_kind_mono_full ct n) a b K_proper_np eq_refl H m K_sub kle_proper_np_sub) as [A [B _]].
  split; [apply A | apply B].
Qed.
Print Assumptions same_type_implies_equivalent.

(* FULL transitivity (Statement.subtype_trans) is REFUTED by the faithful model, inside the modelled language and
   without Any: Uno <: Literal[Uno.X] | Never <: Literal[Uno.X] but not Uno <: Literal[Uno.X], for an enum Uno
   with the single member X (is_subtype and is_proper_subtype alike).  Replayed on real mypy by the harness. *)
Theorem subtype_trans_refuted : exists ct a b c,
  wf_ct ct = true /\ any_free a = true /\ any_free b = true /\ any_free c = true /\
  is_subtype ct 10 a b = Some true /\ is_subtype ct 10 b c = Some true /\ is_subtype ct 10 a c = Some false.
Proof.
  exists refute_ct, r_a, r_b, r_c.
  exact (conj (proj1 subtype_trans_refuted_witness) (conj (proj1 (proj2 subtype_trans_refuted_witness))
    (conj (proj1 (proj2 (proj2 subtype_trans_refuted_witness))) (conj (proj1 (proj2 (proj2 (proj2 subtype_trans_refuted_witness))))
    (conj (proj1 (proj2 (proj2 (proj2 (proj2 subtype_trans_refuted_witness)))))
    (conj (proj1 (proj2 (proj2 (proj2 (proj2 (proj2 subtype_trans_refuted_witness))))))
          (proj1 (proj2 (proj2 (proj2 (proj2 (proj2 (proj2 subtype_trans_refuted_witness))))))))))))).
Qed.
Print Assumptions subtype_trans_refuted.

Theorem subtype_trans_statement_refuted : ~ Statement.subtype_trans.
Proof.
  intros H. destruct subtype_trans_refuted_witness as [W [A [B [C [H1 [H2 [H3 _]]]]]]].
  specialize (H refute_ct W r_a r_b r_c A B C 10%nat 10%nat 10%nat H1 H2 _ H3). discriminate.
Qed.
Print Assumptions subtype_trans_statement_refuted.

(* transitivity on fragment F1 (Model.frag1: None, Never, non-generic non-protocol classes other than bool/enums,
   their literals, flat non-empty unions of these), every well-formed class table, every kind that checks type
   parameters (is_subtype, is_proper_subtype, with or without promotions) *)
Theorem subtype_trans_partial : forall ct, wf_ct ct = true ->
  forall k a b c, k_notparams k = false -> frag1 ct a = true -> frag1 ct b = true -> frag1 ct c = true ->
  forall n m, sub ct no_cache n k a b = Some true -> sub ct no_cache m k b c = Some true ->
  forall q y, sub ct no_cache q k a c = Some y -> y = true.
Proof. exact sub_trans_F1. Qed.
Print Assumptions subtype_trans_partial.

(* make_simplified_union on F1 atoms: the result is in F1 and equivalent (both directions, every kind that checks
   type parameters) to the plain union and to the simplified union of any permutation of the items *)
Theorem simplified_union_equiv_partial : forall ct, wf_ct ct = true ->
  forall n n' items items' u u',
  items <> [] -> forallb (atom_ok ct) items = true -> Permutation items items' ->
  make_simplified_union ct n items = Some u -> make_simplified_union ct n' items' = Some u' ->
  frag1 ct u = true /\
  forall k, k_notparams k = false -> forall m,
    trueish (sub ct no_cache m k u (TUnion items)) /\ trueish (sub ct no_cache m k (TUnion items) u) /\
    trueish (sub ct no_cache m k u u') /\ trueish (sub ct no_cache m k u' u).
Proof. exact simplified_union_equiv_F1. Qed.
Print Assumptions simplified_union_equiv_partial.

(* meet_types is NOT always a lower bound (Statement.meet_lower is refuted inside the language, Any-free):
   meet(Contra[float], Contra[int]) = Contra[int] in both argument orders, but Contra[int] is not a subtype of
   Contra[float] (Contra contravariant, int promoted to float): the first, promotion-free proper-subtype test of
   meet_types fails, the visitor then meets the ARGUMENTS regardless of variance.  Replayed on real mypy. *)
Theorem meet_lower_refuted : exists ct s t x,
  wf_ct ct = true /\ any_free s = true /\ any_free t = true /\
  meet_types ct 20 s t = Some x /\ meet_types ct 20 t s = Some x /\ is_subtype ct 20 x s = Some false.
Proof.
  exists ml_ct, ml_s, ml_t, ml_t. destruct meet_lower_refuted_witness as [A [B [C [D [E [F _]]]]]]. auto 10.
Qed.
Print Assumptions meet_lower_refuted.

Theorem meet_lower_statement_refuted : ~ Statement.meet_lower.
Proof.
  intros H. destruct meet_lower_refuted_witness as [A [_ [_ [D [_ [F _]]]]]].
  destruct (H ml_ct A 20%nat ml_s ml_t ml_t D 20%nat) as [L _]. specialize (L _ F). discriminate.
Qed.
Print Assumptions meet_lower_statement_refuted.

(* meet_types on F1: the meet is in F1 and a subtype of both arguments (either argument order is covered by the
   quantification over s and t) *)
Theorem meet_lower_partial : forall ct, wf_ct ct = true ->
  forall n s t x, frag1 ct s = true -> frag1 ct t = true -> meet_types ct n s t = Some x ->
  frag1 ct x = true /\ forall m, trueish (is_subtype ct m x s) /\ trueish (is_subtype ct m x t).
Proof.
  intros ct Hwf n s t x Fs Ft H. destruct (meet_spec ct Hwf n n s t x Fs Ft H) as [F [L1 [L2 _]]].
  split; auto. intros m. split; apply (C_le ct K_sub eq_refl); auto.
Qed.
Print Assumptions meet_lower_partial.

(* meet_types(s,t) and meet_types(t,s) are equivalent on F1 *)
Theorem meet_comm_equiv_partial : forall ct, wf_ct ct = true ->
  forall n s t x y, frag1 ct s = true -> frag1 ct t = true ->
  meet_types ct n s t = Some x -> meet_types ct n t s = Some y ->
  forall m, trueish (is_subtype ct m x y) /\ trueish (is_subtype ct m y x).
Proof.
  intros ct Hwf n s t x y Fs Ft H1 H2 m.
  destruct (meet_comm_F1 ct Hwf n n s t x y Fs Ft H1 H2) as [Fx [Fy [L1 L2]]].
  split; apply (C_le ct K_sub eq_refl); auto.
Qed.
Print Assumptions meet_comm_equiv_partial.

(* the result of meet_types never depends on its fuel (all types, all class tables) *)
Theorem meet_fuel_independent : forall ct m n n' s t x y,
  meet ct no_cache m n s t = Some x -> meet ct no_cache m n' s t = Some y -> x = y.
Proof. exact meet_agree. Qed.
Print Assumptions meet_fuel_independent.

(* join_types on F1up (Model.frag_up: F1 restricted to classes all of whose ancestors are plain): the join is in
   F1up and a supertype of both arguments (either argument order is covered by the quantification over s and t) *)
Theorem join_upper_partial : forall ct, wf_ct ct = true ->
  forall n s t j, frag_up ct s = true -> frag_up ct t = true -> join_types ct n s t = Some j ->
  frag_up ct j = true /\ forall m, trueish (is_subtype ct m s j) /\ trueish (is_subtype ct m t j).
Proof.
  intros ct Hwf n s t j Fs Ft H.
  destruct (proj1 (join_spec ct Hwf n n) s t j Fs Ft H) as [F [L1 L2]].
  split; auto. intros m. split; apply (C_le ct K_sub eq_refl); auto using up_frag.
Qed.
Print Assumptions join_upper_partial.

(* join(s,t) and join(t,s) are NOT always equivalent (Statement.join_comm_equiv is refuted inside the language, with
   non-generic classes only): X(B, C), Y(C, B) with B(A), C(A): join(X, Y) = B, join(Y, X) = C (ties between bases
   are broken by the order of the FIRST argument's bases).  Replayed on real mypy by the harness. *)
Theorem join_comm_equiv_refuted : exists ct s t j1 j2,
  wf_ct ct = true /\ join_types ct 20 s t = Some j1 /\ join_types ct 20 t s = Some j2 /\
  is_subtype ct 20 j1 j2 = Some false /\ is_subtype ct 20 j2 j1 = Some false.
Proof.
  exists jc_ct, (TInst 5%positive []), (TInst 6%positive []), (TInst 3%positive []), (TInst 4%positive []).
  exact join_comm_refuted_witness.
Qed.
Print Assumptions join_comm_equiv_refuted.

Theorem join_comm_equiv_statement_refuted : ~ Statement.join_comm_equiv.
Proof.
  intros H. destruct join_comm_refuted_witness as [W [J1 [J2 [S1 _]]]].
  destruct (H jc_ct W 20%nat _ _ _ _ J1 J2 20%nat) as [D _]. specialize (D _ S1). discriminate.
Qed.
Print Assumptions join_comm_equiv_statement_refuted.

(* sufficient fuel on F1: if promotion chains have length <= N (Model.chains_ok, evaluated on the real class table by
   the harness), every subtype query between F1 types is answered at every fuel > N + 3 *)
Theorem fuel_sufficient_partial : forall ct N, chains_ok ct N = true ->
  forall n k l r, N + 3 < n -> frag1 ct l = true -> frag1 ct r = true -> sub ct no_cache n k l r <> None.
Proof. exact fuel_sufficient_F1. Qed.
Print Assumptions fuel_sufficient_partial.

(* transitivity on F1 without any definedness side condition *)
Theorem subtype_trans_partial_total : forall ct N, wf_ct ct = true -> chains_ok ct N = true ->
  forall k a b c, k_notparams k = false -> frag1 ct a = true -> frag1 ct b = true -> frag1 ct c = true ->
  forall n m, sub ct no_cache n k a b = Some true -> sub ct no_cache m k b c = Some true ->
  forall q, N + 3 < q -> sub ct no_cache q k a c = Some true.
Proof.
  intros ct N Hwf Hch k a b c Hk Fa Fb Fc n m H1 H2 q Hq.
  assert (D := fuel_sufficient_F1 ct N Hch q k a c Hq Fa Fc).
  destruct (sub ct no_cache q k a c) as [y|] eqn:E; [|contradiction].
  rewrite (sub_trans_F1 ct Hwf k a b c Hk Fa Fb Fc n m H1 H2 q y E). reflexivity.
Qed.
Print Assumptions subtype_trans_partial_total.

(* cache key: every attribute of a subtype context that mypy/subtypes.py reads, except `options`, is an element of
   the tuple built by SubtypeVisitor.build_subtype_kind, which also contains strict_optional and proper_subtype
   (table regenerated from the source on every run) *)
Theorem subtype_kind_key_complete : forall f, In f context_reads -> f <> "options"%string -> In f kind_key_fields.
Proof. exact key_complete. Qed.
Print Assumptions subtype_kind_key_complete.

Theorem subtype_kind_key_table : key_table_ok = true.
Proof. exact key_table. Qed.
Print Assumptions subtype_kind_key_table.

(* ================================================================ fragment F2 (Model.frag2)
   None, Never, literals of non-generic classes, generic instances C[args] (declared arity, per-parameter variance
   Inv/Cov/Contra, arguments again in F2, unbounded nesting) of non-protocol classes, bool/enums and their literals with the
   literal-contraction rule of _is_subtype, promotions, flat non-empty unions of such atoms.  Kinds: is_subtype (any flags but ignore_type_params) and is_proper_subtype with
   ignore_promotions (kind_ok); wf_gen = coherence of generic bases + variance compatibility, evaluated on the real table. *)

(* transitivity on F2 for all types NOT in family X2 (lits_ok t = true): X2 = types containing a literal of bool / an enum
   whose value is not a declared member or whose class has fewer than two distinct members -- the family of the
   counterexample subtype_trans_refuted (single-member enum vs its literal).  wf_contr: in the class table a class
   below bool/an enum is one itself and proper bool/enum ancestors (enum.Enum) have no members; evaluated on the real table. *)
Theorem subtype_trans_F2 : forall ct, wf_ct ct = true -> wf_gen ct = true -> wf_contr ct = true ->
  forall k a b c, k_notparams k = false -> kind_ok k = true ->
  frag2 ct a = true -> frag2 ct b = true -> frag2 ct c = true ->
  lits_ok ct a = true -> lits_ok ct b = true -> lits_ok ct c = true ->
  forall n m, sub ct no_cache n k a b = Some true -> sub ct no_cache m k b c = Some true ->
  forall q y, sub ct no_cache q k a c = Some y -> y = true.
Proof. exact sub_trans_F2. Qed.
Print Assumptions subtype_trans_F2.

(* make_simplified_union on F2 atoms outside family X2 (generic instances, bool/enum literals: the two passes of
   _remove_redundant_union_items with the order-sensitive literal-fallback shortcut, then the literal contraction): the
   result is in F2, equivalent to the plain union, and equivalent to the result for any permutation of the items *)
Theorem simplified_union_equiv_F2 : forall ct, wf_ct ct = true -> wf_gen ct = true -> wf_contr ct = true ->
  forall n n' items items' u u',
  items <> [] -> forallb (good ct) items = true -> Permutation items items' ->
  make_simplified_union ct n items = Some u -> make_simplified_union ct n' items' = Some u' ->
  frag2 ct u = true /\
  forall k, k_notparams k = false -> kind_ok k = true -> forall m,
    trueish (sub ct no_cache m k u (TUnion items)) /\ trueish (sub ct no_cache m k (TUnion items) u) /\
    trueish (sub ct no_cache m k u u') /\ trueish (sub ct no_cache m k u' u).
Proof. exact simplified_union_equiv_F2_thm. Qed.
Print Assumptions simplified_union_equiv_F2.

(* meet_types on F2 outside families X2 and X3 (covt t = true: no class with an invariant or contravariant parameter;
   X3 contains the witness of meet_lower_refuted): the meet stays in the fragment and is a subtype of both arguments,
   in either argument order (quantification over s and t) *)
Theorem meet_lower_F2 : forall ct, wf_ct ct = true -> wf_gen ct = true -> wf_contr ct = true ->
  forall n s t x, goodm ct s = true -> goodm ct t = true -> meet_types ct n s t = Some x ->
  goodm ct x = true /\ forall m y, (is_subtype ct m x s = Some y -> y = true) /\ (is_subtype ct m x t = Some y -> y = true).
Proof.
  intros ct Hwf Hgen Hc n s t x Gs Gt H.
  destruct (meet_spec2 ct Hwf Hgen Hc n n s t x Gs Gt H) as [Gx [L1 [L2 _]]].
  destruct (goodm_parts ct _ Gx) as [Fx _]. destruct (goodm_parts ct _ Gs) as [Fs _]. destruct (goodm_parts ct _ Gt) as [Ft _].
  split; auto. intros m y. split.
  - exact (sub_complete2 ct Hwf no_cache (Hlk0 ct) false x s L1 Fx Fs K_sub eq_refl eq_refl eq_refl m y).
  - exact (sub_complete2 ct Hwf no_cache (Hlk0 ct) false x t L2 Fx Ft K_sub eq_refl eq_refl eq_refl m y).
Qed.
Print Assumptions meet_lower_F2.

(* meet_comm_equiv on F2 outside families X2 and X3: the two argument orders give equivalent types *)
Theorem meet_comm_equiv_F2 : forall ct, wf_ct ct = true -> wf_gen ct = true -> wf_contr ct = true ->
  forall n s t x y, goodm ct s = true -> goodm ct t = true ->
  meet_types ct n s t = Some x -> meet_types ct n t s = Some y ->
  goodm ct x = true /\ goodm ct y = true /\
  forall m b, (is_subtype ct m x y = Some b -> b = true) /\ (is_subtype ct m y x = Some b -> b = true).
Proof.
  intros ct Hwf Hgen Hc n s t x y Gs Gt H1 H2.
  destruct (meet_comm_F2 ct Hwf Hgen Hc n n s t x y Gs Gt H1 H2) as [Gx [Gy [L1 L2]]].
  destruct (goodm_parts ct _ Gx) as [Fx _]. destruct (goodm_parts ct _ Gy) as [Fy _].
  split; auto. split; auto. intros m b. split.
  - exact (sub_complete2 ct Hwf no_cache (Hlk0 ct) false x y L1 Fx Fy K_sub eq_refl eq_refl eq_refl m b).
  - exact (sub_complete2 ct Hwf no_cache (Hlk0 ct) false y x L2 Fy Fx K_sub eq_refl eq_refl eq_refl m b).
Qed.
Print Assumptions meet_comm_equiv_F2.

(* ---- guarded laws: ONE decidable guard, defined on the whole type language and on every class table (Model.trans_guard,
   Model.meet_guard), replaces all hypotheses.  The harness evaluates the extracted guards on the real class table and on
   every triple / pair of the law search: evidence reports how often they hold and that no counterexample satisfies them.
   trans_guard ct a b c = table hypotheses && each of a, b, c is in F2 and outside the refuted family X2. *)
Theorem subtype_trans_guarded : forall ct a b c, trans_guard ct a b c = true ->
  (forall n m, is_subtype ct n a b = Some true -> is_subtype ct m b c = Some true ->
     forall q y, is_subtype ct q a c = Some y -> y = true) /\
  (forall n m, sub ct no_cache n K_proper_np a b = Some true -> sub ct no_cache m K_proper_np b c = Some true ->
     forall q y, sub ct no_cache q K_proper_np a c = Some y -> y = true).
Proof. exact trans_guarded_entry. Qed.
Print Assumptions subtype_trans_guarded.

(* the witness of subtype_trans_refuted is excluded by the guard, through lits_ok (family X2), on a table that satisfies
   the table part of the guard *)
Theorem subtype_trans_guard_excludes_witness :
  trans_guard refute_ct r_a r_b r_c = false /\ lits_ok refute_ct r_c = false /\ table_guard refute_ct = true.
Proof. exact trans_witness_outside_guard. Qed.
Print Assumptions subtype_trans_guard_excludes_witness.

(* meet_guard ct s t = table hypotheses && s, t in F2 outside X2 and outside X3 (no invariant/contravariant parameter, the
   family of meet_lower_refuted).  The meet satisfies the guard again and is below both arguments ... *)
Theorem meet_lower_guarded : forall ct s t, meet_guard ct s t = true ->
  forall n x, meet_types ct n s t = Some x ->
  meet_guard ct x x = true /\ forall m y, (is_subtype ct m x s = Some y -> y = true) /\ (is_subtype ct m x t = Some y -> y = true).
Proof. exact meet_lower_guarded_l. Qed.
Print Assumptions meet_lower_guarded.

(* ... and the two argument orders give equivalent types *)
Theorem meet_comm_equiv_guarded : forall ct s t, meet_guard ct s t = true ->
  forall n x y, meet_types ct n s t = Some x -> meet_types ct n t s = Some y ->
  forall m b, (is_subtype ct m x y = Some b -> b = true) /\ (is_subtype ct m y x = Some b -> b = true).
Proof. exact meet_comm_guarded_l. Qed.
Print Assumptions meet_comm_equiv_guarded.

(* answers on F2 only depend on the Type.__eq__ classes of the two types (UnionType.__eq__ = set equality of items) *)
Theorem eq_invariant_F2 : forall ct, wf_ct ct = true ->
  forall k l r l' r', k_notparams k = false -> kind_ok k = true ->
  frag2 ct l = true -> frag2 ct r = true -> frag2 ct l' = true -> frag2 ct r' = true ->
  ty_eqb l l' = true -> ty_eqb r r' = true ->
  forall n m x y, sub ct no_cache n k l r = Some x -> sub ct no_cache m k l' r' = Some y -> x = y.
Proof. exact eq_invariant2. Qed.
Print Assumptions eq_invariant_F2.

(* cache_transparent on F2 WITHOUT the union-free restriction: the lookup/record/reset machine, with keys compared by
   Type.__eq__, never changes an answer when the recorded Instance keys are in F2 *)
Theorem cache_transparent_F2 : forall ct, wf_ct ct = true -> forall fuel ops, Forall (op_ok2 ct) ops ->
  Forall2 (fun a b => forall x y, a = Some x -> b = Some y -> x = y)
          (run_with_cache ct fuel empty_cache ops) (run_uncached ct fuel ops).
Proof. intros ct Hwf fuel ops H. exact (run_cache_agree2 ct Hwf fuel ops empty_cache (cache_ok2_empty ct) H). Qed.
Print Assumptions cache_transparent_F2.

(* soundness and completeness of the subtype function w.r.t. the explicit order LE on F2 *)
Theorem subtype_characterised_F2 : forall ct, wf_ct ct = true ->
  forall k l r, k_notparams k = false -> kind_ok k = true -> frag2 ct l = true -> frag2 ct r = true ->
  (forall n, sub ct no_cache n k l r = Some true -> LE ct (k_nopromo k) l r) /\
  (LE ct (k_nopromo k) l r -> forall m y, sub ct no_cache m k l r = Some y -> y = true).
Proof.
  intros ct Hwf k l r Kn Kk Fl Fr. split.
  - intros n H. exact (sub_sound2 ct Hwf no_cache (Hlk0 ct) n k l r Kn Kk Fl Fr H).
  - intros L m. exact (sub_complete2 ct Hwf no_cache (Hlk0 ct) _ l r L Fl Fr k eq_refl Kn Kk m).
Qed.
Print Assumptions subtype_characterised_F2.

(* ---------------------------------------------------------------- hypotheses are satisfiable *)
Local Open Scope positive_scope.
Definition ex_cls (mro : list cid) (vs : list variance) (bases : list cid) (am : list (cid * list aspec))
  (pr : list cid) : cls :=
  {| c_mro := mro; c_var := vs; c_bases := bases; c_amap := am; c_promote := pr; c_enum := None; c_protocol := false |}.
(* 1 object, 2 int (promotes to 3 float), 3 float, 4 tuple[T_co], 5 bool(int), 6 Co[T_co], 7 CoSub[T_co](Co[T_co]) *)
Definition ex_ct : ctable :=
  {| classes := [(1, ex_cls [1] [] [] [] []); (2, ex_cls [2; 1] [] [1] [] [3]); (3, ex_cls [3; 1] [] [1] [] []);
                 (4, ex_cls [4; 1] [Cov] [1] [] []); (5, ex_cls [5; 2; 1] [] [2] [] []);
                 (6, ex_cls [6; 1] [Cov] [1] [] []); (7, ex_cls [7; 6; 1] [Cov] [6] [(6, [AP 0%nat])] [])];
     k_object := 1; k_tuple := 4; k_bool := 5; k_sized := 9; k_tuplelike := [4] |}.

Example ex_wf : wf_ct ex_ct = true /\ chains_ok ex_ct 1 = true.
Proof. vm_compute. auto. Qed.
(* a non-trivial proper subtype: CoSub[tuple[bool, Literal[1]]] <: Co[tuple[int, int]] needs the tuple,
   literal, promotion-free nominal and covariance rules *)
Example ex_proper : is_proper_subtype ex_ct 10%nat (TInst 7 [TTuple [TInst 5 []; TLit 2 1%Z]])
                                             (TInst 6 [TTuple [TInst 2 []; TInst 2 []]]) = Some true.
Proof. vm_compute. reflexivity. Qed.
Example ex_promotion : is_subtype ex_ct 10%nat (TUnion [TInst 5 []; TNone]) (TUnion [TNone; TInst 3 []]) = Some true
  /\ sub ex_ct no_cache 10%nat K_proper_np (TInst 2 []) (TInst 3 []) = Some false.
Proof. vm_compute. auto. Qed.
(* F1 is inhabited non-trivially: bool is excluded, int/float/literals/unions are inside *)
Example ex_frag1 : frag1 ex_ct (TUnion [TLit 2 1%Z; TNone; TInst 3 []]) = true /\ frag1 ex_ct (TInst 5 []) = false
  /\ is_subtype ex_ct 10%nat (TLit 2 1%Z) (TUnion [TNone; TInst 3 []]) = Some true.
Proof. vm_compute. auto. Qed.
Example ex_frag_up : frag_up ex_ct (TUnion [TLit 2 1%Z; TNone; TInst 3 []]) = true
  /\ join_types ex_ct 10%nat (TLit 2 1%Z) (TInst 3 []) = Some (TInst 3 [])
  /\ join_types ex_ct 10%nat (TInst 2 []) TNone = Some (TUnion [TInst 2 []; TNone]).
Proof. vm_compute. auto. Qed.
(* the hypotheses of subtype_trans_partial / meet / join / simplified-union theorems hold with defined answers *)
Example ex_trans : frag1 ex_ct (TLit 2 1%Z) = true /\ frag1 ex_ct (TInst 2 []) = true
  /\ frag1 ex_ct (TUnion [TNone; TInst 3 []]) = true
  /\ is_subtype ex_ct 10%nat (TLit 2 1%Z) (TInst 2 []) = Some true
  /\ is_subtype ex_ct 10%nat (TInst 2 []) (TUnion [TNone; TInst 3 []]) = Some true
  /\ is_subtype ex_ct 10%nat (TLit 2 1%Z) (TUnion [TNone; TInst 3 []]) = Some true.
Proof. vm_compute. repeat split; reflexivity. Qed.
Example ex_laws_defined :
  meet_types ex_ct 10%nat (TUnion [TInst 2 []; TNone]) (TInst 3 []) = Some (TInst 2 [])
  /\ make_simplified_union ex_ct 10%nat [TLit 2 1%Z; TInst 2 []; TNone] = Some (TUnion [TInst 2 []; TNone])
  /\ make_simplified_union ex_ct 10%nat [TNone; TInst 2 []; TLit 2 1%Z] = Some (TUnion [TNone; TInst 2 []]).
Proof. vm_compute. repeat split; reflexivity. Qed.
(* F2: hypotheses satisfiable, with generic instances, variance, promotion and nested unions *)
Example ex_F2 : wf_gen ex_ct = true
  /\ frag2 ex_ct (TInst 7 [TLit 2 1%Z]) = true /\ frag2 ex_ct (TInst 6 [TUnion [TInst 3 []; TNone]]) = true
  /\ is_subtype ex_ct 10%nat (TInst 7 [TLit 2 1%Z]) (TInst 6 [TInst 2 []]) = Some true
  /\ is_subtype ex_ct 10%nat (TInst 6 [TInst 2 []]) (TInst 6 [TUnion [TInst 3 []; TNone]]) = Some true
  /\ is_subtype ex_ct 10%nat (TInst 7 [TLit 2 1%Z]) (TInst 6 [TUnion [TInst 3 []; TNone]]) = Some true
  /\ ty_eqb (TInst 6 [TUnion [TInst 3 []; TNone]]) (TInst 6 [TUnion [TNone; TInst 3 []; TNone]]) = true.
Proof. vm_compute. repeat split; reflexivity. Qed.
(* F2 with bool: bool <: Literal[True] | Literal[False] <: int | None, and the chain closes *)
Example ex_F2_bool : wf_contr ex_ct = true
  /\ frag2 ex_ct (TUnion [TLit 5 1%Z; TLit 5 0%Z]) = true /\ lits_ok ex_ct (TUnion [TLit 5 1%Z; TLit 5 0%Z]) = true
  /\ is_subtype ex_ct 10%nat (TInst 5 []) (TUnion [TLit 5 1%Z; TLit 5 0%Z]) = Some true
  /\ is_subtype ex_ct 10%nat (TUnion [TLit 5 1%Z; TLit 5 0%Z]) (TUnion [TInst 2 []; TNone]) = Some true
  /\ is_subtype ex_ct 10%nat (TInst 5 []) (TUnion [TInst 2 []; TNone]) = Some true.
Proof. vm_compute. repeat split; reflexivity. Qed.
(* the guards are satisfiable on non-trivial inputs (generic instances, bool literals, promotion) *)
Example ex_guards :
  trans_guard ex_ct (TInst 7 [TLit 2 1%Z]) (TInst 6 [TInst 2 []]) (TInst 6 [TUnion [TInst 3 []; TNone]]) = true
  /\ trans_guard ex_ct (TInst 5 []) (TUnion [TLit 5 1%Z; TLit 5 0%Z]) (TUnion [TInst 2 []; TNone]) = true
  /\ meet_guard ex_ct (TInst 6 [TInst 2 []]) (TUnion [TInst 6 [TInst 3 []]; TNone]) = true
  /\ trans_guard ex_ct (TInst 5 []) TAny (TInst 2 []) = false.
Proof. vm_compute. repeat split; reflexivity. Qed.
(* a sound, non-empty cache and an admissible op sequence with a hit *)
Example ex_ops_ok : Forall op_ok [Query K_sub (TInst 5 []) (TInst 3 []); Reset; Query K_sub (TInst 5 []) (TInst 3 []);
                                  Query K_proper_np (TInst 5 []) (TInst 3 []); Query K_sub (TInst 5 []) (TInst 3 [])].
Proof. repeat constructor; simpl; auto. Qed.
Example ex_run : run_with_cache ex_ct 10%nat empty_cache
                   [Query K_sub (TInst 5 []) (TInst 3 []); Query K_proper_np (TInst 5 []) (TInst 3 []);
                    Query K_sub (TInst 5 []) (TInst 3 [])] = [Some true; Some false; Some true].
Proof. vm_compute. reflexivity. Qed.
Example ex_join_meet : join_types ex_ct 10%nat (TInst 5 []) (TInst 3 []) = Some (TInst 3 [])
  /\ meet_types ex_ct 10%nat (TInst 2 []) (TUnion [TInst 3 []; TNone]) = Some (TInst 2 [])
  /\ make_simplified_union ex_ct 10%nat [TInst 5 []; TInst 2 []; TLit 5 1%Z] = Some (TInst 2 []).
Proof. vm_compute. auto. Qed.
