(* Fragment F2 (generic instances with per-parameter variance, promotions, literals, flat unions, unbounded nesting):
   a height-indexed semantic order `leh`, its basic properties, and `Type.__eq__` implies equivalence. *)
From Coq Require Import ZArith List Bool PArith Lia.
From C08 Require Import Model Proofs ProofsKind ProofsTrans ProofsTrans2.
Import ListNotations.

Section F2.
Variable ct : ctable.

Fixpoint leh (np : bool) (h : nat) (l r : ty) {struct h} : Prop :=
  match h with
  | O => False
  | S h' =>
    match l with
    | TNever => True
    | TUnion ls => forall x, In x ls -> leh np h' x r
    | _ =>
      match r with
      | TUnion rs =>
          (exists x, In x rs /\ leh np h' l x) \/
          match l with
          | TInst c _ => contractible ct c = true /\
                         exists c', contractible ct c' = true /\ complete ct rs c' = true /\
                                    (exists v, In (TLit c' v) rs) /\ leh np h' l (TInst c' [])
          | _ => False
          end
      | _ =>
        match l, r with
        | TNone, TNone => True
        | TNone, TInst d _ => d = k_object ct
        | TLit c v, TLit d w => c = d /\ v = w
        | TLit c v, TInst _ _ => leh np h' (TInst c []) r
        | TInst c xs, TInst d ys =>
            (np = false /\ c_protocol (cls_of ct d) = false /\
             exists b p, In b (c_mro (cls_of ct c)) /\ In p (c_promote (cls_of ct b)) /\ leh np h' (TInst p []) r)
            \/ ((has_base ct c d = true \/ d = k_object ct) /\
                forall la ra v, In (la, ra, v) (zip3 (map_to_super ct c xs d) ys (c_var (cls_of ct d))) ->
                  match v with
                  | Cov => leh np h' la ra
                  | Contra => leh np h' ra la
                  | Inv => leh np h' la ra /\ leh np h' ra la
                  end)
        | _, _ => False
        end
      end
    end
  end.

Definition LE (np : bool) (l r : ty) : Prop := exists h, leh np h l r.

Definition leh_step (f : ty -> ty -> Prop) (np : bool) (l r : ty) : Prop :=
    match l with
    | TNever => True
    | TUnion ls => forall x, In x ls -> f x r
    | _ =>
      match r with
      | TUnion rs =>
          (exists x, In x rs /\ f l x) \/
          match l with
          | TInst c _ => contractible ct c = true /\
                         exists c', contractible ct c' = true /\ complete ct rs c' = true /\
                                    (exists v, In (TLit c' v) rs) /\ f l (TInst c' [])
          | _ => False
          end
      | _ =>
        match l, r with
        | TNone, TNone => True
        | TNone, TInst d _ => d = k_object ct
        | TLit c v, TLit d w => c = d /\ v = w
        | TLit c v, TInst _ _ => f (TInst c []) r
        | TInst c xs, TInst d ys =>
            (np = false /\ c_protocol (cls_of ct d) = false /\
             exists b p, In b (c_mro (cls_of ct c)) /\ In p (c_promote (cls_of ct b)) /\ f (TInst p []) r)
            \/ ((has_base ct c d = true \/ d = k_object ct) /\
                forall la ra v, In (la, ra, v) (zip3 (map_to_super ct c xs d) ys (c_var (cls_of ct d))) ->
                  match v with
                  | Cov => f la ra
                  | Contra => f ra la
                  | Inv => f la ra /\ f ra la
                  end)
        | _, _ => False
        end
      end
    end.

Lemma leh_eq : forall np h l r, leh np (S h) l r = leh_step (leh np h) np l r.
Proof. reflexivity. Qed.

Lemma leh_step_mono : forall (f g : ty -> ty -> Prop) np, (forall a b, f a b -> g a b) ->
  forall l r, leh_step f np l r -> leh_step g np l r.
Proof.
  intros f g np Hfg l r H. unfold leh_step in *.
  destruct l; auto;
    try (destruct r; auto; destruct H as [[x [Hx H]]|H]; [left; exists x; split; auto|contradiction]; fail).
  destruct r; auto.
  - destruct H as [[A [B [b [p [Hb [Hp H]]]]]]|[A H]].
    + left. repeat split; auto. exists b, p. auto.
    + right. split; auto. intros la ra v Hin. specialize (H la ra v Hin). destruct v; auto. destruct H; auto.
  - destruct H as [[x [Hx H]]|[Hc [c' [H1 [H2 [H3 H4]]]]]]; [left; exists x; split; auto|].
    right. split; auto. exists c'. auto.
Qed.

Lemma leh_S : forall np h l r, leh np h l r -> leh np (S h) l r.
Proof.
  intros np. induction h; intros l r H; [contradiction|].
  rewrite leh_eq in *. eapply leh_step_mono; [|exact H]. intros; auto.
Qed.

Lemma leh_ge : forall np h h' l r, h <= h' -> leh np h l r -> leh np h' l r.
Proof. intros np h h' l r Hle H. induction Hle; auto. apply leh_S; auto. Qed.

Lemma leh_np : forall np h l r, leh true h l r -> leh np h l r.
Proof.
  intros np. induction h; intros l r H; [contradiction|].
  rewrite leh_eq in *. unfold leh_step in *.
  destruct l; auto;
    try (destruct r; auto; destruct H as [[x [Hx H]]|H]; [left; exists x; split; auto|contradiction]; fail).
  destruct r; auto.
  - destruct H as [[A _]|[A H]]; [discriminate|].
    right. split; auto. intros la ra v Hin. specialize (H la ra v Hin). destruct v; auto. destruct H; auto.
  - destruct H as [[x [Hx H]]|[Hc [c' [H1 [H2 [H3 H4]]]]]]; [left; exists x; split; auto|].
    right. split; auto. exists c'. auto.
Qed.

(* a common height for finitely many derivations *)
Lemma choice_list : forall A (P : nat -> A -> Prop) (l : list A),
  (forall h x, P h x -> P (S h) x) -> (forall x, In x l -> exists h, P h x) -> exists H, forall x, In x l -> P H x.
Proof.
  intros A P l Hm. induction l as [|a l IH]; intros H.
  - exists 0. intros x [].
  - destruct (H a (or_introl eq_refl)) as [h1 H1]. destruct (IH (fun x Hx => H x (or_intror Hx))) as [h2 H2].
    assert (Hg : forall h h' x, h <= h' -> P h x -> P h' x) by (intros h h' x Hle Hp; induction Hle; auto).
    exists (max h1 h2). intros x [<-|Hx].
    + apply (Hg h1); auto. lia.
    + apply (Hg h2); auto. lia.
Qed.

(* ---------------------------------------------------------------- introduction rules for LE *)
Lemma LE_never : forall np r, LE np TNever r.
Proof. intros. exists 1. simpl. exact I. Qed.

Definition is_atomish (t : ty) : bool := negb (is_union t) && negb (is_never t).

Lemma LE_union_l : forall np ls r, (forall x, In x ls -> LE np x r) -> LE np (TUnion ls) r.
Proof.
  intros np ls r H.
  destruct (choice_list ty (fun h x => leh np h x r) ls (fun h x => leh_S np h x r) H) as [h Hh].
  exists (S h). rewrite leh_eq. unfold leh_step. exact Hh.
Qed.

Lemma LE_union_r : forall np l rs x, is_atomish l = true -> In x rs -> LE np l x -> LE np l (TUnion rs).
Proof.
  intros np l rs x A Hx [h H]. exists (S h). rewrite leh_eq. unfold leh_step.
  destruct l; simpl in A; try discriminate; left; exists x; auto.
Qed.

Lemma LE_contract : forall np c xs rs c' v, contractible ct c = true -> contractible ct c' = true ->
  complete ct rs c' = true -> In (TLit c' v) rs -> LE np (TInst c xs) (TInst c' []) -> LE np (TInst c xs) (TUnion rs).
Proof.
  intros np c xs rs c' v H1 H2 H3 H4 [h H]. exists (S h). rewrite leh_eq. unfold leh_step.
  right. split; auto. exists c'. repeat split; auto. exists v; auto.
Qed.

Definition var_rel (P : ty -> ty -> Prop) (p : ty * ty * variance) : Prop :=
  match p with
  | (la, ra, Cov) => P la ra
  | (la, ra, Contra) => P ra la
  | (la, ra, Inv) => P la ra /\ P ra la
  end.

Lemma LE_inst_nom : forall np c xs d ys, (has_base ct c d = true \/ d = k_object ct) ->
  (forall p, In p (zip3 (map_to_super ct c xs d) ys (c_var (cls_of ct d))) -> var_rel (LE np) p) ->
  LE np (TInst c xs) (TInst d ys).
Proof.
  intros np c xs d ys Hb H.
  assert (Hc : forall p, In p (zip3 (map_to_super ct c xs d) ys (c_var (cls_of ct d))) ->
                 exists h, var_rel (leh np h) p).
  { intros [[la ra] v] Hin. specialize (H _ Hin). unfold var_rel in *. destruct v.
    - destruct H as [[h1 H1] [h2 H2]]. exists (max h1 h2).
      split; [apply (leh_ge np h1) | apply (leh_ge np h2)]; auto; lia.
    - exact H.
    - exact H. }
  assert (Hmono : forall h (p : ty * ty * variance), var_rel (leh np h) p -> var_rel (leh np (S h)) p).
  { intros h [[la ra] v] Hp. unfold var_rel in *. destruct v; [destruct Hp; split|idtac|idtac]; apply leh_S; auto. }
  destruct (choice_list _ (fun h p => var_rel (leh np h) p)
              (zip3 (map_to_super ct c xs d) ys (c_var (cls_of ct d))) Hmono Hc) as [h Hh].
  exists (S h). rewrite leh_eq. unfold leh_step. right. split; auto.
  intros la ra v Hin. specialize (Hh _ Hin). destruct v; exact Hh.
Qed.

Lemma LE_promo : forall c xs d ys b p, c_protocol (cls_of ct d) = false ->
  In b (c_mro (cls_of ct c)) -> In p (c_promote (cls_of ct b)) -> LE false (TInst p []) (TInst d ys) ->
  LE false (TInst c xs) (TInst d ys).
Proof.
  intros c xs d ys b p Hd Hb Hp [h H]. exists (S h). rewrite leh_eq. unfold leh_step. left.
  repeat split; auto. exists b, p. auto.
Qed.

Lemma LE_lit_inst : forall np c v d ys, LE np (TInst c []) (TInst d ys) -> LE np (TLit c v) (TInst d ys).
Proof. intros np c v d ys [h H]. exists (S h). rewrite leh_eq. unfold leh_step. exact H. Qed.

Lemma LE_none_none : forall np, LE np TNone TNone.
Proof. intros. exists 1. simpl. exact I. Qed.
Lemma LE_none_obj : forall np ys, LE np TNone (TInst (k_object ct) ys).
Proof. intros. exists 1. simpl. reflexivity. Qed.
Lemma LE_lit_lit : forall np c v, LE np (TLit c v) (TLit c v).
Proof. intros. exists 1. simpl. auto. Qed.

(* ---------------------------------------------------------------- Type.__eq__ implies equivalence *)
Lemma frag2_atomish : forall ts x, frag2 ct (TUnion ts) = true -> In x ts -> is_atomish x = true /\ frag2 ct x = true.
Proof.
  intros ts x F Hx. simpl in F. destruct ts; [destruct Hx|]. rewrite forallb_forall in F. specialize (F x Hx).
  apply andb_prop in F. destruct F as [F F3]. unfold is_atomish. rewrite F. auto.
Qed.

Lemma eqb_union_incl2 : forall xs ys, ty_eqb (TUnion xs) (TUnion ys) = true ->
  forall y, In y ys -> exists x, In x xs /\ ty_eqb x y = true.
Proof.
  intros xs ys H. simpl in H. apply andb_prop in H. destruct H as [_ H]. rewrite forallb_forall in H.
  intros y Hy. specialize (H y Hy). clear Hy. induction xs as [|a l IH]; [discriminate|].
  apply orb_true_iff in H. destruct H as [H|H].
  - exists a; simpl; auto.
  - destruct (IH H) as [x [Hx E]]. exists x; simpl; auto.
Qed.

Lemma eqb_args : forall xs ys,
  (fix go (xs ys : list ty) {struct xs} : bool :=
     match xs, ys with
     | [], [] => true
     | x :: xs', y :: ys' => ty_eqb x y && go xs' ys'
     | _, _ => false
     end) xs ys = true ->
  length xs = length ys /\ forall x y, In (x, y) (combine xs ys) -> ty_eqb x y = true.
Proof.
  induction xs; destruct ys; intros H; try discriminate.
  - split; [reflexivity|intros x y []].
  - apply andb_prop in H. destruct H as [H1 H2]. destruct (IHxs ys H2) as [L P]. split; [simpl; auto|].
    intros x y [E|Hin]; [inversion E; subst; auto|auto].
Qed.

Lemma eq_le2 : forall np l r, frag2 ct l = true -> frag2 ct r = true -> ty_eqb l r = true ->
  LE np l r /\ LE np r l.
Proof.
  intros np. induction l using ty_ind'; intros r Fl Fr E; simpl in Fl; try discriminate.
  - destruct r; simpl in E; try discriminate. split; apply LE_never.
  - destruct r; simpl in E; try discriminate. split; apply LE_none_none.
  - (* Inst *)
    destruct r as [| | |d ys| | |]; simpl in E; try discriminate.
    apply andb_prop in E. destruct E as [Ec Ea]. apply Pos.eqb_eq in Ec. subst d.
    destruct (eqb_args _ _ Ea) as [Len Hp].
    simpl in Fr. apply andb_prop in Fl. destruct Fl as [Fl Fxs]. apply andb_prop in Fr. destruct Fr as [Fr Fys].
    rewrite forallb_forall in Fxs, Fys. rewrite Forall_forall in H.
    assert (Hb : has_base ct c c = true \/ c = k_object ct) by (left; unfold has_base; rewrite Pos.eqb_refl; auto).
    assert (Hm : forall zs, map_to_super ct c zs c = zs) by (intros; unfold map_to_super; rewrite Pos.eqb_refl; auto).
    split; apply LE_inst_nom; auto; rewrite Hm; intros [[la ra] v] Hin.
    + assert (Hc := in_zip3_combine _ _ _ _ _ _ _ _ _ Hin).
      assert (Hx := in_combine_l _ _ _ _ Hc). assert (Hy := in_combine_r _ _ _ _ Hc).
      destruct (H la Hx ra (Fxs _ Hx) (Fys _ Hy) (Hp _ _ Hc)) as [L1 L2]. destruct v; simpl; auto.
    + assert (Hc := in_combine_swap _ _ _ _ _ _ (in_zip3_combine _ _ _ _ _ _ _ _ _ Hin)).
      assert (Hx := in_combine_l _ _ _ _ Hc). assert (Hy := in_combine_r _ _ _ _ Hc).
      destruct (H ra Hx la (Fxs _ Hx) (Fys _ Hy) (Hp _ _ Hc)) as [L1 L2]. destruct v; simpl; auto.
  - (* Lit *)
    destruct r; simpl in E; try discriminate. apply andb_prop in E. destruct E as [E1 E2].
    apply Pos.eqb_eq in E1. apply Z.eqb_eq in E2. subst. split; apply LE_lit_lit.
  - (* Union *)
    destruct r as [| | | | |ys|]; try (simpl in E; discriminate).
    assert (Fl' : frag2 ct (TUnion ts) = true) by exact Fl.
    rewrite Forall_forall in H.
    split; apply LE_union_l.
    + intros x Hx. destruct (frag2_atomish _ _ Fl' Hx) as [Ax Fx].
      assert (M := ty_eqb_union_incl _ _ E x Hx). apply existsb_exists in M. destruct M as [y [Hy Exy]].
      destruct (frag2_atomish _ _ Fr Hy) as [Ay Fy].
      apply (LE_union_r np x ys y); auto. apply (H x Hx y Fx Fy Exy).
    + intros y Hy. destruct (frag2_atomish _ _ Fr Hy) as [Ay Fy].
      destruct (eqb_union_incl2 _ _ E y Hy) as [x [Hx Exy]]. destruct (frag2_atomish _ _ Fl' Hx) as [Ax Fx].
      apply (LE_union_r np y ts x); auto. apply (H x Hx y Fx Fy Exy).
Qed.
End F2.
