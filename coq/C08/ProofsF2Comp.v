(* F2: completeness -- whatever LE justifies is never answered False by `sub` *)
From Coq Require Import ZArith List Bool PArith Lia.
From C08 Require Import Model Proofs ProofsKind ProofsTrans ProofsTrans2 ProofsF2 ProofsF2Sound.
Import ListNotations.

Lemma combine_zip3 : forall A B C (xs : list A) (ys : list B) (vs : list C) x y,
  length xs <= length vs -> In (x, y) (combine xs ys) -> exists v, In (x, y, v) (zip3 xs ys vs).
Proof.
  induction xs; destruct ys; simpl; intros vs x y L H; try contradiction.
  destruct vs as [|v vs]; [simpl in L; lia|]. destruct H as [H|H].
  - inversion H; subst. exists v. left; auto.
  - destruct (IHxs ys vs x y ltac:(simpl in L; lia) H) as [v' Hv]. exists v'. right; auto.
Qed.
Lemma zip3_swap : forall A C (xs ys : list A) (vs : list C) x y v,
  In (x, y, v) (zip3 xs ys vs) -> In (y, x, v) (zip3 ys xs vs).
Proof.
  induction xs; destruct ys, vs; simpl; intros x y v H; try contradiction.
  destruct H as [H|H]; [inversion H; subst; left; auto|right; auto].
Qed.

Create HintDb tru.
#[export] Hint Resolve trueish_none trueish_true : tru.

Section C2.
Variable ct : ctable.
Hypothesis Hwf : wf_ct ct = true.
Variable lk : kind -> ty -> ty -> option bool.
Hypothesis Hlk : forall k l r b, lk k l r = Some b -> k_notparams k = false -> kind_ok k = true ->
  frag2 ct l = true -> frag2 ct r = true -> (b = true <-> LE ct (k_nopromo k) l r).

Lemma sub_S3 : forall n k l r, sub ct lk (S n) k l r = sub_step ct lk (sub ct lk n) k l r.
Proof. reflexivity. Qed.

Lemma frag2_not_any : forall r, frag2 ct r = true -> is_any r = false.
Proof. destruct r; simpl; auto; discriminate. Qed.

Lemma never2 : forall k r m, frag2 ct r = true -> trueish (sub ct lk m k TNever r).
Proof.
  intros k r m Fr. destruct m; [apply trueish_none|]. rewrite sub_S3. unfold sub_step.
  destruct (ty_eqb _ _); [apply trueish_true|]. rewrite (frag2_not_any r Fr), andb_false_r.
  destruct r as [| | |d ys|d w|rs|]; try (simpl in Fr; discriminate); try apply trueish_true.
  simpl is_union. cbn iota.
  destruct rs as [|x rs']; [simpl in Fr; discriminate|].
  destruct (frag2_atomish ct _ x Fr (or_introl eq_refl)) as [Ax Fx].
  assert (T : trueish (anyM (fun it : ty => sub ct lk m k TNever it) (x :: rs'))).
  { apply (anyM_trueish _ _ (x :: rs') x (or_introl eq_refl)).
    destruct m; [apply trueish_none|]. rewrite sub_S3. unfold sub_step.
    destruct (ty_eqb _ _); [apply trueish_true|]. rewrite (frag2_not_any x Fx), andb_false_r.
    unfold is_atomish in Ax. destruct x; simpl in Ax; try discriminate; apply trueish_true. }
  destruct (anyM _ (x :: rs')) as [[|]|]; auto with tru.
Qed.

Lemma contract_go_has : forall all items done c' v, contractible ct c' = true -> complete ct all c' = true ->
  In (TLit c' v) items -> In (TInst c' []) (contract_go ct all items done) \/ mem_cid c' done = true.
Proof.
  induction items as [|a r IH]; intros done c' v C1 C2 Hin; [destruct Hin|].
  simpl. destruct Hin as [->|Hin].
  - rewrite C1, C2. simpl. destruct (mem_cid c' done) eqn:M; auto. left. left. reflexivity.
  - destruct a; try (destruct (IH done c' v C1 C2 Hin) as [H|H]; [left; right; auto|right; auto]; fail).
    destruct (contractible ct c && complete ct all c).
    + destruct (mem_cid c done) eqn:M.
      * destruct (IH done c' v C1 C2 Hin) as [H|H]; auto.
      * destruct (IH (c :: done) c' v C1 C2 Hin) as [H|H]; [left; right; auto|].
        simpl in H. apply orb_true_iff in H. destruct H as [H|H]; auto.
        apply Pos.eqb_eq in H. subst. left. left. reflexivity.
    + destruct (IH done c' v C1 C2 Hin) as [H|H]; [left; right; auto|right; auto].
Qed.

Definition kgood (np : bool) (k : kind) : Prop := k_nopromo k = np /\ k_notparams k = false /\ kind_ok k = true.

Definition CompA (h : nat) : Prop := forall np l r, leh ct np h l r -> frag2 ct l = true -> frag2 ct r = true ->
  forall k, kgood np k -> forall m, trueish (sub ct lk m k l r).
Definition CompB (h : nat) : Prop := forall a b, leh ct true h a b -> leh ct true h b a ->
  frag2 ct a = true -> frag2 ct b = true ->
  forall kk, kgood true kk -> forall m, trueish (same_gen (sub ct lk m) kk a b).

Lemma compB_step : forall h, CompA (S h) -> CompB h -> CompB (S h).
Proof.
  intros h HA HB a b L1 L2 Fa Fb kk Kk m.
  destruct (fast a b) eqn:F.
  - destruct a as [| | |c xs| | |]; simpl in F; try discriminate.
    destruct b as [| | |d ys| | |]; simpl in F; try discriminate.
    assert (Fc := F). apply andb_prop in Fc. destruct Fc as [Fc Fl]. apply Pos.eqb_eq in Fc. subst d.
    apply Nat.eqb_eq in Fl.
    rewrite same_gen_fast by exact F. apply same_list_trueish. intros x y Hin.
    destruct (frag2_inst ct _ _ Fa) as [_ [La Fxs]]. destruct (frag2_inst ct _ _ Fb) as [_ [Lb Fys]].
    rewrite leh_eq in L1, L2. unfold leh_step in L1, L2.
    destruct L1 as [[A _]|[_ P1]]; [discriminate|]. destruct L2 as [[A _]|[_ P2]]; [discriminate|].
    unfold map_to_super in P1, P2. rewrite Pos.eqb_refl in P1, P2.
    destruct (combine_zip3 _ _ _ xs ys (c_var (cls_of ct c)) x y ltac:(unfold arity in La; lia) Hin) as [v Hv].
    assert (Hv' := zip3_swap _ _ _ _ _ _ _ _ Hv).
    specialize (P1 _ _ _ Hv). specialize (P2 _ _ _ Hv').
    apply HB; auto.
    + destruct v; tauto.
    + destruct v; tauto.
    + apply Fxs. eapply in_combine_l; eauto.
    + apply Fys. eapply in_combine_r; eauto.
    + split; [reflexivity|split; reflexivity].
  - rewrite same_gen_nonfast by exact F. apply andM_trueish.
    + apply (HA true a b); auto.
    + apply (HA true b a); auto.
Qed.

Lemma compA_step : forall h, CompA h -> CompB h -> CompA (S h).
Proof.
  intros h HA HB np l r L Fl Fr k [Knp [Kn Kk]] m.
  assert (KG : kgood np k) by (repeat split; auto).
  destruct (is_never l) eqn:Nv; [destruct l; try discriminate; apply never2; auto|].
  rewrite leh_eq in L. unfold leh_step in L.
  destruct m; [apply trueish_none|]. rewrite sub_S3. unfold sub_step.
  destruct (ty_eqb l r) eqn:E; [apply trueish_true|]. rewrite (frag2_not_any r Fr), andb_false_r.
  assert (Hitems : forall ts x, frag2 ct (TUnion ts) = true -> In x ts -> is_atomish x = true /\ frag2 ct x = true)
    by (intros; eapply frag2_atomish; eauto).
  (* an atom against a union *)
  assert (Hau : forall l0 rs, is_atomish l0 = true -> frag2 ct l0 = true -> frag2 ct (TUnion rs) = true ->
            (exists x, In x rs /\ leh ct np h l0 x) ->
            trueish (anyM (fun it : ty => sub ct lk m k l0 it) rs)).
  { intros l0 rs Al Fl0 Frs [x [Hx Lx]]. destruct (Hitems _ _ Frs Hx) as [Ax Fx].
    apply (anyM_trueish _ _ rs x Hx). apply (HA np l0 x); auto. }
  destruct l as [| | |c xs|c v|ls|]; try (simpl in Fl; discriminate).
  - (* None *)
    destruct r as [| | |d ys|d w|rs|]; try (simpl in Fr; discriminate); try contradiction; try apply trueish_true.
    + subst d. rewrite Pos.eqb_refl. apply trueish_true.
    + simpl is_union. cbn iota. destruct L as [L|[]]. assert (T := Hau TNone rs eq_refl eq_refl Fr L).
      destruct (anyM _ rs) as [[|]|]; auto with tru; try (specialize (T _ eq_refl); discriminate).
  - (* Inst c xs *)
    destruct r as [| | |d ys|d w|rs|]; try (simpl in Fr; discriminate); try contradiction.
    + (* Inst / Inst *)
      destruct (lk k (TInst c xs) (TInst d ys)) as [bh|] eqn:Ehit.
      { assert (LL : LE ct np (TInst c xs) (TInst d ys)) by (exists (S h); rewrite leh_eq; exact L).
        rewrite <- Knp in LL. apply (Hlk k _ _ bh Ehit Kn Kk Fl Fr) in LL. subst bh. apply trueish_true. }
      assert (Hnomt : (has_base ct c d = true \/ d = k_object ct) ->
                (forall la ra v, In (la, ra, v) (zip3 (map_to_super ct c xs d) ys (c_var (cls_of ct d))) ->
                   match v with
                   | Cov => leh ct np h la ra
                   | Contra => leh ct np h ra la
                   | Inv => leh ct np h la ra /\ leh ct np h ra la
                   end) ->
                trueish (if has_base ct c d || (d =? k_object ct)%positive
                         then if k_notparams k then Some true
                              else allM_ns (fun p : ty * ty * variance => let '(la, ra, v) := p in
                                     match v with
                                     | Inv => if k_proper k then same_gen (sub ct lk m) k la ra
                                              else andM (sub ct lk m k la ra) (fun _ => sub ct lk m k ra la)
                                     | Cov => sub ct lk m k la ra
                                     | Contra => sub ct lk m k ra la
                                     end) (zip3 (map_to_super ct c xs d) ys (c_var (cls_of ct d)))
                         else Some false)).
      { intros Hbase P.
        assert (HB' : has_base ct c d || (d =? k_object ct)%positive = true).
        { apply orb_true_iff. destruct Hbase; [left; auto|right; apply Pos.eqb_eq; auto]. }
        rewrite HB', Kn. apply allM_ns_trueish. intros [[la ra] v] Hin. specialize (P _ _ _ Hin).
        assert (Fla : frag2 ct la = true).
        { apply (mts_frag ct Hwf c xs d Fl Hbase). eapply in_combine_l. eapply in_zip3_combine; eauto. }
        assert (Fra : frag2 ct ra = true).
        { destruct (frag2_inst ct _ _ Fr) as [_ [_ Fys]]. apply Fys. eapply in_combine_r. eapply in_zip3_combine; eauto. }
        destruct v.
        - destruct P as [P1 P2]. destruct (k_proper k) eqn:Pk.
          + assert (Np : k_nopromo k = true) by (unfold kind_ok in Kk; rewrite Pk in Kk; simpl in Kk; exact Kk).
            rewrite <- Knp, Np in P1, P2. apply (HB la ra); auto. repeat split; auto.
          + apply andM_trueish; [apply (HA np la ra)|apply (HA np ra la)]; auto.
        - apply (HA np la ra); auto.
        - apply (HA np ra la); auto. }
      destruct L as [[Np [Pd [b [p [Hb [Hp Lp]]]]]]|[Hbase P]].
      * rewrite Knp, Np, Pd. simpl.
        assert (T : trueish (anyM (fun b0 : cid => anyM (fun p0 : cid => sub ct lk m k (TInst p0 []) (TInst d ys))
                                       (c_promote (cls_of ct b0))) (c_mro (cls_of ct c)))).
        { apply (anyM_trueish _ _ _ b Hb). apply (anyM_trueish _ _ _ p Hp).
          apply (HA np (TInst p []) (TInst d ys)); auto. apply plain_frag2. apply (promote_plain ct Hwf b p Hp). }
        destruct (anyM _ (c_mro (cls_of ct c))) as [[|]|]; auto with tru; try (specialize (T _ eq_refl); discriminate).
      * match goal with |- trueish (match ?a with _ => _ end) => destruct a as [[|]|] end; auto with tru.
    + (* Inst / Union *)
      simpl is_union. cbn iota. destruct L as [L|[Cc [c' [C1 [C2 [[v Hv] Lc]]]]]].
      * assert (T := Hau (TInst c xs) rs eq_refl Fl Fr L).
        destruct (anyM _ rs) as [[|]|]; auto with tru; try (specialize (T _ eq_refl); discriminate).
      * destruct (anyM _ rs) as [[|]|]; auto with tru. rewrite Cc.
        assert (Frs := Fr). rewrite (flatten_atoms2 ct rs Frs).
        destruct (Hitems _ _ Fr Hv) as [_ Fv].
        assert (Hin : In (TInst c' []) (contract ct rs)).
        { unfold contract. destruct (contract_go_has rs rs [] c' v C1 C2 Hv) as [H|H]; [auto|discriminate]. }
        apply (anyM_trueish _ _ _ (TInst c' []) Hin). apply (HA np (TInst c xs) (TInst c' [])); auto.
        eapply lit_inst_frag; eauto.
  - (* Lit *)
    destruct r as [| | |d ys|d w|rs|]; try (simpl in Fr; discriminate); try contradiction.
    + apply (HA np (TInst c []) (TInst d ys)); auto. eapply lit_inst_frag; eauto.
    + destruct L; subst. rewrite ty_eqb_refl in E. discriminate.
    + simpl is_union. cbn iota. destruct L as [L|[]]. assert (T := Hau (TLit c v) rs eq_refl Fl Fr L).
      destruct (anyM _ rs) as [[|]|]; auto with tru; try (specialize (T _ eq_refl); discriminate).
  - (* Union ls *)
    assert (Hit : forall it, In it ls -> trueish (sub ct lk m k it r)).
    { intros it Hin. destruct (Hitems _ _ Fl Hin) as [Ai Fi]. apply (HA np it r); auto. }
    destruct r as [| | |d ys|d w|rs|]; try (simpl in Fr; discriminate).
    + apply allM_trueish; auto.
    + apply allM_trueish; auto.
    + apply go_trueish; auto. intros c0 v0 Hin. destruct (Hitems _ _ Fl Hin) as [Ai Fi].
      assert (Li := L _ Hin). destruct h; [contradiction|]. rewrite leh_eq in Li. unfold leh_step in Li.
      apply (HA np (TInst c0 []) (TInst d ys)); auto; [apply leh_S; auto|eapply lit_inst_frag; eauto].
    + apply allM_trueish; auto.
    + simpl. apply allM_trueish. intros it Hin.
      destruct (mem_ty it (flatten rs)); auto with tru.
      destruct it as [| | |e es|e u| |]; try (apply Hit; auto; fail).
      destruct (mem_ty (TInst e []) (flatten rs)); auto with tru.
Qed.

Theorem comp2 : forall h, CompA h /\ CompB h.
Proof.
  induction h as [|h [HA HB]].
  - split; intros ? ? ? H; contradiction.
  - assert (A := compA_step h HA HB). split; auto. apply compB_step; auto.
Qed.

Theorem sub_complete2 : forall np l r, LE ct np l r -> frag2 ct l = true -> frag2 ct r = true ->
  forall k, k_nopromo k = np -> k_notparams k = false -> kind_ok k = true ->
  forall m, trueish (sub ct lk m k l r).
Proof.
  intros np l r [h L] Fl Fr k K1 K2 K3 m. destruct (comp2 h) as [A _]. apply (A np l r); auto. repeat split; auto.
Qed.
End C2.
