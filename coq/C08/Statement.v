(* Full-strength statements of property C08 over the model (always visible, whether proved or not).
   Model functions return None when the fuel (recursion depth) is exhausted; the laws are stated about
   defined answers, for every fuel.  `wf` is the well-formedness of the class table (Model.wf_ct, the
   predicate the harness evaluates on the class table of the real fixture). *)
From Coq Require Import ZArith List Bool PArith Sorting.Permutation.
From C08 Require Import Model.
Import ListNotations.

Definition defined_true (a : ob) : Prop := forall b, a = Some b -> b = true.
Definition equiv (ct : ctable) (a b : ty) : Prop :=
  forall n, defined_true (is_subtype ct n a b) /\ defined_true (is_subtype ct n b a).

(* PROVED (Properties.subtype_refl) *)
Definition subtype_refl : Prop :=
  forall ct n t, is_subtype ct (S n) t t = Some true /\ is_proper_subtype ct (S n) t t = Some true.

(* REFUTED by the faithful model inside the language (Properties.subtype_trans_statement_refuted, single-member
   enum vs its literal); PROVED on fragment F1 (Properties.subtype_trans_partial) and on fragment F2 (generic instances with
   variance, promotions, bool/enum literals, unions) outside the refuted family X2 (Properties.subtype_trans_F2);
   final round: Properties.subtype_trans_guarded states it for ALL types and tables under the single decidable guard
   Model.trans_guard, which the harness evaluates (extracted) on every triple of the law search *)
Definition subtype_trans : Prop :=
  forall ct, wf_ct ct = true -> forall a b c, any_free a = true -> any_free b = true -> any_free c = true ->
  forall n1 n2 n3, is_subtype ct n1 a b = Some true -> is_subtype ct n2 b c = Some true ->
  defined_true (is_subtype ct n3 a c).

(* PROVED for every class table (Properties.proper_implies_subtype, proper_implies_subtype_statement) *)
Definition proper_implies_subtype : Prop :=
  forall ct, wf_ct ct = true -> forall n l r, is_proper_subtype ct n l r = Some true ->
  forall m, defined_true (is_subtype ct m l r).

(* join_upper: PROVED on fragment F1up (Properties.join_upper_partial); meet_lower: REFUTED inside the language
   (Properties.meet_lower_statement_refuted, contravariant generic + promotion), PROVED on F1 (Properties.meet_lower_partial); simplified_union_equiv: PROVED for F1 atoms (Properties.simplified_union_equiv_partial);
   join_comm_equiv: REFUTED inside the language (Properties.join_comm_equiv_statement_refuted);
   meet_comm_equiv: PROVED on F1 (Properties.meet_comm_equiv_partial).
   Wave 3, fragment F2: simplified_union_equiv_F2 (outside family X2), meet_lower_F2 and meet_comm_equiv_F2 (outside X2 and
   the refuted family X3 = classes with an invariant/contravariant parameter); join_upper is NOT proved on F2 *)
Definition join_upper : Prop :=
  forall ct, wf_ct ct = true -> forall n s t j, join_types ct n s t = Some j ->
  forall m, defined_true (is_subtype ct m s j) /\ defined_true (is_subtype ct m t j).
Definition join_comm_equiv : Prop :=
  forall ct, wf_ct ct = true -> forall n s t j1 j2, join_types ct n s t = Some j1 -> join_types ct n t s = Some j2 ->
  equiv ct j1 j2.
Definition meet_lower : Prop :=
  forall ct, wf_ct ct = true -> forall n s t x, meet_types ct n s t = Some x ->
  forall m, defined_true (is_subtype ct m x s) /\ defined_true (is_subtype ct m x t).
Definition meet_comm_equiv : Prop :=
  forall ct, wf_ct ct = true -> forall n s t x1 x2, meet_types ct n s t = Some x1 -> meet_types ct n t s = Some x2 ->
  equiv ct x1 x2.
Definition simplified_union_equiv : Prop :=
  forall ct, wf_ct ct = true -> forall n items items' u u', Permutation items items' ->
  make_simplified_union ct n items = Some u -> make_simplified_union ct n items' = Some u' ->
  equiv ct u (TUnion items) /\ equiv ct u u'.

(* PROVED in the strong form "any lookup table contained in the graph of the uncached relation gives the
   same answers" (Properties.cache_sound_transparent); the state-machine corollary is proved when the
   recorded Instance keys contain no union (Instance.__eq__ on unions is set equality, and the model does
   not prove that answers are invariant under reordering union items): Properties.cache_transparent_partial.
   Wave 3: on F2 answers ARE invariant under Type.__eq__ (Properties.eq_invariant_F2) and the state machine is
   transparent without the union-free restriction (Properties.cache_transparent_F2) *)
Definition cache_transparent : Prop :=
  forall ct fuel ops,
  Forall2 (fun a b => forall x y, a = Some x -> b = Some y -> x = y)
          (run_with_cache ct fuel empty_cache ops) (run_uncached ct fuel ops).
