(* C01: the faithful model refutes the full statement (two witnesses, replayed on mypy + CPython by the harness). *)
From Coq Require Import ZArith List Bool.
From C01 Require Import Lang Eval Check Sem Witness Statement Proofs1 Proofs2.
Import ListNotations.
Local Open Scope nat_scope.

Lemma loop_cap_refutes : exists P g fd vs fuel, check_prog P = true /\ check_prog_certified P = false /\
  lookup (p_funcs P) g = Some fd /\ mems P vs (map snd (f_params fd)) /\ call_fun P fuel g vs = Exn TypeError.
Proof.
  exists loop_cap_prog, 1, (snd (hd (0, {| f_params := []; f_ret := TNone; f_body := SPass; f_line := 0 |}) (p_funcs loop_cap_prog))),
         [VInt 9%Z], 400.
  split; [vm_compute; reflexivity|]. split; [vm_compute; reflexivity|]. split; [reflexivity|].
  split; [simpl; repeat constructor | vm_compute; reflexivity].
Qed.

Lemma mi_refutes : exists P g fd vs fuel, check_prog P = true /\ check_prog_certified P = false /\
  lookup (p_funcs P) g = Some fd /\ mems P vs (map snd (f_params fd)) /\ call_fun P fuel g vs = Exn AttributeError.
Proof.
  exists mi_prog, 1, (snd (hd (0, {| f_params := []; f_ret := TNone; f_body := SPass; f_line := 0 |}) (p_funcs mi_prog))),
         [mi_arg], 400.
  split; [vm_compute; reflexivity|]. split; [vm_compute; reflexivity|]. split; [reflexivity|].
  split; [|vm_compute; reflexivity].
  simpl. constructor; [|constructor].
  eapply M_union; [left; reflexivity|]. econstructor; [vm_compute; reflexivity | vm_compute; reflexivity | constructor].
Qed.

Lemma break_finally_refutes : exists P g fd vs fuel, check_prog P = true /\ check_prog_certified P = false /\
  lookup (p_funcs P) g = Some fd /\ mems P vs (map snd (f_params fd)) /\ call_fun P fuel g vs = Exn TypeError.
Proof.
  exists break_finally_prog, 1, (snd (hd (0, {| f_params := []; f_ret := TNone; f_body := SPass; f_line := 0 |}) (p_funcs break_finally_prog))),
         [VInt 0%Z], 400.
  split; [vm_compute; reflexivity|]. split; [vm_compute; reflexivity|]. split; [reflexivity|].
  split; [simpl; repeat constructor | vm_compute; reflexivity].
Qed.

Lemma statement_refuted : ~ accepted_programs_do_not_go_wrong.
Proof.
  intro H. destruct loop_cap_refutes as [P [g [fd [vs [fuel [A [_ [B [C D]]]]]]]]].
  specialize (H P A g fd vs fuel B C). rewrite D in H. simpl in H. discriminate.
Qed.

Lemma mi_sub_trans : sub_trans mi_prog.
Proof.
  intros e c d H1 H2. unfold subclass, mro_of, class_of in *.
  destruct e as [|[|[|[|[|e]]]]]; simpl in H1; try discriminate;
  destruct c as [|[|[|[|[|c]]]]]; simpl in H1, H2; try discriminate;
  destruct d as [|[|[|[|[|d]]]]]; simpl in *; try discriminate; reflexivity.
Qed.

Lemma narrow_isinst_refuted : ~ narrow_isinstance_sound_unrestricted.
Proof.
  intro H.
  specialize (H mi_prog (TUnion [TInst 1; TInst 3]) (CUser 2) (TInst 3) (TInst 1) mi_arg mi_sub_trans).
  assert (E : narrow_isinst mi_prog false (TUnion [TInst 1; TInst 3]) (CUser 2) = Ok (TInst 3, TInst 1))
    by (vm_compute; reflexivity).
  assert (M : mem mi_prog mi_arg (TUnion [TInst 1; TInst 3])).
  { eapply M_union; [left; reflexivity|]. econstructor; [vm_compute; reflexivity | vm_compute; reflexivity | constructor]. }
  destruct (H E M) as [Y _]. assert (I : isinst mi_prog mi_arg (CUser 2) = true) by (vm_compute; reflexivity).
  specialize (Y I). inversion Y; subst.
  match goal with S : subclass mi_prog 4 3 = true |- _ => vm_compute in S; discriminate end.
Qed.

(* hypotheses of the positive theorems are satisfiable *)
Lemma no_classes_ok : forall P, p_classes P = [] -> class_table_ok P.
Proof.
  intros P E. unfold class_table_ok, sub_trans, sub_refl, fields_compat, subclass, mro_of, fields_of, class_of.
  rewrite E. simpl. repeat split; intros; discriminate.
Qed.
