(* C01 / MiniPy: syntax, values, types, class table.  Executable definitions only. *)
From Coq Require Import ZArith List Bool Arith.
Import ListNotations.

Definition id := nat.

(* ---- static types (the checker model's own small type language) ---- *)
Inductive ty :=
| TInt | TBool | TStr | TNone
| TInst (c : id)
| TUnion (ts : list ty)          (* TUnion [] is Never (mypy: UninhabitedType) *)
| TTuple (ts : list ty).

Definition TNever := TUnion [].

(* classes usable in isinstance(e, C) *)
Inductive cref := CInt | CBool | CStr | CUser (c : id).

Inductive binop := BAdd | BSub | BMul | BEq | BLt.

Inductive expr :=
| EVar (x : id)
| EInt (z : Z) | EBool (b : bool) | ENone | EStr (s : list nat)
| ENew (c : id) (args : list expr)
| EAttr (e : expr) (a : id)
| ECallM (e : expr) (m : id) (args : list expr)
| ECallF (f : id) (args : list expr)
| EBin (op : binop) (e1 e2 : expr)
| EIsNone (e : expr) | EIsNotNone (e : expr)
| EIsInst (e : expr) (k : cref)
| EIsInstL (e : expr) (ks : list cref)   (* isinstance(e, (K1, ..., Kn)) *)
| ENot (e : expr) | EAnd (e1 e2 : expr) | EOr (e1 e2 : expr)
| ETuple (es : list expr)
| EIndex (e : expr) (i : nat)
| ECond (c e1 e2 : expr)            (* e1 if c else e2 *)
| EReveal (l : nat) (e : expr).     (* reveal_type(e): identity at run time, probe l *)

Inductive stmt :=
| SAssign (x : id) (e : expr)         (* x = e, x bound earlier in source order *)
| SDef (x : id) (e : expr)            (* x = e, the first binding of x in source order (inferred definition) *)
| SDecl (x : id) (t : ty) (e : expr)
| SIf (c : expr) (s1 s2 : stmt)      (* elif = SIf in the else position, as in mypy's AST *)
| SWhile (c : expr) (b : stmt) (els : stmt)   (* while c: b else: els *)
| SFor (x : id) (rng : bool) (e : expr) (b : stmt) (els : stmt)  (* for x in range(e) / for x in e : b else: els *)
| SBreak
| SContinue
| SRaise (c : id) (args : list expr)          (* raise C(args) *)
| STry (b : stmt) (c : id) (x : option id) (h : stmt) (els : stmt)   (* try: b except C as x: h else: els *)
| SFinally (b : stmt) (f : stmt)              (* try: b finally: f *)
| SReturn (e : expr)
| SAssert (e : expr)
| SPass
| SSeq (s1 s2 : stmt)
| SExpr (e : expr)
| SLab (l : nat) (s : stmt).         (* source line label; transparent at run time *)

Record fdecl := { f_params : list (id * ty); f_ret : ty; f_body : stmt; f_line : nat }.

(* methods: parameter 0 is self and is implicit; f_params excludes it *)
Record cdecl := {
  c_mro : list id;                   (* linearisation, the class itself first *)
  c_fields : list (id * ty);         (* all instance attributes = parameters of __init__, in order *)
  c_methods : list (id * fdecl);     (* methods defined in this class body *)
  c_line : nat }.

Record prog := { p_classes : list (id * cdecl); p_funcs : list (id * fdecl) }.

(* ---- values ---- *)
Inductive value :=
| VInt (z : Z) | VBool (b : bool) | VStr (s : list nat) | VNone
| VTuple (vs : list value)
| VObj (c : id) (fs : list (id * value)).

(* ---- association lists ---- *)
Fixpoint lookup {A} (l : list (id * A)) (x : id) : option A :=
  match l with
  | [] => None
  | (y, a) :: r => if Nat.eqb x y then Some a else lookup r x
  end.

Fixpoint remove {A} (l : list (id * A)) (x : id) : list (id * A) :=
  match l with
  | [] => []
  | (y, a) :: r => if Nat.eqb x y then remove r x else (y, a) :: remove r x
  end.

Definition update {A} (l : list (id * A)) (x : id) (a : A) : list (id * A) := (x, a) :: remove l x.

Definition mem_id (x : id) (l : list id) : bool := existsb (Nat.eqb x) l.

(* ---- class table queries ---- *)
Definition class_of (P : prog) (c : id) : option cdecl := lookup (p_classes P) c.

Definition mro_of (P : prog) (c : id) : list id :=
  match class_of P c with Some cd => c_mro cd | None => [] end.

Definition fields_of (P : prog) (c : id) : option (list (id * ty)) :=
  match class_of P c with Some cd => Some (c_fields cd) | None => None end.

(* d is in the MRO of c : c is a (non-strict) subclass of d *)
Definition subclass (P : prog) (c d : id) : bool := mem_id d (mro_of P c).

(* method resolution: first class of the MRO defining m *)
Fixpoint find_method (P : prog) (mro : list id) (m : id) : option (id * fdecl) :=
  match mro with
  | [] => None
  | d :: r =>
      match class_of P d with
      | Some cd => match lookup (c_methods cd) m with
                   | Some md => Some (d, md)
                   | None => find_method P r m
                   end
      | None => find_method P r m
      end
  end.

(* (owner class, declaration) *)
Definition method_of (P : prog) (c m : id) : option (id * fdecl) := find_method P (mro_of P c) m.

Definition self_id : id := 0.

(* class id of the modelled builtin `Exception` (an ordinary entry of the class table, without attributes) *)
Definition exc_id : id := 0.
