(* C01: what the certifying checker establishes about the program: check_prog_certified P = true -> prog_ok P *)
From Coq Require Import ZArith List Bool Arith Lia.
From C01 Require Import Lang Eval Check Sem Proofs1 Proofs2.
Import ListNotations.
Local Open Scope nat_scope.

Lemma mem_id_in : forall x l, mem_id x l = true <-> In x l.
Proof.
  intros x l. unfold mem_id. rewrite existsb_exists. split.
  - intros [y [Hy E]]. apply Nat.eqb_eq in E. subst. exact Hy.
  - intro H. exists x. split; [exact H | apply Nat.eqb_refl].
Qed.

Lemma subset_ids_in : forall a b x, subset_ids a b = true -> In x a -> In x b.
Proof.
  induction a as [|y r IH]; intros b x H Hin; [destruct Hin|]. simpl in H.
  apply andb_prop in H. destruct H as [Hy Hr]. destruct Hin as [->|Hin]; [apply mem_id_in; exact Hy | eauto].
Qed.

Lemma in_nodup : forall l x, In x l -> In x (nodup_ids l).
Proof.
  induction l as [|y r IH]; intros x H; [destruct H|]. simpl.
  destruct (mem_id y r) eqn:E.
  - destruct H as [->|H]; [apply IH; apply mem_id_in; exact E | auto].
  - destruct H as [->|H]; [left; reflexivity | right; auto].
Qed.

Lemma find_method_spec : forall P mro m o md, find_method P mro m = Some (o, md) ->
  In o mro /\ exists cd, class_of P o = Some cd /\ lookup (c_methods cd) m = Some md.
Proof.
  intros P mro m o md. induction mro as [|d r IH]; simpl; intro H; [discriminate|].
  destruct (class_of P d) as [cd|] eqn:Ec.
  - destruct (lookup (c_methods cd) m) as [md0|] eqn:El.
    + inversion H; subst. split; [left; reflexivity | eauto].
    + destruct (IH H) as [Hi Hx]. split; [right; exact Hi | exact Hx].
  - destruct (IH H) as [Hi Hx]. split; [right; exact Hi | exact Hx].
Qed.

Lemma is_ok_unit : forall r : res unit, is_ok r = true -> r = Ok tt.
Proof. intros [[]| |] H; simpl in H; try discriminate; reflexivity. Qed.

Lemma with_label_ok_unit : forall l (r : res unit), with_label l r = Ok tt -> r = Ok tt.
Proof. intros l r H. destruct r as [x|[n|]|]; simpl in H; try discriminate; exact H. Qed.

Section S5.
Variable P : prog.
Hypothesis Hchk : check_prog_certified P = true.

Lemma defs_ok : forallb is_ok (check_defs P true) = true.
Proof.
  unfold check_prog_certified, check_prog_gen in Hchk. apply andb_prop in Hchk. tauto.
Qed.

Lemma class_checked : forall c cd, class_of P c = Some cd ->
  check_class P true c cd = Ok tt /\ forall m md, lookup (c_methods cd) m = Some md -> check_fun P true (Some c) md = Ok tt.
Proof.
  intros c cd H. apply lookup_in in H. pose proof defs_ok as D. rewrite forallb_forall in D.
  unfold check_defs in D. split.
  - apply is_ok_unit. apply D. apply in_or_app. left. apply in_flat_map. exists (c, cd). split; [exact H | left; reflexivity].
  - intros m md Hl. apply lookup_in in Hl. apply is_ok_unit. apply D. apply in_or_app. left.
    apply in_flat_map. exists (c, cd). split; [exact H|]. right. simpl.
    apply in_map_iff. exists (m, md). split; [reflexivity | exact Hl].
Qed.

Lemma fun_checked : forall g fd, lookup (p_funcs P) g = Some fd -> check_fun P true None fd = Ok tt.
Proof.
  intros g fd H. apply lookup_in in H. pose proof defs_ok as D. rewrite forallb_forall in D.
  apply is_ok_unit. apply D. unfold check_defs. apply in_or_app. right.
  apply in_map_iff. exists (g, fd). split; [reflexivity | exact H].
Qed.

Lemma class_sem : forall c cd, class_of P c = Some cd -> class_sem_ok P c cd = true.
Proof.
  intros c cd H. destruct (class_checked _ _ H) as [Hc _]. unfold check_class in Hc.
  destruct (negb (fields_present P cd)); [discriminate|]. apply with_label_ok_unit in Hc.
  destruct (_ && _) eqn:E in Hc; [|discriminate].
  apply andb_prop in E. destruct E as [E _]. apply andb_prop in E. tauto.
Qed.

(* unpack class_sem_ok for a class b of the MRO of c *)
Lemma sem_base : forall c cd b, class_of P c = Some cd -> In b (c_mro cd) ->
  exists bd, class_of P b = Some bd /\ subset_ids (c_mro bd) (c_mro cd) = true /\
    forallb (fun af => match lookup (c_fields cd) (fst af) with
                       | Some t => is_subtype P t (snd af) | None => false end) (c_fields bd) = true /\
    forallb (fun m => match find_method P (c_mro bd) m with
                      | None => true
                      | Some (ob, mb) => match find_method P (c_mro cd) m with
                                         | None => false
                                         | Some (oc, mc) => Nat.eqb oc ob || sig_compat P mc mb
                                         end
                      end) (all_method_names P) = true.
Proof.
  intros c cd b Hc Hin. pose proof (class_sem _ _ Hc) as S. unfold class_sem_ok in S.
  apply andb_prop in S. destruct S as [_ S]. rewrite forallb_forall in S. specialize (S _ Hin).
  destruct (class_of P b) as [bd|]; [|discriminate]. exists bd. split; [reflexivity|].
  apply andb_prop in S. destruct S as [S S3]. apply andb_prop in S. destruct S as [S1 S2]. auto.
Qed.

Lemma mro_of_eq : forall c cd, class_of P c = Some cd -> mro_of P c = c_mro cd.
Proof. intros c cd H. unfold mro_of. rewrite H. reflexivity. Qed.

Lemma subclass_defined : forall e c, subclass P e c = true -> exists cd, class_of P e = Some cd /\ In c (c_mro cd).
Proof.
  intros e c H. unfold subclass, mro_of in H. destruct (class_of P e) as [cd|] eqn:E; [|discriminate].
  exists cd. split; [reflexivity | apply mem_id_in; exact H].
Qed.

Lemma cert_sub_trans : sub_trans P.
Proof.
  intros e c d H1 H2. destruct (subclass_defined _ _ H1) as [ce [Ee Hin]].
  destruct (sem_base _ _ _ Ee Hin) as [bd [Eb [Hsub _]]].
  unfold subclass in *. rewrite (mro_of_eq _ _ Ee). rewrite (mro_of_eq _ _ Eb) in H2.
  apply mem_id_in. eapply subset_ids_in; [exact Hsub | apply mem_id_in; exact H2].
Qed.

Lemma cert_sub_refl : sub_refl P.
Proof.
  intros c cd H. pose proof (class_sem _ _ H) as S. unfold class_sem_ok in S.
  apply andb_prop in S. destruct S as [S _]. unfold subclass. rewrite (mro_of_eq _ _ H).
  destruct (c_mro cd) as [|c0 r]; [discriminate|]. apply Nat.eqb_eq in S. subst c0.
  apply mem_id_in. left; reflexivity.
Qed.

Lemma cert_fields_compat : fields_compat P.
Proof.
  intros d c fc fd a ti Hs Hfc Hfd Hl. destruct (subclass_defined _ _ Hs) as [cd [Ed Hin]].
  destruct (sem_base _ _ _ Ed Hin) as [bd [Eb [_ [Hf _]]]].
  unfold fields_of in Hfc, Hfd. rewrite Eb in Hfc. rewrite Ed in Hfd. inversion Hfc; inversion Hfd; subst.
  rewrite forallb_forall in Hf. apply lookup_in in Hl. specialize (Hf _ Hl). simpl in Hf.
  destruct (lookup (c_fields cd) a) as [td|]; [|discriminate]. eauto.
Qed.

Lemma method_name_listed : forall o cd m md, class_of P o = Some cd -> lookup (c_methods cd) m = Some md ->
  In m (all_method_names P).
Proof.
  intros o cd m md Hc Hl. unfold all_method_names. apply in_nodup. apply in_flat_map.
  exists (o, cd). split; [apply lookup_in; exact Hc|]. simpl. apply in_map_iff. exists (m, md).
  split; [reflexivity | apply lookup_in; exact Hl].
Qed.

Lemma cert_methods_compat : methods_compat P.
Proof.
  intros d c m o md Hs [cd0 Hd0] Hm. destruct (subclass_defined _ _ Hs) as [cd [Ed Hin]].
  destruct (sem_base _ _ _ Ed Hin) as [bd [Eb [_ [_ Hmeth]]]].
  unfold method_of in *. rewrite (mro_of_eq _ _ Eb) in Hm. rewrite (mro_of_eq _ _ Ed).
  destruct (find_method_spec _ _ _ _ _ Hm) as [_ [co [Eco Hlo]]].
  rewrite forallb_forall in Hmeth. specialize (Hmeth m (method_name_listed _ _ _ _ Eco Hlo)).
  rewrite Hm in Hmeth.
  destruct (find_method P (c_mro cd) m) as [[oc mc]|] eqn:Ef; [|discriminate].
  destruct (find_method_spec _ _ _ _ _ Ef) as [Hio [cc [Ecc Hlc]]].
  exists oc, mc. split; [reflexivity|]. split.
  { unfold subclass. rewrite (mro_of_eq _ _ Ed). apply mem_id_in. exact Hio. }
  split; [eauto|].
  apply orb_prop in Hmeth. destruct Hmeth as [E|E]; [|right; exact E].
  apply Nat.eqb_eq in E. subst oc. left. congruence.
Qed.

Theorem certified_prog_ok : prog_ok P.
Proof.
  split; [split; [exact cert_sub_trans | split; [exact cert_sub_refl | exact cert_fields_compat]]|].
  split; [exact cert_methods_compat|].
  split; [exact fun_checked|].
  intros o cd m md Hc Hl. exact (proj2 (class_checked _ _ Hc) _ _ Hl).
Qed.
End S5.
