(* C01: denotation of types (mem) and the environment invariant.  Definitions only. *)
From Coq Require Import ZArith List Bool Arith.
From C01 Require Import Lang Eval Check.
Import ListNotations.

(* mem P v t : the run-time value v is a member of the static type t.  bool is a subclass of int, so
   True/False are members of int (PEP 484's numeric promotions int->float->complex do not arise: the
   fragment has no floats). An object is a member of C when its class has C in its MRO and its
   attributes are members of the attribute types declared by its own class. *)
Inductive mem (P : prog) : value -> ty -> Prop :=
| M_int z : mem P (VInt z) TInt
| M_boolint b : mem P (VBool b) TInt
| M_bool b : mem P (VBool b) TBool
| M_str s : mem P (VStr s) TStr
| M_none : mem P VNone TNone
| M_union v t ts : In t ts -> mem P v t -> mem P v (TUnion ts)
| M_tuple vs ts : mems P vs ts -> mem P (VTuple vs) (TTuple ts)
| M_obj c d fs fds : subclass P d c = true -> fields_of P d = Some fds -> memf P fs fds ->
                     mem P (VObj d fs) (TInst c)
with mems (P : prog) : list value -> list ty -> Prop :=
| Ms_nil : mems P [] []
| Ms_cons v t vs ts : mem P v t -> mems P vs ts -> mems P (v :: vs) (t :: ts)
with memf (P : prog) : list (id * value) -> list (id * ty) -> Prop :=
| Mf_nil : memf P [] []
| Mf_cons a v t fs fds : mem P v t -> memf P fs fds -> memf P ((a, v) :: fs) ((a, t) :: fds).

(* the class table is closed under the subclass relation *)
Definition sub_trans (P : prog) : Prop :=
  forall e c d, subclass P e c = true -> subclass P c d = true -> subclass P e d = true.

(* run-time environment vs checker state: every bound variable has a declared type containing its
   value; every narrowed entry of the current frame contains the value; the point is reachable *)
Definition env_decl_ok (P : prog) (en : env) (d : decls) : Prop :=
  forall x v, lookup en x = Some v -> exists t, lookup d x = Some t /\ mem P v t.

Definition env_frame_ok (P : prog) (en : env) (fr : frame) : Prop :=
  forall x t b v, lookup fr x = Some (t, b) -> lookup en x = Some v -> mem P v t.

Definition env_ok (P : prog) (en : env) (st : cst) : Prop :=
  env_decl_ok P en (decl st) /\
  match cur st with Some fr => env_frame_ok P en fr | None => False end.

Definition no_type_failure {A} (o : out A) : Prop :=
  match o with Exn e => type_failure e = false | _ => True end.

(* what stage 2 needs from the class table (all three follow from Check.class_sem_ok, which
   check_prog demands of every class) *)
Definition sub_refl (P : prog) : Prop :=
  forall c cd, class_of P c = Some cd -> subclass P c c = true.

Definition fields_compat (P : prog) : Prop :=
  forall d c fc fd a ti, subclass P d c = true -> fields_of P c = Some fc -> fields_of P d = Some fd ->
    lookup fc a = Some ti -> exists td, lookup fd a = Some td /\ is_subtype P td ti = true.

Definition class_table_ok (P : prog) : Prop := sub_trans P /\ sub_refl P /\ fields_compat P.

Fixpoint call_free (e : expr) : bool :=
  match e with
  | ECallM _ _ _ | ECallF _ _ => false
  | ENew _ args => (fix go (l : list expr) := match l with [] => true | a :: r => call_free a && go r end) args
  | ETuple es => (fix go (l : list expr) := match l with [] => true | a :: r => call_free a && go r end) es
  | EAttr e1 _ | EIsNone e1 | EIsNotNone e1 | EIsInst e1 _ | ENot e1 | EIndex e1 _ | EReveal _ e1 => call_free e1
  | EBin _ e1 e2 | EAnd e1 e2 | EOr e1 e2 => call_free e1 && call_free e2
  | ECond c e1 e2 => call_free c && call_free e1 && call_free e2
  | _ => true
  end.

Definition map_ok (P : prog) (en : env) (m : list (id * ty)) : Prop :=
  forall x t v, In (x, t) m -> lookup en x = Some v -> mem P v t.

(* the (if_map, else_map) of a condition are correct for the branch actually taken *)
Definition maps_ok (P : prog) (en : env) (v : value) (m : tmap * tmap) : Prop :=
  (truthy v = true -> exists m1, fst m = Some m1 /\ map_ok P en m1) /\
  (truthy v = false -> exists m2, snd m = Some m2 /\ map_ok P en m2).

(* an exception outcome is acceptable: not a type failure; a propagating user exception is an exception object *)
Definition exn_ok (P : prog) (e : exn) : Prop :=
  match e with
  | UserExn w => mem P w (TInst exc_id)
  | _ => type_failure e = false
  end.

Definition expr_result_ok (P : prog) (en : env) (t : ty) (m : tmap * tmap) (o : out value) : Prop :=
  match o with
  | Val v => mem P v t /\ maps_ok P en v m
  | Exn e => exn_ok P e
  | NoFuel => True
  end.

(* ---- program-level hypotheses of stages 2/3 (all follow from check_prog_certified: Proofs5) *)
Definition methods_compat (P : prog) : Prop :=
  forall d c m o md, subclass P d c = true -> (exists cd, class_of P d = Some cd) ->
    method_of P c m = Some (o, md) ->
    exists o' md', method_of P d m = Some (o', md') /\ subclass P d o' = true /\
      (exists cd', class_of P o' = Some cd' /\ lookup (c_methods cd') m = Some md') /\
      (md' = md \/ sig_compat P md' md = true).

Definition params_of (self : option id) (fd : fdecl) : decls :=
  match self with Some c => (self_id, TInst c) :: f_params fd | None => f_params fd end.

Definition bodies_ok (P : prog) : Prop :=
  (forall g fd, lookup (p_funcs P) g = Some fd -> check_fun P true None fd = Ok tt) /\
  (forall o cd m md, class_of P o = Some cd -> lookup (c_methods cd) m = Some md ->
     check_fun P true (Some o) md = Ok tt).

Definition prog_ok (P : prog) : Prop := class_table_ok P /\ methods_compat P /\ bodies_ok P.

Definition call_ok (P : prog) (ret : ty) (o : out value) : Prop :=
  match o with Val v => mem P v ret | Exn e => exn_ok P e | NoFuel => True end.

(* running an accepted body from an environment that satisfies its parameter types *)
Definition body_ok_at (P : prog) (f : nat) : Prop :=
  forall self fd en, check_fun P true self fd = Ok tt -> env_decl_ok P en (params_of self fd) ->
    call_ok P (f_ret fd) (finish_call (exec P f en (f_body fd))).

Definition expr_ok_at (P : prog) (f : nat) : Prop :=
  forall e d fr t m en, infer P true d fr e = Ok (t, m) ->
    env_decl_ok P en d -> env_frame_ok P en fr -> expr_result_ok P en t m (eval P f en e).

(* the environment at an abrupt exit (or a normal one) is the entry environment or satisfies one of the
   binder's assignment snapshots: what mypy's try frames rely on *)
Definition covered (P : prog) (en en' : env) (J : jumps) : Prop :=
  en' = en \/ exists f, In f (exc J) /\ env_frame_ok P en' f.

Definition stmt_result_ok (P : prog) (ret : ty) (en : env) (st' : cst) (J : jumps) (o : out sres) : Prop :=
  match o with
  | Val (Normal en') => env_ok P en' st' /\ covered P en en' J
  | Val (Returned en' v) => mem P v ret /\ env_decl_ok P en' (decl st') /\ covered P en en' J
  | Val (Broke en') => env_decl_ok P en' (decl st') /\ covered P en en' J /\
                       exists f, In f (brk J) /\ env_frame_ok P en' f
  | Val (Continued en') => env_decl_ok P en' (decl st') /\ covered P en en' J /\
                           exists f, In f (cnt J) /\ env_frame_ok P en' f
  | Val (Raised en' w) => mem P w (TInst exc_id) /\ env_decl_ok P en' (decl st') /\ covered P en en' J
  | Exn e => exn_ok P e
  | NoFuel => True
  end.

Definition stmt_ok_at (P : prog) (f : nat) : Prop :=
  forall s ret st st' J en, check_stmt P true ret st s = Ok (st', J) -> env_ok P en st ->
    stmt_result_ok P ret en st' J (exec P f en s).
