From Coq Require Import ZArith List String Bool Extraction ExtrOcamlBasic.
From C01 Require Import Lang Eval Check.
(* zio.ml (shared I/O helpers) mentions Coq strings; keep the type in the extracted module *)
Definition unused_string : string := EmptyString.
Extraction "c01.ml" check_defs check_prog check_prog_certified annot_prog call_fun eval exec
  is_subtype mk_union unused_string.
