(* C01 — full-strength statements over the model (always visible; see Properties.v for what is proved). *)
From Coq Require Import ZArith List Bool.
From C01 Require Import Lang Eval Check Sem.
Import ListNotations.

Definition call_result_ok (P : prog) (ret : ty) (o : out value) : Prop :=
  match o with Val v => mem P v ret | Exn e => type_failure e = false | NoFuel => True end.

(* (1) + result membership.  check_prog is the model of mypy's verdict (tied by correspondence).
   REFUTED on the current tree: Properties.accepted_programs_do_not_go_wrong_refuted (two witnesses). *)
Definition accepted_programs_do_not_go_wrong : Prop :=
  forall P g fd vs fuel, check_prog P = true -> lookup (p_funcs P) g = Some fd ->
    mems P vs (map snd (f_params fd)) -> call_result_ok P (f_ret fd) (call_fun P fuel g vs).

(* the same for the certifying checker (every loop result re-checked to be a fixed point; isinstance
   narrowing of a union only when the dropped items share no subclass with the tested class).
   NOT PROVED (stage 3 is unfinished); monitored by the harness on every certified-accepted program. *)
Definition certified_programs_do_not_go_wrong : Prop :=
  forall P g fd vs fuel, check_prog_certified P = true -> lookup (p_funcs P) g = Some fd ->
    mems P vs (map snd (f_params fd)) -> call_result_ok P (f_ret fd) (call_fun P fuel g vs).

(* (2)+(3) as the binder-environment invariant: executing a statement from an environment that satisfies
   the checker's state ends in an environment satisfying the checker's exit state -- in particular a
   point the checker holds unreachable (cur = None) is never reached -- and never raises a type failure.
   NOT PROVED. *)
Definition stmt_invariant : Prop :=
  forall P ret st s st' en fuel, class_table_ok P -> check_prog_certified P = true ->
    check_stmt P true ret st s = Ok st' -> env_ok P en st ->
    match exec P fuel en s with
    | Val (Normal en') => env_ok P en' st'
    | Val (Returned v) => mem P v ret
    | Exn e => type_failure e = false
    | NoFuel => True
    end.

(* (3) every evaluated expression's value is a member of its static type, calls included.
   Proved for call-free expressions: Properties.expr_sound_partial. *)
Definition expr_sound : Prop :=
  forall P fuel e d fr t m en, class_table_ok P -> check_prog_certified P = true ->
    infer P true d fr e = Ok (t, m) -> env_decl_ok P en d -> env_frame_ok P en fr ->
    expr_result_ok P en t m (eval P fuel en e).

(* stage 1 for mypy's own isinstance narrowing (sm = false).  REFUTED: Properties.narrow_isinstance_refuted *)
Definition narrow_isinstance_sound_unrestricted : Prop :=
  forall P t k yes no v, sub_trans P -> narrow_isinst P false t k = Ok (yes, no) -> mem P v t ->
    (isinst P v k = true -> mem P v yes) /\ (isinst P v k = false -> mem P v no).
