(* C01 — full-strength statements over the model (always visible; see Properties.v for what is proved). *)
From Coq Require Import ZArith List Bool.
From C01 Require Import Lang Eval Check Sem.
Import ListNotations.

(* The three conjuncts of the property, for a checker verdict `accepts`:
   (1) a call of an accepted program's function on arguments of the declared types never raises
       TypeError/AttributeError, and its result is a member of the declared return type  (call_ok);
   (2)+(3) the binder-environment invariant holds at every statement: from an environment satisfying the
       checker's entry state, execution ends in an environment satisfying the checker's exit state
       (stmt_ok_at; env_ok requires cur <> None, so a point the checker holds unreachable is never
       reached), and every expression evaluated in such an environment yields a member of its static
       type together with correct narrowing maps (expr_ok_at). *)
(* user exceptions propagating out of a call are ordinary outcomes; TypeError / AttributeError are "going wrong" *)
Definition do_not_go_wrong (accepts : prog -> bool) : Prop :=
  forall P, accepts P = true ->
    (forall g fd vs fuel, lookup (p_funcs P) g = Some fd -> mems P vs (map snd (f_params fd)) ->
       call_ok P (f_ret fd) (call_fun P fuel g vs)).

(* mypy's verdict (check_prog, tied to real mypy by correspondence).
   REFUTED on the current tree: Properties.accepted_programs_do_not_go_wrong_refuted (two witnesses). *)
Definition accepted_programs_do_not_go_wrong : Prop := do_not_go_wrong check_prog.

(* the certifying checker: mypy's algorithm + validation of every merge, every loop result (post-fix-point,
   covering the entry state) and every isinstance narrowing that drops a union item.
   PROVED: Properties.certified_programs_do_not_go_wrong (with the invariants (2)+(3) as
   Properties.stmt_invariant / Properties.expr_sound / Properties.unreachable_never_reached). *)
Definition certified_programs_do_not_go_wrong : Prop := do_not_go_wrong check_prog_certified.

Definition stmt_invariant : Prop :=
  forall P, check_prog_certified P = true -> forall fuel, stmt_ok_at P fuel.

Definition expr_sound : Prop :=
  forall P, check_prog_certified P = true -> forall fuel, expr_ok_at P fuel.

(* mypy's verdict coincides with the certified one when no validation fails.  NOT PROVED (the certifying
   mode validates merges and loop results by re-computation, which acceptance alone does not give
   syntactically); the harness measures how many mypy-accepted generated programs are certified. *)
Definition accepted_and_validated_is_certified : Prop :=
  forall P, check_prog P = true -> forallb (fun r => match r with Unsup _ => false | _ => true end) (check_defs P true) = true ->
    check_prog_certified P = true.

(* stage 1 for mypy's own isinstance narrowing (sm = false).  REFUTED: Properties.narrow_isinstance_refuted *)
Definition narrow_isinstance_sound_unrestricted : Prop :=
  forall P t k yes no v, sub_trans P -> narrow_isinst P false t k = Ok (yes, no) -> mem P v t ->
    (isinst P v k = true -> mem P v yes) /\ (isinst P v k = false -> mem P v no).
