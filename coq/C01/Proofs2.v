(* C01 stage 2: a well-typed (call-free) expression evaluates to a member of its static type, its
   narrowing maps are correct for the branch taken, and it never raises TypeError/AttributeError. *)
From Coq Require Import ZArith List Bool Arith Lia.
From C01 Require Import Lang Eval Check Sem Proofs1.
Import ListNotations.

Section S2.
Variable P : prog.
Hypothesis Hpo : prog_ok P.
Let Hct : class_table_ok P := proj1 Hpo.
Let Hmc : methods_compat P := proj1 (proj2 Hpo).
Let Hbo : bodies_ok P := proj2 (proj2 Hpo).

Let Htrans : sub_trans P := proj1 Hct.
Let Hrefl : sub_refl P := proj1 (proj2 Hct).
Let Hfields : fields_compat P := proj2 (proj2 Hct).

Lemma mem_not_never : forall v t, mem P v t -> is_never t = false.
Proof.
  intros v t H. destruct t as [| | | | |[|a l]|]; try reflexivity.
  apply mem_union_inv in H. destruct H as [? [[] _]].
Qed.

Lemma map_ok_nil : forall en, map_ok P en [].
Proof. intros en x t v []. Qed.

Lemma map_ok_one : forall en x t v, lookup en x = Some v -> mem P v t -> map_ok P en [(x, t)].
Proof. intros en x t v Hl Hm y u w [E|[]] Hy. inversion E; subst. congruence. Qed.

Lemma generic_ok : forall en v t, mem P v t -> maps_ok P en v (generic_maps P t).
Proof.
  intros en v t H. destruct (narrow_truthy_sound P Htrans t v H) as [T F].
  unfold generic_maps. split; intro Hv; simpl.
  - rewrite (mem_not_never _ _ (T Hv)). eexists; split; [reflexivity | apply map_ok_nil].
  - rewrite (mem_not_never _ _ (F Hv)). eexists; split; [reflexivity | apply map_ok_nil].
Qed.

Lemma mk_map_ok : forall en x v t, lookup en x = Some v -> mem P v t ->
  exists m, mk_map x t = Some m /\ map_ok P en m.
Proof.
  intros en x v t Hl Hm. unfold mk_map. rewrite (mem_not_never _ _ Hm).
  eexists; split; [reflexivity | eapply map_ok_one; eauto].
Qed.

Lemma mk_map_chg_ok : forall en x v t t', lookup en x = Some v -> mem P v t' ->
  exists m, mk_map_chg P x t t' = Some m /\ map_ok P en m.
Proof.
  intros en x v t t' Hl Hm. unfold mk_map_chg. destruct (ty_same P t' t).
  - eexists; split; [reflexivity | apply map_ok_nil].
  - eapply mk_map_ok; eauto.
Qed.

Lemma eval_var : forall f en x v, eval P f en (EVar x) = Val v -> lookup en x = Some v.
Proof. intros [|f] en x v H; simpl in H; [discriminate|]. destruct (lookup en x); inversion H; reflexivity. Qed.

(* pushing a correct map keeps the frame correct *)
Lemma lookup_update_eq : forall A (l : list (id * A)) x a, lookup (update l x a) x = Some a.
Proof. intros. unfold update. simpl. rewrite Nat.eqb_refl. reflexivity. Qed.

Lemma lookup_remove_neq : forall A (l : list (id * A)) x y, x <> y -> lookup (remove l y) x = lookup l x.
Proof.
  intros A l x y Hn. induction l as [|[z a] r IH]; simpl; [reflexivity|].
  destruct (Nat.eqb y z) eqn:E.
  - apply Nat.eqb_eq in E. subst z. rewrite IH. destruct (Nat.eqb x y) eqn:E2; [apply Nat.eqb_eq in E2; congruence|reflexivity].
  - simpl. rewrite IH. reflexivity.
Qed.

Lemma lookup_update_neq : forall A (l : list (id * A)) x y a, x <> y -> lookup (update l y a) x = lookup l x.
Proof.
  intros. unfold update. simpl. destruct (Nat.eqb x y) eqn:E; [apply Nat.eqb_eq in E; congruence|].
  apply lookup_remove_neq; assumption.
Qed.

Lemma push_ok : forall en m fr flag, env_frame_ok P en fr -> map_ok P en m -> env_frame_ok P en (push fr m flag).
Proof.
  intros en m. induction m as [|[y u] m IH]; intros fr flag Hf Hm; simpl; [exact Hf|].
  unfold push in *. simpl. apply IH.
  - intros x t b v Hl He. destruct (Nat.eq_dec x y) as [->|Hn].
    + rewrite lookup_update_eq in Hl. inversion Hl; subst. eapply Hm; [left; reflexivity | exact He].
    + rewrite lookup_update_neq in Hl by assumption. eapply Hf; eauto.
  - intros x t v Hin. eapply Hm. right; exact Hin.
Qed.

Lemma view_ok : forall en d fr x t v, env_decl_ok P en d -> env_frame_ok P en fr ->
  view d fr x = Some t -> lookup en x = Some v -> mem P v t.
Proof.
  intros en d fr x t v Hd Hf Hv Hl. unfold view in Hv.
  destruct (lookup fr x) as [[t0 b]|] eqn:E.
  - inversion Hv; subst. eapply Hf; eauto.
  - destruct (Hd _ _ Hl) as [t' [Ht' Hm]]. congruence.
Qed.

(* ---- lists of expressions *)
Lemma forall2b_sub_mems : forall vs ats ps, mems P vs ats -> forall2b (is_subtype P) ats ps = true -> mems P vs ps.
Proof.
  intros vs ats ps H. revert ps. induction H; intros ps Hf; destruct ps; simpl in Hf; try discriminate.
  - constructor.
  - apply andb_prop in Hf. destruct Hf. constructor; [eapply subtype_sound; eauto | auto].
Qed.

Lemma mems_memf : forall vs (fds : list (id * ty)), mems P vs (map snd fds) -> memf P (combine (map fst fds) vs) fds.
Proof.
  intros vs fds. revert vs. induction fds as [|[a t] r IH]; intros vs H; inversion H; subst; simpl.
  - constructor.
  - constructor; auto.
Qed.

Lemma mems_length : forall vs ts, mems P vs ts -> length vs = length ts.
Proof. intros vs ts H. induction H; simpl; congruence. Qed.

Lemma memf_lookup : forall fs fds a t, memf P fs fds -> lookup fds a = Some t ->
  exists w, lookup fs a = Some w /\ mem P w t.
Proof.
  intros fs fds a t H. induction H; intro Hl; simpl in *; [discriminate|].
  destruct (Nat.eqb a a0); [inversion Hl; subst; eauto | auto].
Qed.

Lemma mems_nth : forall vs ts i t, mems P vs ts -> nth_error ts i = Some t ->
  exists w, nth_error vs i = Some w /\ mem P w t.
Proof.
  intros vs ts i t H. revert i. induction H; intros i Hn; destruct i; simpl in *; try discriminate.
  - inversion Hn; subst. eauto.
  - auto.
Qed.

Lemma map_res_in : forall A B (f : A -> res B) l bs a, map_res f l = Ok bs -> In a l ->
  exists b, f a = Ok b /\ In b bs.
Proof.
  intros A B f l. induction l as [|x r IH]; intros bs a H Hin; [destruct Hin|].
  simpl in H. destruct (f x) eqn:Ex; try discriminate. simpl in H.
  destruct (map_res f r) eqn:Er; try discriminate. simpl in H. inversion H; subst.
  destruct Hin as [->|Hin].
  - eexists; split; [exact Ex | left; reflexivity].
  - destruct (IH _ _ eq_refl Hin) as [b [Hb Hi]]. eexists; split; [exact Hb | right; exact Hi].
Qed.

Lemma sub_int_asint : forall t v, is_subtype P t TInt = true -> mem P v t -> exists z, as_int v = Some z.
Proof.
  intros t v Hs Hm. pose proof (subtype_sound P Htrans _ _ Hs _ Hm) as H. inversion H; subst; simpl; eauto.
Qed.

Lemma sub_str_vstr : forall t v, is_subtype P t TStr = true -> mem P v t -> exists s, v = VStr s.
Proof.
  intros t v Hs Hm. pose proof (subtype_sound P Htrans _ _ Hs _ Hm) as H. inversion H; subst; eauto.
Qed.

Lemma binop_sound : forall op t1 t2 t a b, binop_ty P op t1 t2 = Ok t -> mem P a t1 -> mem P b t2 ->
  match eval_binop op a b with Val v => mem P v t | Exn e => exn_ok P e | NoFuel => True end.
Proof.
  intros op t1 t2 t a b H Ha Hb. unfold binop_ty in H.
  destruct (is_subtype P t1 TInt) eqn:I1; destruct (is_subtype P t2 TInt) eqn:I2;
  destruct (is_subtype P t1 TStr) eqn:S1; destruct (is_subtype P t2 TStr) eqn:S2;
  destruct (has_tuple t1 || has_tuple t2);
  destruct op; simpl in H; try discriminate; inversion H; subst; clear H;
  repeat match goal with
  | I : is_subtype P ?t TInt = true, M : mem P ?v ?t |- _ =>
      let z := fresh "z" in let E := fresh "E" in destruct (sub_int_asint _ _ I M) as [z E]; clear I
  | S : is_subtype P ?t TStr = true, M : mem P ?v ?t |- _ =>
      let s := fresh "s" in destruct (sub_str_vstr _ _ S M) as [s ->]; clear S
  end;
  unfold eval_binop;
  repeat match goal with E : as_int _ = Some _ |- _ => rewrite E; clear E end;
  simpl;
  try (constructor; fail);
  try (destruct (val_eq _ _); [constructor | reflexivity]; fail);
  try (destruct (as_int _); constructor; fail).
  all: try (destruct (as_int a); destruct (as_int b); try constructor; fail).
  all: try (destruct b; simpl; try constructor; try reflexivity; fail).
  all: try (destruct a; simpl; try constructor; try reflexivity; fail).
Qed.

Definition infer_list (sm : bool) (d : decls) (fr : frame) :=
  fix go (es : list expr) : res (list ty) :=
    match es with
    | [] => Ok []
    | a :: r => bind (infer P sm d fr a) (fun x => bind (go r) (fun ts => Ok (fst x :: ts)))
    end.

Lemma infer_new : forall sm d fr c args, infer P sm d fr (ENew c args) =
  match fields_of P c with
  | None => Rej None
  | Some fds => bind (infer_list sm d fr args) (fun ats =>
      if check_args P ats fds then Ok (TInst c, generic_maps P (TInst c)) else Rej None)
  end.
Proof. reflexivity. Qed.

Lemma infer_callm : forall sm d fr e1 m args, infer P sm d fr (ECallM e1 m args) =
  bind (infer P sm d fr e1) (fun x =>
    bind (infer_list sm d fr args) (fun ats =>
      bind (map_res (call_item P m ats) (items (fst x))) (fun ts =>
        let t := mk_union P ts in Ok (t, generic_maps P t)))).
Proof. reflexivity. Qed.

Lemma infer_callf : forall sm d fr g args, infer P sm d fr (ECallF g args) =
  match lookup (p_funcs P) g with
  | None => Rej None
  | Some fd => bind (infer_list sm d fr args) (fun ats =>
      if check_args P ats (f_params fd) then Ok (f_ret fd, generic_maps P (f_ret fd)) else Rej None)
  end.
Proof. reflexivity. Qed.

Lemma bind_params_ok : forall (ps : list (id * ty)) vs, mems P vs (map snd ps) ->
  env_decl_ok P (bind_params ps vs) ps.
Proof.
  intros ps. unfold bind_params. induction ps as [|[y t] r IH]; intros vs H x v Hl; inversion H; subst; simpl in *; [discriminate|].
  destruct (Nat.eqb x y); [inversion Hl; subst; eauto | eapply IH; eauto].
Qed.

Lemma bind_self_ok : forall c (ps : list (id * ty)) vs v, mem P v (TInst c) -> mems P vs (map snd ps) ->
  env_decl_ok P ((self_id, v) :: bind_params ps vs) ((self_id, TInst c) :: ps).
Proof.
  intros c ps vs v Hv H x w Hl. simpl in *. destruct (Nat.eqb x self_id).
  - inversion Hl; subst. eauto.
  - eapply bind_params_ok; eauto.
Qed.

Lemma infer_tuple : forall sm d fr es, infer P sm d fr (ETuple es) =
  bind (infer_list sm d fr es) (fun ts => Ok (TTuple ts, generic_maps P (TTuple ts))).
Proof. reflexivity. Qed.

Lemma list_sound : forall f, expr_ok_at P f -> forall es d fr ats en,
  infer_list true d fr es = Ok ats ->
  env_decl_ok P en d -> env_frame_ok P en fr ->
  match eval_list (eval P f en) es with
  | Val vs => mems P vs ats
  | Exn e => exn_ok P e
  | NoFuel => True
  end.
Proof.
  intros f IH es. induction es as [|a r IHr]; intros d fr ats en Hi Hd Hf; simpl in *.
  - inversion Hi; subst. constructor.
  -     destruct (infer P true d fr a) as [[ta ma]| |] eqn:Ea; simpl in Hi; try discriminate.
    destruct (infer_list true d fr r) as [ts| |] eqn:Er; simpl in Hi; try discriminate.
    inversion Hi; subst. simpl.
    pose proof (IH a d fr ta ma en Ea Hd Hf) as Ra.
    destruct (eval P f en a) as [va|x|]; simpl in *; [|exact Ra|exact I].
    destruct Ra as [Ma _].
    specialize (IHr d fr ts en Er Hd Hf).
    destruct (eval_list (eval P f en) r) as [vs|x|]; simpl; [|exact IHr|exact I].
    constructor; assumption.
Qed.

Lemma and_maps_ok : forall en m1 m2, map_ok P en m1 -> map_ok P en m2 ->
  exists m, and_maps (Some m1) (Some m2) = Some m /\ map_ok P en m.
Proof.
  intros en m1 m2 H1 H2. eexists; split; [reflexivity|].
  intros x t v Hin Hl. apply in_app_or in Hin. destruct Hin as [Hin|Hin].
  - eapply H2; eauto.
  - apply filter_In in Hin. destruct Hin as [Hin _]. eapply H1; eauto.
Qed.

Lemma lookup_in : forall A (l : list (id * A)) x a, lookup l x = Some a -> In (x, a) l.
Proof.
  intros A l x a. induction l as [|[y b] r IH]; simpl; intro H; [discriminate|].
  destruct (Nat.eqb x y) eqn:E; [apply Nat.eqb_eq in E; subst; inversion H; left; reflexivity | right; auto].
Qed.

Lemma or_maps_ok : forall en o1 o2,
  ((exists m1, o1 = Some m1 /\ map_ok P en m1) \/ (exists m2, o2 = Some m2 /\ map_ok P en m2)) ->
  exists m, or_maps P o1 o2 = Some m /\ map_ok P en m.
Proof.
  intros en o1 o2 H. unfold or_maps.
  destruct o1 as [a|]; destruct o2 as [b|].
  - eexists; split; [reflexivity|]. intros x t v Hin Hl. apply in_flat_map in Hin.
    destruct Hin as [[y t1] [Hy Hx]]. simpl in Hx. destruct (lookup b y) as [t2|] eqn:Eb; [|destruct Hx].
    destruct Hx as [E|[]]. inversion E; subst. apply join_sound; [exact Htrans|].
    destruct H as [[m1 [E1 M1]]|[m2 [E2 M2]]].
    + inversion E1; subst. left. eapply M1; eauto.
    + inversion E2; subst. right. eapply M2; [eapply lookup_in; exact Eb | exact Hl].
  - destruct H as [[m1 [E1 M1]]|[m2 [E2 M2]]]; [inversion E1; subst; eauto | discriminate].
  - destruct H as [[m1 [E1 M1]]|[m2 [E2 M2]]]; [discriminate | inversion E2; subst; eauto].
  - destruct H as [[m1 [E1 M1]]|[m2 [E2 M2]]]; discriminate.
Qed.

Ltac sub_eval IH e1 E1 Hd Hf M1 R1 :=
  match type of E1 with infer P true ?d ?fr e1 = Ok (?t1, ?m1) =>
    match goal with |- context [eval P ?f ?en e1] =>
      let R := fresh "R" in
      pose proof (IH e1 d fr t1 m1 en E1 Hd Hf) as R;
      destruct (eval P f en e1) as [?v|?x|] eqn:?Ev; simpl in *; [destruct R as [M1 R1] | exact R | exact I]
    end
  end.

Theorem expr_step : forall f, expr_ok_at P f -> body_ok_at P f -> expr_ok_at P (S f).
Proof.
  intros f IH HB e d fr t m en Hi Hd Hf.
  destruct e; simpl eval.
  - (* EVar *)
    simpl in Hi. destruct (view d fr x) as [tx|] eqn:Ev; [|discriminate]. inversion Hi; subst.
    destruct (lookup en x) as [v|] eqn:El; simpl; [|reflexivity].
    pose proof (view_ok _ _ _ _ _ _ Hd Hf Ev El) as Mv.
    destruct (narrow_truthy_sound P Htrans _ _ Mv) as [T F].
    split; [exact Mv|]. split; intro Hv; simpl.
    + eapply mk_map_ok; eauto.
    + eapply mk_map_ok; eauto.
  - (* EInt *)
    simpl in Hi. inversion Hi; subst. simpl. split; [constructor|].
    destruct (Z.eqb z 0) eqn:E0; [|destruct (Z.ltb 0 z)]; split; intro Hv; simpl in *;
      try (rewrite E0 in Hv; discriminate); try (eexists; split; [reflexivity | apply map_ok_nil]).
  - (* EBool *)
    simpl in Hi. inversion Hi; subst. simpl. split; [constructor|].
    destruct b; split; intro Hv; simpl in *; try discriminate; eexists; split; try reflexivity; apply map_ok_nil.
  - (* ENone *)
    simpl in Hi. inversion Hi; subst. simpl. split; [constructor|].
    split; intro Hv; simpl in *; try discriminate; eexists; split; try reflexivity; apply map_ok_nil.
  - (* EStr *)
    simpl in Hi. inversion Hi; subst. simpl. split; [constructor|].
    split; intro Hv; simpl in *; eexists; split; try reflexivity; apply map_ok_nil.
  - (* ENew *)
    rewrite infer_new in Hi. unfold fields_of in Hi. destruct (class_of P c) as [cd|] eqn:Ec; [|discriminate].
    destruct (infer_list true d fr args) as [ats| |] eqn:Ea; simpl in Hi; try discriminate.
    destruct (check_args P ats (c_fields cd)) eqn:Eca; [|discriminate]. inversion Hi; subst.
    pose proof (list_sound f IH args d fr ats en Ea Hd Hf) as Rl.
    destruct (eval_list (eval P f en) args) as [vs|x|]; simpl; [|exact Rl|exact I].
    unfold check_args in Eca. pose proof (forall2b_sub_mems _ _ _ Rl Eca) as Mf.
    rewrite (mems_length _ _ Mf), map_length, Nat.eqb_refl.
    assert (Mo : mem P (VObj c (combine (map fst (c_fields cd)) vs)) (TInst c)).
    { econstructor; [eapply Hrefl; eauto | unfold fields_of; rewrite Ec; reflexivity | apply mems_memf; exact Mf]. }
    split; [exact Mo | apply generic_ok; exact Mo].
  - (* EAttr *)
    simpl in Hi.
    destruct (infer P true d fr e) as [[t1 m1]| |] eqn:E1; simpl in Hi; try discriminate.
    destruct (map_res (attr_item P a) (items t1)) as [ts| |] eqn:Em; simpl in Hi; try discriminate.
    inversion Hi; subst.
    sub_eval IH e E1 Hd Hf M1 R1.
    destruct (mem_items P _ _ M1) as [i [Hi1 Mi]].
    destruct (map_res_in _ _ _ _ _ _ Em Hi1) as [ti [Hti Hin]].
    unfold attr_item in Hti. destruct i; try discriminate.
    destruct (fields_of P c) as [fc|] eqn:Efc; [|discriminate].
    destruct (lookup fc a) as [ta|] eqn:Ela; [|discriminate]. inversion Hti; subst.
    inversion Mi; subst.
    match goal with Hs : subclass P ?d0 c = true, Hfd : fields_of P ?d0 = Some ?fds0, Hm : memf P _ ?fds0 |- _ =>
      destruct (Hfields _ _ _ _ _ _ Hs Efc Hfd Ela) as [td [Ltd Std]];
      destruct (memf_lookup _ _ _ _ Hm Ltd) as [w [Lw Mw]] end.
    rewrite Lw.
    assert (Mt : mem P w (mk_union P ts)).
    { eapply mk_union_sound; [exact Htrans | exact Hin | eapply subtype_sound; eauto]. }
    split; [exact Mt | apply generic_ok; exact Mt].
  - (* ECallM *)
    rewrite infer_callm in Hi.
    destruct (infer P true d fr e) as [[t1 m1]| |] eqn:E1; simpl in Hi; try discriminate.
    destruct (infer_list true d fr args) as [ats| |] eqn:Ea; simpl in Hi; try discriminate.
    destruct (map_res (call_item P m0 ats) (items t1)) as [ts| |] eqn:Em; simpl in Hi; try discriminate.
    inversion Hi; subst.
    sub_eval IH e E1 Hd Hf M1 R1.
    destruct (mem_items P _ _ M1) as [i [Hi1 Mi]].
    destruct (map_res_in _ _ _ _ _ _ Em Hi1) as [ti [Hti Hin]].
    unfold call_item in Hti. destruct i; try discriminate.
    destruct (method_of P c m0) as [[o md]|] eqn:Emo; [|discriminate].
    destruct (check_args P ats (f_params md)) eqn:Eca; [|discriminate]. inversion Hti; subst.
    inversion Mi as [ | | | | | | |c0 dc fs fds Hsub Hfd Hmf]; subst.
    assert (Hcd : exists cd, class_of P dc = Some cd).
    { unfold fields_of in Hfd. destruct (class_of P dc); [eauto|discriminate]. }
    destruct (Hmc _ _ _ _ _ Hsub Hcd Emo) as [o' [md' [Emo' [Hso' [[cd' [Hc' Hl']] Hcompat]]]]].
    rewrite Emo'.
    pose proof (list_sound f IH args d fr ats en Ea Hd Hf) as Rl.
    destruct (eval_list (eval P f en) args) as [vs|x|]; simpl; [|exact Rl|exact I].
    unfold check_args in Eca. pose proof (forall2b_sub_mems _ _ _ Rl Eca) as Mps.
    assert (Mps' : mems P vs (map snd (f_params md')) /\ is_subtype P (f_ret md') (f_ret md) = true \/ md' = md).
    { destruct Hcompat as [->|Hsc]; [right; reflexivity|]. left.
      unfold sig_compat in Hsc. apply andb_prop in Hsc. destruct Hsc as [Hp Hr].
      split; [eapply forall2b_sub_mems; eauto | exact Hr]. }
    assert (Mps2 : mems P vs (map snd (f_params md'))).
    { destruct Mps' as [[A _]| ->]; assumption. }
    rewrite (mems_length _ _ Mps2), map_length, Nat.eqb_refl.
    assert (Mself : mem P (VObj dc fs) (TInst o')) by (econstructor; eauto).
    pose proof (HB (Some o') md' ((self_id, VObj dc fs) :: bind_params (f_params md') vs)
                  (proj2 Hbo _ _ _ _ Hc' Hl') (bind_self_ok _ _ _ _ Mself Mps2)) as Rb.
    unfold call_ok in Rb.
    destruct (finish_call _) as [r|x|]; [|exact Rb|exact I].
    assert (Mr : mem P r (f_ret md)).
    { destruct Mps' as [[_ Hr]| ->]; [eapply subtype_sound; eauto | exact Rb]. }
    assert (Mt : mem P r (mk_union P ts)) by (eapply mk_union_sound; [exact Htrans | exact Hin | exact Mr]).
    split; [exact Mt | apply generic_ok; exact Mt].
  - (* ECallF *)
    rewrite infer_callf in Hi.
    destruct (lookup (p_funcs P) f0) as [fd|] eqn:Eg; [|discriminate].
    destruct (infer_list true d fr args) as [ats| |] eqn:Ea; simpl in Hi; try discriminate.
    destruct (check_args P ats (f_params fd)) eqn:Eca; [|discriminate]. inversion Hi; subst.
    pose proof (list_sound f IH args d fr ats en Ea Hd Hf) as Rl.
    destruct (eval_list (eval P f en) args) as [vs|x|]; simpl; [|exact Rl|exact I].
    unfold check_args in Eca. pose proof (forall2b_sub_mems _ _ _ Rl Eca) as Mps.
    rewrite (mems_length _ _ Mps), map_length, Nat.eqb_refl.
    pose proof (HB None fd (bind_params (f_params fd) vs) (proj1 Hbo _ _ Eg) (bind_params_ok _ _ Mps)) as Rb.
    unfold call_ok in Rb.
    destruct (finish_call _) as [r|x|]; [|exact Rb|exact I].
    split; [exact Rb | apply generic_ok; exact Rb].
  - (* EBin *)
    simpl in Hi.
    destruct (infer P true d fr e1) as [[t1 m1]| |] eqn:E1; simpl in Hi; try discriminate.
    destruct (infer P true d fr e2) as [[t2 m2]| |] eqn:E2; simpl in Hi; try discriminate.
    destruct (binop_ty P op t1 t2) as [tb| |] eqn:Eb; simpl in Hi; try discriminate. inversion Hi; subst.
    sub_eval IH e1 E1 Hd Hf M1 R1.
    sub_eval IH e2 E2 Hd Hf M2 R2.
    pose proof (binop_sound _ _ _ _ _ _ Eb M1 M2) as Rb.
    destruct (eval_binop op v v0); [|exact Rb|exact I].
    split; [exact Rb | apply generic_ok; exact Rb].
  - (* EIsNone *)
    simpl in Hi.
    destruct (infer P true d fr e) as [[t1 m1]| |] eqn:E1; simpl in Hi; try discriminate.
    sub_eval IH e E1 Hd Hf M1 R1.
    destruct (narrow_none_sound P Htrans _ _ M1) as [N1 N2].
    assert (G : forall b, maps_ok P en (VBool b) (Some [], Some [])).
    { intro b. split; intro; eexists; split; try reflexivity; apply map_ok_nil. }
    destruct e; inversion Hi; subst; (split; [constructor|]); try apply G.
    apply eval_var in Ev. split; intro Hv; simpl in *.
    + destruct v; try discriminate. eapply mk_map_chg_ok; eauto.
    + eapply mk_map_chg_ok; eauto. apply N2. intro; subst; discriminate.
  - (* EIsNotNone *)
    simpl in Hi.
    destruct (infer P true d fr e) as [[t1 m1]| |] eqn:E1; simpl in Hi; try discriminate.
    sub_eval IH e E1 Hd Hf M1 R1.
    destruct (narrow_none_sound P Htrans _ _ M1) as [N1 N2].
    assert (G : forall b, maps_ok P en (VBool b) (Some [], Some [])).
    { intro b. split; intro; eexists; split; try reflexivity; apply map_ok_nil. }
    destruct e; inversion Hi; subst; (split; [constructor|]); try apply G.
    apply eval_var in Ev. split; intro Hv; simpl in *.
    + eapply mk_map_chg_ok; eauto. apply N2. intro; subst; discriminate.
    + destruct v; try discriminate. eapply mk_map_chg_ok; eauto.
  - (* EIsInst *)
    simpl in Hi.
    destruct (infer P true d fr e) as [[t1 m1]| |] eqn:E1; simpl in Hi; try discriminate.
    destruct (cref_ok P k) eqn:Ek; [|discriminate].
    sub_eval IH e E1 Hd Hf M1 R1.
    unfold cref_defined. unfold cref_ok in Ek. rewrite Ek.
    assert (G : forall b, maps_ok P en (VBool b) (Some [], Some [])).
    { intro b. split; intro; eexists; split; try reflexivity; apply map_ok_nil. }
    destruct e; try (inversion Hi; subst; split; [constructor | apply G]).
    destruct (narrow_isinst P true t1 k) as [[yes no]| |] eqn:En; simpl in Hi; try discriminate.
    inversion Hi; subst. split; [constructor|].
    destruct (narrow_isinstance_sound P Htrans _ _ _ _ _ En M1) as [Y N].
    apply eval_var in Ev. split; intro Hv; simpl in *; [|eapply mk_map_ok; eauto].
    destruct t1; try (eapply mk_map_chg_ok; eauto); eapply mk_map_ok; eauto.
  - (* EIsInstL *)
    simpl in Hi.
    destruct (infer P true d fr e) as [[t1 m1]| |] eqn:E1; simpl in Hi; try discriminate.
    destruct (forallb (cref_ok P) ks) eqn:Ek; [|discriminate].
    sub_eval IH e E1 Hd Hf M1 R1.
    assert (Ek' : forallb (cref_defined P) ks = true) by exact Ek. rewrite Ek'.
    assert (G : forall b, maps_ok P en (VBool b) (Some [], Some [])).
    { intro b. split; intro; eexists; split; try reflexivity; apply map_ok_nil. }
    destruct e; try (inversion Hi; subst; split; [constructor | apply G]).
    destruct (narrow_isinst_l P true t1 ks) as [[yes no]| |] eqn:En; simpl in Hi; try discriminate.
    inversion Hi; subst. split; [constructor|].
    destruct (narrow_isinstance_l_sound P Htrans _ _ _ _ _ En M1) as [Y N].
    apply eval_var in Ev. split; intro Hv; simpl in *; [|eapply mk_map_ok; eauto].
    destruct t1; try (eapply mk_map_chg_ok; eauto); eapply mk_map_ok; eauto.
  - (* ENot *)
    simpl in Hi.
    destruct (infer P true d fr e) as [[t1 [mi me]]| |] eqn:E1; simpl in Hi; try discriminate.
    inversion Hi; subst.
    sub_eval IH e E1 Hd Hf M1 R1.
    split; [constructor|]. destruct R1 as [RT RF]. split; intro Hv; simpl in *.
    + apply RF. destruct (truthy v); [discriminate|reflexivity].
    + apply RT. destruct (truthy v); [reflexivity|discriminate].
  - (* EAnd *)
    simpl in Hi.
    destruct (infer P true d fr e1) as [[t1 [mi me]]| |] eqn:E1; simpl in Hi; try discriminate.
    sub_eval IH e1 E1 Hd Hf M1 R1. destruct R1 as [RT RF]. simpl in *.
    destruct (narrow_truthy_sound P Htrans _ _ M1) as [TT TF].
    destruct mi as [mm|].
    + destruct (infer P true d (push fr mm false) e2) as [[t2 [mi2 me2]]| |] eqn:E2; simpl in Hi; try discriminate.
      inversion Hi; subst.
      destruct (truthy v) eqn:Tv.
      * destruct (RT eq_refl) as [m1' [Em1 Mok1]]. inversion Em1; subst.
        pose proof (IH e2 d (push fr m1' false) t2 (mi2, me2) en E2 Hd (push_ok _ _ _ _ Hf Mok1)) as R2.
        destruct (eval P f en e2) as [v2|x|]; simpl in *; [|exact R2|exact I].
        destruct R2 as [M2 [R2T R2F]]. split; [apply join_sound; [exact Htrans | right; exact M2]|].
        split; intro Hv; simpl in *.
        -- destruct (R2T Hv) as [m2' [Em2 Mok2]]. simpl in Em2. subst mi2. eapply and_maps_ok; eauto.
        -- apply or_maps_ok. right. exact (R2F Hv).
      * split; [apply join_sound; [exact Htrans | left; apply TF; reflexivity]|].
        split; intro Hv; simpl in *; [congruence|].
        apply or_maps_ok. left. exact (RF eq_refl).
    + inversion Hi; subst. destruct (truthy v) eqn:Tv.
      * destruct (RT eq_refl) as [? [Em _]]. discriminate.
      * split; [exact M1|]. split; intro Hv; simpl in *; [congruence | exact (RF eq_refl)].
  - (* EOr *)
    simpl in Hi.
    destruct (infer P true d fr e1) as [[t1 [mi me]]| |] eqn:E1; simpl in Hi; try discriminate.
    sub_eval IH e1 E1 Hd Hf M1 R1. destruct R1 as [RT RF]. simpl in *.
    destruct (narrow_truthy_sound P Htrans _ _ M1) as [TT TF].
    destruct me as [mm|].
    + destruct (infer P true d (push fr mm false) e2) as [[t2 [mi2 me2]]| |] eqn:E2; simpl in Hi; try discriminate.
      inversion Hi; subst.
      destruct (truthy v) eqn:Tv.
      * split; [apply join_sound; [exact Htrans | left; apply TT; reflexivity]|].
        split; intro Hv; simpl in *; [|congruence].
        apply or_maps_ok. left. exact (RT eq_refl).
      * destruct (RF eq_refl) as [m1' [Em1 Mok1]]. inversion Em1; subst.
        pose proof (IH e2 d (push fr m1' false) t2 (mi2, me2) en E2 Hd (push_ok _ _ _ _ Hf Mok1)) as R2.
        destruct (eval P f en e2) as [v2|x|]; simpl in *; [|exact R2|exact I].
        destruct R2 as [M2 [R2T R2F]]. split; [apply join_sound; [exact Htrans | right; exact M2]|].
        split; intro Hv; simpl in *.
        -- apply or_maps_ok. right. exact (R2T Hv).
        -- destruct (R2F Hv) as [m2' [Em2 Mok2]]. simpl in Em2. subst me2. eapply and_maps_ok; eauto.
    + inversion Hi; subst. destruct (truthy v) eqn:Tv.
      * split; [exact M1|]. split; intro Hv; simpl in *; [exact (RT eq_refl) | congruence].
      * destruct (RF eq_refl) as [? [Em _]]. discriminate.
  - (* ETuple *)
    rewrite infer_tuple in Hi.
    destruct (infer_list true d fr es) as [ts| |] eqn:Ea; simpl in Hi; try discriminate. inversion Hi; subst.
    pose proof (list_sound f IH es d fr ts en Ea Hd Hf) as Rl.
    destruct (eval_list (eval P f en) es) as [vs|x|]; simpl; [|exact Rl|exact I].
    assert (Mt : mem P (VTuple vs) (TTuple ts)) by (constructor; exact Rl).
    split; [exact Mt | apply generic_ok; exact Mt].
  - (* EIndex *)
    simpl in Hi.
    destruct (infer P true d fr e) as [[t1 m1]| |] eqn:E1; simpl in Hi; try discriminate.
    destruct (map_res (index_item i) (items t1)) as [ts| |] eqn:Em; simpl in Hi; try discriminate.
    inversion Hi; subst.
    sub_eval IH e E1 Hd Hf M1 R1.
    destruct (mem_items P _ _ M1) as [it [Hi1 Mi]].
    destruct (map_res_in _ _ _ _ _ _ Em Hi1) as [ti [Hti Hin]].
    unfold index_item in Hti. destruct it; try discriminate.
    + inversion Hti; subst. inversion Mi; subst.
      destruct (nth_error s i) as [ch|]; simpl; [|reflexivity].
      assert (Mt : mem P (VStr [ch]) (mk_union P ts)).
      { eapply mk_union_sound; [exact Htrans | exact Hin | constructor]. }
      split; [exact Mt | apply generic_ok; exact Mt].
    + destruct (nth_error ts0 i) as [tn|] eqn:En; [|discriminate]. inversion Hti; subst.
      inversion Mi as [ | | | | | |vs0 ts1 Hms| ]; subst.
      destruct (mems_nth _ _ _ _ Hms En) as [w [Nw Mw]]. rewrite Nw.
      assert (Mt : mem P w (mk_union P ts)).
      { eapply mk_union_sound; [exact Htrans | exact Hin | exact Mw]. }
      split; [exact Mt | apply generic_ok; exact Mt].
  - (* ECond *)
    simpl in Hi.
    destruct (infer P true d fr e1) as [[tc [mi me]]| |] eqn:E1; simpl in Hi; try discriminate.
    sub_eval IH e1 E1 Hd Hf M1 R1. destruct R1 as [RT RF]. simpl in *.
    destruct (match mi with None => Ok TNever | Some m0 => bind (infer P true d (push fr m0 false) e2) (fun x => Ok (fst x)) end)
      as [ta| |] eqn:Ea; simpl in Hi; try discriminate.
    destruct (match me with None => Ok TNever | Some m0 => bind (infer P true d (push fr m0 false) e3) (fun x => Ok (fst x)) end)
      as [tb| |] eqn:Eb; simpl in Hi; try discriminate.
    inversion Hi; subst.
    destruct (truthy v) eqn:Tv.
    + destruct (RT eq_refl) as [m1' [Em1 Mok1]]. subst mi.
      destruct (infer P true d (push fr m1' false) e2) as [[t2 mm2]| |] eqn:E2; simpl in Ea; try discriminate.
      inversion Ea; subst.
      pose proof (IH e2 d (push fr m1' false) ta mm2 en E2 Hd (push_ok _ _ _ _ Hf Mok1)) as R2.
      destruct (eval P f en e2) as [v2|x|]; simpl in *; [|exact R2|exact I].
      destruct R2 as [M2 _].
      assert (Mt : mem P v2 (mk_union P [ta; tb])) by (apply join_sound; [exact Htrans | left; exact M2]).
      split; [exact Mt | apply generic_ok; exact Mt].
    + destruct (RF eq_refl) as [m1' [Em1 Mok1]]. subst me.
      destruct (infer P true d (push fr m1' false) e3) as [[t3 mm3]| |] eqn:E3; simpl in Eb; try discriminate.
      inversion Eb; subst.
      pose proof (IH e3 d (push fr m1' false) tb mm3 en E3 Hd (push_ok _ _ _ _ Hf Mok1)) as R3.
      destruct (eval P f en e3) as [v3|x|]; simpl in *; [|exact R3|exact I].
      destruct R3 as [M3 _].
      assert (Mt : mem P v3 (mk_union P [ta; tb])) by (apply join_sound; [exact Htrans | right; exact M3]).
      split; [exact Mt | apply generic_ok; exact Mt].
  - (* EReveal *)
    simpl in Hi.
    destruct (infer P true d fr e) as [[t1 m1]| |] eqn:E1; simpl in Hi; try discriminate.
    inversion Hi; subst.
    pose proof (IH e d fr t m1 en E1 Hd Hf) as R.
    destruct (eval P f en e) as [v|x|]; simpl in *; [|exact R|exact I].
    destruct R as [M _]. split; [exact M | apply generic_ok; exact M].
Qed.
End S2.
