(* C01 / MiniPy: big-step evaluator with fuel.  TypeError / AttributeError are raised where
   CPython raises them for this fragment.  Executable definitions only. *)
From Coq Require Import ZArith List Bool Arith.
From C01 Require Import Lang.
Import ListNotations.
Open Scope Z_scope.

Inductive exn := TypeError | AttributeError | NameError | IndexError | AssertionError
               | Unmodelled    (* behaviour the model does not define: == on objects, < on tuples, builtin
                                  exceptions reaching `except Exception` or a `finally` *)
               | UserExn (w : value).   (* an instance of a user exception class propagating out of a call *)

Definition type_failure (e : exn) : bool :=
  match e with TypeError | AttributeError => true | _ => false end.

Inductive out (A : Type) := Val (a : A) | Exn (e : exn) | NoFuel.
Arguments Val {A} a.
Arguments Exn {A} e.
Arguments NoFuel {A}.

Definition obind {A B} (o : out A) (f : A -> out B) : out B :=
  match o with Val a => f a | Exn e => Exn e | NoFuel => NoFuel end.

Definition env := list (id * value).

Inductive sres :=
| Normal (en : env)
| Returned (en : env) (v : value)
| Broke (en : env)
| Continued (en : env)
| Raised (en : env) (w : value).      (* a user exception propagating inside the function; locals persist *)

Definition env_of (r : sres) : env :=
  match r with Normal en | Returned en _ | Broke en | Continued en | Raised en _ => en end.

Definition set_env (r : sres) (en : env) : sres :=
  match r with
  | Normal _ => Normal en | Returned _ v => Returned en v | Broke _ => Broke en
  | Continued _ => Continued en | Raised _ w => Raised en w
  end.

(* an expression inside a statement: a user exception becomes a statement-level Raised with the locals *)
Definition slift (en : env) (o : out value) (k : value -> out sres) : out sres :=
  match o with
  | Val v => k v
  | Exn (UserExn w) => Val (Raised en w)
  | Exn e => Exn e
  | NoFuel => NoFuel
  end.

Definition as_int (v : value) : option Z :=
  match v with VInt z => Some z | VBool b => Some (if b then 1 else 0) | _ => None end.

Definition truthy (v : value) : bool :=
  match v with
  | VInt z => negb (Z.eqb z 0)
  | VBool b => b
  | VStr s => match s with [] => false | _ => true end
  | VNone => false
  | VTuple vs => match vs with [] => false | _ => true end
  | VObj _ _ => true
  end.

Fixpoint list_eqb (a b : list nat) : bool :=
  match a, b with
  | [], [] => true
  | x :: a', y :: b' => Nat.eqb x y && list_eqb a' b'
  | _, _ => false
  end.

Fixpoint str_lt (a b : list nat) : bool :=
  match a, b with
  | _, [] => false
  | [], _ :: _ => true
  | x :: a', y :: b' => if Nat.ltb x y then true else if Nat.ltb y x then false else str_lt a' b'
  end.

(* Python == ; None when an object is compared (identity is not modelled) *)
Fixpoint val_eq (a b : value) : option bool :=
  match a, b with
  | VObj _ _, _ => None
  | _, VObj _ _ => None
  | VTuple xs, VTuple ys =>
      (fix go (xs ys : list value) : option bool :=
         match xs, ys with
         | [], [] => Some true
         | x :: xs', y :: ys' =>
             match val_eq x y with
             | Some true => go xs' ys'
             | Some false => Some false
             | None => None
             end
         | _, _ => Some false
         end) xs ys
  | VStr s, VStr t => Some (list_eqb s t)
  | VNone, VNone => Some true
  | _, _ => match as_int a, as_int b with
            | Some x, Some y => Some (Z.eqb x y)
            | _, _ => Some false
            end
  end.

Fixpoint rep {A} (n : nat) (l : list A) : list A :=
  match n with O => [] | S n' => l ++ rep n' l end.

Definition eval_binop (op : binop) (a b : value) : out value :=
  match op with
  | BAdd =>
      match as_int a, as_int b with
      | Some x, Some y => Val (VInt (x + y))
      | _, _ => match a, b with
                | VStr s, VStr t => Val (VStr (s ++ t))
                | VTuple x, VTuple y => Val (VTuple (x ++ y))
                | _, _ => Exn TypeError
                end
      end
  | BSub =>
      match as_int a, as_int b with
      | Some x, Some y => Val (VInt (x - y))
      | _, _ => Exn TypeError
      end
  | BMul =>
      match as_int a, as_int b with
      | Some x, Some y => Val (VInt (x * y))
      | Some n, None => match b with
                        | VStr s => Val (VStr (rep (Z.to_nat n) s))
                        | VTuple t => Val (VTuple (rep (Z.to_nat n) t))
                        | _ => Exn TypeError
                        end
      | None, Some n => match a with
                        | VStr s => Val (VStr (rep (Z.to_nat n) s))
                        | VTuple t => Val (VTuple (rep (Z.to_nat n) t))
                        | _ => Exn TypeError
                        end
      | None, None => Exn TypeError
      end
  | BEq => match val_eq a b with Some r => Val (VBool r) | None => Exn Unmodelled end
  | BLt =>
      match as_int a, as_int b with
      | Some x, Some y => Val (VBool (Z.ltb x y))
      | _, _ => match a, b with
                | VStr s, VStr t => Val (VBool (str_lt s t))
                | VTuple _, VTuple _ => Exn Unmodelled
                | _, _ => Exn TypeError
                end
      end
  end.

Definition isinst (P : prog) (v : value) (k : cref) : bool :=
  match k, v with
  | CInt, VInt _ => true
  | CInt, VBool _ => true
  | CBool, VBool _ => true
  | CStr, VStr _ => true
  | CUser c, VObj d _ => subclass P d c
  | _, _ => false
  end.

Definition cref_defined (P : prog) (k : cref) : bool :=
  match k with CUser c => match class_of P c with Some _ => true | None => false end | _ => true end.

Fixpoint eval_list (ev : expr -> out value) (es : list expr) : out (list value) :=
  match es with
  | [] => Val []
  | e :: r => obind (ev e) (fun v => obind (eval_list ev r) (fun vs => Val (v :: vs)))
  end.

Definition bind_params (params : list (id * ty)) (vs : list value) : env :=
  combine (map fst params) vs.

Definition finish_call (r : out sres) : out value :=
  match r with
  | Val (Normal _) => Val VNone
  | Val (Returned _ v) => Val v
  | Val (Raised _ w) => Exn (UserExn w)
  | Val (Broke _) => Exn Unmodelled
  | Val (Continued _) => Exn Unmodelled
  | Exn e => Exn e
  | NoFuel => NoFuel
  end.

Definition zrange (n : Z) : list Z := map Z.of_nat (seq 0 (Z.to_nat n)).

Definition iter_values (rng : bool) (v : value) : out (list value) :=
  if rng then match as_int v with Some n => Val (map VInt (zrange n)) | None => Exn TypeError end
  else match v with
       | VTuple vs => Val vs
       | VStr s => Val (map (fun ch => VStr [ch]) s)
       | _ => Exn TypeError
       end.

Definition catches (P : prog) (c : id) (w : value) : bool :=
  match w with VObj d _ => subclass P d c | _ => false end.

Definition bind_opt (en : env) (x : option id) (w : value) : env :=
  match x with Some y => update en y w | None => en end.

Definition unbind_opt (x : option id) (r : sres) : sres :=
  match x with Some y => set_env r (remove (env_of r) y) | None => r end.

(* the iterations of a for loop, given the executor at the (smaller) fuel of the loop statement *)
Fixpoint for_go (ex : env -> stmt -> out sres) (x : id) (b els : stmt) (l : list value) (en0 : env) {struct l} : out sres :=
  match l with
  | [] => ex en0 els
  | w :: r =>
      obind (ex (update en0 x w) b) (fun res =>
        match res with
        | Normal en' => for_go ex x b els r en'
        | Continued en' => for_go ex x b els r en'
        | Broke en' => Val (Normal en')
        | _ => Val res
        end)
  end.

Fixpoint eval (P : prog) (fuel : nat) (en : env) (e : expr) {struct fuel} : out value :=
  match fuel with
  | O => NoFuel
  | S f =>
    match e with
    | EVar x => match lookup en x with Some v => Val v | None => Exn NameError end
    | EInt z => Val (VInt z)
    | EBool b => Val (VBool b)
    | ENone => Val VNone
    | EStr s => Val (VStr s)
    | ENew c args =>
        match class_of P c with
        | None => Exn NameError
        | Some cd =>
            obind (eval_list (eval P f en) args) (fun vs =>
              if Nat.eqb (length vs) (length (c_fields cd))
              then Val (VObj c (combine (map fst (c_fields cd)) vs))
              else Exn TypeError)
        end
    | EAttr e1 a =>
        obind (eval P f en e1) (fun v =>
          match v with
          | VObj _ fs => match lookup fs a with Some w => Val w | None => Exn AttributeError end
          | _ => Exn AttributeError
          end)
    | ECallM e1 m args =>
        obind (eval P f en e1) (fun v =>
          match v with
          | VObj c _ =>
              match method_of P c m with
              | None => Exn AttributeError
              | Some (_, md) =>
                  obind (eval_list (eval P f en) args) (fun vs =>
                    if Nat.eqb (length vs) (length (f_params md))
                    then finish_call (exec P f ((self_id, v) :: bind_params (f_params md) vs) (f_body md))
                    else Exn TypeError)
              end
          | _ => Exn AttributeError
          end)
    | ECallF g args =>
        match lookup (p_funcs P) g with
        | None => Exn NameError
        | Some fd =>
            obind (eval_list (eval P f en) args) (fun vs =>
              if Nat.eqb (length vs) (length (f_params fd))
              then finish_call (exec P f (bind_params (f_params fd) vs) (f_body fd))
              else Exn TypeError)
        end
    | EBin op e1 e2 =>
        obind (eval P f en e1) (fun a => obind (eval P f en e2) (fun b => eval_binop op a b))
    | EIsNone e1 =>
        obind (eval P f en e1) (fun v => Val (VBool (match v with VNone => true | _ => false end)))
    | EIsNotNone e1 =>
        obind (eval P f en e1) (fun v => Val (VBool (match v with VNone => false | _ => true end)))
    | EIsInst e1 k =>
        obind (eval P f en e1) (fun v =>
          if cref_defined P k then Val (VBool (isinst P v k)) else Exn NameError)
    | EIsInstL e1 ks =>
        obind (eval P f en e1) (fun v =>
          if forallb (cref_defined P) ks then Val (VBool (existsb (isinst P v) ks)) else Exn NameError)
    | ENot e1 => obind (eval P f en e1) (fun v => Val (VBool (negb (truthy v))))
    | EAnd e1 e2 => obind (eval P f en e1) (fun v => if truthy v then eval P f en e2 else Val v)
    | EOr e1 e2 => obind (eval P f en e1) (fun v => if truthy v then Val v else eval P f en e2)
    | ETuple es => obind (eval_list (eval P f en) es) (fun vs => Val (VTuple vs))
    | EIndex e1 i =>
        obind (eval P f en e1) (fun v =>
          match v with
          | VTuple vs => match nth_error vs i with Some w => Val w | None => Exn IndexError end
          | VStr s => match nth_error s i with Some ch => Val (VStr [ch]) | None => Exn IndexError end
          | _ => Exn TypeError
          end)
    | ECond c e1 e2 => obind (eval P f en c) (fun v => if truthy v then eval P f en e1 else eval P f en e2)
    | EReveal _ e1 => eval P f en e1
    end
  end

with exec (P : prog) (fuel : nat) (en : env) (s : stmt) {struct fuel} : out sres :=
  match fuel with
  | O => NoFuel
  | S f =>
    match s with
    | SAssign x e => slift en (eval P f en e) (fun v => Val (Normal (update en x v)))
    | SDef x e => slift en (eval P f en e) (fun v => Val (Normal (update en x v)))
    | SDecl x _ e => slift en (eval P f en e) (fun v => Val (Normal (update en x v)))
    | SIf c s1 s2 => slift en (eval P f en c) (fun v => if truthy v then exec P f en s1 else exec P f en s2)
    | SWhile c b els =>
        slift en (eval P f en c) (fun v =>
          if truthy v
          then obind (exec P f en b) (fun r =>
                 match r with
                 | Normal en' => exec P f en' (SWhile c b els)
                 | Continued en' => exec P f en' (SWhile c b els)
                 | Broke en' => Val (Normal en')
                 | _ => Val r
                 end)
          else exec P f en els)
    | SFor x rng e b els =>
        slift en (eval P f en e) (fun v =>
          obind (iter_values rng v) (fun vs =>
            for_go (exec P f) x b els vs en))
    | SBreak => Val (Broke en)
    | SContinue => Val (Continued en)
    | SRaise c args =>
        slift en (eval P f en (ENew c args)) (fun w =>
          if catches P exc_id w then Val (Raised en w) else Exn TypeError)
    | STry b c x h els =>
        match exec P f en b with
        | Val (Normal en1) => exec P f en1 els
        | Val (Raised en1 w) =>
            if catches P c w
            then obind (exec P f (bind_opt en1 x w) h) (fun r => Val (unbind_opt x r))
            else Val (Raised en1 w)
        | Exn e => if Nat.eqb c exc_id && negb (type_failure e) then Exn Unmodelled else Exn e
        | o => o
        end
    | SFinally b fin =>
        match exec P f en b with
        | Val r =>
            obind (exec P f (env_of r) fin) (fun r2 =>
              match r2 with Normal en2 => Val (set_env r en2) | _ => Val r2 end)
        | Exn e => if type_failure e then Exn e else Exn Unmodelled
        | NoFuel => NoFuel
        end
    | SReturn e => slift en (eval P f en e) (fun v => Val (Returned en v))
    | SAssert e => slift en (eval P f en e) (fun v => if truthy v then Val (Normal en) else Exn AssertionError)
    | SPass => Val (Normal en)
    | SSeq s1 s2 =>
        obind (exec P f en s1) (fun r =>
          match r with
          | Normal en' => exec P f en' s2
          | _ => Val r
          end)
    | SExpr e => slift en (eval P f en e) (fun _ => Val (Normal en))
    | SLab _ s1 => exec P f en s1
    end
  end.

(* calling a top-level function with given argument values *)
Definition call_fun (P : prog) (fuel : nat) (g : id) (vs : list value) : out value :=
  match lookup (p_funcs P) g with
  | None => Exn NameError
  | Some fd =>
      if Nat.eqb (length vs) (length (f_params fd))
      then finish_call (exec P fuel (bind_params (f_params fd) vs) (f_body fd))
      else Exn TypeError
  end.
