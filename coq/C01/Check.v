(* C01 / MiniPy: the checker MODEL, following mypy (checker.py, checkexpr.py, binder.py,
   subtypes.py, typeops.py) on this fragment.  Executable definitions only. *)
From Coq Require Import ZArith List Bool Arith.
From C01 Require Import Lang.
Import ListNotations.

(* ---------------------------------------------------------------- results *)
Inductive res (A : Type) :=
| Ok (a : A)
| Rej (l : option nat)      (* mypy reports an error (first error; line label when known) *)
| Unsup (why : nat).        (* outside the modelled behaviour / not certified; `why` is a reason code (notes/C01.md) *)
Arguments Ok {A} a.
Arguments Rej {A} l.
Arguments Unsup {A} why.

Definition bind {A B} (r : res A) (f : A -> res B) : res B :=
  match r with Ok a => f a | Rej l => Rej l | Unsup w => Unsup w end.

Definition with_label {A} (l : nat) (r : res A) : res A :=
  match r with Rej None => Rej (Some l) | _ => r end.

Definition guard (b : bool) : res unit := if b then Ok tt else Rej None.

(* ---------------------------------------------------------------- types *)
Fixpoint ty_size (t : ty) : nat :=
  match t with
  | TUnion ts => S ((fix sz (l : list ty) := match l with [] => O | a :: r => ty_size a + sz r end) ts)
  | TTuple ts => S ((fix sz (l : list ty) := match l with [] => O | a :: r => ty_size a + sz r end) ts)
  | _ => 1
  end.

Fixpoint forall2b {A B} (f : A -> B -> bool) (a : list A) (b : list B) : bool :=
  match a, b with
  | [], [] => true
  | x :: a', y :: b' => f x y && forall2b f a' b'
  | _, _ => false
  end.

(* mypy.subtypes.is_subtype on this type language (nominal, bool <: int by inheritance) *)
Fixpoint sub (P : prog) (n : nat) (s t : ty) {struct n} : bool :=
  match n with
  | O => false
  | S n' =>
    match s with
    | TUnion ss => forallb (fun s' => sub P n' s' t) ss
    | _ =>
      match t with
      | TUnion ts => existsb (fun t' => sub P n' s t') ts
      | _ =>
        match s, t with
        | TInt, TInt => true
        | TBool, TBool => true
        | TBool, TInt => true
        | TStr, TStr => true
        | TNone, TNone => true
        | TInst c, TInst d => subclass P c d
        | TTuple ss, TTuple ts => forall2b (sub P n') ss ts
        | _, _ => false
        end
      end
    end
  end.

Definition is_subtype (P : prog) (s t : ty) : bool := sub P (ty_size s + ty_size t) s t.

Definition ty_same (P : prog) (s t : ty) : bool := is_subtype P s t && is_subtype P t s.

Definition is_never (t : ty) : bool := match t with TUnion [] => true | _ => false end.
Definition is_none_ty (t : ty) : bool := match t with TNone => true | _ => false end.

Definition items (t : ty) : list ty := match t with TUnion ts => ts | _ => [t] end.

Definition flatten (ts : list ty) : list ty := flat_map items ts.

(* typeops.make_simplified_union / _remove_redundant_union_items: drop an item that is a subtype of
   a kept earlier item or a strict subtype of a later one *)
Fixpoint simplify_go (P : prog) (acc rest : list ty) : list ty :=
  match rest with
  | [] => acc
  | t :: r =>
      if existsb (fun u => is_subtype P t u) acc
         || existsb (fun u => is_subtype P t u && negb (is_subtype P u t)) r
      then simplify_go P acc r
      else simplify_go P (acc ++ [t]) r
  end.

Definition mk_union (P : prog) (ts : list ty) : ty :=
  match simplify_go P [] (flatten ts) with
  | [t] => t
  | l => TUnion l
  end.

(* ---------------------------------------------------------------- narrowing primitives *)
Definition can_true (t : ty) : bool :=
  match t with TNone => false | TTuple [] => false | TUnion [] => false | _ => true end.
Definition can_false (t : ty) : bool :=
  match t with TTuple (_ :: _) => false | TUnion [] => false | _ => true end.

Definition true_only (P : prog) (t : ty) : ty := mk_union P (filter can_true (items t)).
Definition false_only (P : prog) (t : ty) : ty := mk_union P (filter can_false (items t)).
Definition remove_none (P : prog) (t : ty) : ty := mk_union P (filter (fun i => negb (is_none_ty i)) (items t)).
Fixpoint has_none (t : ty) : bool :=
  match t with
  | TNone => true
  | TUnion ts => (fix go (l : list ty) := match l with [] => false | a :: r => has_none a || go r end) ts
  | _ => false
  end.
Definition none_part (t : ty) : ty := if has_none t then TNone else TNever.

Definition ty_of_cref (k : cref) : ty :=
  match k with CInt => TInt | CBool => TBool | CStr => TStr | CUser c => TInst c end.

Definition instance_like (t : ty) : bool :=
  match t with TInt | TBool | TStr | TInst _ => true | _ => false end.

Definition yes_item (P : prog) (K it : ty) : list ty :=
  if is_subtype P it K then [it] else if is_subtype P K it then [K] else [].
Definition no_item (P : prog) (K it : ty) : list ty :=
  if is_subtype P it K then [] else [it].

(* checker.conditional_types(_with_intersection) for isinstance(x, K), per union item *)
(* no run-time value is both an i and a K (checked only by the certifying mode) *)
Definition disjoint (P : prog) (i K : ty) : bool :=
  match i, K with
  | TInst a, TInst b => forallb (fun cc => negb (subclass P (fst cc) a && subclass P (fst cc) b)) (p_classes P)
  | TUnion _, _ => false
  | _, TUnion _ => false
  | _, _ => negb (is_subtype P i K || is_subtype P K i)
  end.

Definition narrow_isinst (P : prog) (sm : bool) (t : ty) (k : cref) : res (ty * ty) :=
  let K := ty_of_cref k in
  if sm && negb (forallb (fun i => is_subtype P i K || is_subtype P K i || disjoint P i K) (items t)) then Unsup 1 else
  let yes := mk_union P (flat_map (yes_item P K) (items t)) in
  let no := mk_union P (flat_map (no_item P K) (items t)) in
  if is_never yes
  then if forallb instance_like (items t) && negb (is_never t) then Unsup 2 (* ad-hoc intersection *)
       else Ok (TNever, t)
  else Ok (yes, no).

(* isinstance(x, (K1, ..., Kn)): conditional_types with several type ranges, followed by the read-time meet with the
   declared type (narrow_declared_type), per union item: an item below some Ki is kept; otherwise the Ki below the
   item replace it in the yes-branch and the item stays in the no-branch *)
Definition yes_item_l (P : prog) (Ks : list ty) (it : ty) : list ty :=
  if existsb (fun K => is_subtype P it K) Ks then [it] else filter (fun K => is_subtype P K it) Ks.
Definition no_item_l (P : prog) (Ks : list ty) (it : ty) : list ty :=
  if existsb (fun K => is_subtype P it K) Ks then [] else [it].

Definition narrow_isinst_l (P : prog) (sm : bool) (t : ty) (ks : list cref) : res (ty * ty) :=
  let Ks := map ty_of_cref ks in
  if sm && negb (forallb (fun i => existsb (fun K => is_subtype P i K) Ks
                                   || forallb (fun K => is_subtype P K i || disjoint P i K) Ks) (items t)) then Unsup 1 else
  let yes := mk_union P (flat_map (yes_item_l P Ks) (items t)) in
  let no := mk_union P (flat_map (no_item_l P Ks) (items t)) in
  if is_never yes
  then if forallb instance_like (items t) && negb (is_never t) then Unsup 2 (* ad-hoc intersection *)
       else Ok (TNever, t)
  else Ok (yes, no).

(* ---------------------------------------------------------------- binder state *)
Definition decls := list (id * ty).
Definition frame := list (id * (ty * bool)).       (* narrowed type, from_assignment *)
Record cst := { decl : decls; cur : option frame }. (* cur = None : unreachable *)

Definition view (d : decls) (fr : frame) (x : id) : option ty :=
  match lookup fr x with Some (t, _) => Some t | None => lookup d x end.

Definition tmap := option (list (id * ty)).          (* None : branch cannot be taken *)

Definition push (fr : frame) (m : list (id * ty)) (flag : bool) : frame :=
  fold_left (fun fr0 xt => update fr0 (fst xt) (snd xt, flag)) m fr.

Definition push_map (c : option frame) (m : tmap) (flag : bool) : option frame :=
  match c, m with Some fr, Some m' => Some (push fr m' flag) | _, _ => None end.

Definition mk_map (x : id) (t : ty) : tmap := if is_never t then None else Some [(x, t)].

(* identity / isinstance tests put a binder entry only when they change the type (conditional_types returns
   `None` = "no new information" otherwise); truthiness tests always put one *)
Definition mk_map_chg (P : prog) (x : id) (t t' : ty) : tmap :=
  if ty_same P t' t then Some [] else mk_map x t'.

Definition in_dom {A} (x : id) (m : list (id * A)) : bool :=
  match lookup m x with Some _ => true | None => false end.

(* checker.and_conditional_maps / or_conditional_maps *)
Definition and_maps (m1 m2 : tmap) : tmap :=
  match m1, m2 with
  | Some a, Some b => Some (b ++ filter (fun xt => negb (in_dom (fst xt) b)) a)
  | _, _ => None
  end.

Definition or_maps (P : prog) (m1 m2 : tmap) : tmap :=
  match m1, m2 with
  | None, _ => m2
  | _, None => m1
  | Some a, Some b =>
      Some (flat_map (fun xt => match lookup b (fst xt) with
                                | Some t2 => [(fst xt, mk_union P [snd xt; t2])]
                                | None => []
                                end) a)
  end.

Definition generic_maps (P : prog) (t : ty) : tmap * tmap :=
  (if is_never (true_only P t) then None else Some [],
   if is_never (false_only P t) then None else Some []).

(* ---------------------------------------------------------------- expressions *)
Definition check_args (P : prog) (ats : list ty) (ps : list (id * ty)) : bool :=
  forall2b (is_subtype P) ats (map snd ps).

Fixpoint map_res {A B} (f : A -> res B) (l : list A) : res (list B) :=
  match l with
  | [] => Ok []
  | a :: r => bind (f a) (fun b => bind (map_res f r) (fun bs => Ok (b :: bs)))
  end.

Definition attr_item (P : prog) (a : id) (it : ty) : res ty :=
  match it with
  | TInst c => match fields_of P c with
               | Some fds => match lookup fds a with Some t => Ok t | None => Rej None end
               | None => Rej None
               end
  | _ => Rej None
  end.

Definition call_item (P : prog) (m : id) (ats : list ty) (it : ty) : res ty :=
  match it with
  | TInst c => match method_of P c m with
               | Some (_, md) => if check_args P ats (f_params md) then Ok (f_ret md) else Rej None
               | None => Rej None
               end
  | _ => Rej None
  end.

Definition index_item (i : nat) (it : ty) : res ty :=
  match it with
  | TTuple ts => match nth_error ts i with Some t => Ok t | None => Rej None end
  | TStr => Ok TStr
  | _ => Rej None
  end.

Definition has_tuple (t : ty) : bool :=
  existsb (fun i => match i with TTuple _ => true | _ => false end) (items t).

Definition binop_ty (P : prog) (op : binop) (t1 t2 : ty) : res ty :=
  let i1 := is_subtype P t1 TInt in let i2 := is_subtype P t2 TInt in
  let s1 := is_subtype P t1 TStr in let s2 := is_subtype P t2 TStr in
  (* tuple concatenation / repetition / comparison are typed by mypy with types outside this type language *)
  let tup := has_tuple t1 || has_tuple t2 in
  match op with
  | BAdd => if i1 && i2 then Ok TInt else if s1 && s2 then Ok TStr else if tup then Unsup 13 else Rej None
  | BSub => if i1 && i2 then Ok TInt else Rej None
  | BMul => if i1 && i2 then Ok TInt else if (s1 && i2) || (i1 && s2) then Ok TStr else if tup then Unsup 13 else Rej None
  | BEq => if (i1 && i2) || (s1 && s2) then Ok TBool else Unsup 3   (* equality narrowing is not modelled *)
  | BLt => if (i1 && i2) || (s1 && s2) then Ok TBool else if tup then Unsup 13 else Rej None
  end.

Definition cref_ok (P : prog) (k : cref) : bool :=
  match k with CUser c => match class_of P c with Some _ => true | None => false end | _ => true end.

(* type of e and the (if_map, else_map) of checker.find_isinstance_check *)
Fixpoint infer (P : prog) (sm : bool) (d : decls) (fr : frame) (e : expr) {struct e} : res (ty * (tmap * tmap)) :=
  let infer_list := fix go (es : list expr) : res (list ty) :=
    match es with
    | [] => Ok []
    | a :: r => bind (infer P sm d fr a) (fun x => bind (go r) (fun ts => Ok (fst x :: ts)))
    end in
  match e with
  | EVar x =>
      match view d fr x with
      | Some t => Ok (t, (mk_map x (true_only P t), mk_map x (false_only P t)))
      | None => Rej None
      end
  | EInt z => Ok (TInt, if Z.eqb z 0 then (None, Some []) else if Z.ltb 0 z then (Some [], None) else (Some [], Some []))
  | EBool b => Ok (TBool, if b then (Some [], None) else (None, Some []))
  | ENone => Ok (TNone, (None, Some []))
  | EStr _ => Ok (TStr, (Some [], Some []))
  | ENew c args =>
      match fields_of P c with
      | None => Rej None
      | Some fds =>
          bind (infer_list args) (fun ats =>
            if check_args P ats fds then Ok (TInst c, generic_maps P (TInst c)) else Rej None)
      end
  | EAttr e1 a =>
      bind (infer P sm d fr e1) (fun x =>
        bind (map_res (attr_item P a) (items (fst x))) (fun ts =>
          let t := mk_union P ts in Ok (t, generic_maps P t)))
  | ECallM e1 m args =>
      bind (infer P sm d fr e1) (fun x =>
        bind (infer_list args) (fun ats =>
          bind (map_res (call_item P m ats) (items (fst x))) (fun ts =>
            let t := mk_union P ts in Ok (t, generic_maps P t))))
  | ECallF g args =>
      match lookup (p_funcs P) g with
      | None => Rej None
      | Some fd =>
          bind (infer_list args) (fun ats =>
            if check_args P ats (f_params fd) then Ok (f_ret fd, generic_maps P (f_ret fd)) else Rej None)
      end
  | EBin op e1 e2 =>
      bind (infer P sm d fr e1) (fun x1 =>
        bind (infer P sm d fr e2) (fun x2 =>
          bind (binop_ty P op (fst x1) (fst x2)) (fun t => Ok (t, generic_maps P t))))
  | EIsNone e1 =>
      bind (infer P sm d fr e1) (fun x1 =>
        match e1 with
        | EVar x => Ok (TBool, (mk_map_chg P x (fst x1) (none_part (fst x1)), mk_map_chg P x (fst x1) (remove_none P (fst x1))))
        | _ => Ok (TBool, (Some [], Some []))
        end)
  | EIsNotNone e1 =>
      bind (infer P sm d fr e1) (fun x1 =>
        match e1 with
        | EVar x => Ok (TBool, (mk_map_chg P x (fst x1) (remove_none P (fst x1)), mk_map_chg P x (fst x1) (none_part (fst x1))))
        | _ => Ok (TBool, (Some [], Some []))
        end)
  | EIsInst e1 k =>
      bind (infer P sm d fr e1) (fun x1 =>
        if cref_ok P k then
          match e1 with
          | EVar x => bind (narrow_isinst P sm (fst x1) k) (fun yn =>
                        Ok (TBool, ((match fst x1 with TUnion _ => mk_map x (fst yn) | _ => mk_map_chg P x (fst x1) (fst yn) end),
                                    mk_map x (snd yn))))
          | _ => Ok (TBool, (Some [], Some []))
          end
        else Rej None)
  | EIsInstL e1 ks =>
      bind (infer P sm d fr e1) (fun x1 =>
        if forallb (cref_ok P) ks then
          match e1 with
          | EVar x => bind (narrow_isinst_l P sm (fst x1) ks) (fun yn =>
                        Ok (TBool, ((match fst x1 with TUnion _ => mk_map x (fst yn) | _ => mk_map_chg P x (fst x1) (fst yn) end),
                                    mk_map x (snd yn))))
          | _ => Ok (TBool, (Some [], Some []))
          end
        else Rej None)
  | ENot e1 =>
      bind (infer P sm d fr e1) (fun x1 => Ok (TBool, (snd (snd x1), fst (snd x1))))
  | EAnd e1 e2 =>
      bind (infer P sm d fr e1) (fun x1 =>
        match fst (snd x1) with
        | None => Ok (fst x1, (None, snd (snd x1)))          (* right operand never evaluated *)
        | Some m1 =>
            bind (infer P sm d (push fr m1 false) e2) (fun x2 =>
              Ok (mk_union P [false_only P (fst x1); fst x2],
                  (and_maps (Some m1) (fst (snd x2)), or_maps P (snd (snd x1)) (snd (snd x2)))))
        end)
  | EOr e1 e2 =>
      bind (infer P sm d fr e1) (fun x1 =>
        match snd (snd x1) with
        | None => Ok (fst x1, (fst (snd x1), None))
        | Some m1 =>
            bind (infer P sm d (push fr m1 false) e2) (fun x2 =>
              Ok (mk_union P [true_only P (fst x1); fst x2],
                  (or_maps P (fst (snd x1)) (fst (snd x2)), and_maps (Some m1) (snd (snd x2)))))
        end)
  | ETuple es =>
      bind (infer_list es) (fun ts => Ok (TTuple ts, generic_maps P (TTuple ts)))
  | EIndex e1 i =>
      bind (infer P sm d fr e1) (fun x =>
        bind (map_res (index_item i) (items (fst x))) (fun ts =>
          let t := mk_union P ts in Ok (t, generic_maps P t)))
  | ECond c e1 e2 =>
      bind (infer P sm d fr c) (fun xc =>
        bind (match fst (snd xc) with
              | None => Ok TNever
              | Some m => bind (infer P sm d (push fr m false) e1) (fun x => Ok (fst x))
              end) (fun t1 =>
        bind (match snd (snd xc) with
              | None => Ok TNever
              | Some m => bind (infer P sm d (push fr m false) e2) (fun x => Ok (fst x))
              end) (fun t2 =>
          let t := mk_union P [t1; t2] in Ok (t, generic_maps P t))))
  | EReveal _ e1 =>
      bind (infer P sm d fr e1) (fun x => Ok (fst x, generic_maps P (fst x)))
  end.

(* ---------------------------------------------------------------- frame merge (binder.update_from_options) *)
Definition is_noneo {A} (o : option A) : bool := match o with None => true | Some _ => false end.

Fixpoint somes {A} (l : list (option A)) : list A :=
  match l with [] => [] | Some a :: r => a :: somes r | None :: r => somes r end.

Fixpoint nodup_ids (l : list id) : list id :=
  match l with [] => [] | x :: r => if mem_id x r then nodup_ids r else x :: nodup_ids r end.

Definition merge_key (P : prog) (parent : frame) (live : list frame) (all_reach : bool) (k : id)
  : list (id * (ty * bool)) :=
  let vals := map (fun f => lookup f k) live in
  if existsb is_noneo vals then []
  else
    let vs := somes vals in
    if all_reach && forallb (fun tb => negb (snd tb)) vs
    then match lookup parent k with Some e => [(k, e)] | None => [] end
    else
      let t := mk_union P (map fst vs) in
      match lookup parent k with
      | Some (tp, bp) => if ty_same P t tp then [(k, (tp, bp))] else [(k, (t, true))]
      | None => [(k, (t, true))]
      end.

Definition merge (P : prog) (parent : frame) (opts : list (option frame)) : option frame :=
  let live := somes opts in
  match live with
  | [] => None
  | _ =>
      let all_reach := Nat.eqb (length live) (length opts) in
      let keys := nodup_ids (map fst parent ++ flat_map (map fst) live) in
      Some (flat_map (merge_key P parent live all_reach) keys)
  end.

(* certifying mode only: validate a merge result -- every entry is a supertype of the corresponding
   entry of every live option (translation validation of update_from_options) *)
Definition merge_cert (P : prog) (r : option frame) (opts : list (option frame)) : bool :=
  match r with
  | None => true
  | Some fr =>
      forallb (fun kv =>
        forallb (fun f => match lookup f (fst kv) with
                          | Some (ti, _) => is_subtype P ti (fst (snd kv))
                          | None => false
                          end) (somes opts)) fr
  end.

(* certifying mode only: every entry of V' covers what was known about the variable in (d, fr) *)
Definition view_le (P : prog) (d : decls) (fr V' : frame) : bool :=
  forallb (fun kv => match view d fr (fst kv) with
                     | Some t => is_subtype P t (fst (snd kv))
                     | None => true
                     end) V'.

(* binder.update_from_options' `changed`, for accept_loop *)
Definition changed (P : prog) (d : decls) (old new : frame) : bool :=
  existsb (fun kv =>
    match lookup old (fst kv) with
    | Some (t, _) => negb (ty_same P (fst (snd kv)) t)
    | None => match lookup d (fst kv) with
              | Some dt => negb (ty_same P (fst (snd kv)) dt)
              | None => true
              end
    end) new.

(* ---------------------------------------------------------------- annotations for the correspondence *)
Inductive ann := AReveal (l : nat) (t : ty) | ADead (l : nat).

Definition is_noop (s : stmt) : bool :=
  match s with SAssert (EBool false) => true | SAssert (EInt Z0) => true | SRaise _ _ => true | _ => false end.

Fixpoint first_label (s : stmt) : option nat :=
  match s with
  | SLab l s1 => if is_noop s1 then None else Some l
  | SSeq a b => match first_label a with Some l => Some l | None => first_label b end
  | _ => None
  end.

Definition is_dead_of (l : nat) (a : ann) : bool :=
  match a with ADead l' => Nat.eqb l l' | _ => false end.

(* messages.iteration_dependent_errors: a statement analysed several times (loop passes, the two analyses of a
   finally block) is reported unreachable only if it was unreachable every time; revealed types are united *)
Definition combine_passes (passes : list (list ann)) : list ann :=
  flat_map (filter (fun a => match a with AReveal _ _ => true | ADead _ => false end)) passes
  ++ match passes with
     | [] => []
     | p0 :: rest =>
         filter (fun a => match a with
                          | ADead l => forallb (fun q => existsb (is_dead_of l) q) rest
                          | _ => false
                          end) p0
     end.

(* ---------------------------------------------------------------- statements *)
Definition unwrap_frame (o : option frame) : frame := match o with Some f => f | None => [] end.

(* what leaves a statement other than by falling through: binder.allow_jump snapshots *)
Record jumps := {
  brk : list frame;       (* views at `break`      (options of the frame after the innermost loop) *)
  cnt : list frame;       (* views at `continue`   (options of the loop-head frame) *)
  exc : list frame;       (* views after every assignment (options of the handler frames of ALL enclosing try frames) *)
  anns : list ann }.      (* revealed types / unreachable statements, for the correspondence only *)

Definition j0 : jumps := {| brk := []; cnt := []; exc := []; anns := [] |}.
Definition jcat (a b : jumps) : jumps :=
  {| brk := brk a ++ brk b; cnt := cnt a ++ cnt b; exc := exc a ++ exc b; anns := anns a ++ anns b |}.
Definition jexc (f : frame) (a : list ann) : jumps := {| brk := []; cnt := []; exc := [f]; anns := a |}.
Definition jann (a : list ann) : jumps := {| brk := []; cnt := []; exc := []; anns := a |}.

Definition top_reveal (P : prog) (sm : bool) (d : decls) (fr : frame) (e : expr) : list ann :=
  match e with
  | EReveal l e1 => match infer P sm d fr e1 with Ok x => [AReveal l (fst x)] | _ => [] end
  | _ => []
  end.

Fixpoint decls_eqb (P : prog) (a b : decls) : bool :=
  match a, b with
  | [], [] => true
  | (x, s) :: a', (y, t) :: b' => Nat.eqb x y && ty_same P s t && decls_eqb P a' b'
  | _, _ => false
  end.

(* every entry of V survives (with a subtype) in V' *)
Definition stable (P : prog) (V V' : frame) : bool :=
  forallb (fun kv => match lookup V' (fst kv) with
                     | Some (t', _) => is_subtype P t' (fst (snd kv))
                     | None => false
                     end) V.

Fixpoint set_decl (d : decls) (x : id) (t : ty) : decls :=
  match d with
  | [] => []
  | (y, u) :: r => if Nat.eqb x y then (y, t) :: r else (y, u) :: set_decl r x t
  end.

Definition is_none_lit (e : expr) : bool := match e with ENone => true | _ => false end.

(* binding of a for-index / handler variable: an assignment when the name is declared, else its definition *)
Definition bind_var (P : prog) (d : decls) (V : frame) (x : id) (t : ty) : res (decls * frame) :=
  match lookup d x with
  | Some dt => if is_subtype P t dt then Ok (d, update V x (t, true)) else Rej None
  | None => Ok (d ++ [(x, t)], remove V x)
  end.

(* one pass of accept_loop; `pass d V` analyses the loop body once from view V and returns the declarations,
   the view at the end of the body, what jumped out of it, and the else-map of the exit condition *)
Definition passfn := decls -> frame -> res (decls * option frame * jumps * tmap).

Definition loop_pass (P : prog) (sm : bool) (pass : passfn) (d : decls) (V : frame)
  : res (decls * frame * jumps * tmap * bool) :=
  bind (pass d V) (fun r =>
    match r with
    | (d', E, J, em) =>
        let o2 := Some V :: map Some (cnt J) ++ [E] in
        let mV := merge P V o2 in
        if sm && negb (merge_cert P mV o2) then Unsup 6
        else Ok (d', unwrap_frame mV, J, em, changed P d' V (unwrap_frame mV))
    end).

(* accept_loop: at most 4 passes (`iter > 3`), stop earlier when the binder did not change; break / exception
   snapshots of all passes accumulate, annotations are kept per pass *)
Fixpoint loop_iter (P : prog) (sm : bool) (pass : passfn) (n : nat) (d : decls) (V : frame)
  (acc : jumps) (aps : list (list ann)) : res (decls * frame * jumps * tmap * list (list ann)) :=
  bind (loop_pass P sm pass d V) (fun r =>
    match r with
    | (d', V', J, em, ch) =>
        let acc' := jcat acc J in
        let aps' := aps ++ [anns J] in
        match n with
        | S n' => if ch then loop_iter P sm pass n' d' V' acc' aps' else Ok (d', V', acc', em, aps')
        | O => Ok (d', V', acc', em, aps')
        end
    end).

Definition jump_opts (l : list frame) : list (option frame) := map Some l.

(* checker.analyze_iterable_item_type: range(e) yields int; a (non-empty) tuple yields the simplified union of its
   items; a str yields str *)
Definition iter_item_ty (P : prog) (rng : bool) (te : ty) : res ty :=
  if rng then (if is_subtype P te TInt then Ok TInt else Rej None)
  else match te with
       | TTuple (t0 :: ts) => Ok (mk_union P (t0 :: ts))
       | TTuple [] => Unsup 9
       | TStr => Ok TStr
       | TUnion _ => Unsup 9
       | _ => Rej None                         (* not iterable *)
       end.

(* the part of accept_loop shared by while and for: iterate the passes, then the else clause and the exit frames *)
Definition check_loop_tail (P : prog) (strict : bool) (ret : ty) (fr : frame) (d : decls) (pass : passfn)
  (chk_else : cst -> res (cst * jumps)) (use_exit_map : bool) : res (cst * jumps) :=
  bind (loop_iter P strict pass 3 d fr j0 []) (fun r =>
    match r with
    | (d', V', J, em, aps) =>
        if strict then
          bind (loop_pass P strict pass d' V') (fun r2 =>
            match r2 with
            | (d2, V2, J2, em2, _) =>
                let after := if use_exit_map then push_map (Some V') em2 true else Some V' in
                bind (chk_else {| decl := d'; cur := after |}) (fun re =>
                  let o := cur (fst re) :: jump_opts (brk J2) in
                  let mg := merge P fr o in
                  if decls_eqb P d2 d' && stable P V' V2 && view_le P d fr V' && merge_cert P mg o
                  then Ok ({| decl := decl (fst re); cur := mg |},
                           {| brk := brk (snd re); cnt := cnt (snd re); exc := exc J2 ++ exc (snd re);
                              anns := combine_passes (aps ++ [anns J2]) ++ anns (snd re) |})
                  else Unsup 7)
            end)
        else
          let after := if use_exit_map then push_map (Some V') em true else Some V' in
          bind (chk_else {| decl := d'; cur := after |}) (fun re =>
            Ok ({| decl := decl (fst re); cur := merge P fr (cur (fst re) :: jump_opts (brk J)) |},
                {| brk := brk (snd re); cnt := cnt (snd re); exc := exc J ++ exc (snd re);
                   anns := combine_passes aps ++ anns (snd re) |}))
    end).

(* strict = true is the certifying mode: every merge is validated, every loop result must be a fixed point of
   one more pass, `finally` must not be crossed by break/continue.  mypy itself corresponds to strict = false *)
Fixpoint check_stmt (P : prog) (strict : bool) (ret : ty) (st : cst) (s : stmt) {struct s} : res (cst * jumps) :=
  match cur st with
  | None => Ok (st, jann (match first_label s with Some l => [ADead l] | None => [] end))   (* unreachable: not checked *)
  | Some fr =>
    let d := decl st in
    match s with
    | SPass => Ok (st, j0)
    | SLab l s1 => with_label l (check_stmt P strict ret st s1)
    | SSeq a b =>
        bind (check_stmt P strict ret st a) (fun r1 =>
          bind (check_stmt P strict ret (fst r1) b) (fun r2 => Ok (fst r2, jcat (snd r1) (snd r2))))
    | SExpr e => bind (infer P strict d fr e) (fun _ => Ok (st, jann (top_reveal P strict d fr e)))
    | SDecl x t e =>
        (* the annotation is in force while the initialiser is checked; no narrowing on declaration *)
        let d1 := if in_dom x d then d else d ++ [(x, t)] in
        bind (infer P strict d1 fr e) (fun xe =>
          match lookup d1 x with
          | Some t1 => if is_subtype P (fst xe) t1
                       then Ok ({| decl := d1; cur := Some (remove fr x) |}, jexc (remove fr x) (top_reveal P strict d1 fr e))
                       else Rej None
          | None => Rej None
          end)
    | SAssign x e =>
        bind (infer P strict d fr e) (fun xe =>
          let te := fst xe in
          match lookup d x with
          | Some dt =>
              if is_subtype P te dt
              then Ok ({| decl := d; cur := Some (update fr x (te, true)) |}, jexc (update fr x (te, true)) (top_reveal P strict d fr e))
              else if is_none_lit e then Unsup 4 else Rej None
          | None => Unsup 5          (* bound only in code the checker skipped *)
          end)
    | SDef x e =>
        (* checker.infer_variable_type: the defining assignment (re-)infers the declared type on every visit *)
        bind (infer P strict d fr e) (fun xe =>
          let te := fst xe in
          let a := top_reveal P strict d fr e in
          if is_none_ty te || is_never te then Unsup 4      (* partial types *)
          else match lookup d x with
               | None => Ok ({| decl := d ++ [(x, te)]; cur := Some (remove fr x) |}, jexc (remove fr x) a)
               | Some dt =>
                   if strict then (if ty_same P te dt then Ok ({| decl := d; cur := Some (remove fr x) |}, jexc (remove fr x) a) else Unsup 8)
                   else Ok ({| decl := set_decl d x te; cur := Some (remove fr x) |}, jexc (remove fr x) a)
               end)
    | SIf c s1 s2 =>
        bind (infer P strict d fr c) (fun xc =>
          bind (check_stmt P strict ret {| decl := d; cur := push_map (Some fr) (fst (snd xc)) false |} s1) (fun r1 =>
            bind (check_stmt P strict ret {| decl := decl (fst r1); cur := push_map (Some fr) (snd (snd xc)) false |} s2) (fun r2 =>
              let o := [cur (fst r1); cur (fst r2)] in
              let mg := merge P fr o in
              if strict && negb (merge_cert P mg o) then Unsup 6
              else Ok ({| decl := decl (fst r2); cur := mg |}, jcat (snd r1) (snd r2)))))
    | SBreak => Ok ({| decl := d; cur := None |}, {| brk := [fr]; cnt := []; exc := []; anns := [] |})
    | SContinue => Ok ({| decl := d; cur := None |}, {| brk := []; cnt := [fr]; exc := []; anns := [] |})
    | SRaise c args =>
        bind (infer P strict d fr (ENew c args)) (fun _ =>
          if subclass P c exc_id then Ok ({| decl := d; cur := None |}, j0) else Rej None)
    | SReturn e =>
        bind (infer P strict d fr e) (fun xe =>
          if is_subtype P (fst xe) ret then Ok ({| decl := d; cur := None |}, jann (top_reveal P strict d fr e)) else Rej None)
    | SAssert e =>
        bind (infer P strict d fr e) (fun xe =>
          Ok ({| decl := d; cur := push_map (Some fr) (fst (snd xe)) true |}, jann (top_reveal P strict d fr e)))
    | SWhile c b els =>
        let pass : passfn := fun d0 V =>
          bind (infer P strict d0 V c) (fun xc =>
            bind (check_stmt P strict ret {| decl := d0; cur := push_map (Some V) (fst (snd xc)) false |} b) (fun r1 =>
              let o1 := [cur (fst r1); push_map (Some V) (snd (snd xc)) false] in
              let E := merge P V o1 in
              if strict && negb (merge_cert P E o1) then Unsup 6
              else Ok (decl (fst r1), E, snd r1, snd (snd xc)))) in
        check_loop_tail P strict ret fr d pass (fun st0 => check_stmt P strict ret st0 els) true
    | SFor x rng e b els =>
        bind (infer P strict d fr e) (fun xe =>
          bind (iter_item_ty P rng (fst xe)) (fun it =>
            let pass : passfn := fun d0 V =>
              bind (bind_var P d0 V x it) (fun dv =>
                bind (check_stmt P strict ret {| decl := fst dv; cur := Some (snd dv) |} b) (fun r1 =>
                  Ok (decl (fst r1), cur (fst r1), jcat (jexc (snd dv) []) (snd r1), Some []))) in
            check_loop_tail P strict ret fr d pass (fun st0 => check_stmt P strict ret st0 els) false))
    | STry b c x h els =>
        bind (check_stmt P strict ret st b) (fun rb =>
          if negb (subclass P c exc_id) then Rej None else
          (* handler frame: entry snapshot + one snapshot per assignment inside the try body *)
          let oh := Some fr :: jump_opts (exc (snd rb)) in
          let mh := merge P fr oh in
          bind (match x with
                | Some y => bind (bind_var P (decl (fst rb)) (unwrap_frame mh) y (TInst c)) (fun dv => Ok dv)
                | None => Ok (decl (fst rb), unwrap_frame mh)
                end) (fun dv =>
          bind (check_stmt P strict ret {| decl := fst dv; cur := Some (snd dv) |} h) (fun rh =>
          let hend := match x with Some y => match cur (fst rh) with Some f => Some (remove f y) | None => None end | None => cur (fst rh) end in
          (* else frame: the state in which the body fell through *)
          let oe := [cur (fst rb)] in
          let me := merge P fr oe in
          bind (check_stmt P strict ret {| decl := decl (fst rh); cur := me |} els) (fun re =>
          let o := [cur (fst re); hend] in
          let mg := merge P fr o in
          if strict && negb (merge_cert P mh oh && merge_cert P me oe && merge_cert P mg o) then Unsup 6
          else Ok ({| decl := decl (fst re); cur := mg |},
                   jcat (snd rb) (jcat (jexc (snd dv) []) (jcat (snd rh) (jcat (match hend with Some f => jexc f [] | None => j0 end) (snd re)))))))))
    | SFinally b fin =>
        bind (check_stmt P strict ret st b) (fun rb =>
          (* abnormal exits: everything that may have been assigned anywhere in the body *)
          let oh := Some fr :: jump_opts (exc (snd rb)) in
          let mh := merge P fr oh in
          let oa := mh :: oh in
          let ma := merge P fr oa in
          bind (check_stmt P strict ret {| decl := decl (fst rb); cur := ma |} fin) (fun ra =>
          (* normal exit *)
          let on := [cur (fst rb)] in
          let mn := merge P fr on in
          bind (check_stmt P strict ret {| decl := decl (fst ra); cur := mn |} fin) (fun rn =>
          if strict && negb (merge_cert P mh oh && merge_cert P ma oa && merge_cert P mn on
                             && match brk (snd rb), cnt (snd rb) with [], [] => true | _, _ => false end)
          then Unsup 10
          else Ok (fst rn,
                   {| brk := brk (snd rb) ++ brk (snd ra) ++ brk (snd rn);
                      cnt := cnt (snd rb) ++ cnt (snd ra) ++ cnt (snd rn);
                      exc := exc (snd rb) ++ exc (snd ra) ++ exc (snd rn);
                      anns := anns (snd rb) ++ match mn with
                                                | Some _ => combine_passes [anns (snd ra); anns (snd rn)]
                                                | None => anns (snd ra)       (* the second analysis is skipped *)
                                                end |}))))
    end
  end.

(* ---------------------------------------------------------------- definitions *)
Fixpoint wf_ty (P : prog) (t : ty) : bool :=
  match t with
  | TInst c => match class_of P c with Some _ => true | None => false end
  | TUnion ts => (fix go (l : list ty) := match l with [] => true | a :: r => wf_ty P a && go r end) ts
  | TTuple ts => (fix go (l : list ty) := match l with [] => true | a :: r => wf_ty P a && go r end) ts
  | _ => true
  end.

(* semanal "Name already defined": an annotated declaration of a name bound earlier in source order *)
Fixpoint redecl_ok (P : prog) (seen : list id) (s : stmt) : option (list id) :=
  match s with
  | SAssign x _ => if mem_id x seen then Some seen else None
  | SDef x _ => if mem_id x seen then None else Some (x :: seen)
  | SDecl x t _ => if mem_id x seen || negb (wf_ty P t) then None else Some (x :: seen)
  | SIf _ a b => match redecl_ok P seen a with Some s1 => redecl_ok P s1 b | None => None end
  | SSeq a b => match redecl_ok P seen a with Some s1 => redecl_ok P s1 b | None => None end
  | SWhile _ b e => match redecl_ok P seen b with Some s1 => redecl_ok P s1 e | None => None end
  | SFor x _ _ b e => match redecl_ok P (if mem_id x seen then seen else x :: seen) b with Some s1 => redecl_ok P s1 e | None => None end
  | STry b _ x h e =>
      match redecl_ok P seen b with
      | Some s1 => match redecl_ok P (match x with Some y => y :: s1 | None => s1 end) h with
                   | Some s2 => redecl_ok P s2 e
                   | None => None
                   end
      | None => None
      end
  | SFinally b f => match redecl_ok P seen b with Some s1 => redecl_ok P s1 f | None => None end
  | SLab _ a => redecl_ok P seen a
  | _ => Some seen
  end.

(* semanal "Name is not defined": every variable read is bound somewhere in the function *)
Fixpoint expr_vars (e : expr) : list id :=
  match e with
  | EVar x => [x]
  | ENew _ args => (fix go (l : list expr) := match l with [] => [] | a :: r => expr_vars a ++ go r end) args
  | ECallF _ args => (fix go (l : list expr) := match l with [] => [] | a :: r => expr_vars a ++ go r end) args
  | ECallM e1 _ args => expr_vars e1 ++ (fix go (l : list expr) := match l with [] => [] | a :: r => expr_vars a ++ go r end) args
  | ETuple es => (fix go (l : list expr) := match l with [] => [] | a :: r => expr_vars a ++ go r end) es
  | EAttr e1 _ | EIsNone e1 | EIsNotNone e1 | EIsInst e1 _ | EIsInstL e1 _ | ENot e1 | EIndex e1 _ | EReveal _ e1 => expr_vars e1
  | EBin _ e1 e2 | EAnd e1 e2 | EOr e1 e2 => expr_vars e1 ++ expr_vars e2
  | ECond c e1 e2 => expr_vars c ++ expr_vars e1 ++ expr_vars e2
  | _ => []
  end.

Fixpoint stmt_reads (s : stmt) : list id :=
  match s with
  | SAssign _ e | SDef _ e | SDecl _ _ e | SReturn e | SAssert e | SExpr e => expr_vars e
  | SIf c a b => expr_vars c ++ stmt_reads a ++ stmt_reads b
  | SWhile c b e => expr_vars c ++ stmt_reads b ++ stmt_reads e
  | SFor _ _ e b els => expr_vars e ++ stmt_reads b ++ stmt_reads els
  | SRaise c args => expr_vars (ENew c args)
  | STry b _ _ h e => stmt_reads b ++ stmt_reads h ++ stmt_reads e
  | SFinally b f => stmt_reads b ++ stmt_reads f
  | SBreak | SContinue => []
  | SSeq a b => stmt_reads a ++ stmt_reads b
  | SLab _ a => stmt_reads a
  | SPass => []
  end.

(* mypy.partially_defined (error code used-before-def, on by default): a read of a variable that is bound
   later in the function but on no path so far.  State: Some names = possibly bound so far; None = the
   branch was skipped (after return / assert False).  The assigned name counts as bound inside its own
   right-hand side (process_lvalue runs first).  The real pass also skips an else-branch the type checker
   found unreachable; this pre-pass only knows literal conditions, so a failure is reported as Unsup. *)
Definition reads_ok (dd : list id) (e : expr) : bool := forallb (fun x => mem_id x dd) (expr_vars e).

Definition true_lit (e : expr) : bool :=
  match e with EBool true => true | EInt z => Z.ltb 0 z | _ => false end.
Definition false_lit (e : expr) : bool :=
  match e with EBool false => true | EInt z => Z.eqb z 0 | _ => false end.

Definition dstate := (list id * bool)%type.      (* names possibly bound so far; branch skipped (after return/raise/...) *)

Definition join_def (a b : dstate) : dstate :=
  if snd a then (if snd b then (fst a ++ fst b, true) else b)
  else if snd b then a else (fst a ++ fst b, false).

Definition skip (a : dstate) : dstate := (fst a, true).

(* uses are checked also in a skipped branch; a skipped branch does not contribute to the join *)
Fixpoint ubd (st : dstate) (s : stmt) : option dstate :=
  let dd := fst st in
  match s with
  | SAssign x e | SDef x e | SDecl x _ e =>
      if reads_ok (x :: dd) e then Some (x :: dd, snd st) else None
  | SExpr e => if reads_ok dd e then Some st else None
  | SReturn e => if reads_ok dd e then Some (skip st) else None
  | SAssert e => if reads_ok dd e then (if false_lit e then Some (skip st) else Some st) else None
  | SPass => Some st
  | SLab _ a => ubd st a
  | SSeq a b => match ubd st a with Some st1 => ubd st1 b | None => None end
  | SIf c a b =>
      if reads_ok dd c then
        match ubd st a, (if true_lit c then Some (skip st) else ubd st b) with
        | Some ra, Some rb => Some (join_def ra rb)
        | _, _ => None
        end
      else None
  | SWhile c b e =>
      if reads_ok dd c then
        match ubd st b with
        | Some rb => ubd (if true_lit c then rb else join_def rb st) e
        | None => None
        end
      else None
  | SFor x _ e b els =>
      if reads_ok dd e then
        match ubd (x :: dd, snd st) b with
        | Some rb => ubd (join_def rb st) els
        | None => None
        end
      else None
  | SBreak | SContinue => Some (skip st)
  | SRaise c args => if reads_ok dd (ENew c args) then Some (skip st) else None
  | STry b _ x h e =>
      match ubd st b with
      | Some rb =>
          (* the handler may start from any point of the body; its variable is deleted afterwards *)
          let hd0 := join_def rb st in
          let hd := (match x with Some y => y :: fst hd0 | None => fst hd0 end, snd st) in
          match ubd hd h, ubd rb e with
          | Some rh, Some re =>
              Some (join_def (match x with
                              | Some y => (filter (fun z => negb (Nat.eqb z y)) (fst rh), snd rh)
                              | None => rh
                              end) re)
          | _, _ => None
          end
      | None => None
      end
  | SFinally b f =>
      match ubd st b with
      | Some rb => match ubd (fst (join_def rb st), snd st) f with
                   | Some rf => Some (fst rf, snd rf || snd rb)
                   | None => None
                   end
      | None => None
      end
  end.

Definition ubd_ok (bound : list id) (s : stmt) : bool :=
  match ubd (bound, false) s with Some _ => true | None => false end.

Fixpoint jumps_ok (inloop : bool) (s : stmt) : bool :=
  match s with
  | SBreak | SContinue => inloop
  | SIf _ a b | SSeq a b => jumps_ok inloop a && jumps_ok inloop b
  | SWhile _ b e | SFor _ _ _ b e => jumps_ok true b && jumps_ok inloop e
  | STry b _ _ h e => jumps_ok inloop b && jumps_ok inloop h && jumps_ok inloop e
  | SFinally b f => jumps_ok inloop b && jumps_ok inloop f
  | SLab _ a => jumps_ok inloop a
  | _ => true
  end.

(* semanal "Cannot resolve name (possible cyclic definition)": the first binding of a name reads the name *)
Fixpoint selfref_ok (s : stmt) : bool :=
  match s with
  | SDef x e => negb (mem_id x (expr_vars e))
  | SIf _ a b | SSeq a b | SFinally a b => selfref_ok a && selfref_ok b
  | SWhile _ a b | SFor _ _ _ a b => selfref_ok a && selfref_ok b
  | STry a _ _ b c => selfref_ok a && selfref_ok b && selfref_ok c
  | SLab _ a => selfref_ok a
  | _ => true
  end.

Fixpoint distinct (l : list id) : bool :=
  match l with [] => true | x :: r => negb (mem_id x r) && distinct r end.

Definition ty_is_none (t : ty) : bool := match t with TNone => true | _ => false end.

Definition check_fun (P : prog) (strict : bool) (self : option id) (fd : fdecl) : res unit :=
  let ps := match self with Some c => (self_id, TInst c) :: f_params fd | None => f_params fd end in
  with_label (f_line fd)
    (if negb (distinct (map fst ps) && forallb (fun p => wf_ty P (snd p)) ps && wf_ty P (f_ret fd)) then Rej None
     else match redecl_ok P (map fst ps) (f_body fd) with
          | None => Rej None
          | Some bound =>
              if negb (forallb (fun x => mem_id x bound) (stmt_reads (f_body fd)) && selfref_ok (f_body fd)) then Rej None else
              if negb (ubd_ok (map fst ps) (f_body fd)) then Unsup 11 else
              if negb (jumps_ok false (f_body fd)) then Rej None else      (* break / continue outside a loop *)
              bind (check_stmt P strict (f_ret fd) {| decl := ps; cur := Some [] |} (f_body fd)) (fun r' =>
                let st' := fst r' in
                match cur st' with
                | None => Ok tt
                | Some _ => if ty_is_none (f_ret fd) then Ok tt else Rej None   (* Missing return statement *)
                end)
          end).

(* override compatibility: parameters contravariant, result covariant *)
Definition sig_compat (P : prog) (sub_md sup_md : fdecl) : bool :=
  forall2b (is_subtype P) (map snd (f_params sup_md)) (map snd (f_params sub_md))
  && is_subtype P (f_ret sub_md) (f_ret sup_md).

Definition all_method_names (P : prog) : list id :=
  nodup_ids (flat_map (fun cc => map fst (c_methods (snd cc))) (p_classes P)).

Fixpoint subset_ids (a b : list id) : bool :=
  match a with [] => true | x :: r => mem_id x b && subset_ids r b end.

(* what soundness needs: C's attributes and resolved methods are compatible with those of every
   class B of its MRO *)
Definition class_sem_ok (P : prog) (c : id) (cd : cdecl) : bool :=
  match c_mro cd with
  | c0 :: _ => Nat.eqb c0 c
  | [] => false
  end
  && forallb (fun b =>
       match class_of P b with
       | None => false
       | Some bd =>
           subset_ids (c_mro bd) (c_mro cd)
           && forallb (fun af => match lookup (c_fields cd) (fst af) with
                                 | Some t => is_subtype P t (snd af)
                                 | None => false
                                 end) (c_fields bd)
           && forallb (fun m =>
                match find_method P (c_mro bd) m with
                | None => true
                | Some (ob, mb) =>
                    match find_method P (c_mro cd) m with
                    | None => false
                    | Some (oc, mc) => Nat.eqb oc ob || sig_compat P mc mb
                    end
                end) (all_method_names P)
       end) (c_mro cd).

(* mypy's own attribute check (check_compatibility_all_supers) compares a redeclared attribute only with
   the nearest definition in the MRO; an incompatibility with a farther base was reported at the class in
   between.  Used for the plain verdict; the certifying verdict demands class_sem_ok. *)
Fixpoint first_field (P : prog) (mro : list id) (a : id) : option ty :=
  match mro with
  | [] => None
  | b :: r => match class_of P b with
              | Some bd => match lookup (c_fields bd) a with Some t => Some t | None => first_field P r a end
              | None => first_field P r a
              end
  end.

Definition class_plain_ok (P : prog) (c : id) (cd : cdecl) : bool :=
  match c_mro cd with
  | c0 :: _ => Nat.eqb c0 c
  | [] => false
  end
  && forallb (fun b =>
       match class_of P b with
       | None => false
       | Some bd =>
           subset_ids (c_mro bd) (c_mro cd)
           && forallb (fun m =>
                match find_method P (c_mro bd) m with
                | None => true
                | Some (ob, mb) =>
                    match find_method P (c_mro cd) m with
                    | None => false
                    | Some (oc, mc) => Nat.eqb oc ob || sig_compat P mc mb
                    end
                end) (all_method_names P)
       end) (c_mro cd)
  && forallb (fun af => match first_field P (tl (c_mro cd)) (fst af) with
                        | Some t => is_subtype P (snd af) t
                        | None => true
                        end) (c_fields cd).

(* what mypy additionally demands: every earlier definition in the MRO is compatible with every later one *)
Fixpoint definers (P : prog) (mro : list id) (m : id) : list fdecl :=
  match mro with
  | [] => []
  | dcl :: r => match class_of P dcl with
                | Some cd => match lookup (c_methods cd) m with
                             | Some md => md :: definers P r m
                             | None => definers P r m
                             end
                | None => definers P r m
                end
  end.

Fixpoint all_pairs {A} (f : A -> A -> bool) (l : list A) : bool :=
  match l with [] => true | a :: r => forallb (f a) r && all_pairs f r end.

Definition class_pairs_ok (P : prog) (cd : cdecl) : bool :=
  forallb (fun m => all_pairs (sig_compat P) (definers P (c_mro cd) m)) (all_method_names P).

Definition fields_present (P : prog) (cd : cdecl) : bool :=
  forallb (fun b => match class_of P b with
                    | Some bd => forallb (fun af => in_dom (fst af) (c_fields cd)) (c_fields bd)
                    | None => true
                    end) (c_mro cd).

Fixpoint ids_eqb (a b : list id) : bool :=
  match a, b with
  | [], [] => true
  | x :: a', y :: b' => Nat.eqb x y && ids_eqb a' b'
  | _, _ => false
  end.

(* the MRO is the class followed by the MRO of one base: single inheritance, where the nearest definition is the
   only one mypy compares a redeclared attribute with *)
Definition single_chain (P : prog) (cd : cdecl) : bool :=
  match c_mro cd with
  | _ :: b :: rest => ids_eqb (mro_of P b) (b :: rest)
  | _ => true
  end.

Definition check_class (P : prog) (strict : bool) (c : id) (cd : cdecl) : res unit :=
  if negb (fields_present P cd) then Unsup 12   (* __init__ not initialising an inherited attribute: not MiniPy *)
  else if negb strict && class_plain_ok P c cd && negb (single_chain P cd || class_sem_ok P c cd) then Unsup 14
       (* multiple inheritance: mypy compares with every definition up to the last immediate base, which the MRO alone does not identify *)
  else
  with_label (c_line cd)
    (if distinct (map fst (c_fields cd)) && forallb (fun af => wf_ty P (snd af)) (c_fields cd)
        && distinct (map fst (c_methods cd))
        && (if strict then class_sem_ok P c cd else class_plain_ok P c cd) && class_pairs_ok P cd
     then Ok tt else Rej None).

(* one result per definition, in source order: class, its methods, ..., functions *)
Definition check_defs (P : prog) (strict : bool) : list (res unit) :=
  flat_map (fun cc =>
    check_class P strict (fst cc) (snd cc)
    :: map (fun mm => check_fun P strict (Some (fst cc)) (snd mm)) (c_methods (snd cc))) (p_classes P)
  ++ map (fun ff => check_fun P strict None (snd ff)) (p_funcs P).

Definition is_ok {A} (r : res A) : bool := match r with Ok _ => true | _ => false end.

Definition check_prog_gen (P : prog) (strict : bool) : bool :=
  distinct (map fst (p_classes P)) && distinct (map fst (p_funcs P))
  && forallb is_ok (check_defs P strict).

Definition check_prog (P : prog) : bool := check_prog_gen P false.       (* mypy's verdict *)
Definition check_prog_certified (P : prog) : bool := check_prog_gen P true.

(* ---------------------------------------------------------------- annotations of a program *)
Definition annot_fun (P : prog) (self : option id) (fd : fdecl) : list ann :=
  let ps := match self with Some c => (self_id, TInst c) :: f_params fd | None => f_params fd end in
  match check_stmt P false (f_ret fd) {| decl := ps; cur := Some [] |} (f_body fd) with
  | Ok r => anns (snd r)
  | _ => []
  end.

Definition annot_prog (P : prog) : list ann :=
  flat_map (fun cc => flat_map (fun mm => annot_fun P (Some (fst cc)) (snd mm)) (c_methods (snd cc))) (p_classes P)
  ++ flat_map (fun ff => annot_fun P None (snd ff)) (p_funcs P).
