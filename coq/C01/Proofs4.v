(* C01 stage 3: the binder-environment invariant is preserved by every statement of the certifying
   checker; accepted (certified) programs do not go wrong. *)
From Coq Require Import ZArith List Bool Arith Lia.
From C01 Require Import Lang Eval Check Sem Proofs1 Proofs2.
Import ListNotations.
Local Open Scope nat_scope.

Section S4.
Variable P : prog.
Hypothesis Hpo : prog_ok P.
Let Hct : class_table_ok P := proj1 Hpo.
Let Htrans : sub_trans P := proj1 Hct.

Definition decl_ext (d d' : decls) : Prop := forall x t, lookup d x = Some t -> lookup d' x = Some t.

Lemma decl_ext_refl : forall d, decl_ext d d.
Proof. intros d x t H. exact H. Qed.

Lemma decl_ext_trans : forall a b c, decl_ext a b -> decl_ext b c -> decl_ext a c.
Proof. intros a b c H1 H2 x t H. auto. Qed.

Lemma lookup_app_l : forall A (d l : list (id * A)) x t, lookup d x = Some t -> lookup (d ++ l) x = Some t.
Proof.
  intros A d l x t. induction d as [|[y u] r IH]; simpl; intro H; [discriminate|].
  destruct (Nat.eqb x y); auto.
Qed.

Lemma lookup_app_none : forall A (d : list (id * A)) x y t, lookup d x = None ->
  lookup (d ++ [(y, t)]) x = if Nat.eqb x y then Some t else None.
Proof.
  intros A d x y t. induction d as [|[z u] r IH]; simpl; intro H; [reflexivity|].
  destruct (Nat.eqb x z); [discriminate | auto].
Qed.

Lemma decl_ext_app : forall d y t, decl_ext d (d ++ [(y, t)]).
Proof. intros d y t x u H. apply lookup_app_l. exact H. Qed.

Lemma env_decl_ext : forall en d d', env_decl_ok P en d -> decl_ext d d' -> env_decl_ok P en d'.
Proof. intros en d d' H E x v Hl. destruct (H _ _ Hl) as [t [Ht Hm]]. eauto. Qed.

Lemma with_label_ok : forall A l (r : res A) a, with_label l r = Ok a -> r = Ok a.
Proof. intros A l r a H. destruct r as [x|[n|]|]; simpl in H; try discriminate; exact H. Qed.

Lemma in_dom_lookup : forall A (d : list (id * A)) x, in_dom x d = true -> exists t, lookup d x = Some t.
Proof. intros A d x H. unfold in_dom in H. destruct (lookup d x); [eauto|discriminate]. Qed.

(* ---- declarations only grow *)
Definition chk_ext (chk : cst -> res cst) : Prop :=
  forall st0 r, chk st0 = Ok r -> decl_ext (decl st0) (decl r).

Lemma loop_pass_ext : forall chk c d V d' V' em ch, chk_ext chk ->
  loop_pass P true chk c d V = Ok (d', V', em, ch) -> decl_ext d d'.
Proof.
  intros chk c d V d' V' em ch Hc H. unfold loop_pass in H.
  destruct (infer P true d V c) as [xc| |]; simpl in H; try discriminate.
  destruct (chk _) as [r1| |] eqn:E; simpl in H; try discriminate.
  match type of H with (if ?c then _ else _) = _ => destruct c end; [discriminate|].
  inversion H; subst. apply Hc in E. exact E.
Qed.

Lemma loop_iter_ext : forall chk c n d V d' V' em ch, chk_ext chk ->
  loop_iter P true chk c n d V = Ok (d', V', em, ch) -> decl_ext d d'.
Proof.
  intros chk c n. induction n as [|n IH]; intros d V d' V' em ch Hc H; simpl in H.
  - destruct (loop_pass P true chk c d V) as [[[[d1 V1] em1] ch1]| |] eqn:E; simpl in H; try discriminate.
    inversion H; subst. eapply loop_pass_ext; eauto.
  - destruct (loop_pass P true chk c d V) as [[[[d1 V1] em1] ch1]| |] eqn:E; simpl in H; try discriminate.
    destruct ch1.
    + eapply decl_ext_trans; [eapply loop_pass_ext; eauto | eapply IH; eauto].
    + inversion H; subst. eapply loop_pass_ext; eauto.
Qed.

Arguments loop_iter : simpl never.
Arguments loop_pass : simpl never.
Arguments merge : simpl never.
Arguments merge_cert : simpl never.

Lemma check_decl_ext : forall s ret st st', check_stmt P true ret st s = Ok st' -> decl_ext (decl st) (decl st').
Proof.
  induction s; intros ret st st' H; simpl in H; destruct (cur st) as [fr|] eqn:Ec;
    try (inversion H; subst; apply decl_ext_refl; fail).
  - (* SAssign *)
    destruct (infer P true (decl st) fr e) as [xe| |]; simpl in H; try discriminate.
    destruct (lookup (decl st) x); [|discriminate].
    destruct (is_subtype P (fst xe) t); [inversion H; subst; apply decl_ext_refl|].
    destruct (is_none_lit e); discriminate.
  - (* SDef *)
    destruct (infer P true (decl st) fr e) as [xe| |]; simpl in H; try discriminate.
    destruct (is_none_ty (fst xe) || is_never (fst xe)); [discriminate|].
    destruct (lookup (decl st) x).
    + destruct (ty_same P (fst xe) t); [inversion H; subst; apply decl_ext_refl | discriminate].
    + inversion H; subst. simpl. apply decl_ext_app.
  - (* SDecl *)
    destruct (infer P true _ fr e) as [xe| |]; simpl in H; try discriminate.
    destruct (lookup _ x) as [t1|]; [|discriminate].
    destruct (is_subtype P (fst xe) t1); [|discriminate]. inversion H; subst. simpl.
    destruct (in_dom x (decl st)); [apply decl_ext_refl | apply decl_ext_app].
  - (* SIf *)
    destruct (infer P true (decl st) fr c) as [xc| |]; simpl in H; try discriminate.
    destruct (check_stmt P true ret _ s1) as [r1| |] eqn:E1; simpl in H; try discriminate.
    destruct (check_stmt P true ret _ s2) as [r2| |] eqn:E2; simpl in H; try discriminate.
    match type of H with (if ?c then _ else _) = _ => destruct c end; [discriminate|].
    inversion H; subst. simpl.
    apply IHs1 in E1. apply IHs2 in E2. simpl in *. eapply decl_ext_trans; eauto.
  - (* SWhile *)
    assert (Hc : chk_ext (fun st0 => check_stmt P true ret st0 s)) by (intros st0 r Hr; eapply IHs; eauto).
    destruct (loop_iter P true _ c 3 (decl st) fr) as [[[[d' V'] em] ch]| |] eqn:E; simpl in H; try discriminate.
    destruct (loop_pass P true _ c d' V') as [[[[d2 V2] em2] ch2]| |]; simpl in H; try discriminate.
    match type of H with (if ?c then _ else _) = _ => destruct c end; [|discriminate].
    inversion H; subst. simpl. eapply loop_iter_ext; eauto.
  - (* SReturn *)
    destruct (infer P true (decl st) fr e) as [xe| |]; simpl in H; try discriminate.
    destruct (is_subtype P (fst xe) ret); [inversion H; subst; apply decl_ext_refl | discriminate].
  - (* SAssert *)
    destruct (infer P true (decl st) fr e) as [xe| |]; simpl in H; try discriminate.
    inversion H; subst; apply decl_ext_refl.
  - (* SSeq *)
    destruct (check_stmt P true ret st s1) as [st1| |] eqn:E1; simpl in H; try discriminate.
    eapply decl_ext_trans; [eapply IHs1; eauto | eapply IHs2; eauto].
  - (* SExpr *)
    destruct (infer P true (decl st) fr e) as [xe| |]; simpl in H; try discriminate.
    inversion H; subst; apply decl_ext_refl.
  - (* SLab *)
    apply with_label_ok in H. eapply IHs; eauto.
Qed.

(* ---- validated merges *)
Lemma in_somes : forall A (l : list (option A)) a, In (Some a) l -> In a (somes l).
Proof.
  intros A l a. induction l as [|[b|] r IH]; simpl; intro H; [destruct H| |].
  - destruct H as [E|H]; [inversion E; left; reflexivity | right; auto].
  - destruct H as [E|H]; [discriminate | auto].
Qed.

Lemma merge_sound : forall en parent opts fi,
  merge_cert P (merge P parent opts) opts = true -> In (Some fi) opts -> env_frame_ok P en fi ->
  exists mg, merge P parent opts = Some mg /\ env_frame_ok P en mg.
Proof.
  intros en parent opts fi Hc Hin Hf. pose proof (in_somes _ _ _ Hin) as Hs.
  destruct (merge P parent opts) as [mg|] eqn:Em.
  - exists mg. split; [reflexivity|]. unfold merge_cert in Hc. rewrite forallb_forall in Hc.
    intros x t b v Hl He. apply lookup_in in Hl. specialize (Hc _ Hl). simpl in Hc.
    rewrite forallb_forall in Hc. specialize (Hc _ Hs).
    destruct (lookup fi x) as [[ti bi]|] eqn:Ei; [|discriminate].
    eapply subtype_sound; [exact Htrans | exact Hc | eapply Hf; eauto].
  - unfold merge in Em. destruct (somes opts); [destruct Hs | discriminate].
Qed.

Lemma decls_eqb_sound : forall d2 d' x t2, decls_eqb P d2 d' = true -> lookup d2 x = Some t2 ->
  exists t', lookup d' x = Some t' /\ is_subtype P t2 t' = true.
Proof.
  induction d2 as [|[y s] r IH]; intros d' x t2 H Hl; destruct d' as [|[z u] r']; simpl in *; try discriminate.
  apply andb_prop in H. destruct H as [H Hr]. apply andb_prop in H. destruct H as [Hyz Hs].
  apply Nat.eqb_eq in Hyz. subst z. destruct (Nat.eqb x y).
  - inversion Hl; subst. exists u. split; [reflexivity|]. unfold ty_same in Hs. apply andb_prop in Hs. tauto.
  - eapply IH; eauto.
Qed.

Lemma env_decl_eqb : forall en d2 d', env_decl_ok P en d2 -> decls_eqb P d2 d' = true -> env_decl_ok P en d'.
Proof.
  intros en d2 d' H E x v Hl. destruct (H _ _ Hl) as [t2 [Ht Hm]].
  destruct (decls_eqb_sound _ _ _ _ E Ht) as [t' [Ht' Hs]]. exists t'. split; [exact Ht'|].
  eapply subtype_sound; eauto.
Qed.

Lemma stable_sound : forall en V V2, stable P V V2 = true -> env_frame_ok P en V2 -> env_frame_ok P en V.
Proof.
  intros en V V2 H Hf x t b v Hl He. unfold stable in H. rewrite forallb_forall in H.
  apply lookup_in in Hl. specialize (H _ Hl). simpl in H.
  destruct (lookup V2 x) as [[t2 b2]|] eqn:E2; [|discriminate].
  eapply subtype_sound; [exact Htrans | exact H | eapply Hf; eauto].
Qed.

Lemma view_le_sound : forall en d fr V', view_le P d fr V' = true -> env_decl_ok P en d -> env_frame_ok P en fr ->
  env_frame_ok P en V'.
Proof.
  intros en d fr V' H Hd Hf x t b v Hl He. unfold view_le in H. rewrite forallb_forall in H.
  apply lookup_in in Hl. specialize (H _ Hl). simpl in H.
  destruct (view d fr x) as [t0|] eqn:Ev.
  - eapply subtype_sound; [exact Htrans | exact H | eapply view_ok; eauto].
  - exfalso. unfold view in Ev. destruct (lookup fr x) as [[? ?]|]; [discriminate|].
    destruct (Hd _ _ He) as [t1 [Ht1 _]]. congruence.
Qed.

(* ---- environments *)
Lemma env_update_decl : forall en d x v t, env_decl_ok P en d -> lookup d x = Some t -> mem P v t ->
  env_decl_ok P (update en x v) d.
Proof.
  intros en d x v t H Hl Hm y w Hy. destruct (Nat.eq_dec y x) as [->|Hn].
  - rewrite lookup_update_eq in Hy. inversion Hy; subst. eauto.
  - rewrite lookup_update_neq in Hy by assumption. eauto.
Qed.

Lemma env_update_frame_set : forall en fr x v t b, env_frame_ok P en fr -> mem P v t ->
  env_frame_ok P (update en x v) (update fr x (t, b)).
Proof.
  intros en fr x v t b H Hm y u c w Hl Hy. destruct (Nat.eq_dec y x) as [->|Hn].
  - rewrite lookup_update_eq in Hl, Hy. inversion Hl; inversion Hy; subst. exact Hm.
  - rewrite lookup_update_neq in Hl, Hy by assumption. eapply H; eauto.
Qed.

Lemma lookup_remove_eq : forall A (l : list (id * A)) x, lookup (remove l x) x = None.
Proof.
  intros A l x. induction l as [|[y a] r IH]; simpl; [reflexivity|].
  destruct (Nat.eqb x y) eqn:E; [exact IH | simpl; rewrite E; exact IH].
Qed.

Lemma env_update_frame_remove : forall en fr x v, env_frame_ok P en fr ->
  env_frame_ok P (update en x v) (remove fr x).
Proof.
  intros en fr x v H y u c w Hl Hy. destruct (Nat.eq_dec y x) as [->|Hn].
  - rewrite lookup_remove_eq in Hl. discriminate.
  - rewrite lookup_remove_neq in Hl by assumption. rewrite lookup_update_neq in Hy by assumption. eapply H; eauto.
Qed.

Lemma frame_ok_nil : forall en, env_frame_ok P en [].
Proof. intros en x t b v H. discriminate. Qed.

Definition sound_upto (f : nat) : Prop := forall f', f' <= f -> expr_ok_at P f' /\ stmt_ok_at P f'.

Lemma loop_sound : forall f c b ret d' V' d2 V2 em2 ch2,
  sound_upto f ->
  loop_pass P true (fun st0 => check_stmt P true ret st0 b) c d' V' = Ok (d2, V2, em2, ch2) ->
  decls_eqb P d2 d' = true -> stable P V' V2 = true ->
  forall k, k <= S f -> forall en, env_decl_ok P en d' -> env_frame_ok P en V' ->
    match exec P k en (SWhile c b) with
    | Val (Normal en') => env_decl_ok P en' d' /\ exists m2, em2 = Some m2 /\ env_frame_ok P en' (push V' m2 true)
    | Val (Returned v) => mem P v ret
    | Exn e => type_failure e = false
    | NoFuel => True
    end.
Proof.
  intros f c b ret d' V' d2 V2 em2 ch2 HS Hpass Heq Hst.
  unfold loop_pass in Hpass.
  destruct (infer P true d' V' c) as [[tc [im em]]| |] eqn:Einf; cbn [bind fst snd andb] in Hpass; try discriminate.
  destruct (check_stmt P true ret _ b) as [r1| |] eqn:Ec1; cbn [bind fst snd andb] in Hpass; try discriminate.
  match type of Hpass with (if ?cnd then _ else _) = _ => destruct cnd eqn:Ecert end; [discriminate|].
  inversion Hpass; subst. clear Hpass.
  apply negb_false_iff in Ecert. apply andb_prop in Ecert. destruct Ecert as [Cert1 Cert2].
  induction k as [|k IHk]; intros Hk en Hd Hf; [exact I|].
  assert (Hk' : k <= f) by lia. destruct (HS k Hk') as [EO SO].
  simpl.
  pose proof (EO c d' V' tc (im, em2) en Einf Hd Hf) as Rc.
  destruct (eval P k en c) as [v|x|]; simpl in Rc |- *; [|exact Rc|exact I].
  destruct Rc as [_ [RT RF]]. destruct (truthy v) eqn:Tv.
  - destruct (RT eq_refl) as [m1 [Em1 Mok1]]. simpl in Em1. subst im. simpl in Ec1.
    pose proof (SO b ret _ r1 en Ec1 (conj Hd (push_ok P _ _ _ false Hf Mok1))) as Rb.
    destruct (exec P k en b) as [[en1|w]|x|]; simpl in Rb |- *; [|exact Rb|exact Rb|exact I].
    destruct Rb as [Hd1 Hc1]. destruct (cur r1) as [f1|] eqn:Er1; [|contradiction].
    destruct (merge_sound en1 V' _ f1 Cert1 (or_introl eq_refl) Hc1) as [e1 [Ee1 He1]].
    rewrite Ee1 in Cert2.
    destruct (merge_sound en1 V' _ e1 Cert2 (or_intror (or_introl eq_refl)) He1) as [v2 [Ev2 Hv2]].
    change (stable P V' (unwrap_frame (merge P V' [Some V'; merge P V' [Some f1; push_map (Some V') em2 false]])) = true) in Hst.
    rewrite Ee1, Ev2 in Hst. simpl in Hst.
    apply IHk; [lia | eapply env_decl_eqb; eauto | eapply stable_sound; eauto].
  - destruct (RF eq_refl) as [m2 [Em2 Mok2]]. simpl in Em2. subst em2.
    split; [exact Hd|]. exists m2. split; [reflexivity | apply push_ok; assumption].
Qed.

Lemma stmt_step : forall f, sound_upto f -> stmt_ok_at P (S f).
Proof.
  intros f HS. destruct (HS f (le_n f)) as [EO SO].
  intros s ret st st' en Hc [Hd Hfr].
  destruct (cur st) as [fr|] eqn:Ecur; [|contradiction].
  destruct s; simpl in Hc; rewrite Ecur in Hc; simpl exec.
  - (* SAssign *)
    destruct (infer P true (decl st) fr e) as [[te m]| |] eqn:Ei; simpl in Hc; try discriminate.
    pose proof (EO e _ _ _ _ en Ei Hd Hfr) as Re.
    destruct (eval P f en e) as [v|x0|]; simpl in *; [|exact Re|exact I]. destruct Re as [Mv _].
    destruct (lookup (decl st) x) as [dt|] eqn:El; [|discriminate].
    destruct (is_subtype P te dt) eqn:Es; [|destruct (is_none_lit e); discriminate].
    inversion Hc; subst. split; simpl.
    + eapply env_update_decl; eauto. eapply subtype_sound; eauto.
    + apply env_update_frame_set; assumption.
  - (* SDef *)
    destruct (infer P true (decl st) fr e) as [[te m]| |] eqn:Ei; simpl in Hc; try discriminate.
    pose proof (EO e _ _ _ _ en Ei Hd Hfr) as Re.
    destruct (eval P f en e) as [v|x0|]; simpl in *; [|exact Re|exact I]. destruct Re as [Mv _].
    destruct (is_none_ty te || is_never te); [discriminate|].
    destruct (lookup (decl st) x) as [dt|] eqn:El.
    + destruct (ty_same P te dt) eqn:Es; [|discriminate]. inversion Hc; subst. split; simpl.
      * eapply env_update_decl; eauto. unfold ty_same in Es. apply andb_prop in Es. destruct Es as [Es _].
        eapply subtype_sound; eauto.
      * apply env_update_frame_remove; assumption.
    + inversion Hc; subst. split; simpl.
      * eapply env_update_decl; [eapply env_decl_ext; [exact Hd | apply decl_ext_app] | | exact Mv].
        rewrite lookup_app_none by assumption. rewrite Nat.eqb_refl. reflexivity.
      * apply env_update_frame_remove; assumption.
  - (* SDecl *)
    set (d1 := if in_dom x (decl st) then decl st else decl st ++ [(x, t)]) in *.
    assert (Hd1 : env_decl_ok P en d1).
    { unfold d1. destruct (in_dom x (decl st)); [exact Hd | eapply env_decl_ext; [exact Hd | apply decl_ext_app]]. }
    destruct (infer P true d1 fr e) as [[te m]| |] eqn:Ei; simpl in Hc; try discriminate.
    pose proof (EO e _ _ _ _ en Ei Hd1 Hfr) as Re.
    destruct (eval P f en e) as [v|x0|]; simpl in *; [|exact Re|exact I]. destruct Re as [Mv _].
    destruct (lookup d1 x) as [t1|] eqn:El; [|discriminate].
    destruct (is_subtype P te t1) eqn:Es; [|discriminate]. inversion Hc; subst. split; simpl.
    + eapply env_update_decl; eauto. eapply subtype_sound; eauto.
    + apply env_update_frame_remove; assumption.
  - (* SIf *)
    destruct (infer P true (decl st) fr c) as [[tc [im em]]| |] eqn:Ei; simpl in Hc; try discriminate.
    destruct (check_stmt P true ret _ s1) as [r1| |] eqn:E1; simpl in Hc; try discriminate.
    destruct (check_stmt P true ret _ s2) as [r2| |] eqn:E2; simpl in Hc; try discriminate.
    match type of Hc with (if ?cnd then _ else _) = _ => destruct cnd eqn:Ecert end; [discriminate|].
    inversion Hc; subst. clear Hc. apply negb_false_iff in Ecert.
    pose proof (EO c _ _ _ _ en Ei Hd Hfr) as Rc.
    destruct (eval P f en c) as [v|x0|]; simpl in *; [|exact Rc|exact I].
    destruct Rc as [_ [RT RF]]. destruct (truthy v) eqn:Tv.
    + destruct (RT eq_refl) as [m1 [Em1 Mok1]]. simpl in Em1. subst im. simpl in E1.
      pose proof (SO s1 ret _ r1 en E1 (conj Hd (push_ok P _ _ _ false Hfr Mok1))) as Rb.
      destruct (exec P f en s1) as [[en1|w]|x0|]; simpl in *; [|exact Rb|exact Rb|exact I].
      destruct Rb as [Hdr Hcr]. destruct (cur r1) as [f1|] eqn:Er1; [|contradiction].
      destruct (merge_sound en1 fr _ f1 Ecert (or_introl eq_refl) Hcr) as [mg [Emg Hmg]].
      unfold env_ok; cbn [decl cur]. rewrite Emg. split; [|exact Hmg].
      eapply env_decl_ext; [exact Hdr|]. apply check_decl_ext in E2. exact E2.
    + destruct (RF eq_refl) as [m2 [Em2 Mok2]]. simpl in Em2. subst em. simpl in E2.
      assert (Hd2 : env_decl_ok P en (decl r1)).
      { eapply env_decl_ext; [exact Hd|]. apply check_decl_ext in E1. exact E1. }
      pose proof (SO s2 ret _ r2 en E2 (conj Hd2 (push_ok P _ _ _ false Hfr Mok2))) as Rb.
      destruct (exec P f en s2) as [[en1|w]|x0|]; simpl in *; [|exact Rb|exact Rb|exact I].
      destruct Rb as [Hdr Hcr]. destruct (cur r2) as [f2|] eqn:Er2; [|contradiction].
      destruct (merge_sound en1 fr _ f2 Ecert (or_intror (or_introl eq_refl)) Hcr) as [mg [Emg Hmg]].
      unfold env_ok; cbn [decl cur]. rewrite Emg. split; [exact Hdr | exact Hmg].
  - (* SWhile *)
    destruct (loop_iter P true _ c 3 (decl st) fr) as [[[[d' V'] em] ch]| |] eqn:Eit; simpl in Hc; try discriminate.
    destruct (loop_pass P true _ c d' V') as [[[[d2 V2] em2] ch2]| |] eqn:Epass; simpl in Hc; try discriminate.
    match type of Hc with (if ?cnd then _ else _) = _ => destruct cnd eqn:Ecert end; [|discriminate].
    inversion Hc; subst. clear Hc.
    apply andb_prop in Ecert. destruct Ecert as [Ecert Cm]. apply andb_prop in Ecert. destruct Ecert as [Ecert Cv].
    apply andb_prop in Ecert. destruct Ecert as [Cd Cs].
    assert (Hext : decl_ext (decl st) d').
    { eapply loop_iter_ext; [|exact Eit]. intros st0 r Hr. eapply check_decl_ext; eauto. }
    pose proof (loop_sound f c s ret d' V' d2 V2 em2 ch2 HS Epass Cd Cs (S f) (le_n _) en
                  (env_decl_ext _ _ _ Hd Hext) (view_le_sound _ _ _ _ Cv Hd Hfr)) as RL.
    simpl in RL.
    destruct (eval P f en c) as [v|x0|]; simpl in *; [|exact RL|exact I].
    match goal with |- stmt_result_ok _ _ _ ?o => destruct o as [[en1|w]|x0|] end; simpl in *; try exact RL.
    destruct RL as [Hd1 [m2 [Em2 Hf2]]]. subst em2. simpl in Cm.
    destruct (merge_sound en1 fr _ _ Cm (or_introl eq_refl) Hf2) as [mg [Emg Hmg]].
    unfold env_ok; cbn [decl cur]. rewrite Emg. split; [exact Hd1 | exact Hmg].
  - (* SReturn *)
    destruct (infer P true (decl st) fr e) as [[te m]| |] eqn:Ei; simpl in Hc; try discriminate.
    pose proof (EO e _ _ _ _ en Ei Hd Hfr) as Re.
    destruct (eval P f en e) as [v|x0|]; simpl in *; [|exact Re|exact I]. destruct Re as [Mv _].
    destruct (is_subtype P te ret) eqn:Es; [|discriminate]. eapply subtype_sound; eauto.
  - (* SAssert *)
    destruct (infer P true (decl st) fr e) as [[te [im em]]| |] eqn:Ei; simpl in Hc; try discriminate.
    inversion Hc; subst. clear Hc.
    pose proof (EO e _ _ _ _ en Ei Hd Hfr) as Re.
    destruct (eval P f en e) as [v|x0|]; simpl in *; [|exact Re|exact I]. destruct Re as [_ [RT _]].
    destruct (truthy v) eqn:Tv; simpl; [|reflexivity].
    destruct (RT eq_refl) as [m1 [Em1 Mok1]]. simpl in Em1. subst im. split; simpl; [exact Hd | apply push_ok; assumption].
  - (* SPass *)
    inversion Hc; subst. split; [exact Hd | rewrite Ecur; exact Hfr].
  - (* SSeq *)
    destruct (check_stmt P true ret st s1) as [st1| |] eqn:E1; simpl in Hc; try discriminate.
    assert (Hst : env_ok P en st) by (split; [exact Hd | rewrite Ecur; exact Hfr]).
    pose proof (SO s1 ret st st1 en E1 Hst) as R1.
    destruct (exec P f en s1) as [[en1|w]|x0|]; simpl in *; [|exact R1|exact R1|exact I].
    exact (SO s2 ret st1 st' en1 Hc R1).
  - (* SExpr *)
    destruct (infer P true (decl st) fr e) as [[te m]| |] eqn:Ei; simpl in Hc; try discriminate.
    inversion Hc; subst.
    pose proof (EO e _ _ _ _ en Ei Hd Hfr) as Re.
    destruct (eval P f en e) as [v|x0|]; simpl in *; [|exact Re|exact I].
    split; [exact Hd | rewrite Ecur; exact Hfr].
  - (* SLab *)
    apply with_label_ok in Hc.
    assert (Hst : env_ok P en st) by (split; [exact Hd | rewrite Ecur; exact Hfr]).
    exact (SO s ret st st' en Hc Hst).
Qed.

Lemma body_from_stmt : forall f, stmt_ok_at P f -> body_ok_at P f.
Proof.
  intros f SO self fd en Hc Hd. unfold check_fun in Hc. apply with_label_ok in Hc.
  fold (params_of self fd) in Hc.
  destruct (negb _); [discriminate|].
  destruct (redecl_ok P _ (f_body fd)) as [bound|]; [|discriminate].
  destruct (negb _); [discriminate|].
  destruct (negb _); [discriminate|].
  destruct (check_stmt P true (f_ret fd) _ (f_body fd)) as [st'| |] eqn:Eb; simpl in Hc; try discriminate.
  pose proof (SO _ _ _ _ en Eb (conj Hd (frame_ok_nil en))) as R.
  unfold call_ok. destruct (exec P f en (f_body fd)) as [[en1|w]|x|]; simpl in *; try exact R.
  destruct R as [_ Hc1]. destruct (cur st'); [|contradiction].
  destruct (f_ret fd); simpl in Hc; try discriminate. constructor.
Qed.

Theorem sound_all : forall f, sound_upto f.
Proof.
  induction f as [|f IH]; intros f' Hle.
  - assert (f' = 0) by lia. subst. split.
    + intros e d fr t m en _ _ _. exact I.
    + intros s ret st st' en _ _. exact I.
  - destruct (Nat.eq_dec f' (S f)) as [->|Hn]; [|apply IH; lia].
    destruct (IH f (le_n f)) as [EO SO]. split.
    + apply expr_step; [exact Hpo | exact EO | apply body_from_stmt; exact SO].
    + apply stmt_step. exact IH.
Qed.

Theorem stmt_invariant_holds : forall f, stmt_ok_at P f.
Proof. intro f. exact (proj2 (sound_all f f (le_n f))). Qed.

Theorem expr_sound_holds : forall f, expr_ok_at P f.
Proof. intro f. exact (proj1 (sound_all f f (le_n f))). Qed.

Theorem call_sound : forall g fd vs fuel, lookup (p_funcs P) g = Some fd ->
  mems P vs (map snd (f_params fd)) -> call_ok P (f_ret fd) (call_fun P fuel g vs).
Proof.
  intros g fd vs fuel Hl Hm. unfold call_fun. rewrite Hl.
  rewrite (mems_length P _ _ Hm), map_length, Nat.eqb_refl.
  apply (body_from_stmt fuel (stmt_invariant_holds fuel) None fd).
  - exact (proj1 (proj2 (proj2 Hpo)) _ _ Hl).
  - apply bind_params_ok. exact Hm.
Qed.
End S4.
