(* C01 stage 3: the binder-environment invariant is preserved by every statement of the certifying
   checker; accepted (certified) programs do not go wrong. *)
From Coq Require Import ZArith List Bool Arith Lia.
From C01 Require Import Lang Eval Check Sem Proofs1 Proofs2.
Import ListNotations.
Local Open Scope nat_scope.

Section S4.
Variable P : prog.
Hypothesis Hpo : prog_ok P.
Let Hct : class_table_ok P := proj1 Hpo.
Let Htrans : sub_trans P := proj1 Hct.

Definition decl_ext (d d' : decls) : Prop := forall x t, lookup d x = Some t -> lookup d' x = Some t.

Lemma decl_ext_refl : forall d, decl_ext d d.
Proof. intros d x t H. exact H. Qed.

Lemma decl_ext_trans : forall a b c, decl_ext a b -> decl_ext b c -> decl_ext a c.
Proof. intros a b c H1 H2 x t H. auto. Qed.

Lemma lookup_app_l : forall A (d l : list (id * A)) x t, lookup d x = Some t -> lookup (d ++ l) x = Some t.
Proof.
  intros A d l x t. induction d as [|[y u] r IH]; simpl; intro H; [discriminate|].
  destruct (Nat.eqb x y); auto.
Qed.

Lemma lookup_app_none : forall A (d : list (id * A)) x y t, lookup d x = None ->
  lookup (d ++ [(y, t)]) x = if Nat.eqb x y then Some t else None.
Proof.
  intros A d x y t. induction d as [|[z u] r IH]; simpl; intro H; [reflexivity|].
  destruct (Nat.eqb x z); [discriminate | auto].
Qed.

Lemma decl_ext_app : forall d y t, decl_ext d (d ++ [(y, t)]).
Proof. intros d y t x u H. apply lookup_app_l. exact H. Qed.

Lemma env_decl_ext : forall en d d', env_decl_ok P en d -> decl_ext d d' -> env_decl_ok P en d'.
Proof. intros en d d' H E x v Hl. destruct (H _ _ Hl) as [t [Ht Hm]]. eauto. Qed.

Lemma with_label_ok : forall A l (r : res A) a, with_label l r = Ok a -> r = Ok a.
Proof. intros A l r a H. destruct r as [x|[n|]|]; simpl in H; try discriminate; exact H. Qed.

Lemma in_dom_lookup : forall A (d : list (id * A)) x, in_dom x d = true -> exists t, lookup d x = Some t.
Proof. intros A d x H. unfold in_dom in H. destruct (lookup d x); [eauto|discriminate]. Qed.

(* ---- declarations only grow *)
Definition pass_ext (pass : passfn) : Prop :=
  forall d V d' E J em, pass d V = Ok (d', E, J, em) -> decl_ext d d'.

Lemma loop_pass_ext : forall pass d V d' V' J em ch, pass_ext pass ->
  loop_pass P true pass d V = Ok (d', V', J, em, ch) -> decl_ext d d'.
Proof.
  intros pass d V d' V' J em ch Hc H. unfold loop_pass in H.
  destruct (pass d V) as [[[[d1 E] J1] em1]| |] eqn:E1; cbn [bind] in H; try discriminate.
  match type of H with (if ?c then _ else _) = _ => destruct c end; [discriminate|].
  inversion H; subst. eapply Hc; eauto.
Qed.

Lemma loop_iter_ext : forall pass n d V acc aps d' V' J em aps', pass_ext pass ->
  loop_iter P true pass n d V acc aps = Ok (d', V', J, em, aps') -> decl_ext d d'.
Proof.
  intros pass n. induction n as [|n IH]; intros d V acc aps d' V' J em aps' Hc H; simpl in H.
  - destruct (loop_pass P true pass d V) as [[[[[d1 V1] J1] em1] ch1]| |] eqn:E; cbn [bind] in H; try discriminate.
    inversion H; subst. eapply loop_pass_ext; eauto.
  - destruct (loop_pass P true pass d V) as [[[[[d1 V1] J1] em1] ch1]| |] eqn:E; cbn [bind] in H; try discriminate.
    destruct ch1.
    + eapply decl_ext_trans; [eapply loop_pass_ext; eauto | eapply IH; eauto].
    + inversion H; subst. eapply loop_pass_ext; eauto.
Qed.

Arguments loop_iter : simpl never.
Arguments loop_pass : simpl never.
Arguments merge : simpl never.
Arguments merge_cert : simpl never.

Lemma bind_var_ext : forall d V x t d' V', bind_var P d V x t = Ok (d', V') -> decl_ext d d'.
Proof.
  intros d V x t d' V' H. unfold bind_var in H. destruct (lookup d x).
  - destruct (is_subtype P t t0); inversion H; subst. apply decl_ext_refl.
  - inversion H; subst. apply decl_ext_app.
Qed.

Lemma loop_tail_ext : forall ret fr d pass chk_else b st' J,
  pass_ext pass -> (forall st0 r, chk_else st0 = Ok r -> decl_ext (decl st0) (decl (fst r))) ->
  check_loop_tail P true ret fr d pass chk_else b = Ok (st', J) -> decl_ext d (decl st').
Proof.
  intros ret fr d pass chk_else b st' J Hp He H. unfold check_loop_tail in H.
  destruct (loop_iter P true pass 3 d fr j0 []) as [[[[[d' V'] J1] em] aps]| |] eqn:Eit; cbn [bind] in H; try discriminate.
  destruct (loop_pass P true pass d' V') as [[[[[d2 V2] J2] em2] ch2]| |]; cbn [bind] in H; try discriminate.
  destruct (chk_else _) as [re| |] eqn:Ee; cbn [bind] in H; try discriminate.
  match type of H with (if ?c then _ else _) = _ => destruct c end; [|discriminate].
  inversion H; subst. simpl. eapply decl_ext_trans; [eapply loop_iter_ext; eauto|].
  apply He in Ee. exact Ee.
Qed.

Lemma check_decl_ext : forall s ret st st' J, check_stmt P true ret st s = Ok (st', J) -> decl_ext (decl st) (decl st').
Proof.
  induction s; intros ret st st' J H; simpl in H; destruct (cur st) as [fr|] eqn:Ec;
    try (inversion H; subst; apply decl_ext_refl; fail).
  - (* SAssign *)
    destruct (infer P true (decl st) fr e) as [xe| |]; simpl in H; try discriminate.
    destruct (lookup (decl st) x); [|discriminate].
    destruct (is_subtype P (fst xe) t); [inversion H; subst; apply decl_ext_refl|].
    destruct (is_none_lit e); discriminate.
  - (* SDef *)
    destruct (infer P true (decl st) fr e) as [xe| |]; simpl in H; try discriminate.
    destruct (is_none_ty (fst xe) || is_never (fst xe)); [discriminate|].
    destruct (lookup (decl st) x).
    + destruct (ty_same P (fst xe) t); [inversion H; subst; apply decl_ext_refl | discriminate].
    + inversion H; subst. simpl. apply decl_ext_app.
  - (* SDecl *)
    destruct (infer P true _ fr e) as [xe| |]; simpl in H; try discriminate.
    destruct (lookup _ x) as [t1|]; [|discriminate].
    destruct (is_subtype P (fst xe) t1); [|discriminate]. inversion H; subst. simpl.
    destruct (in_dom x (decl st)); [apply decl_ext_refl | apply decl_ext_app].
  - (* SIf *)
    destruct (infer P true (decl st) fr c) as [xc| |]; simpl in H; try discriminate.
    destruct (check_stmt P true ret _ s1) as [[r1 J1]| |] eqn:E1; simpl in H; try discriminate.
    destruct (check_stmt P true ret _ s2) as [[r2 J2]| |] eqn:E2; simpl in H; try discriminate.
    match type of H with (if ?c then _ else _) = _ => destruct c end; [discriminate|].
    inversion H; subst. simpl.
    apply IHs1 in E1. apply IHs2 in E2. simpl in *. eapply decl_ext_trans; eauto.
  - (* SWhile *)
    eapply loop_tail_ext; [| |exact H].
    + intros d0 V d' E J0 em Hp. cbv beta in Hp.
      destruct (infer P true d0 V c) as [xc| |]; cbn [bind] in Hp; try discriminate.
      destruct (check_stmt P true ret _ s1) as [[r1 J1]| |] eqn:E1; cbn [bind] in Hp; try discriminate.
      match type of Hp with (if ?c then _ else _) = _ => destruct c end; [discriminate|].
      inversion Hp; subst. apply IHs1 in E1. exact E1.
    + intros st0 [r Jr] Hr. eapply IHs2; eauto.
  - (* SFor *)
    destruct (infer P true (decl st) fr e) as [xe| |]; cbn [bind] in H; try discriminate.
    destruct (iter_item_ty P rng (fst xe)) as [it| |]; cbn [bind] in H; try discriminate.
    eapply loop_tail_ext; [| |exact H].
    + intros d0 V d' E J0 em Hp. cbv beta in Hp.
      destruct (bind_var P d0 V x it) as [[d1 V1]| |] eqn:Bv; cbn [bind fst snd] in Hp; try discriminate.
      destruct (check_stmt P true ret _ s1) as [[r1 J1]| |] eqn:E1; cbn [bind] in Hp; try discriminate.
      inversion Hp; subst. apply IHs1 in E1. eapply decl_ext_trans; [eapply bind_var_ext; eauto | exact E1].
    + intros st0 [r Jr] Hr. eapply IHs2; eauto.
  - (* SRaise *)
    match type of H with bind ?m _ = _ => destruct m as [xe| |] end; cbn [bind] in H; try discriminate.
    destruct (subclass P c exc_id); inversion H; subst. apply decl_ext_refl.
  - (* STry *)
    destruct (check_stmt P true ret st s1) as [[rb Jb]| |] eqn:Eb; cbn [bind] in H; try discriminate.
    destruct (negb (subclass P c exc_id)); [discriminate|].
    cbn [fst snd] in H.
    match type of H with bind ?m _ = _ => destruct m as [[dh Vh]| |] eqn:Ebv end; cbn [bind] in H; try discriminate.
    destruct (check_stmt P true ret _ s2) as [[rh Jh]| |] eqn:Eh; cbn [bind] in H; try discriminate.
    destruct (check_stmt P true ret _ s3) as [[re Je]| |] eqn:Ee; cbn [bind] in H; try discriminate.
    match type of H with (if ?c then _ else _) = _ => destruct c end; [discriminate|].
    inversion H; subst. cbn [decl fst snd] in *.
    apply IHs1 in Eb. apply IHs2 in Eh. apply IHs3 in Ee. cbn [decl fst] in *.
    assert (decl_ext (decl rb) dh).
    { destruct x as [y|].
      - destruct (bind_var P (decl rb) _ y (TInst c)) as [[d1 V1]| |] eqn:Bv; cbn [bind] in Ebv; try discriminate.
        inversion Ebv; subst. eapply bind_var_ext; eauto.
      - inversion Ebv; subst. apply decl_ext_refl. }
    eapply decl_ext_trans; [exact Eb|]. eapply decl_ext_trans; [eassumption|].
    eapply decl_ext_trans; eauto.
  - (* SFinally *)
    destruct (check_stmt P true ret st s1) as [[rb Jb]| |] eqn:Eb; cbn [bind] in H; try discriminate.
    match type of H with bind ?m _ = _ => destruct m as [[ra Ja]| |] eqn:Ea end; cbn [bind] in H; try discriminate.
    match type of H with bind ?m _ = _ => destruct m as [[rn Jn]| |] eqn:En end; cbn [bind] in H; try discriminate.
    simpl in H.
    match type of H with context [if ?c then Unsup _ else _] => destruct c end; [discriminate|].
    inversion H; subst. cbn [fst] in *.
    apply IHs1 in Eb. apply IHs2 in Ea. apply IHs2 in En. cbn [decl fst] in *.
    eapply decl_ext_trans; [exact Eb|]. eapply decl_ext_trans; eauto.
  - (* SReturn *)
    destruct (infer P true (decl st) fr e) as [xe| |]; simpl in H; try discriminate.
    destruct (is_subtype P (fst xe) ret); [inversion H; subst; apply decl_ext_refl | discriminate].
  - (* SAssert *)
    destruct (infer P true (decl st) fr e) as [xe| |]; simpl in H; try discriminate.
    inversion H; subst; apply decl_ext_refl.
  - (* SSeq *)
    destruct (check_stmt P true ret st s1) as [[st1 J1]| |] eqn:E1; simpl in H; try discriminate.
    destruct (check_stmt P true ret st1 s2) as [[st2 J2]| |] eqn:E2; simpl in H; try discriminate.
    inversion H; subst. eapply decl_ext_trans; [eapply IHs1; eauto | eapply IHs2; eauto].
  - (* SExpr *)
    destruct (infer P true (decl st) fr e) as [xe| |]; simpl in H; try discriminate.
    inversion H; subst; apply decl_ext_refl.
  - (* SLab *)
    apply with_label_ok in H. eapply IHs; eauto.
Qed.

(* ---- validated merges *)
Lemma in_somes : forall A (l : list (option A)) a, In (Some a) l -> In a (somes l).
Proof.
  intros A l a. induction l as [|[b|] r IH]; simpl; intro H; [destruct H| |].
  - destruct H as [E|H]; [inversion E; left; reflexivity | right; auto].
  - destruct H as [E|H]; [discriminate | auto].
Qed.

Lemma merge_sound : forall en parent opts fi,
  merge_cert P (merge P parent opts) opts = true -> In (Some fi) opts -> env_frame_ok P en fi ->
  exists mg, merge P parent opts = Some mg /\ env_frame_ok P en mg.
Proof.
  intros en parent opts fi Hc Hin Hf. pose proof (in_somes _ _ _ Hin) as Hs.
  destruct (merge P parent opts) as [mg|] eqn:Em.
  - exists mg. split; [reflexivity|]. unfold merge_cert in Hc. rewrite forallb_forall in Hc.
    intros x t b v Hl He. apply lookup_in in Hl. specialize (Hc _ Hl). simpl in Hc.
    rewrite forallb_forall in Hc. specialize (Hc _ Hs).
    destruct (lookup fi x) as [[ti bi]|] eqn:Ei; [|discriminate].
    eapply subtype_sound; [exact Htrans | exact Hc | eapply Hf; eauto].
  - unfold merge in Em. destruct (somes opts); [destruct Hs | discriminate].
Qed.

Lemma decls_eqb_sound : forall d2 d' x t2, decls_eqb P d2 d' = true -> lookup d2 x = Some t2 ->
  exists t', lookup d' x = Some t' /\ is_subtype P t2 t' = true.
Proof.
  induction d2 as [|[y s] r IH]; intros d' x t2 H Hl; destruct d' as [|[z u] r']; simpl in *; try discriminate.
  apply andb_prop in H. destruct H as [H Hr]. apply andb_prop in H. destruct H as [Hyz Hs].
  apply Nat.eqb_eq in Hyz. subst z. destruct (Nat.eqb x y).
  - inversion Hl; subst. exists u. split; [reflexivity|]. unfold ty_same in Hs. apply andb_prop in Hs. tauto.
  - eapply IH; eauto.
Qed.

Lemma env_decl_eqb : forall en d2 d', env_decl_ok P en d2 -> decls_eqb P d2 d' = true -> env_decl_ok P en d'.
Proof.
  intros en d2 d' H E x v Hl. destruct (H _ _ Hl) as [t2 [Ht Hm]].
  destruct (decls_eqb_sound _ _ _ _ E Ht) as [t' [Ht' Hs]]. exists t'. split; [exact Ht'|].
  eapply subtype_sound; eauto.
Qed.

Lemma stable_sound : forall en V V2, stable P V V2 = true -> env_frame_ok P en V2 -> env_frame_ok P en V.
Proof.
  intros en V V2 H Hf x t b v Hl He. unfold stable in H. rewrite forallb_forall in H.
  apply lookup_in in Hl. specialize (H _ Hl). simpl in H.
  destruct (lookup V2 x) as [[t2 b2]|] eqn:E2; [|discriminate].
  eapply subtype_sound; [exact Htrans | exact H | eapply Hf; eauto].
Qed.

Lemma view_le_sound : forall en d fr V', view_le P d fr V' = true -> env_decl_ok P en d -> env_frame_ok P en fr ->
  env_frame_ok P en V'.
Proof.
  intros en d fr V' H Hd Hf x t b v Hl He. unfold view_le in H. rewrite forallb_forall in H.
  apply lookup_in in Hl. specialize (H _ Hl). simpl in H.
  destruct (view d fr x) as [t0|] eqn:Ev.
  - eapply subtype_sound; [exact Htrans | exact H | eapply view_ok; eauto].
  - exfalso. unfold view in Ev. destruct (lookup fr x) as [[? ?]|]; [discriminate|].
    destruct (Hd _ _ He) as [t1 [Ht1 _]]. congruence.
Qed.

(* ---- environments *)
Lemma env_update_decl : forall en d x v t, env_decl_ok P en d -> lookup d x = Some t -> mem P v t ->
  env_decl_ok P (update en x v) d.
Proof.
  intros en d x v t H Hl Hm y w Hy. destruct (Nat.eq_dec y x) as [->|Hn].
  - rewrite lookup_update_eq in Hy. inversion Hy; subst. eauto.
  - rewrite lookup_update_neq in Hy by assumption. eauto.
Qed.

Lemma env_update_frame_set : forall en fr x v t b, env_frame_ok P en fr -> mem P v t ->
  env_frame_ok P (update en x v) (update fr x (t, b)).
Proof.
  intros en fr x v t b H Hm y u c w Hl Hy. destruct (Nat.eq_dec y x) as [->|Hn].
  - rewrite lookup_update_eq in Hl, Hy. inversion Hl; inversion Hy; subst. exact Hm.
  - rewrite lookup_update_neq in Hl, Hy by assumption. eapply H; eauto.
Qed.

Lemma lookup_remove_eq : forall A (l : list (id * A)) x, lookup (remove l x) x = None.
Proof.
  intros A l x. induction l as [|[y a] r IH]; simpl; [reflexivity|].
  destruct (Nat.eqb x y) eqn:E; [exact IH | simpl; rewrite E; exact IH].
Qed.

Lemma env_update_frame_remove : forall en fr x v, env_frame_ok P en fr ->
  env_frame_ok P (update en x v) (remove fr x).
Proof.
  intros en fr x v H y u c w Hl Hy. destruct (Nat.eq_dec y x) as [->|Hn].
  - rewrite lookup_remove_eq in Hl. discriminate.
  - rewrite lookup_remove_neq in Hl by assumption. rewrite lookup_update_neq in Hy by assumption. eapply H; eauto.
Qed.

Lemma frame_ok_nil : forall en, env_frame_ok P en [].
Proof. intros en x t b v H. discriminate. Qed.


(* ---- coverage and result transport *)
Definition jincl (a b : jumps) : Prop := incl (brk a) (brk b) /\ incl (cnt a) (cnt b) /\ incl (exc a) (exc b).

Lemma jincl_refl : forall a, jincl a a.
Proof. intro a. repeat split; apply incl_refl. Qed.
Lemma jincl_l : forall a b, jincl a (jcat a b).
Proof. intros a b. repeat split; apply incl_appl; apply incl_refl. Qed.
Lemma jincl_r : forall a b, jincl b (jcat a b).
Proof. intros a b. repeat split; apply incl_appr; apply incl_refl. Qed.
Lemma jincl_trans : forall a b c, jincl a b -> jincl b c -> jincl a c.
Proof. intros a b c [A1 [A2 A3]] [B1 [B2 B3]]. repeat split; eapply incl_tran; eauto. Qed.

Lemma covered_exc : forall en en' J J', covered P en en' J -> incl (exc J) (exc J') -> covered P en en' J'.
Proof. intros en en' J J' [E|[f [Hi Hf]]] I; [left; exact E | right; exists f; split; auto]. Qed.

Lemma covered_incl : forall en en' J J', covered P en en' J -> jincl J J' -> covered P en en' J'.
Proof. intros en en' J J' H [_ [_ I]]. eapply covered_exc; eauto. Qed.

Lemma covered_trans : forall en0 en en' J, covered P en0 en J -> covered P en en' J -> covered P en0 en' J.
Proof. intros en0 en en' J H [E|H2]; [subst; exact H | right; exact H2]. Qed.

Lemma result_weaken : forall ret en st1 J1 st' J o,
  stmt_result_ok P ret en st1 J1 o ->
  (forall en', o = Val (Normal en') -> env_ok P en' st1 -> env_ok P en' st') ->
  decl_ext (decl st1) (decl st') -> jincl J1 J -> stmt_result_ok P ret en st' J o.
Proof.
  intros ret en st1 J1 st' J o H HN Hd Hj. pose proof Hj as [Ib [Ic Ie]].
  destruct o as [[en'|en' v|en'|en'|en' w]|x|]; simpl in *; auto.
  - destruct H as [A B]. split; [eapply HN; eauto | eapply covered_incl; eauto].
  - destruct H as [A [B C]]. split; [exact A|]. split; [eapply env_decl_ext; eauto | eapply covered_incl; eauto].
  - destruct H as [B [C [f [Hi Hf]]]]. split; [eapply env_decl_ext; eauto|]. split; [eapply covered_incl; eauto|]. exists f; split; auto.
  - destruct H as [B [C [f [Hi Hf]]]]. split; [eapply env_decl_ext; eauto|]. split; [eapply covered_incl; eauto|]. exists f; split; auto.
  - destruct H as [A [B C]]. split; [exact A|]. split; [eapply env_decl_ext; eauto | eapply covered_incl; eauto].
Qed.

Lemma result_shift : forall ret en0 en st' J o,
  covered P en0 en J -> stmt_result_ok P ret en st' J o -> stmt_result_ok P ret en0 st' J o.
Proof.
  intros ret en0 en st' J o Hc H.
  destruct o as [[en'|en' v|en'|en'|en' w]|x|]; simpl in *; auto.
  - destruct H as [A B]. split; [exact A | eapply covered_trans; eauto].
  - destruct H as [A [B C]]. repeat split; auto. eapply covered_trans; eauto.
  - destruct H as [B [C D]]. repeat split; auto. eapply covered_trans; eauto.
  - destruct H as [B [C D]]. repeat split; auto. eapply covered_trans; eauto.
  - destruct H as [A [B C]]. repeat split; auto. eapply covered_trans; eauto.
Qed.

Lemma slift_ok : forall ret en o k st' J (Q : value -> Prop),
  match o with Val v => Q v | Exn e => exn_ok P e | NoFuel => True end ->
  env_decl_ok P en (decl st') ->
  (forall v, Q v -> stmt_result_ok P ret en st' J (k v)) ->
  stmt_result_ok P ret en st' J (slift en o k).
Proof.
  intros ret en o k st' J Q H Hd Hk. destruct o as [v|e|]; simpl; [apply Hk; exact H | | exact I].
  destruct e; simpl in *; try exact H. split; [exact H|]. split; [exact Hd | left; reflexivity].
Qed.

(* removing a binding never invalidates a frame or the declarations *)
Lemma frame_ok_remove : forall en f y, env_frame_ok P en f -> env_frame_ok P (remove en y) f.
Proof.
  intros en f y H x t b v Hl He. destruct (Nat.eq_dec x y) as [->|Hn].
  - rewrite lookup_remove_eq in He. discriminate.
  - rewrite lookup_remove_neq in He by assumption. eapply H; eauto.
Qed.

Lemma decl_ok_remove : forall en d y, env_decl_ok P en d -> env_decl_ok P (remove en y) d.
Proof.
  intros en d y H x v He. destruct (Nat.eq_dec x y) as [->|Hn].
  - rewrite lookup_remove_eq in He. discriminate.
  - rewrite lookup_remove_neq in He by assumption. eauto.
Qed.

Lemma frame_remove_ok : forall en f y, env_frame_ok P en f -> env_frame_ok P en (remove f y).
Proof.
  intros en f y H x t b v Hl He. destruct (Nat.eq_dec x y) as [->|Hn].
  - rewrite lookup_remove_eq in Hl. discriminate.
  - rewrite lookup_remove_neq in Hl by assumption. eapply H; eauto.
Qed.

Lemma in_jump_opts : forall f l, In f l -> In (Some f) (jump_opts l).
Proof. intros f l H. unfold jump_opts. apply in_map. exact H. Qed.

Lemma bind_var_sound : forall en d V x t d' V' w, bind_var P d V x t = Ok (d', V') ->
  env_decl_ok P en d -> env_frame_ok P en V -> mem P w t ->
  env_decl_ok P (update en x w) d' /\ env_frame_ok P (update en x w) V'.
Proof.
  intros en d V x t d' V' w H Hd Hf Hw. unfold bind_var in H.
  destruct (lookup d x) as [dt|] eqn:El.
  - destruct (is_subtype P t dt) eqn:Es; inversion H; subst. split.
    + eapply env_update_decl; eauto. eapply subtype_sound; eauto.
    + apply env_update_frame_set; assumption.
  - inversion H; subst. split.
    + eapply env_update_decl; [eapply env_decl_ext; [exact Hd | apply decl_ext_app] | | exact Hw].
      rewrite lookup_app_none by assumption. rewrite Nat.eqb_refl. reflexivity.
    + apply env_update_frame_remove; assumption.
Qed.

Definition sound_upto (f : nat) : Prop := forall f', f' <= f -> expr_ok_at P f' /\ stmt_ok_at P f'.

Lemma while_sound : forall f c b els ret fr d' V' tc im em2 r1 J2 ste Je st' Jout,
  sound_upto f ->
  infer P true d' V' c = Ok (tc, (im, em2)) ->
  check_stmt P true ret {| decl := d'; cur := push_map (Some V') im false |} b = Ok (r1, J2) ->
  let o1 := [cur r1; push_map (Some V') em2 false] in
  let o2 := Some V' :: jump_opts (cnt J2) ++ [merge P V' o1] in
  let o := cur ste :: jump_opts (brk J2) in
  merge_cert P (merge P V' o1) o1 = true -> merge_cert P (merge P V' o2) o2 = true ->
  stable P V' (unwrap_frame (merge P V' o2)) = true -> decls_eqb P (decl r1) d' = true ->
  check_stmt P true ret {| decl := d'; cur := push_map (Some V') em2 true |} els = Ok (ste, Je) ->
  merge_cert P (merge P fr o) o = true ->
  st' = {| decl := decl ste; cur := merge P fr o |} -> incl (exc J2) (exc Jout) -> jincl Je Jout ->
  forall k, k <= S f -> forall en0 en1, env_decl_ok P en1 d' -> env_frame_ok P en1 V' -> covered P en0 en1 Jout ->
    stmt_result_ok P ret en0 st' Jout (exec P k en1 (SWhile c b els)).
Proof.
  intros f c b els ret fr d' V' tc im em2 r1 J2 ste Je st' Jout HS Hc Hb o1 o2 o Cert1 Cert2 Hst Heq He Cm Est HJ2 HJe.
  assert (Hde : decl_ext d' (decl ste)) by (apply check_decl_ext in He; exact He).
  induction k as [|k IHk]; intros Hk en0 en1 Hd Hf Hcov; [exact I|].
  assert (Hk' : k <= f) by lia. destruct (HS k Hk') as [EO SO].
  simpl.
  assert (Hd' : env_decl_ok P en1 (decl st')) by (subst st'; simpl; eapply env_decl_ext; eauto).
  eapply result_shift; [exact Hcov|].
  eapply slift_ok with (Q := fun v => mem P v tc /\ maps_ok P en1 v (im, em2)).
  { pose proof (EO c d' V' tc (im, em2) en1 Hc Hd Hf) as Rc. destruct (eval P k en1 c); exact Rc. }
  { exact Hd'. }
  intros v [_ [RT RF]]. destruct (truthy v) eqn:Tv.
  - destruct (RT eq_refl) as [m1 [Em1 Mok1]]. simpl in Em1. subst im. simpl in Hb.
    pose proof (SO b ret _ r1 J2 en1 Hb (conj Hd (push_ok P _ _ _ false Hf Mok1))) as Rb.
    destruct (exec P k en1 b) as [[en2|en2 w|en2|en2|en2 w]|x|]; simpl in Rb |- *; [| | | | |exact Rb|exact I].
    + (* Normal: next iteration *)
      destruct Rb as [[Hd2 Hc2] Hcv]. destruct (cur r1) as [f1|] eqn:Er1; [|contradiction].
      destruct (merge_sound en2 V' o1 f1 Cert1 (or_introl eq_refl) Hc2) as [e1 [Ee1 He1]].
      assert (Hin : In (Some e1) o2).
      { unfold o2. right. apply in_or_app. right. left. exact Ee1. }
      destruct (merge_sound en2 V' o2 e1 Cert2 Hin He1) as [v2 [Ev2 Hv2]].
      rewrite Ev2 in Hst. simpl in Hst.
      eapply result_shift; [eapply covered_exc; [exact Hcv | exact HJ2]|].
      apply IHk; [lia | eapply env_decl_eqb; eauto | eapply stable_sound; eauto | left; reflexivity].
    + (* Returned *)
      destruct Rb as [Mv [Hd2 Hcv]]. split; [exact Mv|]. split.
      * subst st'. simpl. eapply env_decl_ext; [eapply env_decl_eqb; eauto | exact Hde].
      * eapply covered_exc; eauto.
    + (* Broke: the loop ends, else is skipped *)
      destruct Rb as [Hd2 [Hcv [fb [Hib Hfb]]]].
      assert (Hin : In (Some fb) o) by (unfold o; right; apply in_jump_opts; exact Hib).
      destruct (merge_sound en2 fr o fb Cm Hin Hfb) as [mg [Emg Hmg]].
      split.
      * subst st'. unfold env_ok; cbn [decl cur]. rewrite Emg. split; [|exact Hmg].
        eapply env_decl_ext; [eapply env_decl_eqb; eauto | exact Hde].
      * eapply covered_exc; eauto.
    + (* Continued: next iteration *)
      destruct Rb as [Hd2 [Hcv [fc [Hic Hfc]]]].
      assert (Hin : In (Some fc) o2).
      { unfold o2. right. apply in_or_app. left. apply in_jump_opts. exact Hic. }
      destruct (merge_sound en2 V' o2 fc Cert2 Hin Hfc) as [v2 [Ev2 Hv2]].
      rewrite Ev2 in Hst. simpl in Hst.
      eapply result_shift; [eapply covered_exc; [exact Hcv | exact HJ2]|].
      apply IHk; [lia | eapply env_decl_eqb; eauto | eapply stable_sound; eauto | left; reflexivity].
    + (* Raised *)
      destruct Rb as [Mw [Hd2 Hcv]]. split; [exact Mw|]. split.
      * subst st'. simpl. eapply env_decl_ext; [eapply env_decl_eqb; eauto | exact Hde].
      * eapply covered_exc; eauto.
  - (* exit: else clause *)
    destruct (RF eq_refl) as [m2 [Em2 Mok2]]. simpl in Em2. subst em2. simpl in He.
    pose proof (SO els ret _ ste Je en1 He (conj Hd (push_ok P _ _ _ true Hf Mok2))) as Re.
    eapply result_weaken; [exact Re | | subst st'; apply decl_ext_refl | exact HJe].
    intros en' _ [Hd2 Hc2]. destruct (cur ste) as [fe|] eqn:Ece; [|contradiction].
    destruct (merge_sound en' fr o fe Cm (or_introl eq_refl) Hc2) as [mg [Emg Hmg]].
    subst st'. unfold env_ok; cbn [decl cur]. rewrite Emg. split; assumption.
Qed.

Lemma mems_in : forall vs ts w, mems P vs ts -> In w vs -> exists t, In t ts /\ mem P w t.
Proof.
  intros vs ts w H. induction H; intro Hin; [destruct Hin|]. destruct Hin as [->|Hin].
  - exists t. split; [left; reflexivity | assumption].
  - destruct (IHmems Hin) as [t0 [A B]]. exists t0. split; [right; exact A | exact B].
Qed.

Lemma iter_values_ok : forall rng te it v, iter_item_ty P rng te = Ok it -> mem P v te ->
  exists vs, iter_values rng v = Val vs /\ forall w, In w vs -> mem P w it.
Proof.
  intros rng te it v H Hv. unfold iter_item_ty in H. unfold iter_values. destruct rng.
  - destruct (is_subtype P te TInt) eqn:Es; [|discriminate]. inversion H; subst.
    pose proof (subtype_sound P Htrans _ _ Es _ Hv) as Hi.
    assert (exists n, as_int v = Some n) by (inversion Hi; subst; simpl; eauto).
    destruct H0 as [n ->]. eexists; split; [reflexivity|].
    intros w Hin. apply in_map_iff in Hin. destruct Hin as [z [<- _]]. constructor.
  - destruct te as [| |  | | | |ts]; try discriminate.
    + (* str: one-character strings *)
      inversion H; subst. inversion Hv; subst. eexists; split; [reflexivity|].
      intros w Hin. apply in_map_iff in Hin. destruct Hin as [ch [<- _]]. constructor.
    + destruct ts as [|t0 ts]; [discriminate|]. inversion H; subst.
      inversion Hv as [ | | | | | |vs0 ts0 Hms| ]; subst. eexists; split; [reflexivity|].
      intros w Hin. destruct (mems_in _ _ _ Hms Hin) as [t [A B]]. eapply mk_union_sound; eauto.
Qed.

Lemma for_sound : forall f x b els ret fr d' V' it d1 V1 r1 J1 ste Je st' Jout,
  stmt_ok_at P f ->
  bind_var P d' V' x it = Ok (d1, V1) ->
  check_stmt P true ret {| decl := d1; cur := Some V1 |} b = Ok (r1, J1) ->
  let o2 := Some V' :: jump_opts (cnt J1) ++ [cur r1] in
  let o := cur ste :: jump_opts (brk J1) in
  merge_cert P (merge P V' o2) o2 = true ->
  stable P V' (unwrap_frame (merge P V' o2)) = true -> decls_eqb P (decl r1) d' = true ->
  check_stmt P true ret {| decl := d'; cur := Some V' |} els = Ok (ste, Je) ->
  merge_cert P (merge P fr o) o = true ->
  st' = {| decl := decl ste; cur := merge P fr o |} -> In V1 (exc Jout) -> incl (exc J1) (exc Jout) -> jincl Je Jout ->
  forall vs, (forall w, In w vs -> mem P w it) ->
  forall en0 en1, env_decl_ok P en1 d' -> env_frame_ok P en1 V' -> covered P en0 en1 Jout ->
    stmt_result_ok P ret en0 st' Jout (for_go (exec P f) x b els vs en1).
Proof.
  intros f x b els ret fr d' V' it d1 V1 r1 J1 ste Je st' Jout SO Hbv Hb o2 o Cert2 Hst Heq He Cm Est HV1 HJ1 HJe.
  assert (Hde : decl_ext d' (decl ste)) by (apply check_decl_ext in He; exact He).
  induction vs as [|w r IHr]; intros Hvs en0 en1 Hd Hf Hcov; simpl.
  - (* no more items: else clause *)
    eapply result_shift; [exact Hcov|].
    pose proof (SO els ret _ ste Je en1 He (conj Hd Hf)) as Re.
    eapply result_weaken; [exact Re | | subst st'; apply decl_ext_refl | exact HJe].
    intros en' _ [Hd2 Hc2]. destruct (cur ste) as [fe|] eqn:Ece; [|contradiction].
    destruct (merge_sound en' fr o fe Cm (or_introl eq_refl) Hc2) as [mg [Emg Hmg]].
    subst st'. unfold env_ok; cbn [decl cur]. rewrite Emg. split; assumption.
  - destruct (bind_var_sound en1 d' V' x it d1 V1 w Hbv Hd Hf (Hvs w (or_introl eq_refl))) as [Hd1 Hf1].
    assert (Hcu : covered P en0 (update en1 x w) Jout) by (right; exists V1; split; assumption).
    pose proof (SO b ret _ r1 J1 _ Hb (conj Hd1 Hf1)) as Rb.
    eapply result_shift; [exact Hcu|].
    destruct (exec P f (update en1 x w) b) as [[en2|en2 v|en2|en2|en2 v]|xx|]; simpl in Rb |- *; [| | | | |exact Rb|exact I].
    + destruct Rb as [[Hd2 Hc2] Hcv]. destruct (cur r1) as [f1|] eqn:Er1; [|contradiction].
      assert (Hin : In (Some f1) o2) by (unfold o2; right; apply in_or_app; right; left; reflexivity).
      destruct (merge_sound en2 V' o2 f1 Cert2 Hin Hc2) as [v2 [Ev2 Hv2]].
      rewrite Ev2 in Hst. simpl in Hst.
      eapply result_shift; [eapply covered_exc; [exact Hcv | exact HJ1]|].
      apply IHr; [intros w0 Hw0; apply Hvs; right; exact Hw0 | eapply env_decl_eqb; eauto | eapply stable_sound; eauto | left; reflexivity].
    + destruct Rb as [Mv [Hd2 Hcv]]. split; [exact Mv|]. split.
      * subst st'. simpl. eapply env_decl_ext; [eapply env_decl_eqb; eauto | exact Hde].
      * eapply covered_exc; eauto.
    + destruct Rb as [Hd2 [Hcv [fb [Hib Hfb]]]].
      assert (Hin : In (Some fb) o) by (unfold o; right; apply in_jump_opts; exact Hib).
      destruct (merge_sound en2 fr o fb Cm Hin Hfb) as [mg [Emg Hmg]].
      split.
      * subst st'. unfold env_ok; cbn [decl cur]. rewrite Emg. split; [|exact Hmg].
        eapply env_decl_ext; [eapply env_decl_eqb; eauto | exact Hde].
      * eapply covered_exc; eauto.
    + destruct Rb as [Hd2 [Hcv [fc [Hic Hfc]]]].
      assert (Hin : In (Some fc) o2) by (unfold o2; right; apply in_or_app; left; apply in_jump_opts; exact Hic).
      destruct (merge_sound en2 V' o2 fc Cert2 Hin Hfc) as [v2 [Ev2 Hv2]].
      rewrite Ev2 in Hst. simpl in Hst.
      eapply result_shift; [eapply covered_exc; [exact Hcv | exact HJ1]|].
      apply IHr; [intros w0 Hw0; apply Hvs; right; exact Hw0 | eapply env_decl_eqb; eauto | eapply stable_sound; eauto | left; reflexivity].
    + destruct Rb as [Mw [Hd2 Hcv]]. split; [exact Mw|]. split.
      * subst st'. simpl. eapply env_decl_ext; [eapply env_decl_eqb; eauto | exact Hde].
      * eapply covered_exc; eauto.
Qed.

Lemma finally_abrupt : forall ret en en1 st' J ra Ja (r : sres) o2,
  match r with Returned _ v => mem P v ret | Raised _ w => mem P w (TInst exc_id) | _ => False end ->
  covered P en en1 J -> stmt_result_ok P ret en1 ra Ja o2 -> decl_ext (decl ra) (decl st') -> jincl Ja J ->
  stmt_result_ok P ret en st' J
    (obind o2 (fun r2 => match r2 with Normal en2 => Val (set_env r en2) | _ => Val r2 end)).
Proof.
  intros ret en en1 st' J ra Ja r o2 Hp Hcov Ra Hde Hj.
  destruct o2 as [[en2|en2 v|en2|en2|en2 v]|xx|]; cbn [obind];
    try (eapply result_shift; [exact Hcov|]; eapply result_weaken; [exact Ra | intros ? E; discriminate E | exact Hde | exact Hj]; fail).
  - destruct Ra as [[Hd2 _] Hcv].
    assert (C2 : covered P en en2 J) by (eapply covered_trans; [exact Hcov | eapply covered_incl; eauto]).
    destruct r; simpl in *; try contradiction; (split; [exact Hp|]; split; [eapply env_decl_ext; eauto | exact C2]).
Qed.

Lemma normal_ok : forall ret en st' J, env_ok P en st' -> stmt_result_ok P ret en st' J (Val (Normal en)).
Proof. intros. simpl. split; [assumption | left; reflexivity]. Qed.

Lemma stmt_step : forall f, sound_upto f -> stmt_ok_at P (S f).
Proof.
  intros f HS. destruct (HS f (le_n f)) as [EO SO].
  intros s ret st st' J en Hc [Hd Hfr].
  destruct (cur st) as [fr|] eqn:Ecur; [|contradiction].
  assert (Hst0 : env_ok P en st) by (split; [exact Hd | rewrite Ecur; exact Hfr]).
  destruct s; simpl in Hc; rewrite Ecur in Hc; simpl exec.
  - (* SAssign *)
    destruct (infer P true (decl st) fr e) as [[te m]| |] eqn:Ei; simpl in Hc; try discriminate.
    destruct (lookup (decl st) x) as [dt|] eqn:El; [|discriminate].
    destruct (is_subtype P te dt) eqn:Es; [|destruct (is_none_lit e); discriminate].
    inversion Hc; subst. clear Hc.
    eapply slift_ok with (Q := fun v => mem P v te /\ maps_ok P en v m); [|exact Hd|].
    { pose proof (EO e _ _ _ _ en Ei Hd Hfr) as Re. destruct (eval P f en e); exact Re. }
    intros v [Mv _]. simpl.
    assert (Hf2 : env_frame_ok P (update en x v) (update fr x (te, true))) by (apply env_update_frame_set; assumption).
    split; [split; simpl; [eapply env_update_decl; eauto; eapply subtype_sound; eauto | exact Hf2]|].
    right. eexists; split; [left; reflexivity | exact Hf2].
  - (* SDef *)
    destruct (infer P true (decl st) fr e) as [[te m]| |] eqn:Ei; simpl in Hc; try discriminate.
    destruct (is_none_ty te || is_never te); [discriminate|].
    assert (Hf2 : forall v, env_frame_ok P (update en x v) (remove fr x)) by (intro v; apply env_update_frame_remove; assumption).
    destruct (lookup (decl st) x) as [dt|] eqn:El.
    + destruct (ty_same P te dt) eqn:Es; [|discriminate]. inversion Hc; subst. clear Hc.
      eapply slift_ok with (Q := fun v => mem P v te /\ maps_ok P en v m); [|exact Hd|].
      { pose proof (EO e _ _ _ _ en Ei Hd Hfr) as Re. destruct (eval P f en e); exact Re. }
      intros v [Mv _]. simpl. split; [split; simpl; [|apply Hf2]|right; eexists; split; [left; reflexivity | apply Hf2]].
      eapply env_update_decl; eauto. unfold ty_same in Es. apply andb_prop in Es. destruct Es as [Es _].
      eapply subtype_sound; eauto.
    + inversion Hc; subst. clear Hc.
      eapply slift_ok with (Q := fun v => mem P v te /\ maps_ok P en v m); [|simpl; eapply env_decl_ext; [exact Hd | apply decl_ext_app]|].
      { pose proof (EO e _ _ _ _ en Ei Hd Hfr) as Re. destruct (eval P f en e); exact Re. }
      intros v [Mv _]. simpl. split; [split; simpl; [|apply Hf2]|right; eexists; split; [left; reflexivity | apply Hf2]].
      eapply env_update_decl; [eapply env_decl_ext; [exact Hd | apply decl_ext_app] | | exact Mv].
      rewrite lookup_app_none by assumption. rewrite Nat.eqb_refl. reflexivity.
  - (* SDecl *)
    set (d1 := if in_dom x (decl st) then decl st else decl st ++ [(x, t)]) in *.
    assert (Hd1 : env_decl_ok P en d1).
    { unfold d1. destruct (in_dom x (decl st)); [exact Hd | eapply env_decl_ext; [exact Hd | apply decl_ext_app]]. }
    destruct (infer P true d1 fr e) as [[te m]| |] eqn:Ei; simpl in Hc; try discriminate.
    destruct (lookup d1 x) as [t1|] eqn:El; [|discriminate].
    destruct (is_subtype P te t1) eqn:Es; [|discriminate]. inversion Hc; subst. clear Hc.
    eapply slift_ok with (Q := fun v => mem P v te /\ maps_ok P en v m); [|exact Hd1|].
    { pose proof (EO e _ _ _ _ en Ei Hd1 Hfr) as Re. destruct (eval P f en e); exact Re. }
    intros v [Mv _]. simpl.
    assert (Hf2 : env_frame_ok P (update en x v) (remove fr x)) by (apply env_update_frame_remove; assumption).
    split; [split; simpl; [eapply env_update_decl; eauto; eapply subtype_sound; eauto | exact Hf2]|].
    right. eexists; split; [left; reflexivity | exact Hf2].
  - (* SIf *)
    destruct (infer P true (decl st) fr c) as [[tc [im em]]| |] eqn:Ei; simpl in Hc; try discriminate.
    destruct (check_stmt P true ret _ s1) as [[r1 J1]| |] eqn:E1; simpl in Hc; try discriminate.
    destruct (check_stmt P true ret _ s2) as [[r2 J2]| |] eqn:E2; simpl in Hc; try discriminate.
    match type of Hc with (if ?cnd then _ else _) = _ => destruct cnd eqn:Ecert end; [discriminate|].
    inversion Hc; subst. clear Hc. apply negb_false_iff in Ecert.
    assert (X1 : decl_ext (decl st) (decl r1)) by (apply check_decl_ext in E1; exact E1).
    assert (X2 : decl_ext (decl r1) (decl r2)) by (apply check_decl_ext in E2; exact E2).
    eapply slift_ok with (Q := fun v => mem P v tc /\ maps_ok P en v (im, em));
      [|simpl; eapply env_decl_ext; [exact Hd | eapply decl_ext_trans; eauto]|].
    { pose proof (EO c _ _ _ _ en Ei Hd Hfr) as Rc. destruct (eval P f en c); exact Rc. }
    intros v [_ [RT RF]]. destruct (truthy v) eqn:Tv.
    + destruct (RT eq_refl) as [m1 [Em1 Mok1]]. simpl in Em1. subst im. simpl in E1.
      pose proof (SO s1 ret _ r1 J1 en E1 (conj Hd (push_ok P _ _ _ false Hfr Mok1))) as Rb.
      eapply result_weaken; [exact Rb | | exact X2 | apply jincl_l].
      intros en' _ [Hdr Hcr]. destruct (cur r1) as [f1|] eqn:Er1; [|contradiction].
      destruct (merge_sound en' fr _ f1 Ecert (or_introl eq_refl) Hcr) as [mg [Emg Hmg]].
      unfold env_ok; cbn [decl cur]. rewrite Emg. split; [eapply env_decl_ext; eauto | exact Hmg].
    + destruct (RF eq_refl) as [m2 [Em2 Mok2]]. simpl in Em2. subst em. simpl in E2.
      pose proof (SO s2 ret _ r2 J2 en E2 (conj (env_decl_ext _ _ _ Hd X1) (push_ok P _ _ _ false Hfr Mok2))) as Rb.
      eapply result_weaken; [exact Rb | | apply decl_ext_refl | apply jincl_r].
      intros en' _ [Hdr Hcr]. destruct (cur r2) as [f2|] eqn:Er2; [|contradiction].
      destruct (merge_sound en' fr _ f2 Ecert (or_intror (or_introl eq_refl)) Hcr) as [mg [Emg Hmg]].
      unfold env_ok; cbn [decl cur]. rewrite Emg. split; assumption.
  - (* SWhile *)
    unfold check_loop_tail in Hc.
    match type of Hc with bind ?m _ = _ => destruct m as [[[[[d' V'] Jt] em] aps]| |] eqn:Eit end; cbn [bind] in Hc; try discriminate.
    match type of Hc with bind ?m _ = _ => destruct m as [[[[[d2 V2] J2] em2] ch2]| |] eqn:Epass end; cbn [bind] in Hc; try discriminate.
    destruct (check_stmt P true ret _ s2) as [[ste Je]| |] eqn:Ee; cbn [bind] in Hc; try discriminate.
    match type of Hc with (if ?cnd then _ else _) = _ => destruct cnd eqn:Ecert end; [|discriminate].
    inversion Hc; subst. clear Hc.
    apply andb_prop in Ecert. destruct Ecert as [Ecert Cm]. apply andb_prop in Ecert. destruct Ecert as [Ecert Cv].
    apply andb_prop in Ecert. destruct Ecert as [Cd Cs].
    unfold loop_pass in Epass.
    destruct (infer P true d' V' c) as [[tc [im emx]]| |] eqn:Einf; cbn [bind fst snd] in Epass; try discriminate.
    destruct (check_stmt P true ret _ s1) as [[r1 Jb]| |] eqn:Eb; cbn [bind fst snd] in Epass; try discriminate.
    match type of Epass with context [if ?cnd then Unsup _ else _] => destruct cnd eqn:Ec1 end; cbn [bind] in Epass; [discriminate|].
    match type of Epass with (if ?cnd then _ else _) = _ => destruct cnd eqn:Ec2 end; [discriminate|].
    inversion Epass; subst. clear Epass.
    simpl in Ec1, Ec2. apply negb_false_iff in Ec1. apply negb_false_iff in Ec2.
    assert (Hext : decl_ext (decl st) d').
    { eapply loop_iter_ext; [|exact Eit]. intros d0 V0 d1 E0 J0 em0 Hp. cbv beta in Hp.
      destruct (infer P true d0 V0 c) as [xc| |]; cbn [bind] in Hp; try discriminate.
      match type of Hp with bind ?m _ = _ => destruct m as [[rr Jr]| |] eqn:Er end; cbn [bind] in Hp; try discriminate.
      simpl in Hp.
      match type of Hp with context [if ?cnd then Unsup _ else _] => destruct cnd end; [discriminate|].
      inversion Hp; subst. apply check_decl_ext in Er. exact Er. }
    match goal with |- stmt_result_ok ?x1 ?x2 ?x3 ?x4 ?x5 _ =>
      change (stmt_result_ok x1 x2 x3 x4 x5 (exec P (S f) en (SWhile c s1 s2))) end.
    eapply (while_sound f c s1 s2 ret fr d' V' tc im em2 r1 J2 ste Je _ _ HS Einf Eb Ec1 Ec2 Cs Cd Ee Cm eq_refl);
      [simpl; apply incl_appl; apply incl_refl | | apply le_n | eapply env_decl_ext; eauto
       | eapply view_le_sound; eauto | left; reflexivity].
    repeat split; simpl; try apply incl_refl. apply incl_appr. apply incl_refl.
  - (* SFor *)
    destruct (infer P true (decl st) fr e) as [[te m]| |] eqn:Ei; cbn [bind fst] in Hc; try discriminate.
    destruct (iter_item_ty P rng te) as [it| |] eqn:Eit0; cbn [bind] in Hc; try discriminate.
    unfold check_loop_tail in Hc.
    match type of Hc with bind ?m _ = _ => destruct m as [[[[[d' V'] Jt] em] aps]| |] eqn:Eit end; cbn [bind] in Hc; try discriminate.
    match type of Hc with bind ?m _ = _ => destruct m as [[[[[d2 V2] J2] em2] ch2]| |] eqn:Epass end; cbn [bind] in Hc; try discriminate.
    match type of Hc with bind ?m _ = _ => destruct m as [[ste Je]| |] eqn:Ee end; cbn [bind] in Hc; try discriminate.
    match type of Hc with (if ?cnd then _ else _) = _ => destruct cnd eqn:Ecert end; [|discriminate].
    inversion Hc; subst. clear Hc.
    apply andb_prop in Ecert. destruct Ecert as [Ecert Cm]. apply andb_prop in Ecert. destruct Ecert as [Ecert Cv].
    apply andb_prop in Ecert. destruct Ecert as [Cd Cs].
    unfold loop_pass in Epass.
    destruct (bind_var P d' V' x it) as [[d1 V1]| |] eqn:Bv; cbn [bind fst snd] in Epass; try discriminate.
    match type of Epass with bind (bind ?m _) _ = _ => destruct m as [[r1 J1]| |] eqn:Eb end; cbn [bind fst snd] in Epass; try discriminate.
    match type of Epass with (if ?cnd then _ else _) = _ => destruct cnd eqn:Ec2 end; [discriminate|].
    inversion Epass; subst. clear Epass.
    simpl in Ec2. apply negb_false_iff in Ec2. simpl in Cs, Cm.
    assert (Hext : decl_ext (decl st) d').
    { eapply loop_iter_ext; [|exact Eit]. intros d0 V0 d3 E0 J0 em0 Hp. cbv beta in Hp.
      destruct (bind_var P d0 V0 x it) as [[d4 V4]| |] eqn:Bv0; cbn [bind fst snd] in Hp; try discriminate.
      match type of Hp with bind ?m _ = _ => destruct m as [[rr Jr]| |] eqn:Er end; cbn [bind] in Hp; try discriminate.
      inversion Hp; subst. apply check_decl_ext in Er. eapply decl_ext_trans; [eapply bind_var_ext; eauto | exact Er]. }
    assert (Hde : decl_ext d' (decl ste)) by (apply check_decl_ext in Ee; exact Ee).
    eapply slift_ok with (Q := fun v => mem P v te /\ maps_ok P en v m);
      [|simpl; eapply env_decl_ext; [exact Hd | eapply decl_ext_trans; eauto]|].
    { pose proof (EO e _ _ _ _ en Ei Hd Hfr) as Re. destruct (eval P f en e); exact Re. }
    intros v [Mv _]. destruct (iter_values_ok _ _ _ _ Eit0 Mv) as [vs [Evs Hvs]]. rewrite Evs. cbn [obind].
    eapply (for_sound f x s1 s2 ret fr d' V' it d1 V1 r1 J1 ste Je _ _ SO Bv Eb Ec2 Cs Cd Ee Cm eq_refl);
      [simpl; left; reflexivity | simpl; apply incl_tl; apply incl_appl; apply incl_refl | | exact Hvs
       | eapply env_decl_ext; eauto | eapply view_le_sound; eauto | left; reflexivity].
    repeat split; simpl; try apply incl_refl. apply incl_tl. apply incl_appr. apply incl_refl.
  - (* SBreak *)
    inversion Hc; subst. simpl. split; [exact Hd|]. split; [left; reflexivity|]. exists fr. split; [left; reflexivity | exact Hfr].
  - (* SContinue *)
    inversion Hc; subst. simpl. split; [exact Hd|]. split; [left; reflexivity|]. exists fr. split; [left; reflexivity | exact Hfr].
  - (* SRaise *)
    match type of Hc with bind ?m _ = _ => destruct m as [[te m0]| |] eqn:Ei end; cbn [bind] in Hc; try discriminate.
    destruct (subclass P c exc_id) eqn:Esub; [|discriminate]. inversion Hc; subst. clear Hc.
    change (stmt_result_ok P ret en {| decl := decl st; cur := None |} j0
              (slift en (eval P f en (ENew c args)) (fun w => if catches P exc_id w then Val (Raised en w) else Exn TypeError))).
    assert (Et : te = TInst c).
    { change (infer P true (decl st) fr (ENew c args) = Ok (te, m0)) in Ei. rewrite infer_new in Ei.
      destruct (fields_of P c) as [fds0|]; [|discriminate].
      destruct (infer_list P true (decl st) fr args) as [ats0| |]; cbn [bind] in Ei; try discriminate.
      destruct (check_args P ats0 fds0); inversion Ei; reflexivity. }
    subst te.
    eapply slift_ok with (Q := fun v => mem P v (TInst c) /\ maps_ok P en v m0); [|exact Hd|].
    { pose proof (EO (ENew c args) _ _ _ _ en Ei Hd Hfr) as Re. destruct (eval P f en (ENew c args)); exact Re. }
    intros w [Mw _]. inversion Mw as [ | | | | | | |c0 dc fs fds Hs Hfd Hmf]; subst. simpl.
    rewrite (Htrans _ _ _ Hs Esub). simpl. split; [econstructor; eauto|]. split; [exact Hd | left; reflexivity].
  - (* STry *)
    destruct (check_stmt P true ret st s1) as [[rb Jb]| |] eqn:Eb; cbn [bind] in Hc; try discriminate.
    destruct (subclass P c exc_id) eqn:Esub; cbn [negb] in Hc; [|discriminate].
    cbn [fst snd] in Hc.
    match type of Hc with bind ?m _ = _ => destruct m as [[dh Vh]| |] eqn:Ebv end; cbn [bind] in Hc; try discriminate.
    destruct (check_stmt P true ret _ s2) as [[rh Jh]| |] eqn:Eh; cbn [bind] in Hc; try discriminate.
    destruct (check_stmt P true ret _ s3) as [[re Je]| |] eqn:Ee; cbn [bind] in Hc; try discriminate.
    match type of Hc with (if ?cnd then _ else _) = _ => destruct cnd eqn:Ecert end; [discriminate|].
    inversion Hc; subst. clear Hc. cbn [fst snd decl cur] in *.
    simpl in Ecert. apply negb_false_iff in Ecert. apply andb_prop in Ecert. destruct Ecert as [Ecert Cmg].
    apply andb_prop in Ecert. destruct Ecert as [Cmh Cme].
    assert (Xb : decl_ext (decl st) (decl rb)) by (apply check_decl_ext in Eb; exact Eb).
    assert (Xh : decl_ext dh (decl rh)) by (apply check_decl_ext in Eh; exact Eh).
    assert (Xe : decl_ext (decl rh) (decl re)) by (apply check_decl_ext in Ee; exact Ee).
    assert (Xv : decl_ext (decl rb) dh).
    { destruct x as [y|].
      - destruct (bind_var P (decl rb) _ y (TInst c)) as [[d1 V1]| |] eqn:Bv; cbn [bind] in Ebv; try discriminate.
        inversion Ebv; subst. eapply bind_var_ext; eauto.
      - inversion Ebv; subst. apply decl_ext_refl. }
    set (Jout := jcat Jb (jcat (jexc Vh []) (jcat Jh (jcat _ Je)))).
    assert (IJb : jincl Jb Jout) by apply jincl_l.
    assert (IJh : jincl Jh Jout) by (eapply jincl_trans; [|apply jincl_r]; eapply jincl_trans; [|apply jincl_r]; apply jincl_l).
    assert (IJe : jincl Je Jout) by (do 4 (eapply jincl_trans; [|apply jincl_r]); apply jincl_refl).
    assert (IVh : In Vh (exc Jout)) by (simpl; apply in_or_app; right; left; reflexivity).
    pose proof (SO s1 ret st rb Jb en Eb Hst0) as Rb.
    destruct (exec P f en s1) as [[en1|en1 w|en1|en1|en1 w]|xx|]; [| | | | | |exact I].
    + (* the body fell through: else clause *)
      destruct Rb as [[Hd1 Hc1] Hcv]. destruct (cur rb) as [f1|] eqn:Er1; [|contradiction].
      destruct (merge_sound en1 fr _ f1 Cme (or_introl eq_refl) Hc1) as [me [Eme Hme]].
      rewrite Eme in Ee.
      pose proof (SO s3 ret _ re Je en1 Ee (conj (env_decl_ext _ _ _ Hd1 (decl_ext_trans _ _ _ Xv Xh)) Hme)) as Re.
      eapply result_shift; [eapply covered_incl; [exact Hcv | exact IJb]|].
      eapply result_weaken; [exact Re | | apply decl_ext_refl | exact IJe].
      intros en' _ [Hd2 Hc2]. destruct (cur re) as [fe|] eqn:Ece; [|contradiction].
      destruct (merge_sound en' fr _ fe Cmg (or_introl eq_refl) Hc2) as [mg [Emg Hmg]].
      unfold env_ok; cbn [decl cur]. rewrite Emg. split; assumption.
    + eapply result_weaken; [exact Rb | intros ? E; discriminate E | eapply decl_ext_trans; [exact Xv|eapply decl_ext_trans; eauto] | exact IJb].
    + eapply result_weaken; [exact Rb | intros ? E; discriminate E | eapply decl_ext_trans; [exact Xv|eapply decl_ext_trans; eauto] | exact IJb].
    + eapply result_weaken; [exact Rb | intros ? E; discriminate E | eapply decl_ext_trans; [exact Xv|eapply decl_ext_trans; eauto] | exact IJb].
    + (* Raised *)
      destruct (catches P c w) eqn:Ecat.
      * destruct Rb as [Mw [Hd1 Hcv]].
        destruct w as [| | | | |dc fs]; simpl in Ecat; try discriminate.
        destruct (obj_wf P _ _ Mw _ _ eq_refl) as [fds [Hfd Hmf]].
        assert (Mc : mem P (VObj dc fs) (TInst c)) by (econstructor; eauto).
        (* the environment at the raise satisfies the handler frame *)
        assert (Hh : exists mhf, merge P fr (Some fr :: jump_opts (exc Jb)) = Some mhf /\ env_frame_ok P en1 mhf).
        { destruct Hcv as [->|[fs0 [Hi Hf0]]].
          - eapply merge_sound; [exact Cmh | left; reflexivity | exact Hfr].
          - eapply merge_sound; [exact Cmh | right; apply in_jump_opts; exact Hi | exact Hf0]. }
        destruct Hh as [mhf [Emh Hmh]].
        assert (Ebv' : (match x with
                        | Some y => bind (bind_var P (decl rb) (unwrap_frame (merge P fr (Some fr :: jump_opts (exc Jb)))) y (TInst c)) (fun dv => Ok dv)
                        | None => Ok (decl rb, unwrap_frame (merge P fr (Some fr :: jump_opts (exc Jb))))
                        end) = Ok (dh, Vh)) by exact Ebv.
        clear Ebv. rename Ebv' into Ebv. rewrite Emh in Ebv. simpl in Ebv.
        assert (Hbind : env_decl_ok P (bind_opt en1 x (VObj dc fs)) dh /\ env_frame_ok P (bind_opt en1 x (VObj dc fs)) Vh).
        { destruct x as [y|]; simpl.
          - destruct (bind_var P (decl rb) mhf y (TInst c)) as [[d1 V1]| |] eqn:Bv; cbn [bind] in Ebv; try discriminate.
            inversion Ebv; subst. eapply bind_var_sound; eauto.
          - inversion Ebv; subst. split; assumption. }
        destruct Hbind as [Hdh Hfh].
        pose proof (SO s2 ret _ rh Jh _ Eh (conj Hdh Hfh)) as Rh.
        assert (Cv0 : forall en', env_frame_ok P en' Vh -> covered P en en' Jout).
        { intros en' Hx. right. exists Vh. split; assumption. }
        destruct (exec P f (bind_opt en1 x (VObj dc fs)) s2) as [[en2|en2 v|en2|en2|en2 v]|xx|]; simpl obind; [| | | | |exact Rh|exact I].
        -- (* handler fell through *)
           destruct Rh as [[Hd2 Hc2] Hcv2]. destruct (cur rh) as [fh|] eqn:Erh; [|contradiction].
           assert (Hrem : env_decl_ok P (env_of (unbind_opt x (Normal en2))) (decl re) /\
                          exists fhe, (match x with Some y => Some (remove fh y) | None => Some fh end) = Some fhe /\
                                      env_frame_ok P (env_of (unbind_opt x (Normal en2))) fhe).
           { destruct x as [y|]; simpl.
             - split; [apply decl_ok_remove; eapply env_decl_ext; eauto|]. eexists; split; [reflexivity|].
               apply frame_ok_remove. apply frame_remove_ok. exact Hc2.
             - split; [eapply env_decl_ext; eauto|]. eexists; split; [reflexivity | exact Hc2]. }
           destruct Hrem as [Hdr [fhe [Efhe Hfhe]]].
           assert (Eu : unbind_opt x (Normal en2) = Normal (env_of (unbind_opt x (Normal en2)))) by (destruct x; reflexivity).
           rewrite Eu. simpl.
           destruct (merge_sound _ fr _ fhe Cmg (or_intror (or_introl Efhe)) Hfhe) as [mg [Emg Hmg]].
           split; [unfold env_ok; cbn [decl cur]; rewrite Emg; split; assumption|].
           right. exists fhe. split; [|exact Hfhe].
           simpl. destruct x; inversion Efhe; subst; apply in_or_app; right; right; apply in_or_app; right; apply in_or_app; left; left; reflexivity.
        -- destruct Rh as [Mv [Hd2 Hcv2]]. destruct IJh as [IJhb [IJhc IJhe]].
           destruct x as [y|]; simpl;
             (split; [exact Mv|]; split;
              [try apply decl_ok_remove; eapply env_decl_ext; eauto
              | destruct Hcv2 as [->|[f0 [Hi Hf0]]];
                [right; exists Vh; split; [exact IVh | try apply frame_ok_remove; exact Hfh]
                | right; exists f0; split; [apply IJhe; exact Hi | try apply frame_ok_remove; exact Hf0]]]).
        -- destruct Rh as [Hd2 [Hcv2 [fb [Hib Hfb]]]]. destruct IJh as [IJhb [IJhc IJhe]].
           destruct x as [y|]; simpl;
             (split; [try apply decl_ok_remove; eapply env_decl_ext; eauto|]; split;
              [destruct Hcv2 as [->|[f0 [Hi Hf0]]];
                [right; exists Vh; split; [exact IVh | try apply frame_ok_remove; exact Hfh]
                | right; exists f0; split; [apply IJhe; exact Hi | try apply frame_ok_remove; exact Hf0]]
              | exists fb; split; [apply IJhb; exact Hib | try apply frame_ok_remove; exact Hfb]]).
        -- destruct Rh as [Hd2 [Hcv2 [fb [Hib Hfb]]]]. destruct IJh as [IJhb [IJhc IJhe]].
           destruct x as [y|]; simpl;
             (split; [try apply decl_ok_remove; eapply env_decl_ext; eauto|]; split;
              [destruct Hcv2 as [->|[f0 [Hi Hf0]]];
                [right; exists Vh; split; [exact IVh | try apply frame_ok_remove; exact Hfh]
                | right; exists f0; split; [apply IJhe; exact Hi | try apply frame_ok_remove; exact Hf0]]
              | exists fb; split; [apply IJhc; exact Hib | try apply frame_ok_remove; exact Hfb]]).
        -- destruct Rh as [Mv [Hd2 Hcv2]]. destruct IJh as [IJhb [IJhc IJhe]].
           destruct x as [y|]; simpl;
             (split; [exact Mv|]; split;
              [try apply decl_ok_remove; eapply env_decl_ext; eauto
              | destruct Hcv2 as [->|[f0 [Hi Hf0]]];
                [right; exists Vh; split; [exact IVh | try apply frame_ok_remove; exact Hfh]
                | right; exists f0; split; [apply IJhe; exact Hi | try apply frame_ok_remove; exact Hf0]]]).
      * eapply result_weaken; [exact Rb | intros ? E; discriminate E | eapply decl_ext_trans; [exact Xv|eapply decl_ext_trans; eauto] | exact IJb].
    + simpl in Rb. destruct (Nat.eqb c exc_id && negb (type_failure xx)); [reflexivity | exact Rb].
  - (* SFinally *)
    match type of Hc with bind ?m _ = _ => destruct m as [[rb Jb]| |] eqn:Eb end; cbn [bind fst snd] in Hc; try discriminate.
    match type of Hc with bind ?m _ = _ => destruct m as [[ra Ja]| |] eqn:Ea end; cbn [bind fst snd] in Hc; try discriminate.
    match type of Hc with bind ?m _ = _ => destruct m as [[rn Jn]| |] eqn:En end; cbn [bind fst snd] in Hc; try discriminate.
    match type of Hc with (if ?cnd then _ else _) = _ => destruct cnd eqn:Ecert end; [discriminate|].
    inversion Hc; subst. clear Hc.
    simpl in Ecert. apply negb_false_iff in Ecert. apply andb_prop in Ecert. destruct Ecert as [Ecert Cnb].
    apply andb_prop in Ecert. destruct Ecert as [Ecert Cmn]. apply andb_prop in Ecert. destruct Ecert as [Cmh Cma].
    assert (Nb : brk Jb = [] /\ cnt Jb = []) by (destruct (brk Jb); destruct (cnt Jb); try discriminate; split; reflexivity).
    destruct Nb as [Nb Nc].
    assert (Xb : decl_ext (decl st) (decl rb)) by (apply check_decl_ext in Eb; exact Eb).
    assert (Xa : decl_ext (decl rb) (decl ra)) by (apply check_decl_ext in Ea; exact Ea).
    assert (Xn : decl_ext (decl ra) (decl st')) by (apply check_decl_ext in En; exact En).
    match goal with |- stmt_result_ok _ _ _ _ ?JJ _ => set (Jout := JJ) end.
    assert (IJb : jincl Jb Jout) by (repeat split; simpl; apply incl_appl; apply incl_refl).
    assert (IJa : jincl Ja Jout) by (repeat split; simpl; apply incl_appr; apply incl_appl; apply incl_refl).
    assert (IJn : jincl Jn Jout) by (repeat split; simpl; apply incl_appr; apply incl_appr; apply incl_refl).
    pose proof (SO s1 ret st rb Jb en Eb Hst0) as Rb.
    destruct (exec P f en s1) as [r|xx|]; [| |exact I].
    + destruct r as [en1|en1 v|en1|en1|en1 v].
      * (* the body fell through: finally from the normal-exit frame *)
        destruct Rb as [[Hd1 Hc1] Hcv]. destruct (cur rb) as [f1|] eqn:Er1; [|contradiction].
        destruct (merge_sound en1 fr _ f1 Cmn (or_introl eq_refl) Hc1) as [mn [Emn Hmn]].
        rewrite Emn in En.
        pose proof (SO s2 ret _ st' Jn en1 En (conj (env_decl_ext _ _ _ Hd1 Xa) Hmn)) as Rn.
        cbn [env_of].
        eapply result_shift; [eapply covered_incl; [exact Hcv | exact IJb]|].
        destruct (exec P f en1 s2) as [[en2|en2 v|en2|en2|en2 v]|xx|]; cbn [obind set_env];
          try (eapply result_weaken; [exact Rn | auto | apply decl_ext_refl | exact IJn]); try exact Rn; exact I.
      * (* return inside the protected block *)
        destruct Rb as [Mv [Hd1 Hcv]].
        assert (Hma : exists maf, merge P fr (merge P fr (Some fr :: jump_opts (exc Jb)) :: Some fr :: jump_opts (exc Jb)) = Some maf
                                  /\ env_frame_ok P en1 maf).
        { destruct Hcv as [->|[f0 [Hi Hf0]]].
          - eapply merge_sound; [exact Cma | right; left; reflexivity | exact Hfr].
          - eapply merge_sound; [exact Cma | right; right; apply in_jump_opts; exact Hi | exact Hf0]. }
        destruct Hma as [maf [Ema Hmaf]]. rewrite Ema in Ea.
        pose proof (SO s2 ret _ ra Ja en1 Ea (conj Hd1 Hmaf)) as Ra. cbn [env_of].
        eapply finally_abrupt; [exact Mv | eapply covered_incl; [exact Hcv | exact IJb] | exact Ra | exact Xn | exact IJa].
      * destruct Rb as [_ [_ [fb [Hib _]]]]. rewrite Nb in Hib. destruct Hib.
      * destruct Rb as [_ [_ [fb [Hib _]]]]. rewrite Nc in Hib. destruct Hib.
      * (* an exception leaves the protected block *)
        destruct Rb as [Mv [Hd1 Hcv]].
        assert (Hma : exists maf, merge P fr (merge P fr (Some fr :: jump_opts (exc Jb)) :: Some fr :: jump_opts (exc Jb)) = Some maf
                                  /\ env_frame_ok P en1 maf).
        { destruct Hcv as [->|[f0 [Hi Hf0]]].
          - eapply merge_sound; [exact Cma | right; left; reflexivity | exact Hfr].
          - eapply merge_sound; [exact Cma | right; right; apply in_jump_opts; exact Hi | exact Hf0]. }
        destruct Hma as [maf [Ema Hmaf]]. rewrite Ema in Ea.
        pose proof (SO s2 ret _ ra Ja en1 Ea (conj Hd1 Hmaf)) as Ra. cbn [env_of].
        eapply finally_abrupt; [exact Mv | eapply covered_incl; [exact Hcv | exact IJb] | exact Ra | exact Xn | exact IJa].
    + destruct xx; simpl in Rb |- *; try discriminate; reflexivity.
  - (* SReturn *)
    destruct (infer P true (decl st) fr e) as [[te m]| |] eqn:Ei; simpl in Hc; try discriminate.
    destruct (is_subtype P te ret) eqn:Es; [|discriminate]. inversion Hc; subst. clear Hc.
    eapply slift_ok with (Q := fun v => mem P v te /\ maps_ok P en v m); [|exact Hd|].
    { pose proof (EO e _ _ _ _ en Ei Hd Hfr) as Re. destruct (eval P f en e); exact Re. }
    intros v [Mv _]. simpl. split; [eapply subtype_sound; eauto|]. split; [exact Hd | left; reflexivity].
  - (* SAssert *)
    destruct (infer P true (decl st) fr e) as [[te [im em]]| |] eqn:Ei; simpl in Hc; try discriminate.
    inversion Hc; subst. clear Hc.
    eapply slift_ok with (Q := fun v => mem P v te /\ maps_ok P en v (im, em)); [|exact Hd|].
    { pose proof (EO e _ _ _ _ en Ei Hd Hfr) as Re. destruct (eval P f en e); exact Re. }
    intros v [_ [RT _]]. destruct (truthy v) eqn:Tv; simpl; [|reflexivity].
    destruct (RT eq_refl) as [m1 [Em1 Mok1]]. simpl in Em1. subst im.
    split; [split; simpl; [exact Hd | apply push_ok; assumption] | left; reflexivity].
  - (* SPass *)
    inversion Hc; subst. apply normal_ok. exact Hst0.
  - (* SSeq *)
    destruct (check_stmt P true ret st s1) as [[st1 J1]| |] eqn:E1; simpl in Hc; try discriminate.
    destruct (check_stmt P true ret st1 s2) as [[st2 J2]| |] eqn:E2; simpl in Hc; try discriminate.
    inversion Hc; subst. clear Hc.
    assert (X2 : decl_ext (decl st1) (decl st')) by (apply check_decl_ext in E2; exact E2).
    pose proof (SO s1 ret st st1 J1 en E1 Hst0) as R1.
    destruct (exec P f en s1) as [[en1|en1 w|en1|en1|en1 w]|xx|]; cbn [obind].
    + destruct R1 as [H1 Hcv].
      eapply result_shift; [eapply covered_incl; [exact Hcv | apply jincl_l]|].
      eapply result_weaken; [exact (SO s2 ret st1 st' J2 en1 E2 H1) | auto | apply decl_ext_refl | apply jincl_r].
    + eapply result_weaken; [exact R1 | intros ? E; discriminate E | exact X2 | apply jincl_l].
    + eapply result_weaken; [exact R1 | intros ? E; discriminate E | exact X2 | apply jincl_l].
    + eapply result_weaken; [exact R1 | intros ? E; discriminate E | exact X2 | apply jincl_l].
    + eapply result_weaken; [exact R1 | intros ? E; discriminate E | exact X2 | apply jincl_l].
    + exact R1.
    + exact I.
  - (* SExpr *)
    destruct (infer P true (decl st) fr e) as [[te m]| |] eqn:Ei; simpl in Hc; try discriminate.
    inversion Hc; subst. clear Hc.
    eapply slift_ok with (Q := fun v => mem P v te /\ maps_ok P en v m); [|exact Hd|].
    { pose proof (EO e _ _ _ _ en Ei Hd Hfr) as Re. destruct (eval P f en e); exact Re. }
    intros v _. apply normal_ok. exact Hst0.
  - (* SLab *)
    apply with_label_ok in Hc. exact (SO s ret st st' J en Hc Hst0).
Qed.

Lemma body_from_stmt : forall f, stmt_ok_at P f -> body_ok_at P f.
Proof.
  intros f SO self fd en Hc Hd. unfold check_fun in Hc. apply with_label_ok in Hc.
  fold (params_of self fd) in Hc.
  destruct (negb _); [discriminate|].
  destruct (redecl_ok P _ (f_body fd)) as [bound|]; [|discriminate].
  destruct (negb _); [discriminate|].
  destruct (negb _); [discriminate|].
  destruct (negb _); [discriminate|].
  destruct (check_stmt P true (f_ret fd) _ (f_body fd)) as [[st' J]| |] eqn:Eb; cbn [bind fst] in Hc; try discriminate.
  pose proof (SO _ _ _ _ _ en Eb (conj Hd (frame_ok_nil en))) as R.
  unfold call_ok. destruct (exec P f en (f_body fd)) as [[en1|en1 w|en1|en1|en1 w]|x|]; simpl in *; try exact R; try reflexivity.
  - destruct R as [[_ Hc1] _]. destruct (cur st'); [|contradiction].
    destruct (f_ret fd); simpl in Hc; try discriminate. constructor.
  - destruct R as [Mv _]. exact Mv.
  - destruct R as [Mw _]. exact Mw.
Qed.

Theorem sound_all : forall f, sound_upto f.
Proof.
  induction f as [|f IH]; intros f' Hle.
  - assert (f' = 0) by lia. subst. split.
    + intros e d fr t m en _ _ _. exact I.
    + intros s ret st st' J en _ _. exact I.
  - destruct (Nat.eq_dec f' (S f)) as [->|Hn]; [|apply IH; lia].
    destruct (IH f (le_n f)) as [EO SO]. split.
    + apply expr_step; [exact Hpo | exact EO | apply body_from_stmt; exact SO].
    + apply stmt_step. exact IH.
Qed.

Theorem stmt_invariant_holds : forall f, stmt_ok_at P f.
Proof. intro f. exact (proj2 (sound_all f f (le_n f))). Qed.

Theorem expr_sound_holds : forall f, expr_ok_at P f.
Proof. intro f. exact (proj1 (sound_all f f (le_n f))). Qed.

Theorem call_sound : forall g fd vs fuel, lookup (p_funcs P) g = Some fd ->
  mems P vs (map snd (f_params fd)) -> call_ok P (f_ret fd) (call_fun P fuel g vs).
Proof.
  intros g fd vs fuel Hl Hm. unfold call_fun. rewrite Hl.
  rewrite (mems_length P _ _ Hm), map_length, Nat.eqb_refl.
  apply (body_from_stmt fuel (stmt_invariant_holds fuel) None fd).
  - exact (proj1 (proj2 (proj2 Hpo)) _ _ Hl).
  - apply bind_params_ok. exact Hm.
Qed.
End S4.
