(* Property C01.  Only statements closed by `exact`/one-line glue, each followed by Print Assumptions. *)
From Coq Require Import ZArith List Bool.
From C01 Require Import Lang Eval Check Sem Witness Statement Proofs1 Proofs2 Proofs3 Proofs4 Proofs5.
Import ListNotations.
Local Open Scope nat_scope.

(* ---- stage 1: the lattice operations of the checker model are sound for the denotation mem *)
Theorem subtype_sound : forall P, sub_trans P ->
  forall s t, is_subtype P s t = true -> forall v, mem P v s -> mem P v t.
Proof. exact Proofs1.subtype_sound. Qed.
Print Assumptions subtype_sound.

Theorem join_sound : forall P, sub_trans P ->
  forall s t v, (mem P v s \/ mem P v t) -> mem P v (mk_union P [s; t]).
Proof. exact Proofs1.join_sound. Qed.
Print Assumptions join_sound.

Theorem simplified_union_exact : forall P, sub_trans P -> forall ts v,
  (forall t, In t ts -> mem P v t -> mem P v (mk_union P ts)) /\
  (mem P v (mk_union P ts) -> exists t, In t ts /\ mem P v t).
Proof. intros P H ts v. split; [intros t; exact (Proofs1.mk_union_sound P H ts t v) | exact (Proofs1.mk_union_inv P ts v)]. Qed.
Print Assumptions simplified_union_exact.

Theorem narrow_none_sound : forall P, sub_trans P -> forall t v, mem P v t ->
  (v = VNone -> mem P v (none_part t)) /\ (v <> VNone -> mem P v (remove_none P t)).
Proof. exact Proofs1.narrow_none_sound. Qed.
Print Assumptions narrow_none_sound.

Theorem narrow_truthy_sound : forall P, sub_trans P -> forall t v, mem P v t ->
  (truthy v = true -> mem P v (true_only P t)) /\ (truthy v = false -> mem P v (false_only P t)).
Proof. exact Proofs1.narrow_truthy_sound. Qed.
Print Assumptions narrow_truthy_sound.

(* isinstance narrowing, both branches, for the certifying mode (refuses to drop a union item that shares
   a subclass with the tested class) ... *)
Theorem narrow_isinstance_sound_partial : forall P, sub_trans P -> forall t k yes no v,
  narrow_isinst P true t k = Ok (yes, no) -> mem P v t ->
  (isinst P v k = true -> mem P v yes) /\ (isinst P v k = false -> mem P v no).
Proof. exact Proofs1.narrow_isinstance_sound. Qed.
Print Assumptions narrow_isinstance_sound_partial.

(* the same for isinstance(x, (K1, ..., Kn)) *)
Theorem narrow_isinstance_tuple_sound_partial : forall P, sub_trans P -> forall t ks yes no v,
  narrow_isinst_l P true t ks = Ok (yes, no) -> mem P v t ->
  (existsb (isinst P v) ks = true -> mem P v yes) /\ (existsb (isinst P v) ks = false -> mem P v no).
Proof. exact Proofs1.narrow_isinstance_l_sound. Qed.
Print Assumptions narrow_isinstance_tuple_sound_partial.

(* ... because what mypy does (sm = false) is unsound under multiple inheritance *)
Theorem narrow_isinstance_refuted : ~ narrow_isinstance_sound_unrestricted.
Proof. exact Proofs3.narrow_isinst_refuted. Qed.
Print Assumptions narrow_isinstance_refuted.

(* ---- what the certifying checker establishes about the class table and the bodies *)
Theorem certified_establishes_prog_ok : forall P, check_prog_certified P = true -> prog_ok P.
Proof. exact Proofs5.certified_prog_ok. Qed.
Print Assumptions certified_establishes_prog_ok.

(* ---- stage 2: every expression (calls, method calls and construction included) *)
Theorem expr_sound : Statement.expr_sound.
Proof. intros P H fuel. exact (Proofs4.expr_sound_holds P (Proofs5.certified_prog_ok P H) fuel). Qed.
Print Assumptions expr_sound.

(* ---- stage 3: the binder-environment invariant through every statement form *)
Theorem stmt_invariant : Statement.stmt_invariant.
Proof. intros P H fuel. exact (Proofs4.stmt_invariant_holds P (Proofs5.certified_prog_ok P H) fuel). Qed.
Print Assumptions stmt_invariant.

(* a statement after which the checker holds control unreachable never completes normally:
   code the checker skipped as unreachable is never executed *)
Theorem unreachable_never_reached : forall P, check_prog_certified P = true ->
  forall s ret st st' J en fuel en', check_stmt P true ret st s = Ok (st', J) -> cur st' = None -> env_ok P en st ->
    exec P fuel en s <> Val (Normal en').
Proof.
  intros P H s ret st st' J en fuel en' Hc Hn He Hx.
  pose proof (Proofs4.stmt_invariant_holds P (Proofs5.certified_prog_ok P H) fuel s ret st st' J en Hc He) as R.
  rewrite Hx in R. simpl in R. destruct R as [[_ R] _]. rewrite Hn in R. exact R.
Qed.
Print Assumptions unreachable_never_reached.

Theorem certified_programs_do_not_go_wrong : Statement.certified_programs_do_not_go_wrong.
Proof. intros P H g fd vs fuel. exact (Proofs4.call_sound P (Proofs5.certified_prog_ok P H) g fd vs fuel). Qed.
Print Assumptions certified_programs_do_not_go_wrong.

(* ---- mypy's own verdict: the full statement is REFUTED by the faithful model; both witnesses are replayed
   on real mypy + CPython by the harness (known findings accept_loop-iteration-cap and
   isinstance-union-item-dropped-despite-common-subclass); neither witness is certified *)
Theorem accepted_programs_do_not_go_wrong_refuted : ~ accepted_programs_do_not_go_wrong.
Proof. exact Proofs3.statement_refuted. Qed.
Print Assumptions accepted_programs_do_not_go_wrong_refuted.

Theorem refuted_by_loop_iteration_cap : exists P g fd vs fuel, check_prog P = true /\ check_prog_certified P = false /\
  lookup (p_funcs P) g = Some fd /\ mems P vs (map snd (f_params fd)) /\ call_fun P fuel g vs = Exn TypeError.
Proof. exact Proofs3.loop_cap_refutes. Qed.
Print Assumptions refuted_by_loop_iteration_cap.

Theorem refuted_by_isinstance_on_union : exists P g fd vs fuel, check_prog P = true /\ check_prog_certified P = false /\
  lookup (p_funcs P) g = Some fd /\ mems P vs (map snd (f_params fd)) /\ call_fun P fuel g vs = Exn AttributeError.
Proof. exact Proofs3.mi_refutes. Qed.
Print Assumptions refuted_by_isinstance_on_union.

(* `break` (or `continue`) out of a try block skips, in mypy's binder, the assignments of its finally block *)
Theorem refuted_by_break_through_finally : exists P g fd vs fuel, check_prog P = true /\ check_prog_certified P = false /\
  lookup (p_funcs P) g = Some fd /\ mems P vs (map snd (f_params fd)) /\ call_fun P fuel g vs = Exn TypeError.
Proof. exact Proofs3.break_finally_refutes. Qed.
Print Assumptions refuted_by_break_through_finally.

(* ---- non-vacuity *)
Example certified_example : check_prog_certified narrow_join_prog = true.
Proof. vm_compute. reflexivity. Qed.
Example certified_run_example : call_fun narrow_join_prog 400 1 [VNone] = Val (VInt 4%Z).
Proof. vm_compute. reflexivity. Qed.
Example certified_loop_class_example :
  check_prog_certified loop_class_prog = true /\ call_fun loop_class_prog 400 1 [VNone] = Val (VInt 1%Z).
Proof. split; vm_compute; reflexivity. Qed.
Example certified_for_str_tuple_example :
  check_prog_certified for_str_tuple_prog = true /\ call_fun for_str_tuple_prog 400 1 [VStr [97; 98]] = Val (VInt 3%Z).
Proof. split; vm_compute; reflexivity. Qed.
Example sub_trans_example : sub_trans mi_prog.
Proof. exact Proofs3.mi_sub_trans. Qed.
Example expr_example :
  infer narrow_join_prog true [(1, TUnion [TInt; TNone])] [] (EOr (EVar 1) (EInt 3%Z)) = Ok (TInt, (Some [], None)).
Proof. vm_compute. reflexivity. Qed.
Example narrow_tuple_example :
  narrow_isinst_l mi_prog true (TUnion [TInst 2; TInt; TNone]) [CUser 3; CBool] = Ok (TUnion [TInst 3; TBool], TUnion [TInst 2; TInt; TNone]).
Proof. vm_compute. reflexivity. Qed.
Example narrow_example :
  narrow_isinst mi_prog true (TUnion [TInst 2; TNone]) (CUser 3) = Ok (TInst 3, TUnion [TInst 2; TNone]).
Proof. vm_compute. reflexivity. Qed.
