(* Property C01 (partial).  Only statements closed by `exact`, each followed by Print Assumptions. *)
From Coq Require Import ZArith List Bool.
From C01 Require Import Lang Eval Check Sem Witness Statement Proofs1 Proofs2 Proofs3.
Import ListNotations.
Local Open Scope nat_scope.

(* ---- stage 1: the lattice operations of the checker model are sound for the denotation mem *)
Theorem subtype_sound : forall P, sub_trans P ->
  forall s t, is_subtype P s t = true -> forall v, mem P v s -> mem P v t.
Proof. exact Proofs1.subtype_sound. Qed.
Print Assumptions subtype_sound.

Theorem join_sound : forall P, sub_trans P ->
  forall s t v, (mem P v s \/ mem P v t) -> mem P v (mk_union P [s; t]).
Proof. exact Proofs1.join_sound. Qed.
Print Assumptions join_sound.

Theorem simplified_union_exact : forall P, sub_trans P -> forall ts v,
  (forall t, In t ts -> mem P v t -> mem P v (mk_union P ts)) /\
  (mem P v (mk_union P ts) -> exists t, In t ts /\ mem P v t).
Proof. intros P H ts v. split; [intros t; exact (Proofs1.mk_union_sound P H ts t v) | exact (Proofs1.mk_union_inv P ts v)]. Qed.
Print Assumptions simplified_union_exact.

Theorem narrow_none_sound : forall P, sub_trans P -> forall t v, mem P v t ->
  (v = VNone -> mem P v (none_part t)) /\ (v <> VNone -> mem P v (remove_none P t)).
Proof. exact Proofs1.narrow_none_sound. Qed.
Print Assumptions narrow_none_sound.

Theorem narrow_truthy_sound : forall P, sub_trans P -> forall t v, mem P v t ->
  (truthy v = true -> mem P v (true_only P t)) /\ (truthy v = false -> mem P v (false_only P t)).
Proof. exact Proofs1.narrow_truthy_sound. Qed.
Print Assumptions narrow_truthy_sound.

(* isinstance narrowing, both branches -- for the certifying mode (sm = true), which refuses to drop a
   union item that shares a subclass with the tested class ... *)
Theorem narrow_isinstance_sound_partial : forall P, sub_trans P -> forall t k yes no v,
  narrow_isinst P true t k = Ok (yes, no) -> mem P v t ->
  (isinst P v k = true -> mem P v yes) /\ (isinst P v k = false -> mem P v no).
Proof. exact Proofs1.narrow_isinstance_sound. Qed.
Print Assumptions narrow_isinstance_sound_partial.

(* ... because what mypy does (sm = false) is unsound under multiple inheritance *)
Theorem narrow_isinstance_refuted : ~ narrow_isinstance_sound_unrestricted.
Proof. exact Proofs3.narrow_isinst_refuted. Qed.
Print Assumptions narrow_isinstance_refuted.

(* ---- stage 2 (partial: call-free expressions; Statement.expr_sound is the full form) *)
Theorem expr_sound_partial : forall P, class_table_ok P ->
  forall fuel e d fr t m en, call_free e = true -> infer P true d fr e = Ok (t, m) ->
    env_decl_ok P en d -> env_frame_ok P en fr -> expr_result_ok P en t m (eval P fuel en e).
Proof. exact Proofs2.expr_sound_cf. Qed.
Print Assumptions expr_sound_partial.

(* ---- stage 3: the full statement is REFUTED by the faithful model; both witnesses are replayed on real
   mypy + CPython by the harness (known findings accept_loop-iteration-cap and
   isinstance-union-item-dropped-despite-common-subclass) *)
Theorem accepted_programs_do_not_go_wrong_refuted : ~ accepted_programs_do_not_go_wrong.
Proof. exact Proofs3.statement_refuted. Qed.
Print Assumptions accepted_programs_do_not_go_wrong_refuted.

Theorem refuted_by_loop_iteration_cap : exists P g fd vs fuel, check_prog P = true /\ check_prog_certified P = false /\
  lookup (p_funcs P) g = Some fd /\ mems P vs (map snd (f_params fd)) /\ call_fun P fuel g vs = Exn TypeError.
Proof. exact Proofs3.loop_cap_refutes. Qed.
Print Assumptions refuted_by_loop_iteration_cap.

Theorem refuted_by_isinstance_on_union : exists P g fd vs fuel, check_prog P = true /\ check_prog_certified P = false /\
  lookup (p_funcs P) g = Some fd /\ mems P vs (map snd (f_params fd)) /\ call_fun P fuel g vs = Exn AttributeError.
Proof. exact Proofs3.mi_refutes. Qed.
Print Assumptions refuted_by_isinstance_on_union.

(* ---- non-vacuity *)
Example class_table_ok_example : class_table_ok narrow_join_prog.
Proof. apply Proofs3.no_classes_ok. reflexivity. Qed.
Example sub_trans_example : sub_trans mi_prog.
Proof. exact Proofs3.mi_sub_trans. Qed.
Example expr_example :
  infer narrow_join_prog true [(1, TUnion [TInt; TNone])] [] (EOr (EVar 1) (EInt 3%Z)) = Ok (TInt, (Some [], None))
  /\ call_free (EOr (EVar 1) (EInt 3%Z)) = true.
Proof. split; vm_compute; reflexivity. Qed.
Example narrow_example :
  narrow_isinst mi_prog true (TUnion [TInst 2; TNone]) (CUser 3) = Ok (TInst 3, TUnion [TInst 2; TNone]).
Proof. vm_compute. reflexivity. Qed.
Example certified_example : check_prog_certified narrow_join_prog = true.
Proof. vm_compute. reflexivity. Qed.
