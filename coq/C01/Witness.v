(* generated once by a scratch script from tools/harness/C01.py corpus(); see notes/C01.md *)
From Coq Require Import ZArith List Bool.
From C01 Require Import Lang.
Import ListNotations.
Definition SWhile0 (c : expr) (b : stmt) : stmt := SWhile c b SPass.

Definition loop_cap_prog : prog :=
  {| p_classes := [];
   p_funcs := [(1, {| f_params := [(1, TInt)]; f_ret := TInt; f_body :=
      (SSeq (SDecl 2 (TUnion [TInt; TNone]) ENone)
      (SSeq (SDecl 3 (TUnion [TInt; TNone]) ENone)
      (SSeq (SDecl 4 (TUnion [TInt; TNone]) ENone)
      (SSeq (SDecl 5 (TUnion [TInt; TNone]) ENone)
      (SSeq (SDecl 6 (TUnion [TInt; TNone]) ENone)
      (SSeq (SDecl 7 (TUnion [TInt; TNone]) ENone)
      (SSeq (SAssign 2 ENone)
      (SSeq (SAssign 3 ENone)
      (SSeq (SAssign 4 ENone)
      (SSeq (SAssign 5 ENone)
      (SSeq (SAssign 6 ENone)
      (SSeq (SAssign 7 ENone)
      (SSeq (SDecl 8 TInt (EInt (0)%Z))
      (SSeq (SWhile0 (EBin BLt (EVar 8) (EVar 1)) (SSeq (SAssign 8 (EBin BAdd (EVar 8) (EInt (1)%Z)))
      (SSeq (SAssign 7 (EVar 6))
      (SSeq (SAssign 6 (EVar 5))
      (SSeq (SAssign 5 (EVar 4))
      (SSeq (SAssign 4 (EVar 3))
      (SSeq (SAssign 3 (EVar 2))
      (SAssign 2 (EInt (1)%Z)))))))))
      (SSeq (SExpr (EReveal 0 (EVar 7)))
      (SSeq (SIf (EIsNotNone (EVar 7)) (SReturn (EBin BAdd (EVar 7) (EStr [120]))) SPass)
      (SReturn (EInt (0)%Z)))))))))))))))))); f_line := 0 |})] |}.

Definition loop_cap_attr_prog : prog :=
  {| p_classes := [(1, {| c_mro := [1]; c_fields := [(1, TInt)]; c_methods := []; c_line := 0 |}); (2, {| c_mro := [2]; c_fields := []; c_methods := []; c_line := 0 |})];
   p_funcs := [(1, {| f_params := [(1, TInt)]; f_ret := TInt; f_body :=
      (SSeq (SDecl 2 (TUnion [(TInst 1); (TInst 2)]) (ENew 1 [(EInt (5)%Z)]))
      (SSeq (SDecl 3 (TUnion [(TInst 1); (TInst 2)]) (ENew 1 [(EInt (5)%Z)]))
      (SSeq (SDecl 4 (TUnion [(TInst 1); (TInst 2)]) (ENew 1 [(EInt (5)%Z)]))
      (SSeq (SDecl 5 (TUnion [(TInst 1); (TInst 2)]) (ENew 1 [(EInt (5)%Z)]))
      (SSeq (SDecl 6 (TUnion [(TInst 1); (TInst 2)]) (ENew 1 [(EInt (5)%Z)]))
      (SSeq (SDecl 7 (TUnion [(TInst 1); (TInst 2)]) (ENew 1 [(EInt (5)%Z)]))
      (SSeq (SAssign 2 (ENew 1 [(EInt (5)%Z)]))
      (SSeq (SAssign 3 (ENew 1 [(EInt (5)%Z)]))
      (SSeq (SAssign 4 (ENew 1 [(EInt (5)%Z)]))
      (SSeq (SAssign 5 (ENew 1 [(EInt (5)%Z)]))
      (SSeq (SAssign 6 (ENew 1 [(EInt (5)%Z)]))
      (SSeq (SAssign 7 (ENew 1 [(EInt (5)%Z)]))
      (SSeq (SDecl 8 TInt (EInt (0)%Z))
      (SSeq (SWhile0 (EBin BLt (EVar 8) (EVar 1)) (SSeq (SAssign 8 (EBin BAdd (EVar 8) (EInt (1)%Z)))
      (SSeq (SAssign 7 (EVar 6))
      (SSeq (SAssign 6 (EVar 5))
      (SSeq (SAssign 5 (EVar 4))
      (SSeq (SAssign 4 (EVar 3))
      (SSeq (SAssign 3 (EVar 2))
      (SAssign 2 (ENew 2 [])))))))))
      (SSeq (SExpr (EReveal 0 (EVar 7)))
      (SReturn (EAttr (EVar 7) 1))))))))))))))))); f_line := 0 |})] |}.

Definition mi_prog : prog :=
  {| p_classes := [(1, {| c_mro := [1]; c_fields := []; c_methods := []; c_line := 0 |}); (2, {| c_mro := [2]; c_fields := []; c_methods := []; c_line := 0 |}); (3, {| c_mro := [3; 2]; c_fields := [(1, TInt)]; c_methods := []; c_line := 0 |}); (4, {| c_mro := [4; 1; 2]; c_fields := []; c_methods := []; c_line := 0 |})];
   p_funcs := [(1, {| f_params := [(1, (TUnion [(TInst 1); (TInst 3)]))]; f_ret := TInt; f_body :=
      (SSeq (SIf (EIsInst (EVar 1) (CUser 2)) (SSeq (SExpr (EReveal 0 (EVar 1)))
      (SReturn (EAttr (EVar 1) 1))) SPass)
      (SReturn (EInt (0)%Z))); f_line := 0 |})] |}.

Definition mi_arg : value := (VObj 4 []).

Definition narrow_join_prog : prog :=
  {| p_classes := [];
   p_funcs := [(1, {| f_params := [(1, (TUnion [TInt; TNone]))]; f_ret := TInt; f_body :=
      (SSeq (SIf (EIsNone (EVar 1)) (SSeq (SAssign 1 (EInt (1)%Z))
      (SExpr (EReveal 0 (EVar 1)))) (SExpr (EReveal 0 (EVar 1))))
      (SSeq (SExpr (EReveal 0 (EVar 1)))
      (SSeq (SDecl 2 (TUnion [TInt; TStr]) (EStr [97]))
      (SSeq (SIf (EIsInst (EVar 2) CStr) (SAssign 2 (EInt (3)%Z)) (SAssign 2 (EStr [113])))
      (SSeq (SExpr (EReveal 0 (EVar 2)))
      (SSeq (SIf (EIsInst (EVar 2) CInt) (SReturn (EBin BAdd (EVar 2) (EVar 1))) SPass)
      (SSeq (SExpr (EReveal 0 (EVar 2)))
      (SReturn (EInt (0)%Z))))))))); f_line := 0 |})] |}.


(* hand-written: a class with a method, a constructor + method call, and a while loop with narrowing *)
Definition loop_class_prog : prog :=
  {| p_classes := [(1, {| c_mro := [1]; c_fields := [(1, TInt)];
                          c_methods := [(1, {| f_params := []; f_ret := TInt;
                                               f_body := SReturn (EAttr (EVar 0) 1); f_line := 0 |})];
                          c_line := 0 |})];
     p_funcs := [(1, {| f_params := [(1, TUnion [TInt; TNone])]; f_ret := TInt; f_body :=
        SSeq (SDecl 2 TInt (EInt 0%Z))
       (SSeq (SWhile0 (EBin BLt (EVar 2) (EInt 3%Z))
                (SSeq (SAssign 2 (EBin BAdd (EVar 2) (EInt 1%Z)))
                      (SIf (EIsNone (EVar 1)) (SAssign 1 (ECallM (ENew 1 [EVar 2]) 1 [])) SPass)))
             (SReturn (ECond (EIsNone (EVar 1)) (EInt 0%Z) (EVar 1))));
        f_line := 0 |})] |}.

(* hand-written: `break` inside a try whose finally block re-assigns the narrowed local *)
Definition break_finally_prog : prog :=
  {| p_classes := [];
     p_funcs := [(1, {| f_params := [(1, TInt)]; f_ret := TInt; f_body :=
        SSeq (SDecl 2 (TUnion [TInt; TNone]) ENone)
       (SSeq (SAssign 2 (EInt 1%Z))
       (SSeq (SWhile (EBin BLt (EVar 1) (EInt 3%Z))
                (SSeq (SAssign 1 (EBin BAdd (EVar 1) (EInt 1%Z)))
                      (SFinally SBreak (SAssign 2 ENone)))
                SPass)
             (SReturn (EBin BAdd (EVar 2) (EInt 1%Z)))));
        f_line := 0 |})] |}.

(* hand-written: for over a str and over a heterogeneous tuple, with break and else *)
Definition for_str_tuple_prog : prog :=
  {| p_classes := [];
     p_funcs := [(1, {| f_params := [(1, TStr)]; f_ret := TInt; f_body :=
        SSeq (SDecl 2 TInt (EInt 0%Z))
       (SSeq (SFor 3 false (EVar 1) (SAssign 2 (EBin BAdd (EVar 2) (EInt 1%Z))) SPass)
       (SSeq (SFor 4 false (ETuple [EInt 1%Z; EStr [115]; EBool true])
                (SIf (EIsInst (EVar 4) CStr) SBreak (SAssign 2 (EBin BAdd (EVar 2) (EVar 4))))
                (SAssign 2 (EInt (-1)%Z)))
             (SReturn (EVar 2))));
        f_line := 0 |})] |}.
