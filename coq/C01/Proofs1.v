(* C01 stage 1: soundness of subtyping, simplified unions and the narrowing primitives. *)
From Coq Require Import ZArith List Bool Arith Lia.
From C01 Require Import Lang Eval Check Sem.
Import ListNotations.

Section S1.
Variable P : prog.
Hypothesis Htrans : sub_trans P.

Lemma mem_union_inv : forall v ts, mem P v (TUnion ts) -> exists t, In t ts /\ mem P v t.
Proof. intros v ts H. inversion H; subst. eauto. Qed.

Lemma sub_sound : forall n s t, sub P n s t = true -> forall v, mem P v s -> mem P v t.
Proof.
  induction n as [|n IH]; intros s t H v Hv; [discriminate|].
  simpl in H.
  assert (UR : forall s0 ts, existsb (fun t' => sub P n s0 t') ts = true -> mem P v s0 -> mem P v (TUnion ts)).
  { intros s0 ts E Hs. apply existsb_exists in E. destruct E as [t' [Hin Ht']].
    eapply M_union; [exact Hin | eapply IH; eauto]. }
  destruct s as [| | | |c|ss|ss].
  - destruct t; try discriminate; [exact Hv | eapply UR; eauto].
  - destruct t; try discriminate; [inversion Hv; subst; constructor | exact Hv | eapply UR; eauto].
  - destruct t; try discriminate; [exact Hv | eapply UR; eauto].
  - destruct t; try discriminate; [exact Hv | eapply UR; eauto].
  - destruct t; try discriminate; [| eapply UR; eauto].
    inversion Hv; subst. econstructor; [eapply Htrans; eauto | eauto | eauto].
  - apply mem_union_inv in Hv. destruct Hv as [s0 [Hin Hs0]].
    rewrite forallb_forall in H. eapply IH; [apply H; exact Hin | exact Hs0].
  - destruct t as [| | | | |ts|ts]; try discriminate; [eapply UR; eauto|].
    inversion Hv as [ | | | | | |vs0 ts0 Hms| ]; subst. constructor.
    clear Hv UR. revert ts H vs0 Hms.
    induction ss as [|s0 ss IHs]; intros ts H vs Hm; destruct ts as [|t0 ts]; simpl in H; try discriminate.
    + inversion Hm; subst; constructor.
    + apply andb_prop in H. destruct H as [H0 H1]. inversion Hm; subst.
      constructor; [eapply IH; eauto | eapply IHs; eauto].
Qed.

Theorem subtype_sound : forall s t, is_subtype P s t = true -> forall v, mem P v s -> mem P v t.
Proof. intros s t H. eapply sub_sound; exact H. Qed.

(* ---- simplified unions *)
Lemma simplify_go_sound : forall rest acc t v, In t (acc ++ rest) -> mem P v t ->
  exists u, In u (simplify_go P acc rest) /\ mem P v u.
Proof.
  induction rest as [|r rest IH]; intros acc t v Hin Hv; simpl.
  - rewrite app_nil_r in Hin. eauto.
  - destruct (existsb (fun u => is_subtype P r u) acc
              || existsb (fun u => is_subtype P r u && negb (is_subtype P u r)) rest) eqn:E.
    + apply in_app_or in Hin. destruct Hin as [Hin|[Heq|Hin]].
      * eapply IH; [apply in_or_app; left; exact Hin | exact Hv].
      * subst r. apply orb_prop in E. destruct E as [E|E]; apply existsb_exists in E; destruct E as [u [Hu Hs]].
        -- eapply IH; [apply in_or_app; left; exact Hu | eapply subtype_sound; eauto].
        -- apply andb_prop in Hs. destruct Hs as [Hs _].
           eapply IH; [apply in_or_app; right; exact Hu | eapply subtype_sound; eauto].
      * eapply IH; [apply in_or_app; right; exact Hin | exact Hv].
    + eapply IH; [|exact Hv]. rewrite <- app_assoc. simpl. exact Hin.
Qed.

Lemma simplify_go_sub : forall rest acc u, In u (simplify_go P acc rest) -> In u (acc ++ rest).
Proof.
  induction rest as [|r rest IH]; intros acc u H; simpl in H.
  - rewrite app_nil_r. exact H.
  - destruct (existsb (fun u => is_subtype P r u) acc
              || existsb (fun u => is_subtype P r u && negb (is_subtype P u r)) rest).
    + apply IH in H. apply in_app_or in H. apply in_or_app. destruct H; [left|right; right]; assumption.
    + apply IH in H. rewrite <- app_assoc in H. exact H.
Qed.

Lemma mem_items : forall v t, mem P v t -> exists i, In i (items t) /\ mem P v i.
Proof.
  intros v t H. destruct t; simpl; try (eexists; split; [left; reflexivity | exact H]).
  apply mem_union_inv in H. exact H.
Qed.

Lemma items_mem : forall v t i, In i (items t) -> mem P v i -> mem P v t.
Proof.
  intros v t i Hin H. destruct t; simpl in Hin; try (destruct Hin as [<-|[]]; exact H).
  econstructor; eauto.
Qed.

Definition of_list (l : list ty) : ty := match l with [t] => t | l' => TUnion l' end.

Lemma mk_union_eq : forall ts, mk_union P ts = of_list (simplify_go P [] (flatten ts)).
Proof. intros. unfold mk_union, of_list. destruct (simplify_go P [] (flatten ts)) as [|a [|b l]]; reflexivity. Qed.

Lemma of_list_mem : forall v l u, In u l -> mem P v u -> mem P v (of_list l).
Proof.
  intros v l u Hin H. destruct l as [|a [|b l]].
  - destruct Hin.
  - destruct Hin as [<-|[]]. exact H.
  - econstructor; eauto.
Qed.

Lemma of_list_inv : forall v l, mem P v (of_list l) ->
  exists u, In u l /\ mem P v u.
Proof.
  intros v l H. destruct l as [|a [|b l]].
  - apply mem_union_inv in H. exact H.
  - exists a. split; [left; reflexivity | exact H].
  - apply mem_union_inv in H. exact H.
Qed.

(* mk_union is an upper bound of its arguments ... *)
Theorem mk_union_sound : forall ts t v, In t ts -> mem P v t -> mem P v (mk_union P ts).
Proof.
  intros ts t v Hin Hv. rewrite mk_union_eq.
  destruct (mem_items _ _ Hv) as [i [Hi Hvi]].
  assert (Hfl : In i ([] ++ flatten ts)).
  { simpl. unfold flatten. apply in_flat_map. eauto. }
  destruct (simplify_go_sound _ _ _ _ Hfl Hvi) as [u [Hu Hvu]].
  eapply of_list_mem; eauto.
Qed.

(* ... and contains nothing else *)
Theorem mk_union_inv : forall ts v, mem P v (mk_union P ts) -> exists t, In t ts /\ mem P v t.
Proof.
  intros ts v H. rewrite mk_union_eq in H. apply of_list_inv in H. destruct H as [u [Hu Hv]].
  apply simplify_go_sub in Hu. simpl in Hu. unfold flatten in Hu. apply in_flat_map in Hu.
  destruct Hu as [t [Ht Hi]]. exists t. split; [exact Ht | eapply items_mem; eauto].
Qed.

Theorem join_sound : forall s t v, (mem P v s \/ mem P v t) -> mem P v (mk_union P [s; t]).
Proof.
  intros s t v [H|H]; eapply mk_union_sound; try exact H; simpl; auto.
Qed.

(* ---- filters of union items (true_only, false_only, remove_none) *)
Lemma filter_union_sound : forall (f : ty -> bool) t v,
  mem P v t -> (forall i, In i (items t) -> mem P v i -> f i = true) ->
  mem P v (mk_union P (filter f (items t))).
Proof.
  intros f t v H Hf. destruct (mem_items _ _ H) as [i [Hi Hvi]].
  eapply mk_union_sound; [|exact Hvi]. apply filter_In. split; [exact Hi | apply Hf; assumption].
Qed.

Lemma filter_union_dec : forall (f : ty -> bool) t v,
  mem P v (mk_union P (filter f (items t))) -> mem P v t.
Proof.
  intros f t v H. apply mk_union_inv in H. destruct H as [i [Hi Hv]].
  apply filter_In in Hi. destruct Hi as [Hi _]. eapply items_mem; eauto.
Qed.

Lemma truthy_can_true : forall v i, mem P v i -> truthy v = true -> can_true i = true.
Proof.
  intros v i H Ht. destruct i as [| | | |c|ts|ts]; try reflexivity.
  - inversion H; subst. discriminate.
  - destruct ts; [apply mem_union_inv in H; destruct H as [? [[] _]] | reflexivity].
  - destruct ts; [|reflexivity]. inversion H as [ | | | | | |vs0 ts0 Hms| ]; subst. inversion Hms; subst. discriminate.
Qed.

Lemma falsy_can_false : forall v i, mem P v i -> truthy v = false -> can_false i = true.
Proof.
  intros v i H Ht. destruct i as [| | | |c|ts|ts]; try reflexivity.
  - destruct ts; [apply mem_union_inv in H; destruct H as [? [[] _]] | reflexivity].
  - destruct ts; [reflexivity|]. inversion H as [ | | | | | |vs0 ts0 Hms| ]; subst. inversion Hms; subst. discriminate.
Qed.

Theorem narrow_truthy_sound : forall t v, mem P v t ->
  (truthy v = true -> mem P v (true_only P t)) /\ (truthy v = false -> mem P v (false_only P t)).
Proof.
  intros t v H. split; intro Ht; apply filter_union_sound; auto; intros i _ Hi.
  - eapply truthy_can_true; eauto.
  - eapply falsy_can_false; eauto.
Qed.

Lemma has_none_complete : forall v t, mem P v t -> v = VNone -> has_none t = true.
Proof.
  intros v t H. induction H; intro E; try discriminate; try reflexivity.
  simpl. specialize (IHmem E). clear - H IHmem.
  induction ts as [|a r IH]; [destruct H|]. destruct H as [->|H].
  - rewrite IHmem. reflexivity.
  - rewrite (IH H). apply orb_true_r.
Qed.

Theorem narrow_none_sound : forall t v, mem P v t ->
  (v = VNone -> mem P v (none_part t)) /\ (v <> VNone -> mem P v (remove_none P t)).
Proof.
  intros t v H. split; intro Hn.
  - unfold none_part. rewrite (has_none_complete _ _ H Hn). subst v. constructor.
  - apply filter_union_sound; auto. intros i _ Hi. destruct i; try reflexivity.
    inversion Hi; subst. congruence.
Qed.

Lemma none_part_dec : forall t v, mem P v (none_part t) -> v = VNone.
Proof.
  intros t v H. unfold none_part in H. destruct (has_none t).
  - inversion H; reflexivity.
  - apply mem_union_inv in H. destruct H as [? [[] _]].
Qed.

(* ---- isinstance *)
Lemma obj_wf : forall v t, mem P v t -> forall d fs, v = VObj d fs ->
  exists fds, fields_of P d = Some fds /\ memf P fs fds.
Proof.
  intros v t H. induction H; intros d0 fs0 E; try discriminate; eauto.
  inversion E; subst. eauto.
Qed.

Lemma isinst_mem : forall v k t, mem P v t -> isinst P v k = true -> mem P v (ty_of_cref k).
Proof.
  intros v k t H Hi. destruct k; destruct v; simpl in Hi; try discriminate; try constructor.
  destruct (obj_wf _ _ H _ _ eq_refl) as [fds [Hf Hm]]. econstructor; eauto.
Qed.

Lemma mem_isinst : forall v k, mem P v (ty_of_cref k) -> isinst P v k = true.
Proof.
  intros v k H. destruct k; simpl in H; inversion H; subst; simpl; auto.
Qed.

Lemma disjoint_sound : forall i K v k, K = ty_of_cref k -> disjoint P i K = true ->
  mem P v i -> isinst P v k = true -> False.
Proof.
  intros i K v k -> Hd Hv Hi.
  destruct i as [| | | |a|ts|ts]; destruct k as [| | |b]; cbn in Hd; try discriminate;
    inversion Hv; subst; simpl in Hi; try discriminate.
  rewrite forallb_forall in Hd.
  match goal with Hf : fields_of P d = Some _ |- _ => unfold fields_of, class_of in Hf;
    destruct (lookup (p_classes P) d) as [cd|] eqn:El; [|discriminate] end.
  assert (Hin : In (d, cd) (p_classes P)).
  { clear - El. induction (p_classes P) as [|[y a0] r IH]; [discriminate|]. simpl in El.
    destruct (Nat.eqb d y) eqn:E; [apply Nat.eqb_eq in E; subst; inversion El; subst; left; reflexivity
                                  | right; auto]. }
  specialize (Hd _ Hin). simpl in Hd.
  match goal with Ha : subclass P d a = true |- _ => rewrite Ha, Hi in Hd end. discriminate.
Qed.

Theorem narrow_isinstance_sound : forall t k yes no v,
  narrow_isinst P true t k = Ok (yes, no) -> mem P v t ->
  (isinst P v k = true -> mem P v yes) /\ (isinst P v k = false -> mem P v no).
Proof.
  intros t k yes no v H Hv. unfold narrow_isinst in H. simpl in H.
  destruct (forallb (fun i => is_subtype P i (ty_of_cref k) || is_subtype P (ty_of_cref k) i
                              || disjoint P i (ty_of_cref k)) (items t)) eqn:Hall; [|discriminate].
  simpl in H. rewrite forallb_forall in Hall.
  destruct (mem_items _ _ Hv) as [i [Hi Hvi]]. specialize (Hall _ Hi).
  assert (Y : isinst P v k = true -> mem P v (mk_union P (flat_map (yes_item P (ty_of_cref k)) (items t)))).
  { intro Ht. unfold yes_item.
    destruct (is_subtype P i (ty_of_cref k)) eqn:E1.
    - eapply mk_union_sound; [|exact Hvi]. apply in_flat_map. exists i. split; [exact Hi|].
      unfold yes_item. rewrite E1. left; reflexivity.
    - destruct (is_subtype P (ty_of_cref k) i) eqn:E2.
      + eapply mk_union_sound; [|eapply isinst_mem; eauto]. apply in_flat_map. exists i. split; [exact Hi|].
        unfold yes_item. rewrite E1, E2. left; reflexivity.
      + simpl in Hall. exfalso. eapply disjoint_sound; eauto. }
  assert (N : isinst P v k = false -> mem P v (mk_union P (flat_map (no_item P (ty_of_cref k)) (items t)))).
  { intro Hf. destruct (is_subtype P i (ty_of_cref k)) eqn:E1.
    - pose proof (subtype_sound _ _ E1 _ Hvi) as Hk. apply mem_isinst in Hk. congruence.
    - eapply mk_union_sound; [|exact Hvi]. apply in_flat_map. exists i. split; [exact Hi|].
      unfold no_item. rewrite E1. left; reflexivity. }
  destruct (is_never (mk_union P (flat_map (yes_item P (ty_of_cref k)) (items t)))) eqn:En.
  - assert (Hno : isinst P v k = true -> False).
    { intro Ht. specialize (Y Ht). destruct (mk_union P _) as [| | | | |[|]|]; try discriminate.
      apply mem_union_inv in Y. destruct Y as [? [[] _]]. }
    destruct (forallb instance_like (items t) && negb (is_never t)); [discriminate|].
    inversion H; subst. split; intro Hx; [exfalso; auto | exact Hv].
  - inversion H; subst. split; assumption.
Qed.

Theorem narrow_isinstance_l_sound : forall t ks yes no v,
  narrow_isinst_l P true t ks = Ok (yes, no) -> mem P v t ->
  (existsb (isinst P v) ks = true -> mem P v yes) /\ (existsb (isinst P v) ks = false -> mem P v no).
Proof.
  intros t ks yes no v H Hv. unfold narrow_isinst_l in H. simpl in H.
  set (Ks := map ty_of_cref ks) in *.
  match type of H with (if negb ?c then _ else _) = _ => destruct c eqn:Hall end; [|discriminate].
  simpl in H. rewrite forallb_forall in Hall.
  destruct (mem_items _ _ Hv) as [i [Hi Hvi]]. specialize (Hall _ Hi).
  assert (Y : existsb (isinst P v) ks = true -> mem P v (mk_union P (flat_map (yes_item_l P Ks) (items t)))).
  { intro Ht. apply existsb_exists in Ht. destruct Ht as [k [Hk Hik]].
    destruct (existsb (fun K => is_subtype P i K) Ks) eqn:E1.
    - eapply mk_union_sound; [|exact Hvi]. apply in_flat_map. exists i. split; [exact Hi|].
      unfold yes_item_l. rewrite E1. left; reflexivity.
    - simpl in Hall. rewrite forallb_forall in Hall.
      assert (HK : In (ty_of_cref k) Ks) by (unfold Ks; apply in_map; exact Hk).
      specialize (Hall _ HK). apply orb_prop in Hall. destruct Hall as [Hs|Hd].
      + eapply mk_union_sound; [|eapply isinst_mem; eauto]. apply in_flat_map. exists i. split; [exact Hi|].
        unfold yes_item_l. rewrite E1. apply filter_In. split; assumption.
      + exfalso. eapply disjoint_sound; eauto. }
  assert (N : existsb (isinst P v) ks = false -> mem P v (mk_union P (flat_map (no_item_l P Ks) (items t)))).
  { intro Hf. destruct (existsb (fun K => is_subtype P i K) Ks) eqn:E1.
    - apply existsb_exists in E1. destruct E1 as [K [HK Hs]]. unfold Ks in HK. apply in_map_iff in HK.
      destruct HK as [k [<- Hk]]. pose proof (subtype_sound _ _ Hs _ Hvi) as Hm. apply mem_isinst in Hm.
      assert (existsb (isinst P v) ks = true) by (apply existsb_exists; exists k; split; assumption). congruence.
    - eapply mk_union_sound; [|exact Hvi]. apply in_flat_map. exists i. split; [exact Hi|].
      unfold no_item_l. rewrite E1. left; reflexivity. }
  destruct (is_never (mk_union P (flat_map (yes_item_l P Ks) (items t)))) eqn:En.
  - assert (Hno : existsb (isinst P v) ks = true -> False).
    { intro Ht. specialize (Y Ht). destruct (mk_union P _) as [| | | | |[|]|]; try discriminate.
      apply mem_union_inv in Y. destruct Y as [? [[] _]]. }
    destruct (forallb instance_like (items t) && negb (is_never t)); [discriminate|].
    inversion H; subst. split; intro Hx; [exfalso; auto | exact Hv].
  - inversion H; subst. split; assumption.
Qed.

(* the narrowed types are parts of the original type *)
Lemma narrow_isinst_dec : forall sm t k yes no v, narrow_isinst P sm t k = Ok (yes, no) ->
  (mem P v yes -> mem P v t \/ mem P v (ty_of_cref k)) /\ (mem P v no -> mem P v t).
Proof.
  intros sm t k yes no v H. unfold narrow_isinst in H.
  destruct (sm && negb _); [discriminate|].
  assert (Y : mem P v (mk_union P (flat_map (yes_item P (ty_of_cref k)) (items t))) -> mem P v t \/ mem P v (ty_of_cref k)).
  { intro M. apply mk_union_inv in M. destruct M as [u [Hu Mu]]. apply in_flat_map in Hu.
    destruct Hu as [i [Hi Hy]]. unfold yes_item in Hy.
    destruct (is_subtype P i (ty_of_cref k)); [destruct Hy as [<-|[]]; left; eapply items_mem; eauto|].
    destruct (is_subtype P (ty_of_cref k) i); [destruct Hy as [<-|[]]; right; exact Mu | destruct Hy]. }
  assert (N : mem P v (mk_union P (flat_map (no_item P (ty_of_cref k)) (items t))) -> mem P v t).
  { intro M. apply mk_union_inv in M. destruct M as [u [Hu Mu]]. apply in_flat_map in Hu.
    destruct Hu as [i [Hi Hy]]. unfold no_item in Hy.
    destruct (is_subtype P i (ty_of_cref k)); [destruct Hy | destruct Hy as [<-|[]]; eapply items_mem; eauto]. }
  destruct (is_never _).
  - destruct (_ && _); [discriminate|]. inversion H; subst. split; [|auto].
    intro M. apply mem_union_inv in M. destruct M as [? [[] _]].
  - inversion H; subst. split; assumption.
Qed.
End S1.
