(* Property C12 (b): mypy's merge/linearize_hierarchy = CPython's pmerge/mro_implementation. *)
From Coq Require Import List Arith Bool PeanoNat Lia.
From C12 Require Import Mro.
Import ListNotations.

(* ------------------------------------------------------------------ small facts *)

Lemma existsb_eqb_false : forall a l, ~ In a l -> existsb (Nat.eqb a) l = false.
Proof.
  induction l; simpl; intros H; auto.
  rewrite IHl by tauto. destruct (Nat.eqb a a0) eqn:E; auto.
  apply Nat.eqb_eq in E. subst. tauto.
Qed.

Lemma existsb_eqb_true : forall a l, existsb (Nat.eqb a) l = true <-> In a l.
Proof.
  intros. rewrite existsb_exists. split.
  - intros [x [H E]]. apply Nat.eqb_eq in E. subst. auto.
  - intros H. exists a. split; auto. apply Nat.eqb_refl.
Qed.

Lemma NoDup_app_intro_single : forall (l : list nat) h, NoDup l -> ~ In h l -> NoDup (l ++ [h]).
Proof.
  induction l; simpl; intros h ND NI.
  - repeat constructor; auto.
  - inversion ND; subst. constructor.
    + intros C. apply in_app_or in C. destruct C as [C|[C|[]]]; subst; simpl in NI; tauto.
    + apply IHl; auto.
Qed.

Lemma concat_filter_nonempty : forall l, concat (filter nonempty l) = concat l.
Proof. induction l as [|s l IH]; simpl; auto. destruct s; simpl; rewrite IH; auto. Qed.

Lemma filter_nonempty_idem : forall l, filter nonempty (filter nonempty l) = filter nonempty l.
Proof. induction l as [|s l IH]; simpl; auto. destruct s; simpl; rewrite IH; auto. Qed.

Lemma existsb_in_tail_filter : forall c l, existsb (in_tail c) (filter nonempty l) = existsb (in_tail c) l.
Proof. induction l as [|s l IH]; simpl; auto. destruct s; simpl; rewrite IH; auto. Qed.

Lemma filter_del_filter : forall c l,
  filter nonempty (map (del_head c) (filter nonempty l)) = filter nonempty (map (del_head c) l).
Proof. induction l as [|s l IH]; simpl; auto. destruct s; simpl; rewrite IH; auto. Qed.

Lemma rmap_rmap : forall {A B C} (f : A -> B) (g : B -> C) r, rmap g (rmap f r) = rmap (fun x => g (f x)) r.
Proof. destruct r; auto. Qed.

Lemma rmap_ext : forall {A B} (f g : A -> B) r, (forall x, f x = g x) -> rmap f r = rmap g r.
Proof. destruct r; simpl; intros; auto. rewrite H; auto. Qed.

(* ------------------------------------------------------------------ merge: accumulator *)

Lemma merge_fuel_acc : forall fuel seqs acc,
  merge_fuel fuel seqs acc = rmap (app acc) (merge_fuel fuel seqs []).
Proof.
  induction fuel; intros; simpl; auto.
  destruct (filter nonempty seqs) as [|s F] eqn:EF.
  - simpl. rewrite app_nil_r. auto.
  - destruct (find_head (s :: F) (s :: F)) as [h|]; auto.
    rewrite IHfuel. rewrite (IHfuel _ ([] ++ [h])). rewrite rmap_rmap.
    apply rmap_ext. intros. simpl. rewrite <- app_assoc. auto.
Qed.

(* merging is insensitive to empty sequences *)
Lemma merge_fuel_filter : forall fuel seqs seqs' acc,
  filter nonempty seqs = filter nonempty seqs' -> merge_fuel fuel seqs acc = merge_fuel fuel seqs' acc.
Proof. destruct fuel; intros; simpl; auto. rewrite H. auto. Qed.

(* ------------------------------------------------------------------ find_head *)

Lemma find_head_spec : forall cands all h,
  find_head cands all = Some h ->
  existsb (in_tail h) all = false /\ exists t, In (h :: t) cands.
Proof.
  induction cands as [|s cands IH]; simpl; intros all h H; try discriminate.
  destruct s as [|x t].
  - destruct (IH _ _ H) as [A [t' B]]. split; auto. exists t'. auto.
  - destruct (existsb (in_tail x) all) eqn:E.
    + destruct (IH _ _ H) as [A [t' B]]. split; auto. exists t'. auto.
    + inversion H; subst. split; auto. exists t. auto.
Qed.

(* ------------------------------------------------------------------ fuel suffices *)

Lemma del_head_length : forall h s, length (del_head h s) <= length s.
Proof. destruct s; simpl; auto. destruct (Nat.eqb n h); simpl; lia. Qed.

Lemma del_total_le : forall h F, length (concat (map (del_head h) F)) <= length (concat F).
Proof.
  induction F as [|s F IH]; simpl; auto. rewrite !app_length.
  pose proof (del_head_length h s). lia.
Qed.

Lemma del_total_lt : forall h t F, In (h :: t) F ->
  length (concat (map (del_head h) F)) < length (concat F).
Proof.
  induction F as [|s F IH]; simpl; intros H; [tauto|]. rewrite !app_length.
  destruct H as [H|H].
  - subst. simpl. rewrite Nat.eqb_refl. pose proof (del_total_le h F). lia.
  - pose proof (del_head_length h s). specialize (IH H). lia.
Qed.

Lemma merge_fuel_enough : forall fuel seqs acc,
  length (concat seqs) < fuel -> merge_fuel fuel seqs acc <> OutOfFuel.
Proof.
  induction fuel; intros seqs acc H; [lia|]. simpl.
  rewrite <- concat_filter_nonempty in H.
  destruct (filter nonempty seqs) as [|s F] eqn:EF; [discriminate|].
  destruct (find_head (s :: F) (s :: F)) as [h|] eqn:EH; [|discriminate].
  apply IHfuel. destruct (find_head_spec _ _ _ EH) as [_ [t Ht]].
  pose proof (del_total_lt h t _ Ht). lia.
Qed.

(* more fuel than needed does not change the result *)
Lemma merge_fuel_stable : forall fuel fuel' seqs acc,
  length (concat seqs) < fuel -> length (concat seqs) < fuel' ->
  merge_fuel fuel seqs acc = merge_fuel fuel' seqs acc.
Proof.
  induction fuel; intros fuel' seqs acc H H'; [lia|]. destruct fuel'; [lia|]. simpl.
  rewrite <- concat_filter_nonempty in H, H'.
  destruct (filter nonempty seqs) as [|s F] eqn:EF; auto.
  destruct (find_head (s :: F) (s :: F)) as [h|] eqn:EH; auto.
  destruct (find_head_spec _ _ _ EH) as [_ [t Ht]].
  pose proof (del_total_lt h t _ Ht). apply IHfuel; lia.
Qed.

Lemma merge_never_out_of_fuel : forall seqs, merge seqs <> OutOfFuel.
Proof. intros. unfold merge. apply merge_fuel_enough. lia. Qed.

(* ------------------------------------------------------------------ merge: C3 invariants *)

Lemma del_head_incl : forall h s x, In x (del_head h s) -> In x s.
Proof. destruct s; simpl; auto. destruct (Nat.eqb n h); simpl; auto. Qed.

Lemma concat_del_incl : forall h F x, In x (concat (map (del_head h) F)) -> In x (concat F).
Proof.
  induction F as [|s F IH]; simpl; auto. intros x H. apply in_app_or in H. apply in_or_app.
  destruct H; [left; eapply del_head_incl; eauto | right; auto].
Qed.

Lemma chosen_removed : forall h F, existsb (in_tail h) F = false -> ~ In h (concat (map (del_head h) F)).
Proof.
  induction F as [|s F IH]; simpl; auto. intros H. apply orb_false_elim in H. destruct H as [H1 H2].
  intros HI. apply in_app_or in HI. destruct HI as [HI|HI]; [|exact (IH H2 HI)].
  destruct s as [|x t]; simpl in *; auto. unfold in_tail in H1. simpl in H1.
  destruct (Nat.eqb x h) eqn:E.
  - apply existsb_eqb_true in HI. congruence.
  - destruct HI as [HI|HI]; [subst; rewrite Nat.eqb_refl in E; discriminate|].
    apply existsb_eqb_true in HI. congruence.
Qed.

Lemma head_in_concat : forall (h : nat) t (F : list (list nat)), In (h :: t) F -> In h (concat F).
Proof.
  induction F as [|s F IH]; simpl; [tauto|]. intros [H|H]; apply in_or_app.
  - subst. left. simpl. auto.
  - right. auto.
Qed.

Lemma merge_fuel_incl : forall fuel seqs acc m,
  merge_fuel fuel seqs acc = Ok m -> forall x, In x m -> In x acc \/ In x (concat seqs).
Proof.
  induction fuel; intros seqs acc m H x Hx; simpl in H; [discriminate|].
  rewrite <- (concat_filter_nonempty seqs).
  destruct (filter nonempty seqs) as [|s F] eqn:EF.
  - inversion H; subst. auto.
  - destruct (find_head (s :: F) (s :: F)) as [h|] eqn:EH; [|discriminate].
    destruct (find_head_spec _ _ _ EH) as [_ [t Ht]].
    destruct (IHfuel _ _ _ H x Hx) as [A|A].
    + apply in_app_or in A. destruct A as [A|[A|[]]]; auto. subst. right. eapply head_in_concat; eauto.
    + right. eapply concat_del_incl; eauto.
Qed.

Lemma merge_fuel_nodup : forall fuel seqs acc m,
  merge_fuel fuel seqs acc = Ok m -> NoDup acc -> (forall x, In x acc -> ~ In x (concat seqs)) -> NoDup m.
Proof.
  induction fuel; intros seqs acc m H ND DJ; simpl in H; [discriminate|].
  rewrite <- (concat_filter_nonempty seqs) in DJ.
  destruct (filter nonempty seqs) as [|s F] eqn:EF.
  - inversion H; subst. auto.
  - destruct (find_head (s :: F) (s :: F)) as [h|] eqn:EH; [|discriminate].
    destruct (find_head_spec _ _ _ EH) as [NT [t Ht]].
    pose proof (head_in_concat _ _ _ Ht) as Hh.
    eapply IHfuel; eauto.
    + apply NoDup_app_intro_single; auto. intros C. exact (DJ _ C Hh).
    + intros x Hx C. apply in_app_or in Hx. destruct Hx as [Hx|[Hx|[]]].
      * apply (DJ _ Hx). eapply concat_del_incl; eauto.
      * subst. exact (chosen_removed _ _ NT C).
Qed.

(* ------------------------------------------------------------------ pmerge refines merge *)

(* what remains of to_merge[i]: the slice cur_tuple[remain[i]:] *)
Definition view (p : list nat * nat) : list nat := skipn (snd p) (fst p).

Lemma skipn_nth_none : forall (t : list nat) r, nth_error t r = None -> skipn r t = [].
Proof. induction t; destruct r; simpl; intros; auto; try discriminate. Qed.

Lemma skipn_nth_some : forall (t : list nat) r c, nth_error t r = Some c -> skipn r t = c :: skipn (S r) t.
Proof.
  induction t; destruct r; intros c H; try discriminate.
  - inversion H; auto.
  - exact (IHt _ _ H).
Qed.

Lemma tl_skipn : forall (t : list nat) r, tl (skipn r t) = skipn (S r) t.
Proof. induction t; destruct r; auto. exact (IHt r). Qed.

Lemma tail_contains_view : forall p c, tail_contains (fst p) (snd p) c = in_tail c (view p).
Proof. intros. unfold tail_contains, in_tail, view. rewrite tl_skipn. reflexivity. Qed.

Lemma tails_agree : forall c st,
  existsb (fun p => tail_contains (fst p) (snd p) c) st = existsb (in_tail c) (filter nonempty (map view st)).
Proof.
  intros. rewrite existsb_in_tail_filter. induction st; simpl; auto.
  rewrite tail_contains_view, IHst. auto.
Qed.

Definition count_empty (st : pstate) : nat := length (filter (fun p => negb (nonempty (view p))) st).

Lemma scan_spec : forall rest all k,
  scan rest all k =
  match find_head (filter nonempty (map view rest)) (filter nonempty (map view all)) with
  | Some c => Found c
  | None => NotFound (k + count_empty rest)
  end.
Proof.
  induction rest as [|[t r] rest IH]; intros all k.
  - simpl. f_equal. unfold count_empty. simpl. lia.
  - cbn [scan map filter]. unfold count_empty. cbn [filter].
    destruct (nth_error t r) as [c|] eqn:E.
    + assert (V : view (t, r) = c :: skipn (S r) t) by (apply skipn_nth_some; auto).
      rewrite V. cbn [nonempty negb find_head]. rewrite tails_agree.
      destruct (existsb (in_tail c) (filter nonempty (map view all))); auto.
    + assert (V : view (t, r) = []) by (apply skipn_nth_none; auto).
      rewrite V. cbn [nonempty negb find_head length]. rewrite IH.
      unfold count_empty. destruct (find_head _ _); auto. f_equal. lia.
Qed.

Lemma count_split : forall st, length st = count_empty st + length (filter nonempty (map view st)).
Proof.
  unfold count_empty. induction st; simpl; auto.
  destruct (nonempty (view a)); simpl; lia.
Qed.

Lemma view_advance : forall c p, view (advance c p) = del_head c (view p).
Proof.
  intros c [t r]. unfold advance. cbn [fst snd]. destruct (nth_error t r) as [x|] eqn:E.
  - unfold view at 2. cbn [fst snd]. rewrite (skipn_nth_some _ _ _ E). cbn [del_head].
    destruct (Nat.eqb x c); unfold view; cbn [fst snd]; auto.
    apply skipn_nth_some; auto.
  - unfold view. cbn [fst snd]. rewrite (skipn_nth_none _ _ E). auto.
Qed.

Lemma merge_sim : forall fuel seqs st acc,
  filter nonempty seqs = filter nonempty (map view st) ->
  merge_fuel fuel seqs acc = pmerge_fuel fuel st acc.
Proof.
  induction fuel; intros seqs st acc H; simpl; auto.
  rewrite scan_spec, H. pose proof (count_split st) as CS.
  destruct (filter nonempty (map view st)) as [|s F] eqn:EF.
  - simpl in *. replace (count_empty st) with (length st) by lia. rewrite Nat.eqb_refl. auto.
  - destruct (find_head (s :: F) (s :: F)) as [h|] eqn:EH.
    + apply IHfuel. rewrite <- EF, filter_del_filter, !map_map. f_equal.
      apply map_ext. intros. symmetry. apply view_advance.
    + simpl in CS. destruct (Nat.eqb (0 + count_empty st) (length st)) eqn:E; auto.
      apply Nat.eqb_eq in E. lia.
Qed.

Lemma pmerge_eq_merge : forall c to_merge, pmerge [c] to_merge = rmap (cons c) (merge to_merge).
Proof.
  intros. unfold pmerge, merge. rewrite <- merge_sim with (seqs := to_merge).
  - rewrite merge_fuel_acc. apply rmap_ext. auto.
  - rewrite map_map. unfold view. simpl. rewrite map_id. auto.
Qed.

(* ------------------------------------------------------------------ single-base fast path *)

Lemma merge_single : forall L fuel seqs acc,
  filter nonempty seqs = filter nonempty [L] -> NoDup L -> length L < fuel ->
  merge_fuel fuel seqs acc = Ok (acc ++ L).
Proof.
  induction L as [|a L IH]; intros fuel seqs acc H ND HF; (destruct fuel; [simpl in HF; lia|]); simpl; rewrite H; simpl.
  - rewrite app_nil_r. auto.
  - inversion ND; subst. unfold in_tail. simpl. rewrite existsb_eqb_false by auto. simpl.
    rewrite Nat.eqb_refl. rewrite (IH fuel [L]); auto.
    + rewrite <- app_assoc. auto.
    + simpl in HF. lia.
Qed.

Lemma merge_fast_path : forall b rest, NoDup (b :: rest) -> merge [b :: rest; [b]] = Ok (b :: rest).
Proof.
  intros b rest ND. unfold merge. inversion ND; subst.
  cbn [merge_fuel filter nonempty find_head existsb in_tail tl]. rewrite existsb_eqb_false by auto.
  cbn [orb map del_head]. rewrite !Nat.eqb_refl.
  rewrite (merge_single rest); auto.
  all: try (simpl; rewrite app_length; simpl; lia).
  all: destruct rest; auto.
Qed.

(* ------------------------------------------------------------------ shape of a linearization *)

Lemma mapM_ok_forall2 : forall {A B} (f : A -> res B) l ys,
  mapM f l = Ok ys -> Forall2 (fun x y => f x = Ok y) l ys.
Proof.
  induction l as [|x l IH]; simpl; intros ys H.
  - inversion H. constructor.
  - destruct (f x) eqn:E; try discriminate. destruct (mapM f l) eqn:EM; try discriminate.
    inversion H; subst. constructor; auto.
Qed.

Lemma mapM_ext_in : forall {A B} (f g : A -> res B) l,
  (forall x, In x l -> f x = g x) -> mapM f l = mapM g l.
Proof.
  induction l as [|x l IH]; simpl; intros H; auto.
  rewrite (H x) by auto. rewrite IH by auto. auto.
Qed.

Lemma mapM_not_oof : forall {A B} (f : A -> res B) l,
  (forall x, In x l -> f x <> OutOfFuel) -> mapM f l <> OutOfFuel.
Proof.
  induction l as [|x l IH]; simpl; intros H; [discriminate|].
  destruct (f x) eqn:E; try discriminate.
  - destruct (mapM f l) eqn:EM; try discriminate. exfalso. apply IH; auto.
  - exfalso. apply (H x); auto.
Qed.

Lemma direct_bases_wf : forall c declared,
  NoDup declared -> Forall (fun b => b < c) declared ->
  NoDup (direct_bases c declared) /\ Forall (fun b => b < c) (direct_bases c declared).
Proof.
  intros c [|d ds] ND LT; simpl; auto.
  unfold object_id. destruct c; simpl.
  - split; constructor.
  - split.
    + constructor; [simpl; tauto | constructor].
    + constructor; [lia | constructor].
Qed.

Lemma nodup_has_dup : forall l, NoDup l <-> has_dup l = false.
Proof.
  induction l as [|x l IH]; simpl.
  - split; auto. constructor.
  - split.
    + intros ND. inversion ND; subst. rewrite existsb_eqb_false by auto. simpl. apply IH. auto.
    + intros H. apply orb_false_elim in H. destruct H as [H1 H2]. constructor.
      * intros C. apply existsb_eqb_true in C. congruence.
      * apply IH. auto.
Qed.

Lemma linearize_shape : forall table, wf_table table -> forall fuel c m,
  linearize fuel table c = Ok m ->
  exists m', m = c :: m' /\ NoDup m /\ Forall (fun x => x < c) m'.
Proof.
  intros table WF. induction fuel; intros c m H; simpl in H; [discriminate|].
  destruct (nth_error table c) as [declared|] eqn:ET; [|discriminate].
  destruct (WF _ _ ET) as [ND LT]. destruct (direct_bases_wf c declared ND LT) as [ND' LT'].
  set (bases := direct_bases c declared) in *.
  destruct (mapM (linearize fuel table) bases) as [lin_bases| |] eqn:EM; try discriminate.
  destruct (merge (lin_bases ++ [bases])) as [m0| |] eqn:EMG; try discriminate.
  simpl in H. inversion H; subst m. exists m0.
  assert (LT0 : Forall (fun x => x < c) m0).
  { apply Forall_forall. intros x Hx. unfold merge in EMG.
    destruct (merge_fuel_incl _ _ _ _ EMG x Hx) as [[]|HI].
    rewrite concat_app in HI. apply in_app_or in HI. destruct HI as [HI|HI].
    - apply mapM_ok_forall2 in EM. clear EMG. revert HI. clear -EM LT' IHfuel.
      induction EM; simpl; intros HI; [tauto|]. inversion LT'; subst.
      apply in_app_or in HI. destruct HI as [HI|HI]; auto.
      destruct (IHfuel _ _ H) as [m' [E [_ F]]]. subst. destruct HI as [HI|HI]; [lia|].
      rewrite Forall_forall in F. specialize (F _ HI). lia.
    - simpl in HI. rewrite app_nil_r in HI. rewrite Forall_forall in LT'. auto. }
  split; auto. split; auto. constructor.
  - intros C. rewrite Forall_forall in LT0. specialize (LT0 _ C). lia.
  - unfold merge in EMG. eapply merge_fuel_nodup; eauto. constructor.
Qed.

(* ------------------------------------------------------------------ recursion vs creation order *)

Definition entry (table : list (list nat)) (c : nat) : res (list nat) :=
  match nth_error table c with
  | Some declared => mro_implementation (build_n table c) c (type_new_bases c declared)
  | None => Fail
  end.

Lemma build_length : forall t n, length (build_n t n) = n.
Proof. induction n; simpl; auto. rewrite app_length. simpl. lia. Qed.

Lemma build_nth : forall t n c, c < n -> nth_error (build_n t n) c = Some (entry t c).
Proof.
  induction n; intros c H; [lia|]. simpl.
  destruct (Nat.eq_dec c n) as [->|NE].
  - rewrite nth_error_app2 by (rewrite build_length; lia). rewrite build_length, Nat.sub_diag. reflexivity.
  - rewrite nth_error_app1 by (rewrite build_length; lia). apply IHn. lia.
Qed.

Lemma tp_mro_build : forall t n b, b < n -> tp_mro (build_n t n) b = entry t b.
Proof. intros. unfold tp_mro. rewrite build_nth; auto. Qed.

Lemma general_path : forall c bases base_mros,
  NoDup bases ->
  (if has_dup bases then Fail else pmerge [c] (base_mros ++ [bases])) = rmap (cons c) (merge (base_mros ++ [bases])).
Proof. intros. apply nodup_has_dup in H. rewrite H. apply pmerge_eq_merge. Qed.

Lemma linearize_eq_entry : forall table, wf_table table ->
  forall c fuel, c < fuel -> linearize fuel table c = entry table c.
Proof.
  intros table WF. induction c as [c IH] using lt_wf_ind. intros fuel HF.
  destruct fuel; [lia|]. simpl. unfold entry.
  destruct (nth_error table c) as [declared|] eqn:ET; auto.
  destruct (WF _ _ ET) as [ND LT]. destruct (direct_bases_wf c declared ND LT) as [ND' LT'].
  change (type_new_bases c declared) with (direct_bases c declared).
  set (bases := direct_bases c declared) in *.
  assert (EQ : forall b, In b bases -> linearize fuel table b = tp_mro (build_n table c) b).
  { intros b Hb. rewrite Forall_forall in LT'. specialize (LT' _ Hb).
    rewrite tp_mro_build by auto. apply IH; lia. }
  unfold mro_implementation. rewrite <- (mapM_ext_in _ _ _ EQ).
  destruct (mapM (linearize fuel table) bases) as [base_mros| |] eqn:EM; auto.
  clearbody bases.
  destruct bases as [|b [|b2 bs]]; destruct base_mros as [|m [|m2 ms]];
    try (symmetry; apply general_path; auto; fail).
  (* n == 1 *)
  simpl in EM. destruct (linearize fuel table b) as [m1| |] eqn:EL; try discriminate.
  inversion EM; subst m1. destruct (linearize_shape _ WF _ _ _ EL) as [rest [E [NDm _]]]. subst m.
  simpl app. rewrite merge_fast_path; auto.
Qed.

Lemma linearize_not_oof : forall table, wf_table table ->
  forall c fuel, c < fuel -> linearize fuel table c <> OutOfFuel.
Proof.
  intros table WF. induction c as [c IH] using lt_wf_ind. intros fuel HF.
  destruct fuel; [lia|]. simpl.
  destruct (nth_error table c) as [declared|] eqn:ET; [|discriminate].
  destruct (WF _ _ ET) as [ND LT]. destruct (direct_bases_wf c declared ND LT) as [_ LT'].
  destruct (mapM (linearize fuel table) (direct_bases c declared)) as [lb| |] eqn:EM; try discriminate.
  - pose proof (merge_never_out_of_fuel (lb ++ [direct_bases c declared])).
    destruct (merge _); simpl; congruence.
  - exfalso. revert EM. apply mapM_not_oof. intros b Hb. rewrite Forall_forall in LT'.
    specialize (LT' _ Hb). apply IH; lia.
Qed.

(* ------------------------------------------------------------------ main results *)

Theorem mro_eq_cpython : forall table c, wf_table table -> mypy_mro table c = cpython_mro table c.
Proof.
  intros table c WF. unfold mypy_mro, cpython_mro.
  destruct (Nat.lt_ge_cases c (length table)) as [LT|GE].
  - rewrite linearize_eq_entry by (auto; lia). rewrite tp_mro_build; auto.
  - simpl. pose proof (proj2 (nth_error_None table c) GE) as E. rewrite E.
    unfold tp_mro. rewrite (proj2 (nth_error_None _ c)); auto. rewrite build_length. auto.
Qed.

Theorem mro_fails_iff_cpython_fails : forall table c, wf_table table ->
  (mypy_mro table c = Fail <-> cpython_mro table c = Fail).
Proof. intros. rewrite mro_eq_cpython; tauto. Qed.

Theorem mro_terminates : forall table c, wf_table table -> mypy_mro table c <> OutOfFuel.
Proof.
  intros table c WF. unfold mypy_mro.
  destruct (Nat.lt_ge_cases c (length table)) as [LT|GE].
  - apply linearize_not_oof; auto.
  - simpl. rewrite (proj2 (nth_error_None table c) GE). discriminate.
Qed.

(* C3 sanity: the class comes first, no class is repeated, everything after it is an earlier class *)
Theorem mro_shape : forall table c m, wf_table table -> mypy_mro table c = Ok m ->
  exists m', m = c :: m' /\ NoDup m /\ Forall (fun x => x < c) m'.
Proof. intros table c m WF H. eapply linearize_shape; eauto. Qed.

(* the boolean well-formedness test used by the harness and the examples *)
Lemma wf_from_sound : forall table c0, wf_from c0 table = true ->
  forall i bases, nth_error table i = Some bases -> NoDup bases /\ Forall (fun b => b < c0 + i) bases.
Proof.
  induction table as [|bs table IH]; intros c0 H i bases Hn.
  - destruct i; discriminate.
  - simpl in H. apply andb_prop in H. destruct H as [H H3]. apply andb_prop in H. destruct H as [H1 H2].
    destruct i; simpl in Hn.
    + inversion Hn; subst. split.
      * apply nodup_has_dup. destruct (has_dup bases); auto; discriminate.
      * apply Forall_forall. intros b Hb. rewrite forallb_forall in H2. specialize (H2 _ Hb).
        apply Nat.ltb_lt in H2. lia.
    + destruct (IH _ H3 _ _ Hn) as [A B]. split; auto.
      eapply Forall_impl; [|exact B]. simpl. intros. lia.
Qed.

Lemma wf_tableb_sound : forall table, wf_tableb table = true -> wf_table table.
Proof. intros table H c bases Hn. exact (wf_from_sound table 0 H c bases Hn). Qed.
