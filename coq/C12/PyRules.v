(* Hand transcription of the CPython *runtime* rules that mypy mirrors statically
   (constant folding on ints; tuple / int / str comparison; sys.version_info shape).
   The generated files Gen.ConstFold / Gen.Reach are compared against these. *)
From Coq Require Import ZArith List String Bool Lia.
Import ListNotations.
Open Scope Z_scope.

Inductive exn := ZeroDivisionError | ValueError | OverflowError | AssertionError | TypeError.

Inductive result (A : Type) := ROk (a : A) | RRaise (e : exn).
Arguments ROk {A} a.
Arguments RRaise {A} e.

Definition bind {A B} (r : result A) (f : A -> result B) : result B :=
  match r with ROk a => f a | RRaise e => RRaise e end.

(* floats are CPython's own: a folded float is kept as the symbolic operation that produced it *)
Inductive fexpr := FTrueDivInt (a b : Z).
Inductive val := VInt (z : Z) | VFloat (f : fexpr).

(* result of a folding function: a value, "not folded" (Python None), or an escaping exception *)
Inductive fres := Folded (v : val) | NotFolded | Crash (e : exn).

Definition fres_of_Z (r : result Z) : fres :=
  match r with ROk z => Folded (VInt z) | RRaise e => Crash e end.
Definition fres_of_float (r : result fexpr) : fres :=
  match r with ROk f => Folded (VFloat f) | RRaise e => Crash e end.
(* try: return <e>  except <exc>: return None *)
Definition exn_eqb (a b : exn) : bool :=
  match a, b with
  | ZeroDivisionError, ZeroDivisionError | ValueError, ValueError | OverflowError, OverflowError
  | AssertionError, AssertionError | TypeError, TypeError => true
  | _, _ => false end.
Definition catch_none (exc : exn) (r : fres) : fres :=
  match r with Crash e => if exn_eqb e exc then NotFolded else Crash e | _ => r end.

(* --- CPython int operations (Objects/longobject.c) ------------------------------------- *)
(* int / int: ZeroDivisionError on 0; OverflowError("integer division result too large for a
   float") when the correctly rounded quotient is not finite, i.e. |l/r| >= 2^1024 - 2^970
   (the midpoint between DBL_MAX and 2^1024 rounds to even = 2^1024). *)
Definition dbl_overflow_num : Z := 2 ^ 1024 - 2 ^ 970.
Definition true_div_overflows (l r : Z) : bool := (dbl_overflow_num * Z.abs r <=? Z.abs l).

Arguments true_div_overflows : simpl never.
Global Opaque dbl_overflow_num.

Definition py_truediv (l r : Z) : result fexpr :=
  if r =? 0 then RRaise ZeroDivisionError
  else if true_div_overflows l r then RRaise OverflowError
  else ROk (FTrueDivInt l r).
Definition py_floordiv (l r : Z) : result Z :=
  if r =? 0 then RRaise ZeroDivisionError else ROk (l / r).
Definition py_mod (l r : Z) : result Z :=
  if r =? 0 then RRaise ZeroDivisionError else ROk (l mod r).
Definition py_lshift (l r : Z) : result Z :=
  if r <? 0 then RRaise ValueError else ROk (Z.shiftl l r).
Definition py_rshift (l r : Z) : result Z :=
  if r <? 0 then RRaise ValueError else ROk (Z.shiftr l r).
(* int ** negative int is a float (or ZeroDivisionError): not an int result.  The folding code
   asserts the result is an int, so reaching it would be an AssertionError. *)
Definition py_pow_int (l r : Z) : result Z :=
  if r <? 0 then RRaise AssertionError else ROk (l ^ r).

(* the runtime meaning of  l <op> r  on ints, as an int-or-float value *)
Definition py_int_binop (op : string) (l r : Z) : option (result val) :=
  let i (x : result Z) := Some (bind x (fun z => ROk (VInt z))) in
  if String.eqb op "+" then i (ROk (l + r))
  else if String.eqb op "-" then i (ROk (l - r))
  else if String.eqb op "*" then i (ROk (l * r))
  else if String.eqb op "/" then Some (bind (py_truediv l r) (fun f => ROk (VFloat f)))
  else if String.eqb op "//" then i (py_floordiv l r)
  else if String.eqb op "%" then i (py_mod l r)
  else if String.eqb op "&" then i (ROk (Z.land l r))
  else if String.eqb op "|" then i (ROk (Z.lor l r))
  else if String.eqb op "^" then i (ROk (Z.lxor l r))
  else if String.eqb op "<<" then i (py_lshift l r)
  else if String.eqb op ">>" then i (py_rshift l r)
  else if String.eqb op "**" then
    (if r <? 0 then None (* float result or ZeroDivisionError: outside int folding *) else i (ROk (l ^ r)))
  else None.

Definition py_int_unop (op : string) (v : Z) : option Z :=
  if String.eqb op "-" then Some (- v)
  else if String.eqb op "~" then Some (Z.lnot v)
  else if String.eqb op "+" then Some v
  else None.

(* --- comparisons ------------------------------------------------------------------------- *)
Definition cmp_eq (c : comparison) : bool := match c with Eq => true | _ => false end.
Definition cmp_lt (c : comparison) : bool := match c with Lt => true | _ => false end.
Definition cmp_gt (c : comparison) : bool := match c with Gt => true | _ => false end.

(* CPython tuple rich comparison on tuples of ints: first differing position decides,
   otherwise the shorter tuple is smaller (Objects/tupleobject.c tuplerichcompare). *)
Fixpoint tuple_cmp (a b : list Z) : comparison :=
  match a, b with
  | [], [] => Eq
  | [], _ :: _ => Lt
  | _ :: _, [] => Gt
  | x :: a', y :: b' => match Z.compare x y with Eq => tuple_cmp a' b' | c => c end
  end.

Definition py_cmp_op (op : string) (c : comparison) : option bool :=
  if String.eqb op "==" then Some (cmp_eq c)
  else if String.eqb op "!=" then Some (negb (cmp_eq c))
  else if String.eqb op "<=" then Some (negb (cmp_gt c))
  else if String.eqb op ">=" then Some (negb (cmp_lt c))
  else if String.eqb op "<" then Some (cmp_lt c)
  else if String.eqb op ">" then Some (cmp_gt c)
  else None.

(* Python slice of a tuple with optional non-negative bounds (negative bounds are rejected
   by the callers before slicing) *)
Definition py_slice {A} (l : list A) (lo hi : Z) : list A :=
  firstn (Z.to_nat (hi - lo)) (skipn (Z.to_nat lo) l).

(* sys.version_info at run time for target (major, minor): a 5-tuple
   (major, minor, micro, releaselevel, serial).  The last three are not determined by the
   configured target, so they are universally quantified in the theorems.  releaselevel is a
   string; comparing it with an int raises TypeError for ordering and is False for ==, so only
   the first three (int) components are modelled, `rest` standing for the components after
   minor that are ints (micro) - enough for every literal tuple of ints of length <= 3. *)
Definition runtime_version_info (major minor micro : Z) : list Z := [major; minor; micro].
