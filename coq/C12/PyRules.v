(* Hand transcription of the CPython *runtime* rules that mypy mirrors statically
   (constant folding on ints; tuple / int / str comparison; sys.version_info shape).
   The generated files Gen.ConstFold / Gen.Reach are compared against these. *)
From Coq Require Import ZArith List String Bool Lia.
Import ListNotations.
Open Scope Z_scope.

Inductive exn := ZeroDivisionError | ValueError | OverflowError | AssertionError | TypeError.

Inductive result (A : Type) := ROk (a : A) | RRaise (e : exn).
Arguments ROk {A} a.
Arguments RRaise {A} e.

Definition bind {A B} (r : result A) (f : A -> result B) : result B :=
  match r with ROk a => f a | RRaise e => RRaise e end.

(* floats are CPython's own: a folded float is kept as the symbolic operation that produced it *)
Inductive fexpr :=
  | FTrueDivInt (a b : Z)                  (* the float CPython computes for int a / int b *)
  | FLit (n : nat)                         (* some float literal *)
  | FOfInt (z : Z)                         (* float(z) for an int that fits *)
  | FBin (op : string) (a b : fexpr).      (* the float CPython computes for a <op> b *)
Inductive val := VInt (z : Z) | VFloat (f : fexpr).

(* result of a folding function: a value, "not folded" (Python None), or an escaping exception *)
Inductive fres := Folded (v : val) | NotFolded | Crash (e : exn).

Definition fres_of_Z (r : result Z) : fres :=
  match r with ROk z => Folded (VInt z) | RRaise e => Crash e end.
Definition fres_of_float (r : result fexpr) : fres :=
  match r with ROk f => Folded (VFloat f) | RRaise e => Crash e end.
(* try: return <e>  except <exc>: return None *)
Definition exn_eqb (a b : exn) : bool :=
  match a, b with
  | ZeroDivisionError, ZeroDivisionError | ValueError, ValueError | OverflowError, OverflowError
  | AssertionError, AssertionError | TypeError, TypeError => true
  | _, _ => false end.
Definition catch_none (exc : exn) (r : fres) : fres :=
  match r with Crash e => if exn_eqb e exc then NotFolded else Crash e | _ => r end.

(* --- CPython int operations (Objects/longobject.c) ------------------------------------- *)
(* int / int: ZeroDivisionError on 0; OverflowError("integer division result too large for a
   float") when the correctly rounded quotient is not finite, i.e. |l/r| >= 2^1024 - 2^970
   (the midpoint between DBL_MAX and 2^1024 rounds to even = 2^1024). *)
Definition dbl_overflow_num : Z := 2 ^ 1024 - 2 ^ 970.
Definition true_div_overflows (l r : Z) : bool := (dbl_overflow_num * Z.abs r <=? Z.abs l).

Arguments true_div_overflows : simpl never.
Global Opaque dbl_overflow_num.

Definition py_truediv (l r : Z) : result fexpr :=
  if r =? 0 then RRaise ZeroDivisionError
  else if true_div_overflows l r then RRaise OverflowError
  else ROk (FTrueDivInt l r).
Definition py_floordiv (l r : Z) : result Z :=
  if r =? 0 then RRaise ZeroDivisionError else ROk (l / r).
Definition py_mod (l r : Z) : result Z :=
  if r =? 0 then RRaise ZeroDivisionError else ROk (l mod r).
Definition py_lshift (l r : Z) : result Z :=
  if r <? 0 then RRaise ValueError else ROk (Z.shiftl l r).
Definition py_rshift (l r : Z) : result Z :=
  if r <? 0 then RRaise ValueError else ROk (Z.shiftr l r).
(* int ** negative int is a float (or ZeroDivisionError): not an int result.  The folding code
   asserts the result is an int, so reaching it would be an AssertionError. *)
Definition py_pow_int (l r : Z) : result Z :=
  if r <? 0 then RRaise AssertionError else ROk (l ^ r).

(* the runtime meaning of  l <op> r  on ints, as an int-or-float value *)
Definition py_int_binop (op : string) (l r : Z) : option (result val) :=
  let i (x : result Z) := Some (bind x (fun z => ROk (VInt z))) in
  if String.eqb op "+" then i (ROk (l + r))
  else if String.eqb op "-" then i (ROk (l - r))
  else if String.eqb op "*" then i (ROk (l * r))
  else if String.eqb op "/" then Some (bind (py_truediv l r) (fun f => ROk (VFloat f)))
  else if String.eqb op "//" then i (py_floordiv l r)
  else if String.eqb op "%" then i (py_mod l r)
  else if String.eqb op "&" then i (ROk (Z.land l r))
  else if String.eqb op "|" then i (ROk (Z.lor l r))
  else if String.eqb op "^" then i (ROk (Z.lxor l r))
  else if String.eqb op "<<" then i (py_lshift l r)
  else if String.eqb op ">>" then i (py_rshift l r)
  else if String.eqb op "**" then
    (if r <? 0 then None (* float result or ZeroDivisionError: outside int folding *) else i (ROk (l ^ r)))
  else None.

Definition py_int_unop (op : string) (v : Z) : option Z :=
  if String.eqb op "-" then Some (- v)
  else if String.eqb op "~" then Some (Z.lnot v)
  else if String.eqb op "+" then Some v
  else None.

(* --- comparisons ------------------------------------------------------------------------- *)
Definition cmp_eq (c : comparison) : bool := match c with Eq => true | _ => false end.
Definition cmp_lt (c : comparison) : bool := match c with Lt => true | _ => false end.
Definition cmp_gt (c : comparison) : bool := match c with Gt => true | _ => false end.

(* CPython tuple rich comparison on tuples of ints: first differing position decides,
   otherwise the shorter tuple is smaller (Objects/tupleobject.c tuplerichcompare). *)
Fixpoint tuple_cmp (a b : list Z) : comparison :=
  match a, b with
  | [], [] => Eq
  | [], _ :: _ => Lt
  | _ :: _, [] => Gt
  | x :: a', y :: b' => match Z.compare x y with Eq => tuple_cmp a' b' | c => c end
  end.

Definition py_cmp_op (op : string) (c : comparison) : option bool :=
  if String.eqb op "==" then Some (cmp_eq c)
  else if String.eqb op "!=" then Some (negb (cmp_eq c))
  else if String.eqb op "<=" then Some (negb (cmp_gt c))
  else if String.eqb op ">=" then Some (negb (cmp_lt c))
  else if String.eqb op "<" then Some (cmp_lt c)
  else if String.eqb op ">" then Some (cmp_gt c)
  else None.

(* Python slice of a tuple with optional non-negative bounds (negative bounds are rejected
   by the callers before slicing) *)
Definition py_slice {A} (l : list A) (lo hi : Z) : list A :=
  firstn (Z.to_nat (hi - lo)) (skipn (Z.to_nat lo) l).

(* Python tuple indexing t[i]: negative indexes count from the end; out of range = IndexError (None) *)
Definition py_tuple_index (t : list Z) (i : Z) : option Z :=
  let j := if i <? 0 then i + Z.of_nat (List.length t) else i in
  if j <? 0 then None else nth_error t (Z.to_nat j).

(* what contains_sys_version_info / contains_int_or_tuple_of_ints return (None is handled by the caller):
   an int index or a (begin, end) pair of optional ints; an int or a tuple of ints *)
Inductive vidx := IdxInt (i : Z) | IdxSlice (lo hi : option Z).   (* bare sys.version_info = IdxSlice None None *)
Inductive thing := ThInt (k : Z) | ThTuple (t : list Z).

(* sys.version_info at run time for target (major, minor): a 5-tuple
   (major, minor, micro, releaselevel, serial).  The last three are not determined by the
   configured target, so they are universally quantified in the theorems.  releaselevel is a
   string; comparing it with an int raises TypeError for ordering and is False for ==, so only
   the first three (int) components are modelled, `rest` standing for the components after
   minor that are ints (micro) - enough for every literal tuple of ints of length <= 3. *)
Definition runtime_version_info (major minor micro : Z) : list Z := [major; minor; micro].

(* --- CPython float operations (Objects/floatobject.c): ERROR CONDITIONS only; the values stay symbolic ---------- *)
(* an operand of a mixed int/float operation *)
Inductive num := NInt (z : Z) | NFloat (f : fexpr).
Inductive fsign := FZero | FNeg | FPos | FNan.
Inductive pow_outcome := PowOk | PowOverflow | PowZeroDiv | PowComplex.
(* what is not determined symbolically: the sign class of a float (x == 0, x < 0, x > 0; nan: none of them),
   whether an int converts to a float (PyLong_AsDouble; else OverflowError "int too large to convert to float"),
   and the outcome class of float_pow *)
Record float_oracle := { fl_sign : fexpr -> fsign; fl_fits : Z -> bool; fl_pow : fexpr -> fexpr -> pow_outcome }.

Definition to_float (fo : float_oracle) (n : num) : result fexpr :=
  match n with
  | NInt z => if fl_fits fo z then ROk (FOfInt z) else RRaise OverflowError
  | NFloat f => ROk f
  end.
(* try: float(n1), float(n2), ...   except OverflowError: return None   -- then continue with k *)
Fixpoint try_float_conversions (fo : float_oracle) (ns : list num) (k : fres) : fres :=
  match ns with
  | [] => k
  | n :: rest =>
      match to_float fo n with
      | ROk _ => try_float_conversions fo rest k
      | RRaise e => catch_none OverflowError (Crash e)
      end
  end.
(* comparisons of an int or a float with the int 0 never convert the int *)
Definition num_sign (fo : float_oracle) (n : num) : fsign :=
  match n with
  | NInt z => if z =? 0 then FZero else if z <? 0 then FNeg else FPos
  | NFloat f => fl_sign fo f
  end.
Definition num_is_zero fo n : bool := match num_sign fo n with FZero => true | _ => false end.
Definition num_lt0 fo n : bool := match num_sign fo n with FNeg => true | _ => false end.
Definition num_gt0 fo n : bool := match num_sign fo n with FPos => true | _ => false end.
Definition num_is_int (n : num) : bool := match n with NInt _ => true | NFloat _ => false end.
Definition fsign_is_zero (s : fsign) : bool := match s with FZero => true | _ => false end.

(* the Python expression `l <op> r` when at least one operand is a float (float_add, float_sub, float_mul: never raise;
   float_div, float_floor_div, float_rem: ZeroDivisionError iff the divisor is zero; float_pow: see fl_pow; a complex
   result (negative base, non-integral exponent) is carried as AssertionError, raised by the only consumer
   `assert isinstance(ret, float)`, as for py_pow_int) *)
Definition py_num_binop (fo : float_oracle) (op : string) (l r : num) : result fexpr :=
  bind (to_float fo l) (fun a => bind (to_float fo r) (fun b =>
    if String.eqb op "+" || String.eqb op "-" || String.eqb op "*" then ROk (FBin op a b)
    else if String.eqb op "/" || String.eqb op "//" || String.eqb op "%" then
      (if fsign_is_zero (num_sign fo r) then RRaise ZeroDivisionError else ROk (FBin op a b))
    else if String.eqb op "**" then
      match fl_pow fo a b with
      | PowOk => ROk (FBin op a b) | PowOverflow => RRaise OverflowError
      | PowZeroDiv => RRaise ZeroDivisionError | PowComplex => RRaise AssertionError
      end
    else RRaise TypeError)).

(* contract on float_pow (monitored against CPython on boundary floats, not proved):
   0.0 ** negative is the only ZeroDivisionError; a complex result needs a negative base and an exponent that is not
   an int converted to float *)
Definition pow_contract (fo : float_oracle) : Prop :=
  (forall a b, fl_pow fo a b = PowZeroDiv -> fl_sign fo a = FZero) /\
  (forall a b, fl_pow fo a b = PowComplex -> fl_sign fo a = FNeg /\ forall z, b <> FOfInt z) /\
  (forall z, fl_fits fo z = true -> fl_sign fo (FOfInt z) = if z =? 0 then FZero else if z <? 0 then FNeg else FPos).

(* --- str / bytes sequence operations (unicode_concatenate, unicode_repeat; bytes likewise) -------------- *)
Fixpoint str_repeat_nat (s : string) (n : nat) : string :=
  match n with O => EmptyString | S k => String.append s (str_repeat_nat s k) end.
(* s * n: a non-positive count gives the empty sequence *)
Definition py_str_repeat (s : string) (n : Z) : string := if n <=? 0 then EmptyString else str_repeat_nat s (Z.to_nat n).
Fixpoint seq_repeat_nat {A} (l : list A) (n : nat) : list A :=
  match n with O => [] | S k => l ++ seq_repeat_nat l k end.
Definition py_bytes_repeat (l : list N) (n : Z) : list N := if n <=? 0 then [] else seq_repeat_nat l (Z.to_nat n).
(* py_pow_int is total: for every l and r >= 0 it denotes the int l ^ r.  Nothing bounds its SIZE: the value has about
   r * log2 |l| bits, so folding `18446744073709551617 ** 9223372036854775808` does not finish (recorded under C20). *)
