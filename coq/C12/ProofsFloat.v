(* Constant folding of float / str / bytes operations (functions REGENERATED into Gen.ConstFold) against the
   transcription of CPython's error conditions (PyRules.py_num_binop) and sequence semantics. *)
From Coq Require Import ZArith List String Bool Lia.
From C12 Require Import PyRules.
From Gen Require Import ConstFold.
Import ListNotations.
Open Scope Z_scope.

Ltac op_cases H :=
  repeat match type of H with
  | context [String.eqb ?op ?s] => is_var op; destruct (String.eqb_spec op s) as [->|?]
  end.

Lemma to_float_raise : forall fo n e, to_float fo n = RRaise e -> e = OverflowError.
Proof. intros fo [z|f] e H; simpl in H; [destruct (fl_fits fo z)|]; inversion H; auto. Qed.

(* the conversion prelude `try: float(left), float(right) except OverflowError: return None` *)
Ltac conv_in H fo l r :=
  unfold constant_fold_binary_float_op in H; cbn [try_float_conversions] in H;
  let Ea := fresh "Ea" in let Eb := fresh "Eb" in
  destruct (to_float fo l) as [?a|?ea] eqn:Ea;
  [destruct (to_float fo r) as [?b|?eb] eqn:Eb;
   [| apply to_float_raise in Eb; subst; simpl in H; try discriminate]
  | apply to_float_raise in Ea; subst; simpl in H; try discriminate].

(* a folded float operation has exactly the value CPython computes (and CPython does not raise) *)
Lemma fold_float_sound : forall fo op l r v,
  constant_fold_binary_float_op fo op l r = Folded v ->
  exists f, v = VFloat f /\ py_num_binop fo op l r = ROk f.
Proof.
  intros fo op l r v H. conv_in H fo l r.
  repeat match type of H with
  | (if String.eqb op ?s then _ else _) = _ => destruct (String.eqb_spec op s) as [->|?]
  end; try discriminate;
  repeat match type of H with (if ?c then _ else _) = _ => destruct c; try discriminate end;
  unfold catch_none, fres_of_float in H;
  match type of H with context [py_num_binop ?a ?b ?c ?d] => destruct (py_num_binop a b c d) as [f|e] eqn:E end;
  try discriminate; try (destruct e; discriminate); inversion H; eauto.
Qed.

(* an int operand that does not convert to float: not folded, and CPython raises OverflowError for the operation *)
Lemma fold_float_unconvertible : forall fo op l r e,
  (to_float fo l = RRaise e \/ to_float fo r = RRaise e) ->
  constant_fold_binary_float_op fo op l r = NotFolded /\ exists e', py_num_binop fo op l r = RRaise e'.
Proof.
  intros fo op l r e H. unfold constant_fold_binary_float_op, py_num_binop. cbn [try_float_conversions].
  destruct (to_float fo l) as [a|ea] eqn:Ea.
  - destruct H as [H|H]; [discriminate|]. rewrite H. apply to_float_raise in H. subst. simpl. eauto.
  - apply to_float_raise in Ea. subst. simpl. eauto.
Qed.

(* /, //, %: not folded exactly when CPython raises ZeroDivisionError (operands that convert to float) *)
Lemma fold_float_guard_exact : forall fo op l r a b,
  (op = "/" \/ op = "//" \/ op = "%")%string ->
  to_float fo l = ROk a -> to_float fo r = ROk b ->
  (constant_fold_binary_float_op fo op l r = NotFolded <-> py_num_binop fo op l r = RRaise ZeroDivisionError).
Proof.
  intros fo op l r a b Hop Ha Hb.
  unfold constant_fold_binary_float_op, py_num_binop, num_is_zero. cbn [try_float_conversions]. rewrite Ha, Hb. simpl bind.
  destruct Hop as [->|[->| ->]]; simpl; destruct (num_sign fo r); simpl; split; intros H; try discriminate; reflexivity.
Qed.

(* +, -, *: always folded when the operands convert *)
Lemma fold_float_arith_total : forall fo op l r a b,
  (op = "+" \/ op = "-" \/ op = "*")%string ->
  to_float fo l = ROk a -> to_float fo r = ROk b ->
  constant_fold_binary_float_op fo op l r = Folded (VFloat (FBin op a b)).
Proof.
  intros fo op l r a b Hop Ha Hb. unfold constant_fold_binary_float_op, py_num_binop. cbn [try_float_conversions]. rewrite Ha, Hb.
  destruct Hop as [->|[->| ->]]; reflexivity.
Qed.

(* no operand makes the float folding code raise (the conversion prelude turns OverflowError into "not folded"; the guards
   exclude ZeroDivisionError; for `**` the guard excludes ZeroDivisionError and complex results under the float_pow contract
   and OverflowError is caught) *)
Lemma fold_float_never_raises : forall fo op l r e, pow_contract fo ->
  constant_fold_binary_float_op fo op l r <> Crash e.
Proof.
  intros fo op l r e [CZ [CC CS]] H. conv_in H fo l r.
  repeat match type of H with
  | (if String.eqb op ?s then _ else _) = _ => destruct (String.eqb_spec op s) as [->|?]
  end; try discriminate.
  1-3: unfold fres_of_float, py_num_binop in H; rewrite Ea, Eb in H; simpl in H; discriminate.
  1-3: destruct (negb (num_is_zero fo r)) eqn:G; [|discriminate];
       unfold fres_of_float, py_num_binop in H; rewrite Ea, Eb in H; simpl in H;
       unfold num_is_zero in G; destruct (num_sign fo r); simpl in *; discriminate.
  (* ** *)
  destruct ((num_lt0 fo l && num_is_int r) || num_gt0 fo l) eqn:G; [|discriminate].
  unfold catch_none, fres_of_float, py_num_binop in H. rewrite Ea, Eb in H. simpl in H.
  assert (SA : fl_sign fo a = num_sign fo l).
  { destruct l; simpl in *.
    - destruct (fl_fits fo z) eqn:F; inversion Ea; subst. rewrite CS by auto. reflexivity.
    - inversion Ea; subst; reflexivity. }
  destruct (fl_pow fo a b) eqn:P; simpl in H; try discriminate.
  - apply CZ in P. unfold num_lt0, num_gt0 in G. rewrite <- SA, P in G. simpl in G. discriminate.
  - apply CC in P. destruct P as [P1 P2]. unfold num_lt0, num_gt0 in G. rewrite <- SA, P1 in G.
    simpl in G. destruct r as [z|f]; simpl in G; [|discriminate].
    simpl in Eb. destruct (fl_fits fo z); inversion Eb; subst. exact (P2 z eq_refl).
Qed.

(* ---- str / bytes *)
Lemma fold_str_exact : forall op l r n,
  constant_fold_binary_op_str_str op l r = (if String.eqb op "+" then Some (String.append l r) else None) /\
  constant_fold_binary_op_str_int op l n = (if String.eqb op "*" then Some (py_str_repeat l n) else None) /\
  constant_fold_binary_op_int_str op n r = (if String.eqb op "*" then Some (py_str_repeat r n) else None).
Proof.
  intros. unfold constant_fold_binary_op_str_str, constant_fold_binary_op_str_int, constant_fold_binary_op_int_str.
  rewrite !andb_true_r. auto.
Qed.

Lemma fold_bytes_exact : forall op (l r : list N) n,
  constant_fold_binary_op_extended_bytes_bytes op l r = (if String.eqb op "+" then Some (l ++ r) else None) /\
  constant_fold_binary_op_extended_bytes_int op l n = (if String.eqb op "*" then Some (py_bytes_repeat l n) else None) /\
  constant_fold_binary_op_extended_int_bytes op n r = (if String.eqb op "*" then Some (py_bytes_repeat r n) else None).
Proof.
  intros. unfold constant_fold_binary_op_extended_bytes_bytes, constant_fold_binary_op_extended_bytes_int,
    constant_fold_binary_op_extended_int_bytes. rewrite !andb_true_r. auto.
Qed.

(* Python's sequence repetition: a non-positive count gives the empty sequence; otherwise n copies *)
Lemma str_repeat_nonpos : forall s n, n <= 0 -> py_str_repeat s n = EmptyString.
Proof. intros. unfold py_str_repeat. destruct (Z.leb_spec n 0); auto; lia. Qed.
Lemma str_repeat_succ : forall s n, 0 <= n -> py_str_repeat s (n + 1) = String.append s (py_str_repeat s n).
Proof.
  intros s n H. unfold py_str_repeat. destruct (Z.leb_spec (n + 1) 0); [lia|].
  replace (Z.to_nat (n + 1)) with (S (Z.to_nat n)) by lia. simpl.
  destruct (Z.leb_spec n 0); auto. assert (n = 0) by lia. subst. reflexivity.
Qed.
Lemma bytes_repeat_nonpos : forall (l : list N) n, n <= 0 -> py_bytes_repeat l n = [].
Proof. intros. unfold py_bytes_repeat. destruct (Z.leb_spec n 0); auto; lia. Qed.
Lemma bytes_repeat_length : forall (l : list N) n, 0 <= n ->
  Z.of_nat (List.length (py_bytes_repeat l n)) = Z.of_nat (List.length l) * n.
Proof.
  intros l n H. unfold py_bytes_repeat. destruct (Z.leb_spec n 0).
  - assert (n = 0) by lia. subst. simpl. lia.
  - rewrite <- (Z2Nat.id n) at 2 by lia. generalize (Z.to_nat n). intros k.
    induction k; simpl; [lia|]. rewrite app_length. lia.
Qed.

(* py_pow_int is total: a value for every base and every non-negative exponent (its SIZE is unbounded, see PyRules) *)
Lemma py_pow_int_total : forall l r, 0 <= r -> py_pow_int l r = ROk (l ^ r).
Proof. intros. unfold py_pow_int. destruct (Z.ltb_spec r 0); auto; lia. Qed.
