(* Property C12 (a): mypy's arity/keyword verdict = CPython's argument binding, on the fragment. *)
From Coq Require Import List Arith Bool PeanoNat Lia.
From C12 Require Import Bind.
Import ListNotations.

(* ------------------------------------------------------------------ keyword actuals of one formal *)

Section KW.
Variable p : nat -> bool.
Hypothesis p_unique : forall a b, p a = true -> p b = true -> a = b.

Lemma kw_filter_null : forall kws ai,
  null (filter (actual_named p) (kw_actuals ai kws)) = negb (existsb p kws).
Proof. induction kws; simpl; intros; auto. destruct (p a); simpl; auto. Qed.

Lemma kw_filter_none : forall kws ai, existsb p kws = false -> filter (actual_named p) (kw_actuals ai kws) = [].
Proof.
  induction kws; simpl; intros; auto. apply orb_false_elim in H. destruct H as [H1 H2].
  rewrite H1. auto.
Qed.

Lemma kw_filter_length : forall kws ai, NoDup kws ->
  length (filter (actual_named p) (kw_actuals ai kws)) = if existsb p kws then 1 else 0.
Proof.
  induction kws; simpl; intros ai ND; auto. inversion ND; subst.
  destruct (p a) eqn:E; simpl.
  - rewrite kw_filter_none; auto.
    destruct (existsb p kws) eqn:EX; auto. apply existsb_exists in EX. destruct EX as [x [Hx Px]].
    rewrite (p_unique _ _ E Px) in H1. tauto.
  - apply IHkws; auto.
Qed.

Lemma kw_filter_first : forall kws ai, first_is_positional (filter (actual_named p) (kw_actuals ai kws)) = false.
Proof. induction kws; simpl; intros; auto. destruct (p a); simpl; auto. Qed.
End KW.

Lemma named_by_unique : forall f a b, named_by f a = true -> named_by f b = true -> a = b.
Proof.
  unfold named_by. intros f a b. destruct (fname f); try discriminate. intros H1 H2.
  apply Nat.eqb_eq in H1. apply Nat.eqb_eq in H2. congruence.
Qed.

(* ------------------------------------------------------------------ mypy side = slots_ok *)

Lemma leftover_0 : forall formals, leftover formals 0 = 0.
Proof. destruct formals; auto. Qed.

Lemma mypy_core : forall all kws a0, NoDup kws -> forall formals ai n,
  (leftover formals n =? 0)
  && forallb2 (check_formal false) formals (attach all (kw_actuals a0 kws) formals (map_pos formals ai n))
  = slots_ok kws formals n.
Proof.
  intros all kws a0 ND. induction formals as [|f rest IH]; intros ai n.
  - simpl. rewrite andb_true_r. auto.
  - pose proof (kw_filter_null (named_by f) kws a0) as KN.
    pose proof (kw_filter_length (named_by f) (named_by_unique f) kws a0 ND) as KL.
    pose proof (kw_filter_first (named_by f) kws a0) as KF.
    destruct n as [|n'].
    + cbn [leftover map_pos attach forallb2 slots_ok Nat.pred].
      specialize (IH ai 0). rewrite leftover_0 in IH. cbn [Nat.eqb andb] in IH.
      set (X := forallb2 (check_formal false) rest _) in *. rewrite <- IH. clearbody X.
      unfold check_formal, kw_part. destruct (fkind f); cbn [is_required is_star is_named andb negb app Nat.eqb Nat.ltb];
        rewrite ?KN, ?KL, ?KF; destruct (existsb (named_by f) kws); destruct X; reflexivity.
    + destruct (fkind f) eqn:K; cbn [leftover map_pos attach forallb2 slots_ok Nat.pred]; rewrite ?K.
      * specialize (IH (S ai) n'). set (X := forallb2 (check_formal false) rest _) in *.
        set (L := leftover rest n' =? 0) in *. rewrite <- IH. clearbody X L.
        unfold check_formal, kw_part. rewrite K. cbn [is_required is_star is_named andb negb app null length first_is_positional Nat.eqb].
        rewrite ?KL. destruct (existsb (named_by f) kws); destruct X; destruct L; reflexivity.
      * specialize (IH (S ai) n'). set (X := forallb2 (check_formal false) rest _) in *.
        set (L := leftover rest n' =? 0) in *. rewrite <- IH. clearbody X L.
        unfold check_formal, kw_part. rewrite K. cbn [is_required is_star is_named andb negb app null length first_is_positional Nat.eqb Nat.ltb].
        rewrite ?KL. destruct (existsb (named_by f) kws); destruct X; destruct L; reflexivity.
      * specialize (IH (ai + S n') 0). rewrite leftover_0 in IH. cbn [Nat.eqb andb] in IH.
        set (X := forallb2 (check_formal false) rest _) in *. rewrite <- IH. clearbody X.
        unfold check_formal, kw_part. rewrite K. cbn [is_required is_star is_named andb negb]. reflexivity.
      * set (X := forallb2 (check_formal false) rest _). set (L := leftover rest n' =? 0). clearbody X L.
        unfold check_formal, kw_part. rewrite K. cbn [is_required is_star is_named andb negb app null length first_is_positional Nat.eqb].
        rewrite ?KL. destruct (existsb (named_by f) kws); destruct X; destruct L; reflexivity.
      * reflexivity.
      * set (X := forallb2 (check_formal false) rest _). set (L := leftover rest n' =? 0). clearbody X L.
        unfold check_formal, kw_part. rewrite K. cbn [is_required is_star is_named andb negb app null length first_is_positional Nat.eqb].
        rewrite ?KL. destruct (existsb (named_by f) kws); destruct X; destruct L; reflexivity.
Qed.

(* ------------------------------------------------------------------ CPython side = slots_ok *)

Lemma tail_argcount : forall fs, tail_kw fs = true -> co_argcount fs = 0.
Proof.
  induction fs as [|f rest IH]; auto. unfold co_argcount in *. simpl.
  destruct (fkind f) eqn:K; try discriminate; simpl; auto.
  destruct rest; auto; discriminate.
Qed.

Lemma tail_nostar : forall fs, tail_kw fs = true -> has_kind is_star1 fs = false.
Proof.
  induction fs as [|f rest IH]; auto. unfold has_kind in *. simpl.
  destruct (fkind f) eqn:K; try discriminate; simpl; auto.
  destruct rest; auto; discriminate.
Qed.

Lemma tail_slots : forall kws fs, tail_kw fs = true ->
  forall n, forallb2 (slot_cond kws) fs (copy_pos fs n) = slots_ok kws fs 0.
Proof.
  induction fs as [|f rest IH]; intros H n; auto. simpl in *.
  destruct (fkind f) eqn:K; try discriminate; cbn [is_positional forallb2]; unfold slot_cond at 1; rewrite K;
    cbn [is_star is_required negb andb orb Nat.eqb].
  - rewrite IH by auto. destruct (existsb (named_by f) kws); reflexivity.
  - destruct rest; try discriminate. reflexivity.
  - rewrite IH by auto. destruct (existsb (named_by f) kws); reflexivity.
Qed.

Lemma tail_reject : forall kws fs n, tail_kw fs = true -> slots_ok kws fs (S n) = false.
Proof. destruct fs as [|f rest]; intros n H; auto. simpl in *. destruct (fkind f); try discriminate; auto. Qed.

Lemma tail_full : forall kws fs, tail_kw fs = true -> forall n,
  negb ((co_argcount fs <? n) && negb (has_kind is_star1 fs)) && forallb2 (slot_cond kws) fs (copy_pos fs n)
  = slots_ok kws fs n.
Proof.
  intros kws fs H n. rewrite tail_argcount, tail_nostar, tail_slots by auto.
  destruct n; [reflexivity|]. rewrite tail_reject by auto. reflexivity.
Qed.

Lemma cp_core : forall kws fs, shape fs = true -> forall n,
  negb ((co_argcount fs <? n) && negb (has_kind is_star1 fs)) && forallb2 (slot_cond kws) fs (copy_pos fs n)
  = slots_ok kws fs n.
Proof.
  induction fs as [|f rest IH]; intros H n.
  - destruct n; reflexivity.
  - simpl in H. destruct (fkind f) eqn:K;
      try (apply tail_full; simpl; rewrite K; exact H).
    + (* ARG_POS *)
      specialize (IH H (Nat.pred n)).
      unfold co_argcount, has_kind in *. cbn [filter existsb copy_pos forallb2 slots_ok length]. rewrite K.
      cbn [is_positional is_star1 orb length]. rewrite <- IH.
      set (c := length (filter (fun f0 => is_positional (fkind f0)) rest)).
      set (h := existsb (fun f0 => is_star1 (fkind f0)) rest).
      set (X := forallb2 (slot_cond kws) rest _). clearbody c h X.
      unfold slot_cond. rewrite K. cbn [is_star is_required negb orb].
      replace (S c <? n) with (c <? Nat.pred n) by (destruct n; reflexivity).
      set (T := c <? Nat.pred n). clearbody T.
      destruct n; cbn [Nat.eqb Nat.ltb Nat.leb Nat.pred];
        destruct (existsb (named_by f) kws); destruct X; destruct h; destruct T; reflexivity.
    + (* ARG_OPT *)
      specialize (IH H (Nat.pred n)).
      unfold co_argcount, has_kind in *. cbn [filter existsb copy_pos forallb2 slots_ok length]. rewrite K.
      cbn [is_positional is_star1 orb length]. rewrite <- IH.
      set (c := length (filter (fun f0 => is_positional (fkind f0)) rest)).
      set (h := existsb (fun f0 => is_star1 (fkind f0)) rest).
      set (X := forallb2 (slot_cond kws) rest _). clearbody c h X.
      unfold slot_cond. rewrite K. cbn [is_star is_required negb orb].
      replace (S c <? n) with (c <? Nat.pred n) by (destruct n; reflexivity).
      set (T := c <? Nat.pred n). clearbody T.
      destruct n; cbn [Nat.eqb Nat.ltb Nat.leb Nat.pred];
        destruct (existsb (named_by f) kws); destruct X; destruct h; destruct T; reflexivity.
    + (* ARG_STAR *)
      unfold has_kind. cbn [existsb copy_pos forallb2 slots_ok]. rewrite K.
      cbn [is_positional is_star1 orb negb]. rewrite andb_false_r. cbn [negb andb].
      unfold slot_cond at 1. rewrite K. cbn [is_star andb]. apply tail_slots. exact H.
Qed.

(* ------------------------------------------------------------------ unexpected keyword *)

Lemma matched_agree : forall fs k, has_kind is_star2 fs = false -> name_matched fs k = kw_slot fs k.
Proof.
  unfold has_kind, name_matched, kw_slot. induction fs as [|f rest IH]; intros k H; auto. simpl in *.
  apply orb_false_elim in H. destruct H as [H1 H2]. rewrite IH by auto.
  destruct (fkind f); try discriminate; reflexivity.
Qed.

Lemma unexpected_agree : forall fs c,
  unexpected_keyword fs c = existsb (fun k => negb (kw_slot fs k) && negb (has_kind is_star2 fs)) (kws c).
Proof.
  intros fs c. unfold unexpected_keyword. induction (kws c) as [|k r IH]; auto. simpl. rewrite IH. f_equal.
  destruct (has_kind is_star2 fs) eqn:H.
  - rewrite orb_true_r, andb_false_r. reflexivity.
  - rewrite matched_agree by auto. rewrite orb_false_r, andb_true_r. reflexivity.
Qed.

(* ------------------------------------------------------------------ main result *)

Theorem arity_agrees : forall sig c, wf_sig sig -> determinate c ->
  (mypy_accepts sig c = true <-> cpython_bind sig c = BindOk).
Proof.
  intros sig c [SH _] ND. unfold mypy_accepts, cpython_bind, map_actuals_to_formals.
  rewrite <- unexpected_agree. destruct (unexpected_keyword sig c).
  - rewrite andb_false_r. simpl. split; discriminate.
  - cbn [negb]. rewrite andb_true_r. rewrite (mypy_core sig (kws c) (npos c) ND sig 0 (npos c)).
    rewrite <- (cp_core (kws c) sig SH (npos c)).
    destruct ((co_argcount sig <? npos c) && negb (has_kind is_star1 sig)); cbn [negb andb].
    + split; discriminate.
    + destruct (forallb2 (slot_cond (kws c)) sig (copy_pos sig (npos c))); split; auto; discriminate.
Qed.
