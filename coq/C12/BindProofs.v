(* Property C12 (a): mypy's arity/keyword verdict = CPython's argument binding, on the fragment. *)
From Coq Require Import List Arith Bool PeanoNat Lia.
From C12 Require Import Bind.
Import ListNotations.

(* ------------------------------------------------------------------ keyword actuals of one formal *)

Section KW.
Variable p : nat -> bool.
Hypothesis p_unique : forall a b, p a = true -> p b = true -> a = b.

Lemma kw_filter_null : forall kws ai,
  null (filter (actual_named p) (kw_actuals ai kws)) = negb (existsb p kws).
Proof. induction kws; simpl; intros; auto. destruct (p a); simpl; auto. Qed.

Lemma kw_filter_none : forall kws ai, existsb p kws = false -> filter (actual_named p) (kw_actuals ai kws) = [].
Proof.
  induction kws; simpl; intros; auto. apply orb_false_elim in H. destruct H as [H1 H2].
  rewrite H1. auto.
Qed.

Lemma kw_filter_length : forall kws ai, NoDup kws ->
  length (filter (actual_named p) (kw_actuals ai kws)) = if existsb p kws then 1 else 0.
Proof.
  induction kws; simpl; intros ai ND; auto. inversion ND; subst.
  destruct (p a) eqn:E; simpl.
  - rewrite kw_filter_none; auto.
    destruct (existsb p kws) eqn:EX; auto. apply existsb_exists in EX. destruct EX as [x [Hx Px]].
    rewrite (p_unique _ _ E Px) in H1. tauto.
  - apply IHkws; auto.
Qed.

Lemma kw_filter_first : forall kws ai, first_is_positional (filter (actual_named p) (kw_actuals ai kws)) = false.
Proof. induction kws; simpl; intros; auto. destruct (p a); simpl; auto. Qed.
End KW.

Lemma named_by_unique : forall f a b, named_by f a = true -> named_by f b = true -> a = b.
Proof.
  unfold named_by. intros f a b. destruct (fname f); try discriminate. intros H1 H2.
  apply Nat.eqb_eq in H1. apply Nat.eqb_eq in H2. congruence.
Qed.

(* ------------------------------------------------------------------ mypy side = slots_ok *)

Lemma leftover_0 : forall formals, leftover formals 0 = 0.
Proof. destruct formals; auto. Qed.

Lemma mypy_core : forall all kws a0, NoDup kws -> forall formals ai n,
  (leftover formals n =? 0)
  && forallb2 (check_formal false) formals (attach all (kw_actuals a0 kws) formals (map_pos formals ai n))
  = slots_ok kws formals n.
Proof.
  intros all kws a0 ND. induction formals as [|f rest IH]; intros ai n.
  - simpl. rewrite andb_true_r. auto.
  - pose proof (kw_filter_null (named_by f) kws a0) as KN.
    pose proof (kw_filter_length (named_by f) (named_by_unique f) kws a0 ND) as KL.
    pose proof (kw_filter_first (named_by f) kws a0) as KF.
    destruct n as [|n'].
    + cbn [leftover map_pos attach forallb2 slots_ok Nat.pred].
      specialize (IH ai 0). rewrite leftover_0 in IH. cbn [Nat.eqb andb] in IH.
      set (X := forallb2 (check_formal false) rest _) in *. rewrite <- IH. clearbody X.
      unfold check_formal, kw_part. destruct (fkind f); cbn [is_required is_star is_named andb negb app Nat.eqb Nat.ltb];
        rewrite ?KN, ?KL, ?KF; destruct (existsb (named_by f) kws); destruct X; reflexivity.
    + destruct (fkind f) eqn:K; cbn [leftover map_pos attach forallb2 slots_ok Nat.pred]; rewrite ?K.
      * specialize (IH (S ai) n'). set (X := forallb2 (check_formal false) rest _) in *.
        set (L := leftover rest n' =? 0) in *. rewrite <- IH. clearbody X L.
        unfold check_formal, kw_part. rewrite K. cbn [is_required is_star is_named andb negb app null length first_is_positional Nat.eqb].
        rewrite ?KL. destruct (existsb (named_by f) kws); destruct X; destruct L; reflexivity.
      * specialize (IH (S ai) n'). set (X := forallb2 (check_formal false) rest _) in *.
        set (L := leftover rest n' =? 0) in *. rewrite <- IH. clearbody X L.
        unfold check_formal, kw_part. rewrite K. cbn [is_required is_star is_named andb negb app null length first_is_positional Nat.eqb Nat.ltb].
        rewrite ?KL. destruct (existsb (named_by f) kws); destruct X; destruct L; reflexivity.
      * specialize (IH (ai + S n') 0). rewrite leftover_0 in IH. cbn [Nat.eqb andb] in IH.
        set (X := forallb2 (check_formal false) rest _) in *. rewrite <- IH. clearbody X.
        unfold check_formal, kw_part. rewrite K. cbn [is_required is_star is_named andb negb]. reflexivity.
      * set (X := forallb2 (check_formal false) rest _). set (L := leftover rest n' =? 0). clearbody X L.
        unfold check_formal, kw_part. rewrite K. cbn [is_required is_star is_named andb negb app null length first_is_positional Nat.eqb].
        rewrite ?KL. destruct (existsb (named_by f) kws); destruct X; destruct L; reflexivity.
      * reflexivity.
      * set (X := forallb2 (check_formal false) rest _). set (L := leftover rest n' =? 0). clearbody X L.
        unfold check_formal, kw_part. rewrite K. cbn [is_required is_star is_named andb negb app null length first_is_positional Nat.eqb].
        rewrite ?KL. destruct (existsb (named_by f) kws); destruct X; destruct L; reflexivity.
Qed.

(* ------------------------------------------------------------------ CPython side = slots_ok *)

Lemma tail_argcount : forall fs, tail_kw fs = true -> co_argcount fs = 0.
Proof.
  induction fs as [|f rest IH]; auto. unfold co_argcount in *. simpl.
  destruct (fkind f) eqn:K; try discriminate; simpl; auto.
  destruct rest; auto; discriminate.
Qed.

Lemma tail_nostar : forall fs, tail_kw fs = true -> has_kind is_star1 fs = false.
Proof.
  induction fs as [|f rest IH]; auto. unfold has_kind in *. simpl.
  destruct (fkind f) eqn:K; try discriminate; simpl; auto.
  destruct rest; auto; discriminate.
Qed.

Lemma tail_slots : forall kws fs, tail_kw fs = true ->
  forall n, forallb2 (slot_cond kws) fs (copy_pos fs n) = slots_ok kws fs 0.
Proof.
  induction fs as [|f rest IH]; intros H n; auto. simpl in *.
  destruct (fkind f) eqn:K; try discriminate; cbn [is_positional forallb2]; unfold slot_cond at 1; rewrite K;
    cbn [is_star is_required negb andb orb Nat.eqb].
  - rewrite IH by auto. destruct (existsb (named_by f) kws); reflexivity.
  - destruct rest; try discriminate. reflexivity.
  - rewrite IH by auto. destruct (existsb (named_by f) kws); reflexivity.
Qed.

Lemma tail_reject : forall kws fs n, tail_kw fs = true -> slots_ok kws fs (S n) = false.
Proof. destruct fs as [|f rest]; intros n H; auto. simpl in *. destruct (fkind f); try discriminate; auto. Qed.

Lemma tail_full : forall kws fs, tail_kw fs = true -> forall n,
  negb ((co_argcount fs <? n) && negb (has_kind is_star1 fs)) && forallb2 (slot_cond kws) fs (copy_pos fs n)
  = slots_ok kws fs n.
Proof.
  intros kws fs H n. rewrite tail_argcount, tail_nostar, tail_slots by auto.
  destruct n; [reflexivity|]. rewrite tail_reject by auto. reflexivity.
Qed.

Lemma cp_core : forall kws fs, shape fs = true -> forall n,
  negb ((co_argcount fs <? n) && negb (has_kind is_star1 fs)) && forallb2 (slot_cond kws) fs (copy_pos fs n)
  = slots_ok kws fs n.
Proof.
  induction fs as [|f rest IH]; intros H n.
  - destruct n; reflexivity.
  - simpl in H. destruct (fkind f) eqn:K;
      try (apply tail_full; simpl; rewrite K; exact H).
    + (* ARG_POS *)
      specialize (IH H (Nat.pred n)).
      unfold co_argcount, has_kind in *. cbn [filter existsb copy_pos forallb2 slots_ok length]. rewrite K.
      cbn [is_positional is_star1 orb length]. rewrite <- IH.
      set (c := length (filter (fun f0 => is_positional (fkind f0)) rest)).
      set (h := existsb (fun f0 => is_star1 (fkind f0)) rest).
      set (X := forallb2 (slot_cond kws) rest _). clearbody c h X.
      unfold slot_cond. rewrite K. cbn [is_star is_required negb orb].
      replace (S c <? n) with (c <? Nat.pred n) by (destruct n; reflexivity).
      set (T := c <? Nat.pred n). clearbody T.
      destruct n; cbn [Nat.eqb Nat.ltb Nat.leb Nat.pred];
        destruct (existsb (named_by f) kws); destruct X; destruct h; destruct T; reflexivity.
    + (* ARG_OPT *)
      specialize (IH H (Nat.pred n)).
      unfold co_argcount, has_kind in *. cbn [filter existsb copy_pos forallb2 slots_ok length]. rewrite K.
      cbn [is_positional is_star1 orb length]. rewrite <- IH.
      set (c := length (filter (fun f0 => is_positional (fkind f0)) rest)).
      set (h := existsb (fun f0 => is_star1 (fkind f0)) rest).
      set (X := forallb2 (slot_cond kws) rest _). clearbody c h X.
      unfold slot_cond. rewrite K. cbn [is_star is_required negb orb].
      replace (S c <? n) with (c <? Nat.pred n) by (destruct n; reflexivity).
      set (T := c <? Nat.pred n). clearbody T.
      destruct n; cbn [Nat.eqb Nat.ltb Nat.leb Nat.pred];
        destruct (existsb (named_by f) kws); destruct X; destruct h; destruct T; reflexivity.
    + (* ARG_STAR *)
      unfold has_kind. cbn [existsb copy_pos forallb2 slots_ok]. rewrite K.
      cbn [is_positional is_star1 orb negb]. rewrite andb_false_r. cbn [negb andb].
      unfold slot_cond at 1. rewrite K. cbn [is_star andb]. apply tail_slots. exact H.
Qed.

(* ------------------------------------------------------------------ unexpected keyword *)

Lemma matched_agree : forall fs k, has_kind is_star2 fs = false -> name_matched fs k = kw_slot fs k.
Proof.
  unfold has_kind, name_matched, kw_slot. induction fs as [|f rest IH]; intros k H; auto. simpl in *.
  apply orb_false_elim in H. destruct H as [H1 H2]. rewrite IH by auto.
  destruct (fkind f); try discriminate; reflexivity.
Qed.

Lemma unexpected_agree : forall fs c,
  unexpected_keyword fs c = existsb (fun k => negb (kw_slot fs k) && negb (has_kind is_star2 fs)) (kws c).
Proof.
  intros fs c. unfold unexpected_keyword. induction (kws c) as [|k r IH]; auto. simpl. rewrite IH. f_equal.
  destruct (has_kind is_star2 fs) eqn:H.
  - rewrite orb_true_r, andb_false_r. reflexivity.
  - rewrite matched_agree by auto. rewrite orb_false_r, andb_true_r. reflexivity.
Qed.

(* ------------------------------------------------------------------ main result *)

Theorem arity_agrees : forall sig c, wf_sig sig -> determinate c ->
  (mypy_accepts sig c = true <-> cpython_bind sig c = BindOk).
Proof.
  intros sig c [SH _] ND. unfold mypy_accepts, cpython_bind, map_actuals_to_formals.
  rewrite <- unexpected_agree. destruct (unexpected_keyword sig c).
  - rewrite andb_false_r. simpl. split; discriminate.
  - cbn [negb]. rewrite andb_true_r. rewrite (mypy_core sig (kws c) (npos c) ND sig 0 (npos c)).
    rewrite <- (cp_core (kws c) sig SH (npos c)).
    destruct ((co_argcount sig <? npos c) && negb (has_kind is_star1 sig)); cbn [negb andb].
    + split; discriminate.
    + destruct (forallb2 (slot_cond (kws c)) sig (copy_pos sig (npos c))); split; auto; discriminate.
Qed.

(* ================================================================== star actuals *)

Definition kwish_named (p : nat -> bool) (a : actual_s) : bool :=
  match a with SKw _ k | STDKey _ k => p k | _ => false end.
Fixpoint names_s (l : list actual_s) : list nat :=
  match l with
  | [] => []
  | SKw _ k :: r | STDKey _ k :: r => k :: names_s r
  | _ :: r => names_s r
  end.

Section KWS.
Variable p : nat -> bool.
Hypothesis p_unique : forall a b, p a = true -> p b = true -> a = b.

Lemma kws_filter_null : forall l, null (filter (kwish_named p) l) = negb (existsb p (names_s l)).
Proof. induction l as [|a l IH]; simpl; auto. destruct a; simpl; auto; destruct (p name); simpl; auto. Qed.

Lemma kws_filter_none : forall l, existsb p (names_s l) = false -> filter (kwish_named p) l = [].
Proof.
  induction l as [|a l IH]; simpl; intros H; auto.
  destruct a; simpl in *; auto; apply orb_false_elim in H; destruct H as [H1 H2]; rewrite H1; auto.
Qed.

Lemma kws_filter_length : forall l, NoDup (names_s l) ->
  length (filter (kwish_named p) l) = if existsb p (names_s l) then 1 else 0.
Proof.
  induction l as [|a l IH]; simpl; intros ND; auto.
  destruct a; simpl in *; auto; inversion ND; subst; destruct (p name) eqn:E; simpl; auto;
    rewrite kws_filter_none; auto;
    destruct (existsb p (names_s l)) eqn:EX; auto; apply existsb_exists in EX; destruct EX as [x [Hx Px]];
    rewrite (p_unique _ _ E Px) in H1; tauto.
Qed.

Lemma kws_filter_first : forall l, first_positional_s (filter (kwish_named p) l) = false.
Proof. induction l as [|a l IH]; simpl; auto. destruct a; simpl; auto; destruct (p name); simpl; auto. Qed.
End KWS.

Lemma entry_for_nonstar : forall all f, is_star (fkind f) = false ->
  forall l, filter (entry_for all f) l = filter (kwish_named (named_by f)) l.
Proof.
  intros all f H l. apply filter_ext. intros a. unfold entry_for, kwish_named.
  destruct a; auto; destruct (fkind f); try discriminate; reflexivity.
Qed.

Lemma length_one_lt : forall (c : bool), (1 <? S (if c then 1 else 0)) = c.
Proof. destruct c; reflexivity. Qed.

(* per formal: the star-aware check on [positional head] ++ keyword part, given the pair is not exempt *)
Definition posish (a : actual_s) : bool := match a with SPos _ | SStarItem _ => true | _ => false end.

Lemma mypy_core_s : forall all kwa, NoDup (names_s kwa) -> forall formals flat,
  forallb posish flat = true ->
  forallb2 (fun f m => is_star (fkind f) || negb (exempt_pair m)) formals (attach_s all kwa formals (map_pos_s formals flat)) = true ->
  null (leftover_s formals flat)
  && forallb2 (check_formal_s false) formals (attach_s all kwa formals (map_pos_s formals flat))
  = slots_ok (names_s kwa) formals (length flat).
Proof.
  intros all kwa ND. induction formals as [|f rest IH]; intros flat HP HX.
  - simpl. destruct flat; reflexivity.
  - pose proof (kws_filter_null (named_by f) kwa) as KN.
    pose proof (kws_filter_length (named_by f) (named_by_unique f) kwa ND) as KL.
    pose proof (kws_filter_first (named_by f) kwa) as KF.
    destruct flat as [|h t].
    + cbn [leftover_s map_pos_s attach_s forallb2 slots_ok Nat.pred length] in *.
      apply andb_prop in HX. destruct HX as [_ HX]. specialize (IH [] eq_refl HX).
      assert (L0 : leftover_s rest [] = []) by (destruct rest; reflexivity). rewrite L0 in IH. cbn [null andb length] in IH.
      set (X := forallb2 (check_formal_s false) rest _) in *. rewrite <- IH. clearbody X.
      unfold check_formal_s, is_duplicate_mapping. cbn [app].
      destruct (fkind f) eqn:K; cbn [is_required is_star is_named andb negb Nat.eqb Nat.ltb null];
        try (rewrite (entry_for_nonstar all f) by (rewrite K; reflexivity); rewrite ?KN, ?KL, ?KF;
             destruct (existsb (named_by f) (names_s kwa)); destruct X; reflexivity);
        destruct X; reflexivity.
    + simpl in HP. apply andb_prop in HP. destruct HP as [Hh Ht].
      destruct (fkind f) eqn:K; cbn [leftover_s map_pos_s attach_s forallb2 slots_ok Nat.pred length] in *; rewrite ?K in *;
        apply andb_prop in HX; destruct HX as [HH HX].
      * specialize (IH t Ht HX). set (X := forallb2 (check_formal_s false) rest _) in *.
        set (L := null (leftover_s rest t)) in *. rewrite <- IH. clearbody X L.
        try rewrite K in HH. cbn [is_star orb app] in HH.
        unfold check_formal_s, is_duplicate_mapping. cbn [app]. rewrite K, HH. cbn [is_required is_star is_named andb negb app null length Nat.eqb].
        rewrite (entry_for_nonstar all f) by (rewrite K; reflexivity). rewrite KL, length_one_lt.
        destruct (existsb (named_by f) (names_s kwa)); destruct X; destruct L; reflexivity.
      * specialize (IH t Ht HX). set (X := forallb2 (check_formal_s false) rest _) in *.
        set (L := null (leftover_s rest t)) in *. rewrite <- IH. clearbody X L.
        try rewrite K in HH. cbn [is_star orb app] in HH.
        unfold check_formal_s, is_duplicate_mapping. cbn [app]. rewrite K, HH. cbn [is_required is_star is_named andb negb app null length Nat.eqb Nat.ltb].
        rewrite (entry_for_nonstar all f) by (rewrite K; reflexivity). rewrite KL, length_one_lt.
        destruct (existsb (named_by f) (names_s kwa)); destruct X; destruct L; reflexivity.
      * specialize (IH [] eq_refl HX).
        assert (L0 : leftover_s rest [] = []) by (destruct rest; reflexivity). rewrite L0 in IH. cbn [null andb length] in IH.
        set (X := forallb2 (check_formal_s false) rest _) in *. rewrite <- IH. clearbody X.
        unfold check_formal_s. rewrite K. cbn [is_required is_star is_named andb negb null]. reflexivity.
      * set (X := forallb2 (check_formal_s false) rest _). set (L := null (leftover_s rest t)). clearbody X L.
        try rewrite K in HH. cbn [is_star orb app] in HH.
        unfold check_formal_s, is_duplicate_mapping. cbn [app]. rewrite K, HH. cbn [is_required is_star is_named andb negb app null length Nat.eqb].
        rewrite (entry_for_nonstar all f) by (rewrite K; reflexivity). rewrite KL, length_one_lt.
        destruct h; try discriminate Hh; cbn [first_positional_s]; destruct (existsb (named_by f) (names_s kwa)); destruct X; destruct L; reflexivity.
      * reflexivity.
      * set (X := forallb2 (check_formal_s false) rest _). set (L := null (leftover_s rest t)). clearbody X L.
        try rewrite K in HH. cbn [is_star orb app] in HH.
        unfold check_formal_s, is_duplicate_mapping. cbn [app]. rewrite K, HH. cbn [is_required is_star is_named andb negb app null length Nat.eqb].
        rewrite (entry_for_nonstar all f) by (rewrite K; reflexivity). rewrite KL, length_one_lt.
        destruct h; try discriminate Hh; cbn [first_positional_s]; destruct (existsb (named_by f) (names_s kwa)); destruct X; destruct L; reflexivity.
Qed.

Lemma names_s_app : forall l1 l2, names_s (l1 ++ l2) = names_s l1 ++ names_s l2.
Proof. induction l1 as [|a l1 IH]; simpl; intros; auto. destruct a; simpl; rewrite ?IH; auto. Qed.

Lemma names_s_tdkeys : forall ai keys, names_s (map (STDKey ai) keys) = keys.
Proof. induction keys; simpl; auto. rewrite IHkeys. auto. Qed.

Lemma names_kw_entries : forall ks ai, names_s (kw_entries ai ks) = kws_of ks.
Proof.
  induction ks as [|k ks IH]; intros ai; simpl; auto. destruct k; simpl.
  - rewrite IH. auto.
  - rewrite names_s_app, names_s_tdkeys, IH. auto.
Qed.

Lemma forallb_repeat_posish : forall i n, forallb posish (repeat (SStarItem i) n) = true.
Proof. induction n; simpl; auto. Qed.

Lemma flatten_posish : forall ps ai, forallb posish (flatten ai ps) = true.
Proof.
  induction ps as [|p ps IH]; intros ai; simpl; auto. destruct p; simpl; auto.
  rewrite forallb_app, forallb_repeat_posish, IH. auto.
Qed.

Lemma flatten_length : forall ps ai, length (flatten ai ps) = npos_of ps.
Proof.
  induction ps as [|p ps IH]; intros ai; simpl; auto. destruct p; simpl.
  - rewrite IH. auto.
  - rewrite app_length, repeat_length, IH. auto.
Qed.

Lemma has_dup_kw_nodup : forall l, has_dup_kw l = false -> NoDup l.
Proof.
  induction l as [|x l IH]; simpl; intros H; [constructor|].
  apply orb_false_elim in H. destruct H as [H1 H2]. constructor; auto.
  intros C. assert (existsb (Nat.eqb x) l = true) by (apply existsb_exists; exists x; split; auto; apply Nat.eqb_refl).
  congruence.
Qed.

(* ---- extra positional values *)
Lemma leftover_star_nil : forall fs flat, shape fs = true -> has_kind is_star1 fs = true -> leftover_s fs flat = [].
Proof.
  unfold has_kind. induction fs as [|f rest IH]; intros flat SH HS; [discriminate|].
  simpl in *. destruct flat as [|h t]; auto.
  destruct (fkind f) eqn:K; simpl in *; auto.
  - pose proof (tail_nostar _ SH) as T. unfold has_kind in T. congruence.
  - destruct rest; discriminate.
  - pose proof (tail_nostar _ SH) as T. unfold has_kind in T. congruence.
Qed.

Lemma leftover_posish : forall fs flat, forallb posish flat = true -> forallb posish (leftover_s fs flat) = true.
Proof.
  induction fs as [|f rest IH]; intros flat H; simpl; auto.
  destruct flat as [|h t]; auto. simpl in H. apply andb_prop in H. destruct H as [Hh Ht].
  destruct (fkind f); auto; simpl; rewrite ?Hh, ?Ht; auto.
Qed.

Lemma extra_positional_spec : forall fs flat, shape fs = true -> forallb posish flat = true ->
  extra_positional fs flat = negb (null (leftover_s fs flat)).
Proof.
  intros fs flat SH HP. unfold extra_positional.
  destruct (has_kind is_star1 fs) eqn:HS.
  - rewrite leftover_star_nil by auto. reflexivity.
  - pose proof (leftover_posish fs flat HP) as LP. destruct (leftover_s fs flat) as [|a lo]; auto.
    simpl in LP. apply andb_prop in LP. destruct LP as [Ha _]. simpl. destruct a; try discriminate; reflexivity.
Qed.

(* ---- unexpected keyword / extra TypedDict key *)
Lemma name_in_matched : forall fs k,
  existsb (fun f => named_by f k && is_star1 (fkind f)) fs = false -> name_in fs k = name_matched fs k.
Proof.
  unfold name_in, name_matched. induction fs as [|f rest IH]; intros k H; auto. simpl in *.
  apply orb_false_elim in H. destruct H as [H1 H2]. rewrite IH by auto.
  destruct (named_by f k); simpl in *; auto. rewrite H1. reflexivity.
Qed.

Lemma unexpected_s_star2 : forall fs kwa, has_kind is_star2 fs = true -> unexpected_s fs kwa = false.
Proof.
  intros fs kwa H. unfold unexpected_s. induction kwa as [|a l IH]; simpl; auto.
  rewrite IH, H. destruct a; simpl; rewrite ?orb_true_r; auto.
Qed.

Lemma unexpected_plain_star2 : forall fs c, has_kind is_star2 fs = true -> unexpected_keyword fs c = false.
Proof.
  intros fs c H. unfold unexpected_keyword. induction (kws c) as [|a l IH]; simpl; auto.
  rewrite IH, H, orb_true_r. auto.
Qed.

Lemma unexpected_s_agree : forall fs, has_kind is_star2 fs = false -> forall ks ai,
  forallb (fun k => negb (existsb (fun f => named_by f k && is_star1 (fkind f)) fs)) (tdkeys_of ks) = true ->
  unexpected_s fs (kw_entries ai ks)
  = existsb (fun k => negb (name_matched fs k || has_kind is_star2 fs)) (kws_of ks).
Proof.
  intros fs H2. unfold unexpected_s. induction ks as [|k ks IH]; intros ai HL; auto.
  destruct k as [n|keys]; simpl in *.
  - rewrite IH by auto. reflexivity.
  - rewrite forallb_app in HL. apply andb_prop in HL. destruct HL as [HK HR].
    rewrite !existsb_app, IH by auto. f_equal.
    clear IH HR. induction keys as [|x keys IHk]; simpl in *; auto.
    apply andb_prop in HK. destruct HK as [Hx HK]. rewrite IHk by auto.
    rewrite name_in_matched; auto. destruct (existsb _ fs); auto; discriminate.
Qed.

(* ---- the verdicts as slots_ok *)
Lemma mypy_accepts_slots : forall sig c, NoDup (kws c) ->
  mypy_accepts sig c = negb (unexpected_keyword sig c) && slots_ok (kws c) sig (npos c).
Proof.
  intros sig c ND. unfold mypy_accepts, map_actuals_to_formals. destruct (unexpected_keyword sig c).
  - rewrite andb_false_r. reflexivity.
  - cbn [negb]. rewrite andb_true_r. apply mypy_core. auto.
Qed.

Lemma mypy_accepts_s_expand : forall sig c, shape sig = true -> plain_like sig c = true ->
  mypy_accepts_s sig c = mypy_accepts sig (expand c).
Proof.
  intros sig c SH PL. unfold plain_like in PL. apply andb_prop in PL. destruct PL as [PL L3].
  apply andb_prop in PL. destruct PL as [L1 L2].
  unfold no_L3 in L3. assert (D : has_dup_kw (kws_of (kitems c)) = false) by (destruct (has_dup_kw _); auto; discriminate).
  pose proof (has_dup_kw_nodup _ D) as ND.
  rewrite mypy_accepts_slots by exact ND.
  unfold mypy_accepts_s, map_actuals_to_formals_s, no_L2, map_actuals_to_formals_s in *.
  assert (U : unexpected_s sig (kw_entries (length (pitems c)) (kitems c)) = unexpected_keyword sig (expand c)).
  { unfold no_L1 in L1. destruct (has_kind is_star2 sig) eqn:H2.
    - rewrite unexpected_s_star2, unexpected_plain_star2; auto.
    - simpl in L1. rewrite unexpected_s_agree; auto. }
  rewrite U. destruct (unexpected_keyword sig (expand c)).
  - rewrite andb_false_r. reflexivity.
  - cbn [negb]. rewrite andb_true_r.
    rewrite extra_positional_spec by (auto using flatten_posish). rewrite negb_involutive.
    rewrite mypy_core_s.
    + rewrite names_kw_entries, flatten_length. reflexivity.
    + rewrite names_kw_entries. exact ND.
    + apply flatten_posish.
    + exact L2.
Qed.

Theorem arity_agrees_star : forall sig c, wf_sig sig -> plain_like sig c = true ->
  (mypy_accepts_s sig c = true <-> cpython_bind_s sig c = BindOk).
Proof.
  intros sig c WF PL. rewrite (mypy_accepts_s_expand sig c (proj1 WF) PL).
  unfold cpython_bind_s. unfold plain_like in PL. apply andb_prop in PL. destruct PL as [_ L3].
  unfold no_L3 in L3. destruct (has_dup_kw (kws_of (kitems c))) eqn:D; [discriminate|].
  apply arity_agrees; auto. unfold determinate. simpl. apply has_dup_kw_nodup. exact D.
Qed.

(* the three leniency classes are real: mypy's rule accepts, CPython's binding raises *)
Theorem arity_star_refuted_L1 : exists sig c, wf_sig sig /\ no_L2 sig c = true /\ no_L3 c = true /\
  mypy_accepts_s sig c = true /\ cpython_bind_s sig c = TypeError.
Proof.
  exists [mkF ARG_STAR (Some 6)], (mkCallS [] [KTD [6]]).
  repeat split; try (vm_compute; reflexivity). simpl. repeat constructor; simpl; tauto.
Qed.
Theorem arity_star_refuted_L2 : exists sig c, wf_sig sig /\ no_L1 sig c = true /\ no_L3 c = true /\
  mypy_accepts_s sig c = true /\ cpython_bind_s sig c = TypeError.
Proof.
  exists [mkF ARG_POS (Some 1)], (mkCallS [PStar 1] [KTD [1]]).
  repeat split; try (vm_compute; reflexivity). simpl. repeat constructor; simpl; tauto.
Qed.
Theorem arity_star_refuted_L3 : exists sig c, wf_sig sig /\ no_L1 sig c = true /\ no_L2 sig c = true /\
  mypy_accepts_s sig c = true /\ cpython_bind_s sig c = TypeError.
Proof.
  exists [mkF ARG_STAR2 (Some 7)], (mkCallS [] [KName 9; KTD [9]]).
  repeat split; try (vm_compute; reflexivity). simpl. repeat constructor; simpl; tauto.
Qed.
