(* SPECIFICATIONS of the decision cores of mypy/reachability.py (consider_sys_version_info after the AST
   has been destructured, the and/or/not tables of infer_condition_value, consider_sys_platform) in the
   form the proofs use, plus the run-time meaning of the same tests.  The functions themselves are
   REGENERATED from the source into Gen.Reach (consider_core, reverse_op, inverted_truth_mapping,
   infer_op_table, platform_cmp_core, platform_startswith_core, fixed_comparison, the constants);
   ProofsGenReach proves the generated functions equal to the definitions below for every input. *)
From Coq Require Import ZArith List String Bool Lia.
From C12 Require Import PyRules.
From Gen Require Import Reach.
Import ListNotations.
Open Scope Z_scope.

(* vidx / thing: PyRules (shared with the generated Gen.Reach) *)

Definition is_eq_op (op : string) : bool := String.eqb op "==" || String.eqb op "!=".
Definition known_op (op : string) : bool :=
  String.eqb op "==" || String.eqb op "!=" || String.eqb op "<=" || String.eqb op ">=" ||
  String.eqb op "<" || String.eqb op ">".

Definition opt_default (o : option Z) (d : Z) : Z := match o with Some v => v | None => d end.

(* pyversion is always a pair (options.python_version) *)
Definition consider (major minor : Z) (idx : vidx) (op : string) (th : thing) : Z :=
  if negb (known_op op) then TRUTH_VALUE_UNKNOWN else
  match idx, th with
  | IdxInt index, ThInt k =>
      if (0 <=? index) && (index <=? 1)
      then fixed_comparison Z Z.compare (if index =? 0 then major else minor) op k
      else TRUTH_VALUE_UNKNOWN
  | IdxSlice lo hi, ThTuple t =>
      let lo := opt_default lo 0 in
      let hi := opt_default hi 2 in
      if (0 <=? lo) && (lo <? hi) && (hi <=? 2) then
        let val := py_slice [major; minor] lo hi in
        let lv := Z.of_nat (List.length val) in let lth := Z.of_nat (List.length t) in
        if (lv =? lth) || ((lv >? lth) && negb (is_eq_op op))
        then fixed_comparison (list Z) tuple_cmp val op t
        else TRUTH_VALUE_UNKNOWN
      else TRUTH_VALUE_UNKNOWN
  | _, _ => TRUTH_VALUE_UNKNOWN
  end.

(* ---- run time: sys.version_info is the 5-tuple (major, minor, micro, releaselevel, serial).
   Only int components can be compared with the int literals; mypy never answers when more than
   two components would be inspected, so releaselevel is represented by an arbitrary Z `lvl`
   that no theorem below depends on. *)
Definition vinfo (major minor micro lvl serial : Z) : list Z := [major; minor; micro; lvl; serial].

Definition runtime_test (vi : list Z) (idx : vidx) (op : string) (th : thing) : option bool :=
  match idx, th with
  | IdxInt index, ThInt k =>
      if (0 <=? index) && (index <? Z.of_nat (List.length vi))
      then py_cmp_op op (Z.compare (nth (Z.to_nat index) vi 0) k) else None
  | IdxSlice lo hi, ThTuple t =>
      let lo := opt_default lo 0 in
      let hi := opt_default hi (Z.of_nat (List.length vi)) in
      if (0 <=? lo) && (0 <=? hi) then py_cmp_op op (tuple_cmp (py_slice vi lo hi) t)
      else None
  | _, _ => None   (* int vs tuple: ordering raises TypeError; out of the modelled forms *)
  end.

(* the same test written with the operands the other way round:  <literal> <op> sys.version_info[...] *)
Definition runtime_test_flipped (vi : list Z) (idx : vidx) (op : string) (th : thing) : option bool :=
  match idx, th with
  | IdxInt index, ThInt k =>
      if (0 <=? index) && (index <? Z.of_nat (List.length vi))
      then py_cmp_op op (Z.compare k (nth (Z.to_nat index) vi 0)) else None
  | IdxSlice lo hi, ThTuple t =>
      let lo := opt_default lo 0 in
      let hi := opt_default hi (Z.of_nat (List.length vi)) in
      if (0 <=? lo) && (0 <=? hi) then py_cmp_op op (tuple_cmp t (py_slice vi lo hi))
      else None
  | _, _ => None
  end.

Definition truth_bool (v : Z) : option bool :=
  if v =? ALWAYS_TRUE then Some true else if v =? ALWAYS_FALSE then Some false else None.

(* the exact class of tests mypy gets wrong (finding F5): open-ended slice / bare version_info
   whose literal equals the target prefix, with an operator that depends on the extra
   components *)
Definition f5_class (major minor : Z) (idx : vidx) (op : string) (th : thing) : bool :=
  match idx, th with
  | IdxSlice lo None, ThTuple t =>
      let lo := opt_default lo 0 in
      (0 <=? lo) && (lo <? 2) &&
      cmp_eq (tuple_cmp (py_slice [major; minor] lo 2) t) &&
      (String.eqb op "==" || String.eqb op "!=" || String.eqb op ">" || String.eqb op "<=")
  | _, _ => false
  end.

(* ---- sys.platform *)
Definition consider_platform_cmp (platform : string) (op : string) (lit : string) : Z :=
  if negb (is_eq_op op) then TRUTH_VALUE_UNKNOWN
  else fixed_comparison string String.compare platform op lit.

(* ---- and / or / not table of infer_condition_value (hand model; finite, exhaustively tied) *)
Definition inverted (v : Z) : Z :=
  if v =? ALWAYS_TRUE then ALWAYS_FALSE else if v =? ALWAYS_FALSE then ALWAYS_TRUE
  else if v =? MYPY_TRUE then MYPY_FALSE else if v =? MYPY_FALSE then MYPY_TRUE else TRUTH_VALUE_UNKNOWN.

Definition mem2 (x a b : Z) : bool := (x =? a) || (x =? b).
Definition or_table (l r : Z) : Z :=
  if mem2 ALWAYS_TRUE l r then ALWAYS_TRUE
  else if mem2 MYPY_TRUE l r then MYPY_TRUE
  else if (l =? MYPY_FALSE) && (r =? MYPY_FALSE) then MYPY_FALSE
  else if mem2 l ALWAYS_FALSE MYPY_FALSE && mem2 r ALWAYS_FALSE MYPY_FALSE then ALWAYS_FALSE
  else TRUTH_VALUE_UNKNOWN.
Definition and_table (l r : Z) : Z :=
  if mem2 ALWAYS_FALSE l r then ALWAYS_FALSE
  else if mem2 MYPY_FALSE l r then MYPY_FALSE
  else if (l =? ALWAYS_TRUE) && (r =? ALWAYS_TRUE) then ALWAYS_TRUE
  else if mem2 l ALWAYS_TRUE MYPY_TRUE && mem2 r ALWAYS_TRUE MYPY_TRUE then MYPY_TRUE
  else TRUTH_VALUE_UNKNOWN.

(* what mypy does with a truth value: take the branch, skip it, or check both *)
Definition static_truth (v : Z) : option bool :=
  if mem2 v ALWAYS_TRUE MYPY_TRUE then Some true
  else if mem2 v ALWAYS_FALSE MYPY_FALSE then Some false else None.
