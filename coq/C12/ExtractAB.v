From Coq Require Import List Arith Bool Extraction ExtrOcamlBasic.
From C12 Require Import Mro Bind.
Extraction "c12ab.ml" mypy_mro cpython_mro wf_tableb merge pmerge
  mypy_accepts cpython_bind map_actuals_to_formals shape
  mypy_accepts_s cpython_bind_s map_actuals_to_formals_s plain_like no_L1 no_L2 no_L3 idx.
