(* Full-strength statements of property C12 (a) call binding and (b) MRO over the models. *)
From Coq Require Import List Arith Bool.
From C12 Require Import Mro.
Import ListNotations.

(* (b) the MRO mypy computes for a class equals the run-time __mro__, and mypy rejects the class for an
   inconsistent hierarchy exactly when class creation fails — for every class table whose bases name
   earlier, pairwise distinct classes (any number of classes, any number of bases). *)
Definition mro_agrees : Prop :=
  forall table c, wf_table table -> mypy_mro table c = cpython_mro table c.
Definition mro_rejection_agrees : Prop :=
  forall table c, wf_table table -> (mypy_mro table c = Fail <-> cpython_mro table c = Fail).

(* (a) a call is rejected by mypy for arity/keyword reasons iff CPython raises TypeError when binding
   those arguments to that signature.  Full strength: every actual form (positional, keyword, *tuple of
   known length, **TypedDict with known required keys).  Proved (PropertiesAB.arity_agrees) for the
   fragment `call` = positional + keyword actuals, any number of parameters and arguments; the star
   forms are not modelled (arity_agrees is therefore partial w.r.t. the property text). *)
From C12 Require Import Bind.
Definition arity_agrees_pos_kw : Prop :=
  forall sig c, wf_sig sig -> determinate c -> (mypy_accepts sig c = true <-> cpython_bind sig c = BindOk).

(* (a) full strength over star actuals of known shape.  FALSE on the current tree: PropertiesAB.arity_star_refuted_L1/L2/L3;
   proved instead: PropertiesAB.arity_agrees_star (the iff for every call outside the three leniency classes).
   Not represented: *iterable of unknown length, **dict of unknown keys (indeterminate), and NotRequired TypedDict keys
   being absent at run time (the outcome then depends on the run-time dict; mypy maps them as if present). *)
Definition arity_agrees_star_full : Prop :=
  forall sig c, wf_sig sig ->
    (mypy_accepts_s sig c = true <-> cpython_bind_s sig c = BindOk).
