(* Full-strength statements of property C12 (c)/(d) over the model, always visible. *)
From Coq Require Import ZArith List String Bool.
From C12 Require Import PyRules Version.
From Gen Require Import ConstFold Reach.
Open Scope Z_scope.

Definition always (b : bool) : Z := if b then ALWAYS_TRUE else ALWAYS_FALSE.

(* every statically decided version test has, for every interpreter of the target version,
   the value mypy gave it *)
Definition version_test_correct : Prop :=
  forall major minor micro lvl serial idx op th b,
    consider major minor idx op th = always b ->
    runtime_test (vinfo major minor micro lvl serial) idx op th = Some b.
(* FALSE on the current tree (Properties.version_test_refuted); proved instead:
   version_test_exact / version_test_correct_partial. *)

Definition fold_correct : Prop :=
  forall op l r v, constant_fold_binary_int_op op l r = Folded v <-> py_int_binop op l r = Some (ROk v).
Definition fold_total : Prop :=
  forall op l r e, constant_fold_binary_int_op op l r <> Crash e.

(* the float folding code never raises: proved (Properties.fold_float_never_raises) since the fix of F7
   (`X: Final = 10**400 + 1.0` used to be an INTERNAL ERROR: OverflowError of the int -> float conversion) *)
Definition fold_float_total : Prop :=
  forall fo op l r e, pow_contract fo -> constant_fold_binary_float_op fo op l r <> Crash e.
(* `**` on floats is folded conservatively (0.0 ** 2.0 and (-2.0) ** 2.0 are not folded although CPython computes them):
   only soundness (fold_float_sound) and absence of exceptions are claimed for it, not exactness. *)
