From Coq Require Import ZArith List String Bool Lia.
From C12 Require Import PyRules Version Proofs ProofsVersion ProofsGenReach Cond.
From Gen Require Import Reach.
Open Scope Z_scope.

Fixpoint leaves_sound (e : cexpr) : Prop :=
  match e with
  | CLeaf v x => tv v /\ sem v x
  | CNot e => leaves_sound e
  | COp _ l r => leaves_sound l /\ leaves_sound r
  end.

Lemma tv_truth_value : forall v, tv v <-> truth_value v.
Proof. intros; unfold tv, truth_value; tauto. Qed.

Lemma tv_inverted : forall v, tv v -> tv (inverted v).
Proof. intros v [->|[->|[->|[->| ->]]]]; vm_compute; tauto. Qed.
Lemma tv_or : forall l r, tv l -> tv r -> tv (or_table l r).
Proof.
  intros l r Hl Hr. destruct Hl as [->|[->|[->|[->| ->]]]], Hr as [->|[->|[->|[->| ->]]]]; vm_compute; tauto.
Qed.
Lemma tv_and : forall l r, tv l -> tv r -> tv (and_table l r).
Proof.
  intros l r Hl Hr. destruct Hl as [->|[->|[->|[->| ->]]]], Hr as [->|[->|[->|[->| ->]]]]; vm_compute; tauto.
Qed.

Lemma sem_unknown : forall x, sem TRUTH_VALUE_UNKNOWN x.
Proof. intros. vm_compute. exact I. Qed.

(* for every nesting depth: no KeyError, the result is a truth value, and it is a correct verdict for the
   boolean the nested condition denotes *)
Theorem infer_condition_value_compositional : forall e, leaves_sound e ->
  exists v, infer_cond e = Some v /\ tv v /\ sem v (eval_cond e).
Proof.
  induction e as [v x|e IH|op l IHl r IHr]; simpl; intros H.
  - exists v. tauto.
  - destruct (IH H) as [p [E [T S]]]. rewrite E.
    rewrite (inverted_truth_mapping_eq p) by (apply tv_truth_value; exact T).
    exists (inverted p). split; [reflexivity|]. split; [apply tv_inverted; exact T | apply not_table_sound; assumption].
  - destruct H as [Hl Hr]. destruct (IHl Hl) as [a [Ea [Ta Sa]]]. destruct (IHr Hr) as [b [Eb [Tb Sb]]].
    rewrite Ea, Eb. eexists. split; [reflexivity|].
    destruct (String.eqb_spec op "or") as [->|N1].
    + rewrite infer_op_table_or. split; [apply tv_or | apply or_table_sound]; assumption.
    + destruct (String.eqb_spec op "and") as [->|N2].
      * rewrite infer_op_table_and. split; [apply tv_and | apply and_table_sound]; assumption.
      * rewrite infer_op_table_other by assumption. split; [unfold tv; tauto | apply sem_unknown].
Qed.

(* consequence: when mypy takes or skips a branch on a nested condition, that is the branch the condition selects *)
Corollary nested_condition_decided_correctly : forall e v b, leaves_sound e ->
  infer_cond e = Some v -> static_truth v = Some b -> eval_cond e = b.
Proof.
  intros e v b H E S. destruct (infer_condition_value_compositional e H) as [v' [E' [_ S']]].
  rewrite E in E'. inversion E'; subst v'. unfold sem in S'. rewrite S in S'. auto.
Qed.
