(* Nested conditions: the recursion skeleton of mypy/reachability.py infer_condition_value over `not`, `and`, `or`
   (t12 checks the source text of the `not` branch and of the OpExpr prologue literally), composed from the tables
   REGENERATED into Gen.Reach (inverted_truth_mapping, infer_op_table).  A leaf is any other expression: its
   inferred truth value v (name rules, sys.version_info / sys.platform tests, ...) and the value x the condition has
   for mypy's purposes. *)
From Coq Require Import ZArith List String Bool.
From C12 Require Import PyRules.
From Gen Require Import Reach.
Open Scope Z_scope.

Inductive cexpr := CLeaf (v : Z) (x : bool) | CNot (e : cexpr) | COp (op : string) (l r : cexpr).

(* None = KeyError from inverted_truth_mapping[positive] *)
Fixpoint infer_cond (e : cexpr) : option Z :=
  match e with
  | CLeaf v _ => Some v
  | CNot e => match infer_cond e with Some positive => inverted_truth_mapping positive | None => None end
  | COp op l r =>
      match infer_cond l, infer_cond r with
      | Some vl, Some vr => Some (infer_op_table op vl vr)
      | _, _ => None
      end
  end.

(* the boolean the condition denotes (operators other than and/or: arbitrary, mypy answers UNKNOWN for them) *)
Fixpoint eval_cond (e : cexpr) : bool :=
  match e with
  | CLeaf _ x => x
  | CNot e => negb (eval_cond e)
  | COp op l r =>
      if String.eqb op "or" then eval_cond l || eval_cond r
      else if String.eqb op "and" then eval_cond l && eval_cond r
      else false
  end.
