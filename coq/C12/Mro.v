(* Property C12 (b): method resolution order.
   Two algorithms, transcribed separately (executable definitions only, no proofs):
     - mypy/mro.py  `merge`, `linearize_hierarchy`  (lists with deletion, empties filtered)
     - CPython Objects/typeobject.c  `tail_contains`, `pmerge`, `mro_implementation`
       (immutable tuples + the `remain` index array), classes created in textual order.
   A class table is `list (list nat)`: entry c = the declared direct bases of class c; class 0 is
   `object`.  Classes are compared by identity (`is` / pointer ==) = equality of the index. *)
From Coq Require Import List Arith Bool PeanoNat.
Import ListNotations.

Inductive res (A : Type) : Type := Ok (a : A) | Fail | OutOfFuel.
Arguments Ok {A} a.
Arguments Fail {A}.
Arguments OutOfFuel {A}.

Definition rmap {A B} (f : A -> B) (r : res A) : res B :=
  match r with Ok a => Ok (f a) | Fail => Fail | OutOfFuel => OutOfFuel end.

(* `for x in l: ys.append(f(x))` where f may raise: the first failure escapes *)
Fixpoint mapM {A B} (f : A -> res B) (l : list A) : res (list B) :=
  match l with
  | [] => Ok []
  | x :: t =>
      match f x with
      | Ok y => match mapM f t with Ok ys => Ok (y :: ys) | Fail => Fail | OutOfFuel => OutOfFuel end
      | Fail => Fail
      | OutOfFuel => OutOfFuel
      end
  end.

Definition object_id : nat := 0.

(* ------------------------------------------------------------------ mypy/mro.py *)

Definition nonempty (s : list nat) : bool := match s with [] => false | _ :: _ => true end.

(* `head in s[1:]` *)
Definition in_tail (head : nat) (s : list nat) : bool := existsb (Nat.eqb head) (tl s).

(* for seq in seqs: head = seq[0]; if not [s for s in seqs if head in s[1:]]: break
   else: raise MroError()
   (the [] case cannot occur: seqs has just been filtered; `seq[0]` would be an IndexError) *)
Fixpoint find_head (cands all : list (list nat)) : option nat :=
  match cands with
  | [] => None
  | [] :: rest => find_head rest all
  | (head :: _) :: rest => if existsb (in_tail head) all then find_head rest all else Some head
  end.

(* if s[0] is head: del s[0] *)
Definition del_head (head : nat) (s : list nat) : list nat :=
  match s with [] => [] | x :: t => if Nat.eqb x head then t else s end.

(* while True: ...   one unit of fuel per iteration *)
Fixpoint merge_fuel (fuel : nat) (seqs : list (list nat)) (result : list nat) : res (list nat) :=
  match fuel with
  | O => OutOfFuel
  | S f =>
      let seqs := filter nonempty seqs in                 (* seqs = [s for s in seqs if s] *)
      match seqs with
      | [] => Ok result                                   (* if not seqs: return result *)
      | _ :: _ =>
          match find_head seqs seqs with
          | None => Fail                                  (* raise MroError() *)
          | Some head => merge_fuel f (map (del_head head) seqs) (result ++ [head])
          end
      end
  end.

(* fuel = total remaining length + 1 (MroProofs.merge_fuel_enough: never OutOfFuel) *)
Definition merge (seqs : list (list nat)) : res (list nat) :=
  merge_fuel (S (length (concat seqs))) seqs [].

(* bases = info.direct_base_classes()
   if not bases and info.fullname != "builtins.object" and obj_type is not None: bases = [object] *)
Definition direct_bases (c : nat) (declared : list nat) : list nat :=
  match declared with
  | [] => if Nat.eqb c object_id then [] else [object_id]
  | _ :: _ => declared
  end.

(* linearize_hierarchy (no cached info.mro): recursion on the bases, one unit of fuel per level.
   A class missing from the table = an undefined name: Fail. *)
Fixpoint linearize (fuel : nat) (table : list (list nat)) (c : nat) : res (list nat) :=
  match fuel with
  | O => OutOfFuel
  | S f =>
      match nth_error table c with
      | None => Fail
      | Some declared =>
          let bases := direct_bases c declared in
          match mapM (linearize f table) bases with
          | Ok lin_bases => rmap (cons c) (merge (lin_bases ++ [bases]))   (* [info] + merge(lin_bases) *)
          | Fail => Fail
          | OutOfFuel => OutOfFuel
          end
      end
  end.

Definition mypy_mro (table : list (list nat)) (c : nat) : res (list nat) :=
  linearize (S (length table)) table c.

(* ------------------------------------------------------------------ CPython typeobject.c *)

(* static int tail_contains(PyObject *tuple, int whence, PyObject *o)
     for (j = whence+1; j < size; j++) if (PyTuple_GET_ITEM(tuple, j) == o) return 1;  return 0; *)
Definition tail_contains (tuple : list nat) (whence : nat) (o : nat) : bool :=
  existsb (Nat.eqb o) (skipn (S whence) tuple).

(* the pair (to_merge[i], remain[i]) *)
Definition pstate := list (list nat * nat).

Inductive scan_res := Found (candidate : nat) | NotFound (empty_cnt : nat).

(* for (i = 0; i < to_merge_size; i++) {
     if (remain[i] >= PyTuple_GET_SIZE(cur_tuple)) { empty_cnt++; continue; }
     candidate = PyTuple_GET_ITEM(cur_tuple, remain[i]);
     for (j = 0; j < to_merge_size; j++) if (tail_contains(to_merge[j], remain[j], candidate)) goto skip;
     ... append, advance, goto again;
     skip: ; } *)
Fixpoint scan (rest all : pstate) (empty_cnt : nat) : scan_res :=
  match rest with
  | [] => NotFound empty_cnt
  | (cur_tuple, r) :: rest' =>
      match nth_error cur_tuple r with
      | None => scan rest' all (S empty_cnt)
      | Some candidate =>
          if existsb (fun p => tail_contains (fst p) (snd p) candidate) all
          then scan rest' all empty_cnt
          else Found candidate
      end
  end.

(* for (j = 0; j < to_merge_size; j++)
     if (remain[j] < PyTuple_GET_SIZE(j_lst) && PyTuple_GET_ITEM(j_lst, remain[j]) == candidate) remain[j]++; *)
Definition advance (candidate : nat) (p : list nat * nat) : list nat * nat :=
  match nth_error (fst p) (snd p) with
  | Some x => if Nat.eqb x candidate then (fst p, S (snd p)) else p
  | None => p
  end.

(* again: ... goto again;   one unit of fuel per pass
   if (empty_cnt != to_merge_size) { set_mro_error(...); res = -1; } *)
Fixpoint pmerge_fuel (fuel : nat) (st : pstate) (acc : list nat) : res (list nat) :=
  match fuel with
  | O => OutOfFuel
  | S f =>
      match scan st st 0 with
      | Found candidate => pmerge_fuel f (map (advance candidate) st) (acc ++ [candidate])
      | NotFound empty_cnt => if Nat.eqb empty_cnt (length st) then Ok acc else Fail
      end
  end.

(* remain[i] = 0 for all i *)
Definition pmerge (acc : list nat) (to_merge : list (list nat)) : res (list nat) :=
  pmerge_fuel (S (length (concat to_merge))) (map (fun t => (t, 0)) to_merge) acc.

(* check_duplicates(bases): TypeError "duplicate base class" *)
Fixpoint has_dup (l : list nat) : bool :=
  match l with [] => false | x :: t => existsb (Nat.eqb x) t || has_dup t end.

(* type_new: `if (nbases == 0) bases = (object,)`; `object` itself is static with tp_bases = () *)
Definition type_new_bases (c : nat) (declared : list nat) : list nat :=
  match declared with
  | [] => if Nat.eqb c object_id then [] else [object_id]
  | _ :: _ => declared
  end.

(* base->tp_mro of an existing class; a class whose creation failed does not exist (NameError) *)
Definition tp_mro (mros : list (res (list nat))) (b : nat) : res (list nat) :=
  match nth_error mros b with Some r => r | None => Fail end.

(* mro_implementation(type) *)
Definition mro_implementation (mros : list (res (list nat))) (c : nat) (bases : list nat) : res (list nat) :=
  match mapM (tp_mro mros) bases with
  | Ok base_mros =>
      match bases, base_mros with
      | [_], [m] => Ok (c :: m)                            (* if (n == 1): fast path *)
      | _, _ =>
          if has_dup bases then Fail                       (* check_duplicates(bases) < 0 *)
          else pmerge [c] (base_mros ++ [bases])           (* to_merge[n] = bases; result = [type] *)
      end
  | Fail => Fail
  | OutOfFuel => OutOfFuel
  end.

(* class statements executed in textual order: class n sees the tp_mro of classes 0..n-1 *)
Fixpoint build_n (table : list (list nat)) (n : nat) : list (res (list nat)) :=
  match n with
  | O => []
  | S k =>
      let mros := build_n table k in
      mros ++ [match nth_error table k with
               | Some declared => mro_implementation mros k (type_new_bases k declared)
               | None => Fail
               end]
  end.

Definition cpython_mro (table : list (list nat)) (c : nat) : res (list nat) :=
  tp_mro (build_n table (length table)) c.

(* ------------------------------------------------------------------ the fragment *)

(* bases name earlier classes (so the hierarchy is acyclic) and are distinct
   (duplicate bases are rejected before MRO computation on both sides:
    semanal.py "Duplicate base class", typeobject.c check_duplicates) *)
Definition wf_table (table : list (list nat)) : Prop :=
  forall c bases, nth_error table c = Some bases -> NoDup bases /\ Forall (fun b => b < c) bases.

Fixpoint wf_from (c : nat) (table : list (list nat)) : bool :=
  match table with
  | [] => true
  | bases :: rest => negb (has_dup bases) && forallb (fun b => Nat.ltb b c) bases && wf_from (S c) rest
  end.
Definition wf_tableb (table : list (list nat)) : bool := wf_from 0 table.
