(* Property C12, parts (a) call binding / arity and (b) method resolution order.
   Only theorem statements closed by `exact`, each followed by Print Assumptions. *)
From Coq Require Import List Arith Bool.
From C12 Require Import Mro MroProofs Bind BindProofs.
Import ListNotations.

(* (b) mypy/mro.py linearize_hierarchy + merge compute exactly what CPython's mro_implementation + pmerge
   compute (same order, same failures), for every acyclic class table with distinct bases *)
Theorem mro_eq_cpython : forall table c, wf_table table -> mypy_mro table c = cpython_mro table c.
Proof. exact MroProofs.mro_eq_cpython. Qed.
Print Assumptions mro_eq_cpython.

Theorem mro_fails_iff_cpython_fails : forall table c, wf_table table ->
  (mypy_mro table c = Fail <-> cpython_mro table c = Fail).
Proof. exact MroProofs.mro_fails_iff_cpython_fails. Qed.
Print Assumptions mro_fails_iff_cpython_fails.

(* the `while True` of merge and the recursion of linearize_hierarchy terminate: the fuel of the model
   (total remaining length + 1; number of classes + 1) is never exhausted *)
Theorem merge_fuel_suffices : forall seqs, merge seqs <> OutOfFuel.
Proof. exact MroProofs.merge_never_out_of_fuel. Qed.
Print Assumptions merge_fuel_suffices.

Theorem mro_terminates : forall table c, wf_table table -> mypy_mro table c <> OutOfFuel.
Proof. exact MroProofs.mro_terminates. Qed.
Print Assumptions mro_terminates.

(* pmerge on index arrays = merge on lists with deletion, for arbitrary sequences (no well-formedness needed) *)
Theorem pmerge_eq_merge : forall c to_merge, pmerge [c] to_merge = rmap (cons c) (merge to_merge).
Proof. exact MroProofs.pmerge_eq_merge. Qed.
Print Assumptions pmerge_eq_merge.

(* C3 sanity: the class itself comes first, no class occurs twice, the rest are earlier classes *)
Theorem mro_shape : forall table c m, wf_table table -> mypy_mro table c = Ok m ->
  exists m', m = c :: m' /\ NoDup m /\ Forall (fun x => x < c) m'.
Proof. exact MroProofs.mro_shape. Qed.
Print Assumptions mro_shape.

(* (a) for every signature (any number of parameters of any kind, positional-only included) and every call
   made of positional and keyword arguments (any number, distinct keywords): mypy's argument-count checks
   accept the call iff CPython's argument binding succeeds.  (Star actuals: arity_agrees_star below.) *)
Theorem arity_agrees : forall sig c, wf_sig sig -> determinate c ->
  (mypy_accepts sig c = true <-> cpython_bind sig c = BindOk).
Proof. exact BindProofs.arity_agrees. Qed.
Print Assumptions arity_agrees.

(* def f(a, /, b, c=0, *args, d, e=0, **kw): f(0, 0, d=0, z=0) is accepted; f(0, b=0) misses d *)
Example arity_example :
  let sig := [mkF ARG_POS None; mkF ARG_POS (Some 2); mkF ARG_OPT (Some 3); mkF ARG_STAR (Some 4);
              mkF ARG_NAMED (Some 5); mkF ARG_NAMED_OPT (Some 6); mkF ARG_STAR2 (Some 7)] in
  wf_sig sig /\ determinate (mkCall 2 [5; 9]) /\
  mypy_accepts sig (mkCall 2 [5; 9]) = true /\ cpython_bind sig (mkCall 2 [5; 9]) = BindOk /\
  mypy_accepts sig (mkCall 1 [2]) = false /\ cpython_bind sig (mkCall 1 [2]) = TypeError.
Proof.
  cbv zeta. repeat split; try (vm_compute; reflexivity).
  - simpl. repeat constructor; simpl; intuition discriminate.
  - unfold determinate. simpl. repeat constructor; simpl; intuition discriminate.
Qed.

(* (a) with star actuals: any mix of plain positionals and *tuples of known length, explicit keywords and
   **TypedDicts (all keys present).  The FULL statement (StatementAB.arity_agrees_star_full: the iff for every
   such call) is REFUTED by the faithful model in exactly three ways, each replayed on real mypy + CPython: *)
Theorem arity_star_refuted_L1 : exists sig c, wf_sig sig /\ no_L2 sig c = true /\ no_L3 c = true /\
  mypy_accepts_s sig c = true /\ cpython_bind_s sig c = TypeError.
Proof. exact BindProofs.arity_star_refuted_L1. Qed.
Print Assumptions arity_star_refuted_L1.
Theorem arity_star_refuted_L2 : exists sig c, wf_sig sig /\ no_L1 sig c = true /\ no_L3 c = true /\
  mypy_accepts_s sig c = true /\ cpython_bind_s sig c = TypeError.
Proof. exact BindProofs.arity_star_refuted_L2. Qed.
Print Assumptions arity_star_refuted_L2.
Theorem arity_star_refuted_L3 : exists sig c, wf_sig sig /\ no_L1 sig c = true /\ no_L2 sig c = true /\
  mypy_accepts_s sig c = true /\ cpython_bind_s sig c = TypeError.
Proof. exact BindProofs.arity_star_refuted_L3. Qed.
Print Assumptions arity_star_refuted_L3.

(* ... and holds for every other call: outside L1 (TypedDict key named like the *args parameter, no **kwargs),
   L2 (a *tuple item and a **TypedDict key for the same parameter) and L3 (a keyword supplied twice after
   expansion) mypy accepts iff CPython binds.  Any number of parameters, star actuals and keywords. *)
Theorem arity_agrees_star : forall sig c, wf_sig sig -> plain_like sig c = true ->
  (mypy_accepts_s sig c = true <-> cpython_bind_s sig c = BindOk).
Proof. exact BindProofs.arity_agrees_star. Qed.
Print Assumptions arity_agrees_star.

(* on such calls mypy's star-aware mapping/checks give the verdict of the expanded plain call *)
Theorem mypy_star_is_expansion : forall sig c, shape sig = true -> plain_like sig c = true ->
  mypy_accepts_s sig c = mypy_accepts sig (expand c).
Proof. exact BindProofs.mypy_accepts_s_expand. Qed.
Print Assumptions mypy_star_is_expansion.

(* def f(a, *, b): f( *(0, 0)) is rejected on both sides; f( *(0,), **{b}) accepted on both *)
Example arity_star_example :
  let sig := [mkF ARG_POS (Some 1); mkF ARG_NAMED (Some 2)] in
  wf_sig sig /\ plain_like sig (mkCallS [PStar 2] []) = true /\ mypy_accepts_s sig (mkCallS [PStar 2] []) = false /\
  plain_like sig (mkCallS [PStar 1] [KTD [2]]) = true /\ mypy_accepts_s sig (mkCallS [PStar 1] [KTD [2]]) = true /\
  cpython_bind_s sig (mkCallS [PStar 1] [KTD [2]]) = BindOk.
Proof.
  cbv zeta. repeat split; try (vm_compute; reflexivity). simpl. repeat constructor; simpl; intuition discriminate.
Qed.

(* non-vacuity: a diamond, and an inconsistent hierarchy *)
Example mro_diamond :
  wf_table [[]; []; []; [1; 2]; [2; 1]; [3; 4]] /\
  mypy_mro [[]; []; []; [1; 2]; [2; 1]; [3; 4]] 3 = Ok [3; 1; 2; 0] /\
  cpython_mro [[]; []; []; [1; 2]; [2; 1]; [3; 4]] 4 = Ok [4; 2; 1; 0] /\
  mypy_mro [[]; []; []; [1; 2]; [2; 1]; [3; 4]] 5 = Fail.
Proof. split; [apply wf_tableb_sound; vm_compute; reflexivity | repeat split; vm_compute; reflexivity]. Qed.
