(* Property C12, parts (a) call binding / arity and (b) method resolution order.
   Only theorem statements closed by `exact`, each followed by Print Assumptions. *)
From Coq Require Import List Arith Bool.
From C12 Require Import Mro MroProofs Bind BindProofs.
Import ListNotations.

(* (b) mypy/mro.py linearize_hierarchy + merge compute exactly what CPython's mro_implementation + pmerge
   compute (same order, same failures), for every acyclic class table with distinct bases *)
Theorem mro_eq_cpython : forall table c, wf_table table -> mypy_mro table c = cpython_mro table c.
Proof. exact MroProofs.mro_eq_cpython. Qed.
Print Assumptions mro_eq_cpython.

Theorem mro_fails_iff_cpython_fails : forall table c, wf_table table ->
  (mypy_mro table c = Fail <-> cpython_mro table c = Fail).
Proof. exact MroProofs.mro_fails_iff_cpython_fails. Qed.
Print Assumptions mro_fails_iff_cpython_fails.

(* the `while True` of merge and the recursion of linearize_hierarchy terminate: the fuel of the model
   (total remaining length + 1; number of classes + 1) is never exhausted *)
Theorem merge_fuel_suffices : forall seqs, merge seqs <> OutOfFuel.
Proof. exact MroProofs.merge_never_out_of_fuel. Qed.
Print Assumptions merge_fuel_suffices.

Theorem mro_terminates : forall table c, wf_table table -> mypy_mro table c <> OutOfFuel.
Proof. exact MroProofs.mro_terminates. Qed.
Print Assumptions mro_terminates.

(* pmerge on index arrays = merge on lists with deletion, for arbitrary sequences (no well-formedness needed) *)
Theorem pmerge_eq_merge : forall c to_merge, pmerge [c] to_merge = rmap (cons c) (merge to_merge).
Proof. exact MroProofs.pmerge_eq_merge. Qed.
Print Assumptions pmerge_eq_merge.

(* C3 sanity: the class itself comes first, no class occurs twice, the rest are earlier classes *)
Theorem mro_shape : forall table c m, wf_table table -> mypy_mro table c = Ok m ->
  exists m', m = c :: m' /\ NoDup m /\ Forall (fun x => x < c) m'.
Proof. exact MroProofs.mro_shape. Qed.
Print Assumptions mro_shape.

(* (a) for every signature (any number of parameters of any kind, positional-only included) and every call
   made of positional and keyword arguments (any number, distinct keywords): mypy's argument-count checks
   accept the call iff CPython's argument binding succeeds.  PARTIAL w.r.t. the property text: *tuple and
   **TypedDict actuals are outside the modelled fragment (StatementAB). *)
Theorem arity_agrees : forall sig c, wf_sig sig -> determinate c ->
  (mypy_accepts sig c = true <-> cpython_bind sig c = BindOk).
Proof. exact BindProofs.arity_agrees. Qed.
Print Assumptions arity_agrees.

(* def f(a, /, b, c=0, *args, d, e=0, **kw): f(0, 0, d=0, z=0) is accepted; f(0, b=0) misses d *)
Example arity_example :
  let sig := [mkF ARG_POS None; mkF ARG_POS (Some 2); mkF ARG_OPT (Some 3); mkF ARG_STAR (Some 4);
              mkF ARG_NAMED (Some 5); mkF ARG_NAMED_OPT (Some 6); mkF ARG_STAR2 (Some 7)] in
  wf_sig sig /\ determinate (mkCall 2 [5; 9]) /\
  mypy_accepts sig (mkCall 2 [5; 9]) = true /\ cpython_bind sig (mkCall 2 [5; 9]) = BindOk /\
  mypy_accepts sig (mkCall 1 [2]) = false /\ cpython_bind sig (mkCall 1 [2]) = TypeError.
Proof.
  cbv zeta. repeat split; try (vm_compute; reflexivity).
  - simpl. repeat constructor; simpl; intuition discriminate.
  - unfold determinate. simpl. repeat constructor; simpl; intuition discriminate.
Qed.

(* non-vacuity: a diamond, and an inconsistent hierarchy *)
Example mro_diamond :
  wf_table [[]; []; []; [1; 2]; [2; 1]; [3; 4]] /\
  mypy_mro [[]; []; []; [1; 2]; [2; 1]; [3; 4]] 3 = Ok [3; 1; 2; 0] /\
  cpython_mro [[]; []; []; [1; 2]; [2; 1]; [3; 4]] 4 = Ok [4; 2; 1; 0] /\
  mypy_mro [[]; []; []; [1; 2]; [2; 1]; [3; 4]] 5 = Fail.
Proof. split; [apply wf_tableb_sound; vm_compute; reflexivity | repeat split; vm_compute; reflexivity]. Qed.
