From Coq Require Import ZArith List String Bool Extraction ExtrOcamlBasic.
From C12 Require Import PyRules Version.
From Gen Require Import ConstFold Reach.
Extraction "c12.ml" constant_fold_binary_int_op constant_fold_unary_op_int constant_fold_binary_op_int
  py_int_binop py_int_unop consider runtime_test f5_class consider_platform_cmp
  or_table and_table inverted vinfo.
