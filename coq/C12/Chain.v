(* mypy/reachability.py infer_reachability_of_if_statement: which bodies of an if/elif/else chain are marked unreachable,
   given the inferred truth values of the conditions (hand transcription of the loop; tied to the real function on all
   enumerated chains by the harness). *)
From Coq Require Import ZArith List String Bool.
From C12 Require Import PyRules Version.
From Gen Require Import Reach.
Import ListNotations.
Open Scope Z_scope.

Definition is_false_value (v : Z) : bool := mem2 v ALWAYS_FALSE MYPY_FALSE.   (* result in (ALWAYS_FALSE, MYPY_FALSE) *)
Definition is_true_value (v : Z) : bool := mem2 v ALWAYS_TRUE MYPY_TRUE.      (* result in (ALWAYS_TRUE, MYPY_TRUE) *)

(* (is_unreachable of each body, is_unreachable of the else body) after the loop *)
Fixpoint chain_marks (vs : list Z) : list bool * bool :=
  match vs with
  | [] => ([], false)
  | v :: rest =>
      if is_false_value v then (true :: fst (chain_marks rest), snd (chain_marks rest))      (* mark_block_unreachable(s.body[i]) *)
      else if is_true_value v then (false :: map (fun _ => true) rest, true)               (* bodies i+1.., else body; break *)
      else (false :: fst (chain_marks rest), snd (chain_marks rest))
  end.

(* which body runs when the conditions have the boolean values xs: Some i = body i, None = the else body *)
Fixpoint taken (xs : list bool) : option nat :=
  match xs with
  | [] => None
  | true :: _ => Some O
  | false :: rest => match taken rest with Some i => Some (S i) | None => None end
  end.
