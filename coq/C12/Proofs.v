From Coq Require Import ZArith List String Bool Lia.
From C12 Require Import PyRules Version.
From Gen Require Import ConstFold Reach.
Import ListNotations.
Open Scope Z_scope.

(* ------------------------------------------------------------------ constant folding *)
Ltac op_cases op :=
  repeat match goal with
  | |- context [String.eqb op ?s] => destruct (String.eqb op s) eqn:?
  | H : context [String.eqb op ?s] |- _ => destruct (String.eqb op s) eqn:?
  end.

Lemma fold_int_sound op l r v :
  constant_fold_binary_int_op op l r = Folded v -> py_int_binop op l r = Some (ROk v).
Proof.
  unfold constant_fold_binary_int_op, py_int_binop, py_truediv, py_floordiv, py_mod, py_lshift,
    py_rshift, py_pow_int, fres_of_Z, fres_of_float, catch_none.
  intros H.
  destruct (String.eqb op "+") eqn:E1; [inversion H; reflexivity|].
  destruct (String.eqb op "-") eqn:E2; [inversion H; reflexivity|].
  destruct (String.eqb op "*") eqn:E3; [inversion H; reflexivity|].
  destruct (String.eqb op "/") eqn:E4.
  { destruct (r =? 0) eqn:R; cbn [negb] in H; [discriminate|].
    destruct (true_div_overflows l r); cbn in *; [discriminate|]. inversion H; reflexivity. }
  destruct (String.eqb op "//") eqn:E5.
  { destruct (r =? 0) eqn:R; cbn [negb] in H; [discriminate|]. cbn in *. inversion H; reflexivity. }
  destruct (String.eqb op "%") eqn:E6.
  { destruct (r =? 0) eqn:R; cbn [negb] in H; [discriminate|]. cbn in *. inversion H; reflexivity. }
  destruct (String.eqb op "&") eqn:E7; [inversion H; reflexivity|].
  destruct (String.eqb op "|") eqn:E8; [inversion H; reflexivity|].
  destruct (String.eqb op "^") eqn:E9; [inversion H; reflexivity|].
  destruct (String.eqb op "<<") eqn:E10.
  { destruct (r >=? 0) eqn:R; [|discriminate]. assert (r <? 0 = false) as R' by lia; rewrite R' in *.
    cbn in *. inversion H; reflexivity. }
  destruct (String.eqb op ">>") eqn:E11.
  { destruct (r >=? 0) eqn:R; [|discriminate]. assert (r <? 0 = false) as R' by lia; rewrite R' in *.
    cbn in *. inversion H; reflexivity. }
  destruct (String.eqb op "**") eqn:E12.
  { destruct (r >=? 0) eqn:R; [|discriminate]. assert (r <? 0 = false) as R' by lia; rewrite R' in *.
    cbn in *. inversion H; reflexivity. }
  discriminate.
Qed.

(* completeness: whatever CPython evaluates to a value for these operators, folding returns *)
Lemma fold_int_complete op l r v :
  py_int_binop op l r = Some (ROk v) -> constant_fold_binary_int_op op l r = Folded v.
Proof.
  unfold constant_fold_binary_int_op, py_int_binop, py_truediv, py_floordiv, py_mod, py_lshift,
    py_rshift, py_pow_int, fres_of_Z, fres_of_float, catch_none.
  intros H.
  destruct (String.eqb op "+") eqn:E1; [inversion H; reflexivity|].
  destruct (String.eqb op "-") eqn:E2; [inversion H; reflexivity|].
  destruct (String.eqb op "*") eqn:E3; [inversion H; reflexivity|].
  destruct (String.eqb op "/") eqn:E4.
  { destruct (true_div_overflows l r) eqn:Ov; destruct (r =? 0) eqn:R; cbn in *; try discriminate.
    inversion H; reflexivity. }
  destruct (String.eqb op "//") eqn:E5.
  { destruct (r =? 0) eqn:R; cbn in *; [discriminate|]. inversion H; reflexivity. }
  destruct (String.eqb op "%") eqn:E6.
  { destruct (r =? 0) eqn:R; cbn in *; [discriminate|]. inversion H; reflexivity. }
  destruct (String.eqb op "&") eqn:E7; [inversion H; reflexivity|].
  destruct (String.eqb op "|") eqn:E8; [inversion H; reflexivity|].
  destruct (String.eqb op "^") eqn:E9; [inversion H; reflexivity|].
  destruct (String.eqb op "<<") eqn:E10.
  { destruct (r <? 0) eqn:R; cbn in *; [discriminate|]. assert (r >=? 0 = true) as R' by lia; rewrite R' in *.
    inversion H; reflexivity. }
  destruct (String.eqb op ">>") eqn:E11.
  { destruct (r <? 0) eqn:R; cbn in *; [discriminate|]. assert (r >=? 0 = true) as R' by lia; rewrite R' in *.
    inversion H; reflexivity. }
  destruct (String.eqb op "**") eqn:E12.
  { destruct (r <? 0) eqn:R; cbn in *; [discriminate|]. assert (r >=? 0 = true) as R' by lia; rewrite R' in *.
    inversion H; reflexivity. }
  discriminate.
Qed.

(* no exception escapes the folding function, whatever the operands *)
Lemma fold_int_no_crash op l r e : constant_fold_binary_int_op op l r <> Crash e.
Proof.
  unfold constant_fold_binary_int_op, py_truediv, py_floordiv, py_mod, py_lshift,
    py_rshift, py_pow_int, fres_of_Z, fres_of_float, catch_none.
  repeat match goal with
  | |- (if String.eqb ?a ?b then _ else _) <> _ => destruct (String.eqb a b)
  end; try discriminate.
  - destruct (r =? 0) eqn:R; cbn [negb]; [discriminate|].
    destruct (true_div_overflows l r); cbn; discriminate.
  - destruct (r =? 0) eqn:R; cbn [negb]; discriminate.
  - destruct (r =? 0) eqn:R; cbn [negb]; discriminate.
  - destruct (r >=? 0) eqn:R; [|discriminate]. assert (r <? 0 = false) as -> by lia. discriminate.
  - destruct (r >=? 0) eqn:R; [|discriminate]. assert (r <? 0 = false) as -> by lia. discriminate.
  - destruct (r >=? 0) eqn:R; [|discriminate]. assert (r <? 0 = false) as -> by lia. discriminate.
Qed.

Lemma fold_dispatch_int op l r : constant_fold_binary_op_int op l r = constant_fold_binary_int_op op l r.
Proof. reflexivity. Qed.

Lemma fold_unary_sound op v z :
  constant_fold_unary_op_int op v = Folded (VInt z) <-> py_int_unop op v = Some z.
Proof.
  unfold constant_fold_unary_op_int, py_int_unop.
  rewrite !andb_true_r.
  destruct (String.eqb op "-"); [split; intros H; inversion H; reflexivity|].
  destruct (String.eqb op "~"); [split; intros H; inversion H; reflexivity|].
  destruct (String.eqb op "+"); [split; intros H; inversion H; reflexivity|].
  split; discriminate.
Qed.

(* ------------------------------------------------------------------ comparisons *)
Definition always (b : bool) : Z := if b then ALWAYS_TRUE else ALWAYS_FALSE.

Lemma always_inj b b' : always b = always b' -> b = b'.
Proof. destruct b, b'; cbv; congruence. Qed.

Lemma always_not_unknown b : always b <> TRUTH_VALUE_UNKNOWN.
Proof. destruct b; cbv; congruence. Qed.

Lemma fixed_comparison_spec T (cmp : T -> T -> comparison) l op r b :
  fixed_comparison T cmp l op r = always b -> py_cmp_op op (cmp l r) = Some b.
Proof.
  unfold fixed_comparison, py_cmp_op. fold (always (cmp_eq (cmp l r))).
  repeat match goal with |- context [if ?c then ALWAYS_TRUE else ALWAYS_FALSE] => change (if c then ALWAYS_TRUE else ALWAYS_FALSE) with (always c) end.
  intros H.
  destruct (String.eqb op "=="); [apply always_inj in H; congruence|].
  destruct (String.eqb op "!="); [apply always_inj in H; congruence|].
  destruct (String.eqb op "<="); [apply always_inj in H; congruence|].
  destruct (String.eqb op ">="); [apply always_inj in H; congruence|].
  destruct (String.eqb op "<"); [apply always_inj in H; congruence|].
  destruct (String.eqb op ">"); [apply always_inj in H; congruence|].
  symmetry in H. apply always_not_unknown in H. contradiction.
Qed.

Lemma fixed_comparison_total T (cmp : T -> T -> comparison) l op r :
  known_op op = true -> exists b, fixed_comparison T cmp l op r = always b.
Proof.
  unfold fixed_comparison, known_op.
  repeat match goal with |- context [if ?c then ALWAYS_TRUE else ALWAYS_FALSE] => change (if c then ALWAYS_TRUE else ALWAYS_FALSE) with (always c) end.
  intros H.
  destruct (String.eqb op "=="); [eexists; reflexivity|].
  destruct (String.eqb op "!="); [eexists; reflexivity|].
  destruct (String.eqb op "<="); [eexists; reflexivity|].
  destruct (String.eqb op ">="); [eexists; reflexivity|].
  destruct (String.eqb op "<"); [eexists; reflexivity|].
  destruct (String.eqb op ">"); [eexists; reflexivity|].
  discriminate.
Qed.

(* ------------------------------------------------------------------ tuples *)
Lemma tuple_cmp_refl a : tuple_cmp a a = Eq.
Proof. induction a as [|x a IH]; cbn; [reflexivity|]. rewrite Z.compare_refl. exact IH. Qed.

Lemma tuple_cmp_eq a b : tuple_cmp a b = Eq -> a = b.
Proof.
  revert b; induction a as [|x a IH]; intros [|y b]; cbn; try discriminate; [reflexivity|].
  destruct (Z.compare x y) eqn:E; try discriminate. apply Z.compare_eq in E. intros H. f_equal; auto.
Qed.

(* appending extra components to the left operand: only matters when the operands were equal *)
Lemma tuple_cmp_app a ext t :
  (List.length t <= List.length a)%nat -> ext <> [] ->
  tuple_cmp (a ++ ext) t = match tuple_cmp a t with Eq => Gt | c => c end.
Proof.
  revert t; induction a as [|x a IH]; intros [|y t] Hlen Hext; cbn in *; try lia.
  - destruct ext; [contradiction|reflexivity].
  - reflexivity.
  - destruct (Z.compare x y); try reflexivity. apply IH; [lia|assumption].
Qed.
