From Coq Require Import ZArith List String Bool Lia.
From C12 Require Import PyRules Version Proofs.
From Gen Require Import Reach.
Import ListNotations.
Open Scope Z_scope.

Lemma known_op_cmp op c : known_op op = true -> exists b, py_cmp_op op c = Some b.
Proof.
  unfold known_op, py_cmp_op. intros H.
  destruct (String.eqb op "=="); [eexists; reflexivity|].
  destruct (String.eqb op "!="); [eexists; reflexivity|].
  destruct (String.eqb op "<="); [eexists; reflexivity|].
  destruct (String.eqb op ">="); [eexists; reflexivity|].
  destruct (String.eqb op "<"); [eexists; reflexivity|].
  destruct (String.eqb op ">"); [eexists; reflexivity|].
  discriminate.
Qed.

(* small-range facts *)
Lemma slice_closed (major minor micro lvl serial lo hi : Z) :
  0 <= lo -> lo < hi -> hi <= 2 ->
  py_slice (vinfo major minor micro lvl serial) lo hi = py_slice [major; minor] lo hi.
Proof.
  intros H1 H2 H3.
  assert (lo = 0 \/ lo = 1) as [-> | ->] by lia;
  (assert (hi = 1 \/ hi = 2) as [-> | ->] by lia); try lia; reflexivity.
Qed.

Lemma slice_open (major minor micro lvl serial lo : Z) :
  0 <= lo -> lo < 2 ->
  py_slice (vinfo major minor micro lvl serial) lo 5 = py_slice [major; minor] lo 2 ++ [micro; lvl; serial].
Proof.
  intros H1 H2. assert (lo = 0 \/ lo = 1) as [-> | ->] by lia; reflexivity.
Qed.

Lemma slice_len (major minor lo hi : Z) :
  0 <= lo -> lo < hi -> hi <= 2 -> Z.of_nat (List.length (py_slice [major; minor] lo hi)) = hi - lo.
Proof.
  intros H1 H2 H3.
  assert (lo = 0 \/ lo = 1) as [-> | ->] by lia;
  (assert (hi = 1 \/ hi = 2) as [-> | ->] by lia); try lia; reflexivity.
Qed.

(* how each operator reads a comparison when Eq is replaced by Gt *)
Lemma cmp_op_stable op c :
  c <> Eq -> py_cmp_op op (match c with Eq => Gt | c' => c' end) = py_cmp_op op c.
Proof. destruct c; congruence. Qed.

Definition ext_sensitive (op : string) : bool :=
  String.eqb op "==" || String.eqb op "!=" || String.eqb op ">" || String.eqb op "<=".

Lemma cmp_op_eq_to_gt op b :
  py_cmp_op op Eq = Some b ->
  py_cmp_op op Gt = Some (if ext_sensitive op then negb b else b).
Proof.
  unfold py_cmp_op, ext_sensitive.
  destruct (String.eqb op "==") eqn:E1.
  { apply String.eqb_eq in E1; subst; cbn; intros [= <-]; reflexivity. }
  destruct (String.eqb op "!=") eqn:E2.
  { apply String.eqb_eq in E2; subst; cbn; intros [= <-]; reflexivity. }
  destruct (String.eqb op "<=") eqn:E3.
  { apply String.eqb_eq in E3; subst; cbn; intros [= <-]; reflexivity. }
  destruct (String.eqb op ">=") eqn:E4.
  { apply String.eqb_eq in E4; subst; cbn; intros [= <-]; reflexivity. }
  destruct (String.eqb op "<") eqn:E5.
  { apply String.eqb_eq in E5; subst; cbn; intros [= <-]; reflexivity. }
  destruct (String.eqb op ">") eqn:E6.
  { apply String.eqb_eq in E6; subst; cbn; intros [= <-]; reflexivity. }
  discriminate.
Qed.

(* The central statement: whenever mypy decides a version test, the run-time value for EVERY
   interpreter of the target version (any micro / level / serial) is that value, except in the
   f5 class where it is exactly the opposite. *)
Lemma version_test_exact major minor micro lvl serial idx op th b :
  consider major minor idx op th = always b ->
  runtime_test (vinfo major minor micro lvl serial) idx op th
  = Some (if f5_class major minor idx op th then negb b else b).
Proof.
  unfold consider. destruct (known_op op) eqn:Hop; cbn [negb].
  2:{ intros H; symmetry in H; apply always_not_unknown in H; contradiction. }
  destruct idx as [index | lo hi], th as [k | t]; cbn [f5_class];
    try (intros H; symmetry in H; apply always_not_unknown in H; contradiction).
  - (* index form *)
    destruct ((0 <=? index) && (index <=? 1)) eqn:Hr.
    2:{ intros H; symmetry in H; apply always_not_unknown in H; contradiction. }
    intros H. apply fixed_comparison_spec in H.
    assert (index = 0 \/ index = 1) as [-> | ->] by lia; cbn in *; exact H.
  - (* slice form *)
    set (lo' := opt_default lo 0). set (hi' := opt_default hi 2).
    destruct ((0 <=? lo') && (lo' <? hi') && (hi' <=? 2)) eqn:Hr.
    2:{ intros H; symmetry in H; apply always_not_unknown in H; contradiction. }
    assert (0 <= lo' /\ lo' < hi' /\ hi' <= 2) as (Hlo & Hlh & Hhi) by lia.
    pose proof (slice_len major minor lo' hi' Hlo Hlh Hhi) as Hlen.
    set (val := py_slice [major; minor] lo' hi') in *.
    cbv zeta.
    destruct ((Z.of_nat (List.length val) =? Z.of_nat (List.length t))
              || ((Z.of_nat (List.length val) >? Z.of_nat (List.length t)) && negb (is_eq_op op))) eqn:Hl.
    2:{ intros H; symmetry in H; apply always_not_unknown in H; contradiction. }
    intros H. apply fixed_comparison_spec in H.
    assert (List.length t <= List.length val)%nat as Hlt by lia.
    unfold runtime_test. fold lo'.
    destruct hi as [h|].
    + (* explicit upper bound: the run-time slice is the same tuple *)
      cbn [opt_default] in *. subst hi'. fold lo'.
      assert ((0 <=? lo') && (0 <=? h) = true) as -> by lia.
      rewrite slice_closed by lia. fold val. rewrite H.
      destruct lo; reflexivity.
    + (* open-ended: three more components at run time *)
      cbn [opt_default] in *. subst hi'.
      change (Z.of_nat (List.length (vinfo major minor micro lvl serial))) with 5.
      assert ((0 <=? lo') && (0 <=? 5) = true) as -> by lia.
      rewrite slice_open by lia. fold val.
      rewrite tuple_cmp_app by (try assumption; discriminate).
      assert ((0 <=? lo') && (lo' <? 2) = true) as -> by lia. cbn [andb].
      destruct (tuple_cmp val t) eqn:Hc.
      * cbn [cmp_eq andb]. fold (ext_sensitive op). apply cmp_op_eq_to_gt. exact H.
      * cbn [cmp_eq andb]. exact H.
      * cbn [cmp_eq andb]. exact H.
Qed.

Lemma version_test_sound_outside_f5 major minor micro lvl serial idx op th b :
  f5_class major minor idx op th = false ->
  consider major minor idx op th = always b ->
  runtime_test (vinfo major minor micro lvl serial) idx op th = Some b.
Proof. intros Hf H. rewrite (version_test_exact _ _ micro lvl serial _ _ _ _ H), Hf. reflexivity. Qed.

(* the full statement is false of the faithful model: finding F5 *)
Lemma version_test_refuted :
  exists major minor micro lvl serial idx op th b,
    consider major minor idx op th = always b /\
    runtime_test (vinfo major minor micro lvl serial) idx op th = Some (negb b).
Proof.
  exists 3, 12, 1, 0, 0, (IdxSlice None None), ">"%string, (ThTuple [3; 12]), false.
  split; vm_compute; reflexivity.
Qed.

(* ------------------------------------------------------------------ platform *)
Lemma string_compare_eq a b : cmp_eq (String.compare a b) = String.eqb a b.
Proof.
  destruct (String.eqb a b) eqn:E.
  - apply String.eqb_eq in E; subst. assert (String.compare b b = Eq) as ->.
    { pose proof (String.compare_antisym b b) as A. destruct (String.compare b b); [reflexivity|discriminate|discriminate]. }
    reflexivity.
  - destruct (String.compare a b) eqn:C; try reflexivity.
    apply String.compare_eq_iff in C. apply String.eqb_neq in E. contradiction.
Qed.

Lemma platform_test_correct platform op lit b :
  consider_platform_cmp platform op lit = always b ->
  (String.eqb op "==" = true /\ b = String.eqb platform lit) \/
  (String.eqb op "!=" = true /\ b = negb (String.eqb platform lit)).
Proof.
  unfold consider_platform_cmp, is_eq_op.
  destruct (String.eqb op "==") eqn:E1.
  - cbn [orb negb]. intros H. apply fixed_comparison_spec in H. unfold py_cmp_op in H. rewrite E1 in H.
    left. split; [reflexivity|]. rewrite string_compare_eq in H. congruence.
  - destruct (String.eqb op "!=") eqn:E2; cbn [orb negb].
    + intros H. apply fixed_comparison_spec in H. unfold py_cmp_op in H. rewrite E1, E2 in H.
      right. split; [reflexivity|]. rewrite string_compare_eq in H. congruence.
    + intros H; symmetry in H; apply always_not_unknown in H; contradiction.
Qed.

(* ------------------------------------------------------------------ and / or / not *)
(* sem v x : the truth value v is a correct static verdict for a condition whose value
   (as mypy must treat it) is x *)
Definition sem (v : Z) (x : bool) : Prop :=
  match static_truth v with Some b => b = x | None => True end.

Definition tv (v : Z) : Prop :=
  v = ALWAYS_TRUE \/ v = MYPY_TRUE \/ v = ALWAYS_FALSE \/ v = MYPY_FALSE \/ v = TRUTH_VALUE_UNKNOWN.

Lemma or_table_sound l r x y : tv l -> tv r -> sem l x -> sem r y -> sem (or_table l r) (x || y).
Proof.
  unfold tv, sem. intros Hl Hr.
  destruct Hl as [-> | [-> | [-> | [-> | ->]]]], Hr as [-> | [-> | [-> | [-> | ->]]]];
    vm_compute; intros; subst; try reflexivity; try (destruct x; reflexivity); try (destruct y; reflexivity);
    destruct x, y; try reflexivity; try discriminate; auto.
Qed.

Lemma and_table_sound l r x y : tv l -> tv r -> sem l x -> sem r y -> sem (and_table l r) (x && y).
Proof.
  unfold tv, sem. intros Hl Hr.
  destruct Hl as [-> | [-> | [-> | [-> | ->]]]], Hr as [-> | [-> | [-> | [-> | ->]]]];
    vm_compute; intros; subst; try reflexivity; try (destruct x; reflexivity); try (destruct y; reflexivity);
    destruct x, y; try reflexivity; try discriminate; auto.
Qed.

Lemma not_table_sound v x : tv v -> sem v x -> sem (inverted v) (negb x).
Proof.
  unfold tv, sem. intros Hv.
  destruct Hv as [-> | [-> | [-> | [-> | ->]]]]; vm_compute; intros; subst; try reflexivity; auto.
Qed.
