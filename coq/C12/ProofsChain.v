From Coq Require Import ZArith List String Bool Lia.
From C12 Require Import PyRules Version Proofs ProofsVersion Chain.
From Gen Require Import Reach.
Import ListNotations.
Open Scope Z_scope.

Lemma chain_marks_length : forall vs, List.length (fst (chain_marks vs)) = List.length vs.
Proof.
  induction vs as [|v rest IH]; simpl; auto.
  destruct (is_false_value v); simpl; [rewrite IH; auto|].
  destruct (is_true_value v); simpl; [rewrite map_length|rewrite IH]; auto.
Qed.

(* the else body is marked unreachable exactly when some condition is always true *)
Lemma chain_else_exact : forall vs, snd (chain_marks vs) = existsb (fun v => negb (is_false_value v) && is_true_value v) vs.
Proof.
  induction vs as [|v rest IH]; simpl; auto.
  destruct (is_false_value v); simpl; auto. destruct (is_true_value v); simpl; auto.
Qed.

(* body i is marked unreachable exactly when its condition is always false or an earlier condition is always true *)
Lemma chain_body_exact : forall vs i v, nth_error vs i = Some v ->
  nth_error (fst (chain_marks vs)) i
  = Some (is_false_value v || existsb (fun w => negb (is_false_value w) && is_true_value w) (firstn i vs)).
Proof.
  induction vs as [|w rest IH]; intros i v H; [destruct i; discriminate|].
  destruct i as [|i]; simpl in H.
  - inversion H; subst. simpl. destruct (is_false_value v); simpl; auto. destruct (is_true_value v); auto.
  - simpl. destruct (is_false_value w) eqn:F; simpl.
    + apply IH; auto.
    + destruct (is_true_value w) eqn:T; simpl.
      * rewrite orb_true_r. rewrite nth_error_map, H. reflexivity.
      * apply IH; auto.
Qed.

Ltac by_values v H :=
  unfold sem, static_truth, is_false_value, is_true_value, mem2, ALWAYS_TRUE, MYPY_TRUE, ALWAYS_FALSE, MYPY_FALSE in *;
  destruct (Z.eqb_spec v 1), (Z.eqb_spec v 2), (Z.eqb_spec v 3), (Z.eqb_spec v 4); simpl in *; try lia; try discriminate; auto.
Lemma sem_true_not_false : forall v, sem v true -> is_false_value v = false.
Proof. intros v H. by_values v H. Qed.
Lemma sem_false_not_true : forall v, sem v false -> is_true_value v = false.
Proof. intros v H. by_values v H. Qed.

(* mypy never marks the body that runs (for mypy's purposes) as unreachable: if every inferred value is a correct verdict
   for its condition, the body selected by the conditions -- or the else body -- is not marked *)
Theorem chain_never_skips_taken_branch : forall vs xs, Forall2 sem vs xs ->
  match taken xs with
  | Some i => nth_error (fst (chain_marks vs)) i = Some false
  | None => snd (chain_marks vs) = false
  end.
Proof.
  intros vs xs H. induction H as [|v x vs xs S F IH]; simpl; auto.
  destruct x.
  - rewrite (sem_true_not_false v S). destruct (is_true_value v); reflexivity.
  - rewrite (sem_false_not_true v S). destruct (is_false_value v); simpl;
      destruct (taken xs); simpl; exact IH.
Qed.
