(* Property C12, parts (c) version/platform tests and (d) constant folding.
   Only theorem statements closed by `exact`, each followed by Print Assumptions. *)
From Coq Require Import ZArith List String Bool.
From C12 Require Import PyRules Version Proofs ProofsVersion ProofsGenReach ProofsFloat Cond ProofsCond Chain ProofsChain.
From Gen Require Import ConstFold Reach.
Import ListNotations.
Open Scope Z_scope.

(* (d) folding an int operation yields exactly the value CPython computes, for all operands *)
Theorem fold_int_correct : forall op l r v,
  constant_fold_binary_int_op op l r = Folded v <-> py_int_binop op l r = Some (ROk v).
Proof. intros; split; [exact (fold_int_sound op l r v) | exact (fold_int_complete op l r v)]. Qed.
Print Assumptions fold_int_correct.

(* (d) no operand makes the folding code raise (ZeroDivisionError, ValueError, OverflowError) *)
Theorem fold_never_raises : forall op l r e, constant_fold_binary_int_op op l r <> Crash e.
Proof. exact fold_int_no_crash. Qed.
Print Assumptions fold_never_raises.

Theorem fold_unary_correct : forall op v z,
  constant_fold_unary_op_int op v = Folded (VInt z) <-> py_int_unop op v = Some z.
Proof. exact fold_unary_sound. Qed.
Print Assumptions fold_unary_correct.

Theorem fold_dispatch_on_ints : forall op l r,
  constant_fold_binary_op_int op l r = constant_fold_binary_int_op op l r.
Proof. exact fold_dispatch_int. Qed.
Print Assumptions fold_dispatch_on_ints.

(* (c) FULL statement (Statement.version_test_correct) is refuted by the faithful model: F5 *)
Theorem version_test_refuted :
  exists major minor micro lvl serial idx op th b,
    consider major minor idx op th = always b /\
    runtime_test (vinfo major minor micro lvl serial) idx op th = Some (negb b).
Proof. exact ProofsVersion.version_test_refuted. Qed.
Print Assumptions version_test_refuted.

(* (c) what IS true, exactly: for every interpreter of the target version the run-time value is
   mypy's verdict, except in the f5 class (open-ended slice or bare version_info, literal equal
   to the target prefix, operator in ==, !=, >, <=) where it is the opposite. *)
Theorem version_test_exact : forall major minor micro lvl serial idx op th b,
  consider major minor idx op th = always b ->
  runtime_test (vinfo major minor micro lvl serial) idx op th
  = Some (if f5_class major minor idx op th then negb b else b).
Proof. exact ProofsVersion.version_test_exact. Qed.
Print Assumptions version_test_exact.

Theorem version_test_correct_partial : forall major minor micro lvl serial idx op th b,
  f5_class major minor idx op th = false ->
  consider major minor idx op th = always b ->
  runtime_test (vinfo major minor micro lvl serial) idx op th = Some b.
Proof. exact version_test_sound_outside_f5. Qed.
Print Assumptions version_test_correct_partial.

Theorem platform_test_correct : forall platform op lit b,
  consider_platform_cmp platform op lit = always b ->
  (String.eqb op "==" = true /\ b = String.eqb platform lit) \/
  (String.eqb op "!=" = true /\ b = negb (String.eqb platform lit)).
Proof. exact ProofsVersion.platform_test_correct. Qed.
Print Assumptions platform_test_correct.

Theorem condition_tables_sound : forall l r x y, tv l -> tv r -> sem l x -> sem r y ->
  sem (or_table l r) (x || y) /\ sem (and_table l r) (x && y) /\ sem (inverted l) (negb x).
Proof. intros; repeat split; [apply or_table_sound | apply and_table_sound | apply not_table_sound]; assumption. Qed.
Print Assumptions condition_tables_sound.

(* ---- the decision cores are REGENERATED from mypy/reachability.py (Gen.Reach); the theorems above hold for them *)

(* consider_sys_version_info after index/thing are computed, for a two-component target: never raises IndexError and is
   the specification Version.consider the theorems above are about *)
Theorem consider_core_is_spec : forall major minor idx op th,
  consider_core [major; minor] idx op th = Some (consider major minor idx op th).
Proof. exact ProofsGenReach.consider_core_eq. Qed.
Print Assumptions consider_core_is_spec.

Theorem version_test_exact_gen : forall major minor micro lvl serial idx op th b,
  consider_core [major; minor] idx op th = Some (always b) ->
  runtime_test (vinfo major minor micro lvl serial) idx op th
  = Some (if f5_class major minor idx op th then negb b else b).
Proof. exact ProofsGenReach.version_test_exact_gen. Qed.
Print Assumptions version_test_exact_gen.

(* reverse_op is the mirror of the run-time comparison:  a <op> b  =  b <reverse_op[op]> a  on ints and tuples of ints *)
Theorem reverse_op_mirror_int : forall op r a b, reverse_op op = Some r ->
  py_cmp_op r (Z.compare b a) = py_cmp_op op (Z.compare a b).
Proof. exact ProofsGenReach.reverse_op_mirror_int. Qed.
Print Assumptions reverse_op_mirror_int.
Theorem reverse_op_mirror_tuple : forall op r a b, reverse_op op = Some r ->
  py_cmp_op r (tuple_cmp b a) = py_cmp_op op (tuple_cmp a b).
Proof. exact ProofsGenReach.reverse_op_mirror_tuple. Qed.
Print Assumptions reverse_op_mirror_tuple.
Theorem reverse_op_total_on_known_ops : forall op, known_op op = true <-> exists r, reverse_op op = Some r /\ known_op r = true.
Proof. exact ProofsGenReach.reverse_op_known. Qed.
Print Assumptions reverse_op_total_on_known_ops.

(* `<literal> <op> sys.version_info[...]`: mypy decides the reversed test; its run-time value is the written one *)
Theorem version_test_flipped_exact_gen : forall major minor micro lvl serial idx op r th b,
  reverse_op op = Some r ->
  consider_core [major; minor] idx r th = Some (always b) ->
  runtime_test_flipped (vinfo major minor micro lvl serial) idx op th
  = Some (if f5_class major minor idx r th then negb b else b).
Proof. exact ProofsGenReach.version_test_flipped_exact_gen. Qed.
Print Assumptions version_test_flipped_exact_gen.

(* the and/or block and the `not` table of infer_condition_value are the tables condition_tables_sound is about *)
Theorem infer_op_table_is_spec : forall l r,
  infer_op_table "or" l r = or_table l r /\ infer_op_table "and" l r = and_table l r.
Proof. intros; split; [exact (infer_op_table_or l r) | exact (infer_op_table_and l r)]. Qed.
Print Assumptions infer_op_table_is_spec.
Theorem inverted_truth_mapping_is_spec : forall v, truth_value v -> inverted_truth_mapping v = Some (inverted v).
Proof. exact ProofsGenReach.inverted_truth_mapping_eq. Qed.
Print Assumptions inverted_truth_mapping_is_spec.

(* consider_sys_platform: comparison core and startswith core *)
Theorem platform_cores_are_spec : forall platform op lit,
  platform_cmp_core platform op lit = consider_platform_cmp platform op lit /\
  platform_startswith_core platform lit = always (String.prefix lit platform).
Proof. intros; split; [exact (platform_cmp_core_eq platform op lit) | exact (platform_startswith_core_eq platform lit)]. Qed.
Print Assumptions platform_cores_are_spec.

(* ---- (d) float / str / bytes folding (functions regenerated from mypy/constant_fold.py and mypyc/irbuild/constant_fold.py;
   float VALUES stay symbolic, the theorems are about when folding happens and which operation it denotes) *)
Theorem fold_float_sound : forall fo op l r v,
  constant_fold_binary_float_op fo op l r = Folded v -> exists f, v = VFloat f /\ py_num_binop fo op l r = ROk f.
Proof. exact ProofsFloat.fold_float_sound. Qed.
Print Assumptions fold_float_sound.

(* /, //, %: None exactly when CPython raises ZeroDivisionError *)
Theorem fold_float_guard_exact : forall fo op l r a b,
  (op = "/" \/ op = "//" \/ op = "%")%string -> to_float fo l = ROk a -> to_float fo r = ROk b ->
  (constant_fold_binary_float_op fo op l r = NotFolded <-> py_num_binop fo op l r = RRaise ZeroDivisionError).
Proof. exact ProofsFloat.fold_float_guard_exact. Qed.
Print Assumptions fold_float_guard_exact.

(* no operand makes the float folding code raise (after the fix of F7: the conversion prelude
   `try: float(left), float(right) except OverflowError: return None`); under the monitored contract on float_pow *)
Theorem fold_float_never_raises : forall fo op l r e, pow_contract fo ->
  constant_fold_binary_float_op fo op l r <> Crash e.
Proof. exact ProofsFloat.fold_float_never_raises. Qed.
Print Assumptions fold_float_never_raises.

(* an int operand too large for a float: not folded, and CPython raises for the operation as well *)
Theorem fold_float_unconvertible : forall fo op l r e,
  (to_float fo l = RRaise e \/ to_float fo r = RRaise e) ->
  constant_fold_binary_float_op fo op l r = NotFolded /\ exists e', py_num_binop fo op l r = RRaise e'.
Proof. exact ProofsFloat.fold_float_unconvertible. Qed.
Print Assumptions fold_float_unconvertible.

(* +, -, *: always folded when both operands convert *)
Theorem fold_float_arith_total : forall fo op l r a b,
  (op = "+" \/ op = "-" \/ op = "*")%string -> to_float fo l = ROk a -> to_float fo r = ROk b ->
  constant_fold_binary_float_op fo op l r = Folded (VFloat (FBin op a b)).
Proof. exact ProofsFloat.fold_float_arith_total. Qed.
Print Assumptions fold_float_arith_total.

Theorem fold_str_exact : forall op l r n,
  constant_fold_binary_op_str_str op l r = (if String.eqb op "+" then Some (String.append l r) else None) /\
  constant_fold_binary_op_str_int op l n = (if String.eqb op "*" then Some (py_str_repeat l n) else None) /\
  constant_fold_binary_op_int_str op n r = (if String.eqb op "*" then Some (py_str_repeat r n) else None).
Proof. exact ProofsFloat.fold_str_exact. Qed.
Print Assumptions fold_str_exact.
Theorem fold_bytes_exact : forall op (l r : list N) n,
  constant_fold_binary_op_extended_bytes_bytes op l r = (if String.eqb op "+" then Some (l ++ r) else None) /\
  constant_fold_binary_op_extended_bytes_int op l n = (if String.eqb op "*" then Some (py_bytes_repeat l n) else None) /\
  constant_fold_binary_op_extended_int_bytes op n r = (if String.eqb op "*" then Some (py_bytes_repeat r n) else None).
Proof. exact ProofsFloat.fold_bytes_exact. Qed.
Print Assumptions fold_bytes_exact.
Theorem seq_repeat_nonpositive : forall s (l : list N) n, n <= 0 -> py_str_repeat s n = EmptyString /\ py_bytes_repeat l n = [].
Proof. intros; split; [exact (str_repeat_nonpos s n H) | exact (bytes_repeat_nonpos l n H)]. Qed.
Print Assumptions seq_repeat_nonpositive.

(* the int power is total in the model; its COST is not bounded by anything in the folding code:
   `X: Final = 18446744073709551617 ** 9223372036854775808` does not finish (C20 finding, no theorem can help) *)
Theorem py_pow_int_total : forall l r, 0 <= r -> py_pow_int l r = ROk (l ^ r).
Proof. exact ProofsFloat.py_pow_int_total. Qed.
Print Assumptions py_pow_int_total.

(* nested conditions (`not`, `and`, `or` to any depth) over leaves whose inferred value is a correct verdict: the lookup in
   inverted_truth_mapping never raises KeyError, the result is a truth value, and it is a correct verdict for the boolean
   the whole condition denotes -- by structural induction, from the regenerated tables *)
Theorem infer_condition_value_compositional : forall e, leaves_sound e ->
  exists v, infer_cond e = Some v /\ tv v /\ sem v (eval_cond e).
Proof. exact ProofsCond.infer_condition_value_compositional. Qed.
Print Assumptions infer_condition_value_compositional.

(* so a branch taken / skipped on a nested condition is the branch the condition selects *)
Theorem nested_condition_decided_correctly : forall e v b, leaves_sound e ->
  infer_cond e = Some v -> static_truth v = Some b -> eval_cond e = b.
Proof. exact ProofsCond.nested_condition_decided_correctly. Qed.
Print Assumptions nested_condition_decided_correctly.

(* if / elif / else chains (infer_reachability_of_if_statement): body i is marked unreachable exactly when its condition is
   always false or an earlier condition is always true; the else body exactly when some condition is always true *)
Theorem chain_reachability_exact : forall vs,
  (forall i v, nth_error vs i = Some v ->
     nth_error (fst (chain_marks vs)) i
     = Some (is_false_value v || existsb (fun w => negb (is_false_value w) && is_true_value w) (firstn i vs))) /\
  snd (chain_marks vs) = existsb (fun v => negb (is_false_value v) && is_true_value v) vs.
Proof. intros vs; split; [exact (chain_body_exact vs) | exact (chain_else_exact vs)]. Qed.
Print Assumptions chain_reachability_exact.

(* and the body that runs is never marked: with correct verdicts for the conditions, the branch they select is kept *)
Theorem chain_never_skips_taken_branch : forall vs xs, Forall2 sem vs xs ->
  match taken xs with
  | Some i => nth_error (fst (chain_marks vs)) i = Some false
  | None => snd (chain_marks vs) = false
  end.
Proof. exact ProofsChain.chain_never_skips_taken_branch. Qed.
Print Assumptions chain_never_skips_taken_branch.

(* non-vacuity: hypotheses are met by concrete non-trivial cases *)
Example fold_example : constant_fold_binary_int_op "//" (-7) 2 = Folded (VInt (-4)).
Proof. vm_compute. reflexivity. Qed.
Example fold_overflow_example : constant_fold_binary_int_op "/" (10 ^ 400) 1 = NotFolded.
Proof. vm_compute. reflexivity. Qed.
Example version_example :
  consider 3 12 (IdxSlice None (Some 2)) ">=" (ThTuple [3; 10]) = always true /\
  f5_class 3 12 (IdxSlice None (Some 2)) ">=" (ThTuple [3; 10]) = false.
Proof. split; vm_compute; reflexivity. Qed.
Example consider_core_example :
  consider_core [3; 12] (IdxSlice None (Some 2)) ">=" (ThTuple [3; 10]) = Some (always true) /\
  reverse_op "<" = Some ">"%string /\ consider_core [3; 12] (IdxInt 1) ">" (ThInt 12) = Some (always false).
Proof. repeat split; vm_compute; reflexivity. Qed.
Example fold_float_example :
  let fo := {| fl_sign := fun f => match f with FLit 0 => FZero | _ => FPos end; fl_fits := fun _ => true; fl_pow := fun _ _ => PowOk |} in
  constant_fold_binary_float_op fo "/" (NInt 1) (NFloat (FLit 0)) = NotFolded /\
  constant_fold_binary_float_op fo "/" (NInt 1) (NFloat (FLit 1)) = Folded (VFloat (FBin "/" (FOfInt 1) (FLit 1))) /\
  constant_fold_binary_op_str_int "*" "ab" (-1) = Some EmptyString.
Proof. repeat split; vm_compute; reflexivity. Qed.
(* not (TYPE_CHECKING and <unknown>) or <always true> *)
Example nested_condition_example :
  let e := COp "or" (CNot (COp "and" (CLeaf MYPY_TRUE true) (CLeaf TRUTH_VALUE_UNKNOWN false))) (CLeaf ALWAYS_TRUE true) in
  leaves_sound e /\ infer_cond e = Some ALWAYS_TRUE /\ eval_cond e = true.
Proof. cbv zeta. split; [|split; vm_compute; reflexivity]. simpl. unfold tv, sem. vm_compute. tauto. Qed.
(* if AF: .. elif <unknown>: .. elif TYPE_CHECKING: .. elif AT: .. else: .. *)
Example chain_example :
  chain_marks [ALWAYS_FALSE; TRUTH_VALUE_UNKNOWN; MYPY_TRUE; ALWAYS_TRUE] = ([true; false; false; true], true) /\
  Forall2 sem [ALWAYS_FALSE; TRUTH_VALUE_UNKNOWN; MYPY_TRUE] [false; false; true] /\ taken [false; false; true] = Some 2%nat.
Proof. split; [vm_compute; reflexivity|]. split; [|reflexivity]. repeat constructor; vm_compute; auto. Qed.
