(* Property C12, parts (c) version/platform tests and (d) constant folding.
   Only theorem statements closed by `exact`, each followed by Print Assumptions. *)
From Coq Require Import ZArith List String Bool.
From C12 Require Import PyRules Version Proofs ProofsVersion.
From Gen Require Import ConstFold Reach.
Import ListNotations.
Open Scope Z_scope.

(* (d) folding an int operation yields exactly the value CPython computes, for all operands *)
Theorem fold_int_correct : forall op l r v,
  constant_fold_binary_int_op op l r = Folded v <-> py_int_binop op l r = Some (ROk v).
Proof. intros; split; [exact (fold_int_sound op l r v) | exact (fold_int_complete op l r v)]. Qed.
Print Assumptions fold_int_correct.

(* (d) no operand makes the folding code raise (ZeroDivisionError, ValueError, OverflowError) *)
Theorem fold_never_raises : forall op l r e, constant_fold_binary_int_op op l r <> Crash e.
Proof. exact fold_int_no_crash. Qed.
Print Assumptions fold_never_raises.

Theorem fold_unary_correct : forall op v z,
  constant_fold_unary_op_int op v = Folded (VInt z) <-> py_int_unop op v = Some z.
Proof. exact fold_unary_sound. Qed.
Print Assumptions fold_unary_correct.

Theorem fold_dispatch_on_ints : forall op l r,
  constant_fold_binary_op_int op l r = constant_fold_binary_int_op op l r.
Proof. exact fold_dispatch_int. Qed.
Print Assumptions fold_dispatch_on_ints.

(* (c) FULL statement (Statement.version_test_correct) is refuted by the faithful model: F5 *)
Theorem version_test_refuted :
  exists major minor micro lvl serial idx op th b,
    consider major minor idx op th = always b /\
    runtime_test (vinfo major minor micro lvl serial) idx op th = Some (negb b).
Proof. exact ProofsVersion.version_test_refuted. Qed.
Print Assumptions version_test_refuted.

(* (c) what IS true, exactly: for every interpreter of the target version the run-time value is
   mypy's verdict, except in the f5 class (open-ended slice or bare version_info, literal equal
   to the target prefix, operator in ==, !=, >, <=) where it is the opposite. *)
Theorem version_test_exact : forall major minor micro lvl serial idx op th b,
  consider major minor idx op th = always b ->
  runtime_test (vinfo major minor micro lvl serial) idx op th
  = Some (if f5_class major minor idx op th then negb b else b).
Proof. exact ProofsVersion.version_test_exact. Qed.
Print Assumptions version_test_exact.

Theorem version_test_correct_partial : forall major minor micro lvl serial idx op th b,
  f5_class major minor idx op th = false ->
  consider major minor idx op th = always b ->
  runtime_test (vinfo major minor micro lvl serial) idx op th = Some b.
Proof. exact version_test_sound_outside_f5. Qed.
Print Assumptions version_test_correct_partial.

Theorem platform_test_correct : forall platform op lit b,
  consider_platform_cmp platform op lit = always b ->
  (String.eqb op "==" = true /\ b = String.eqb platform lit) \/
  (String.eqb op "!=" = true /\ b = negb (String.eqb platform lit)).
Proof. exact ProofsVersion.platform_test_correct. Qed.
Print Assumptions platform_test_correct.

Theorem condition_tables_sound : forall l r x y, tv l -> tv r -> sem l x -> sem r y ->
  sem (or_table l r) (x || y) /\ sem (and_table l r) (x && y) /\ sem (inverted l) (negb x).
Proof. intros; repeat split; [apply or_table_sound | apply and_table_sound | apply not_table_sound]; assumption. Qed.
Print Assumptions condition_tables_sound.

(* non-vacuity: hypotheses are met by concrete non-trivial cases *)
Example fold_example : constant_fold_binary_int_op "//" (-7) 2 = Folded (VInt (-4)).
Proof. vm_compute. reflexivity. Qed.
Example fold_overflow_example : constant_fold_binary_int_op "/" (10 ^ 400) 1 = NotFolded.
Proof. vm_compute. reflexivity. Qed.
Example version_example :
  consider 3 12 (IdxSlice None (Some 2)) ">=" (ThTuple [3; 10]) = always true /\
  f5_class 3 12 (IdxSlice None (Some 2)) ">=" (ThTuple [3; 10]) = false.
Proof. split; vm_compute; reflexivity. Qed.
