(* Property C12 (a): call binding / arity.
   Fragment: a call with positional actuals followed by keyword actuals (`determinate`: keyword names
   pairwise distinct — a repeated keyword is a SyntaxError) against a signature given as mypy's
   (arg_kinds, arg_names) lists; a positional-only formal has name None (as in CallableType.arg_names;
   CPython never looks at the names of positional-only parameters when matching keywords).
   *tuple / **TypedDict actuals are NOT in the fragment (checked by correspondence only, see notes).

   Executable definitions only.  Loops over the actuals that append to formal_to_actual[i] are written
   per formal ("which actuals does formal i receive"), which is the same list because appends happen in
   actual order; `formal_names.index(name)` is the unique formal of that name (parameter names are
   distinct).  The real functions are compared with these on every enumerated case. *)
From Coq Require Import List Arith Bool PeanoNat.
Import ListNotations.

Inductive kind := ARG_POS | ARG_OPT | ARG_STAR | ARG_NAMED | ARG_STAR2 | ARG_NAMED_OPT.
Record formal := mkF { fkind : kind; fname : option nat }.
Inductive actual := APos (i : nat) | AKw (i : nat) (name : nat).   (* index in the call, ARG_POS / ARG_NAMED *)
Record call := mkCall { npos : nat; kws : list nat }.

(* nodes.ArgKind predicates *)
Definition is_positional (k : kind) : bool := match k with ARG_POS | ARG_OPT => true | _ => false end.
Definition is_named (k : kind) : bool := match k with ARG_NAMED | ARG_NAMED_OPT => true | _ => false end.
Definition is_required (k : kind) : bool := match k with ARG_POS | ARG_NAMED => true | _ => false end.
Definition is_star (k : kind) : bool := match k with ARG_STAR | ARG_STAR2 => true | _ => false end.
Definition is_star1 (k : kind) : bool := match k with ARG_STAR => true | _ => false end.
Definition is_star2 (k : kind) : bool := match k with ARG_STAR2 => true | _ => false end.

Definition named_by (f : formal) (k : nat) : bool :=
  match fname f with Some n => Nat.eqb n k | None => false end.
Definition has_kind (p : kind -> bool) (formals : list formal) : bool := existsb (fun f => p (fkind f)) formals.
Definition null {A} (l : list A) : bool := match l with [] => true | _ :: _ => false end.

Fixpoint forallb2 {A B} (p : A -> B -> bool) (l1 : list A) (l2 : list B) : bool :=
  match l1, l2 with
  | [], [] => true
  | a :: r1, b :: r2 => p a b && forallb2 p r1 r2
  | _, _ => false
  end.

(* ------------------------------------------------------------------ mypy/argmap.py map_actuals_to_formals *)

(* the ARG_POS branch: fi advances past a non-star formal for every positional actual, stays on *args,
   and a **kwargs formal (or the end of the formals) takes nothing.
   n = positional actuals still to place, ai = index of the next one *)
Fixpoint map_pos (formals : list formal) (ai n : nat) : list (list actual) :=
  match formals with
  | [] => []
  | f :: rest =>
      match n with
      | O => [] :: map_pos rest ai 0
      | S n' =>
          match fkind f with
          | ARG_STAR => map APos (seq ai n) :: map_pos rest (ai + n) 0
          | ARG_STAR2 => [] :: map_pos rest ai 0
          | _ => [APos ai] :: map_pos rest (S ai) n'
          end
      end
  end.

(* positional actuals that were mapped to no formal *)
Fixpoint leftover (formals : list formal) (n : nat) : nat :=
  match formals with
  | [] => n
  | f :: rest =>
      match n with
      | O => O
      | S n' => match fkind f with ARG_STAR => O | ARG_STAR2 => n | _ => leftover rest n' end
      end
  end.

Fixpoint kw_actuals (ai : nat) (kws : list nat) : list actual :=
  match kws with [] => [] | k :: r => AKw ai k :: kw_actuals (S ai) r end.

Definition actual_named (p : nat -> bool) (a : actual) : bool :=
  match a with AKw _ k => p k | APos _ => false end.

(* `name in formal_names and formal_kinds[formal_names.index(name)] != nodes.ARG_STAR` *)
Definition name_matched (formals : list formal) (k : nat) : bool :=
  existsb (fun f => named_by f k && negb (is_star1 (fkind f))) formals.

(* the is_named() branch: the formal of that name unless it is *args; otherwise the **kwargs formal *)
Definition kw_part (all : list formal) (kwa : list actual) (f : formal) : list actual :=
  match fkind f with
  | ARG_STAR => []
  | ARG_STAR2 => filter (actual_named (fun k => named_by f k || negb (name_matched all k))) kwa
  | _ => filter (actual_named (named_by f)) kwa
  end.

Fixpoint attach (all : list formal) (kwa : list actual) (formals : list formal) (pm : list (list actual)) : list (list actual) :=
  match formals, pm with
  | f :: fr, p :: pr => (p ++ kw_part all kwa f) :: attach all kwa fr pr
  | _, _ => []
  end.

Definition map_actuals_to_formals (formals : list formal) (c : call) : list (list actual) :=
  attach formals (kw_actuals (npos c) (kws c)) formals (map_pos formals 0 (npos c)).

(* ------------------------------------------------------------------ mypy/checkexpr.py check_argument_count *)

Definition first_is_positional (m : list actual) : bool := match m with APos _ :: _ => true | _ => false end.

(* body of `for i, kind in enumerate(callee.arg_kinds)`; false = an error was reported (ok = False).
   is_duplicate_mapping = len(mapping) > 1 in this fragment; the call is in a checked function. *)
Definition check_formal (unexpected : bool) (f : formal) (mapped : list actual) : bool :=
  if is_required (fkind f) && null mapped && negb unexpected then false       (* too few / missing named argument *)
  else if negb (is_star (fkind f)) && (1 <? length mapped) then false           (* multiple values for argument *)
  else if is_named (fkind f) && negb (null mapped) && first_is_positional mapped then false  (* too many positional *)
  else true.

(* check_for_extra_actual_arguments: an actual matched by no formal.  Positional: counted by `leftover`;
   keyword: neither a formal of that name (other than *args) nor a **kwargs formal. *)
Definition unexpected_keyword (formals : list formal) (c : call) : bool :=
  existsb (fun k => negb (name_matched formals k || has_kind is_star2 formals)) (kws c).

Definition mypy_accepts (formals : list formal) (c : call) : bool :=
  let unexpected := unexpected_keyword formals c in
  (leftover formals (npos c) =? 0) && negb unexpected
  && forallb2 (check_formal unexpected) formals (map_actuals_to_formals formals c).

(* ------------------------------------------------------------------ CPython ceval.c initialize_locals *)

Inductive bind_result := BindOk | TypeError.

Definition co_argcount (formals : list formal) : nat := length (filter (fun f => is_positional (fkind f)) formals).

(* n = min(argcount, co->co_argcount); for (j = 0; j < n; j++) localsplus[j] = args[j];
   one slot per parameter in signature order; true = the slot has a value *)
Fixpoint copy_pos (formals : list formal) (n : nat) : list bool :=
  match formals with
  | [] => []
  | f :: rest => if is_positional (fkind f) then (0 <? n) :: copy_pos rest (pred n) else false :: copy_pos rest n
  end.

(* the keyword loop searches co_varnames[posonlyargcount .. total_args): a non-positional-only,
   non-star parameter of that name *)
Definition kw_slot (formals : list formal) (k : nat) : bool :=
  existsb (fun f => named_by f k && negb (is_star (fkind f))) formals.

(* per parameter slot: "got multiple values for argument" when the keyword loop finds it already set;
   after defaults / kwdefaults: "missing N required positional / keyword-only arguments" *)
Definition slot_cond (kws : list nat) (f : formal) (s : bool) : bool :=
  if is_star (fkind f) then true
  else let k := existsb (named_by f) kws in
       negb (s && k) && (negb (is_required (fkind f)) || s || k).

Definition cpython_bind (formals : list formal) (c : call) : bind_result :=
  if existsb (fun k => negb (kw_slot formals k) && negb (has_kind is_star2 formals)) (kws c)
  then TypeError                                  (* got an unexpected keyword argument (kwdict == NULL) *)
  else if (co_argcount formals <? npos c) && negb (has_kind is_star1 formals)
  then TypeError                                  (* takes N positional arguments but M were given *)
  else if forallb2 (slot_cond (kws c)) formals (copy_pos formals (npos c)) then BindOk else TypeError.

(* ------------------------------------------------------------------ the fragment *)

Definition determinate (c : call) : Prop := NoDup (kws c).

(* the parameter list of a `def`: positional (pos-only first), then *args, keyword-only, **kwargs *)
Fixpoint tail_kw (fs : list formal) : bool :=
  match fs with
  | [] => true
  | f :: rest =>
      match fkind f with
      | ARG_NAMED | ARG_NAMED_OPT => tail_kw rest
      | ARG_STAR2 => null rest
      | _ => false
      end
  end.
Fixpoint shape (fs : list formal) : bool :=
  match fs with
  | [] => true
  | f :: rest =>
      match fkind f with
      | ARG_POS | ARG_OPT => shape rest
      | ARG_STAR => tail_kw rest
      | _ => tail_kw fs
      end
  end.
Fixpoint names_of (fs : list formal) : list nat :=
  match fs with [] => [] | f :: r => match fname f with Some n => n :: names_of r | None => names_of r end end.
Definition wf_sig (fs : list formal) : Prop := shape fs = true /\ NoDup (names_of fs).

(* the common per-slot reading both sides are proved equal to (BindProofs) *)
Fixpoint slots_ok (kws : list nat) (formals : list formal) (n : nat) : bool :=
  match formals with
  | [] => n =? 0
  | f :: rest =>
      let k := existsb (named_by f) kws in
      match fkind f with
      | ARG_POS => (if n =? 0 then k else negb k) && slots_ok kws rest (pred n)
      | ARG_OPT => negb ((0 <? n) && k) && slots_ok kws rest (pred n)
      | ARG_STAR => slots_ok kws rest 0
      | ARG_NAMED => (n =? 0) && k && slots_ok kws rest 0
      | ARG_NAMED_OPT => (n =? 0) && slots_ok kws rest 0
      | ARG_STAR2 => (n =? 0) && slots_ok kws rest 0
      end
  end.

(* ================================================================== star actuals ==================
   Calls whose positional part mixes plain positionals with `*tuple` actuals of KNOWN length and whose
   keyword part mixes explicit keywords with `**TypedDict` actuals (all keys listed; whether a key is
   Required or NotRequired is a run-time matter, mypy maps both alike).  `**dict` of unknown keys and
   `*iterable` of unknown length are indeterminate and not represented.  Source order: positional part,
   then keyword part (a star tuple written after a keyword binds the same way). *)

Inductive pitem := PPos | PStar (len : nat).
Inductive kitem := KName (n : nat) | KTD (keys : list nat).
Record call_s := mkCallS { pitems : list pitem; kitems : list kitem }.

(* an entry of formal_to_actual: the actual's index in the call and what it is
   (ARG_POS; one item of an ARG_STAR tuple; ARG_NAMED; one key of an ARG_STAR2 TypedDict) *)
Inductive actual_s := SPos (i : nat) | SStarItem (i : nat) | SKw (i : nat) (name : nat) | STDKey (i : nat) (name : nat).
Definition idx (a : actual_s) : nat := match a with SPos i | SStarItem i | SKw i _ | STDKey i _ => i end.

(* the values the positional part supplies, in order: `for _ in range(len(actualt.items))` *)
Fixpoint flatten (ai : nat) (ps : list pitem) : list actual_s :=
  match ps with
  | [] => []
  | PPos :: r => SPos ai :: flatten (S ai) r
  | PStar n :: r => repeat (SStarItem ai) n ++ flatten (S ai) r
  end.

(* ARG_POS and ARG_STAR(TupleType) branches: a value goes to formal fi and fi advances unless the formal
   is *args (takes everything, fi stays) or **kwargs (`break` / nothing mapped, fi stays) *)
Fixpoint map_pos_s (formals : list formal) (flat : list actual_s) : list (list actual_s) :=
  match formals with
  | [] => []
  | f :: rest =>
      match flat with
      | [] => [] :: map_pos_s rest []
      | h :: t =>
          match fkind f with
          | ARG_STAR => flat :: map_pos_s rest []
          | ARG_STAR2 => [] :: map_pos_s rest []
          | _ => [h] :: map_pos_s rest t
          end
      end
  end.
Fixpoint leftover_s (formals : list formal) (flat : list actual_s) : list actual_s :=
  match formals with
  | [] => flat
  | f :: rest =>
      match flat with
      | [] => []
      | h :: t => match fkind f with ARG_STAR => [] | ARG_STAR2 => flat | _ => leftover_s rest t end
      end
  end.

Fixpoint kw_entries (ai : nat) (ks : list kitem) : list actual_s :=
  match ks with
  | [] => []
  | KName n :: r => SKw ai n :: kw_entries (S ai) r
  | KTD keys :: r => map (STDKey ai) keys ++ kw_entries (S ai) r
  end.

(* `name in formal_names` (any kind: the TypedDict branch does not exclude *args) *)
Definition name_in (formals : list formal) (k : nat) : bool := existsb (fun f => named_by f k) formals.

(* does keyword-ish entry a land on formal f *)
Definition entry_for (all : list formal) (f : formal) (a : actual_s) : bool :=
  match a with
  | SKw _ k =>
      match fkind f with
      | ARG_STAR => false
      | ARG_STAR2 => named_by f k || negb (name_matched all k)
      | _ => named_by f k
      end
  | STDKey _ k =>
      match fkind f with
      | ARG_STAR2 => named_by f k || negb (name_in all k)
      | _ => named_by f k
      end
  | _ => false
  end.

Fixpoint attach_s (all : list formal) (kwa : list actual_s) (formals : list formal) (pm : list (list actual_s)) : list (list actual_s) :=
  match formals, pm with
  | f :: fr, p :: pr => (p ++ filter (entry_for all f) kwa) :: attach_s all kwa fr pr
  | _, _ => []
  end.

Definition map_actuals_to_formals_s (formals : list formal) (c : call_s) : list (list actual_s) :=
  attach_s formals (kw_entries (length (pitems c)) (kitems c)) formals (map_pos_s formals (flatten 0 (pitems c))).

(* is_duplicate_mapping: more than one actual, unless exactly [*tuple item, **TypedDict key] *)
Definition exempt_pair (m : list actual_s) : bool :=
  match m with [SStarItem _; STDKey _ _] => true | _ => false end.
Definition is_duplicate_mapping (m : list actual_s) : bool := (1 <? length m) && negb (exempt_pair m).
(* actual_kinds[mapped_args[0]] not in [ARG_NAMED, ARG_STAR2] *)
Definition first_positional_s (m : list actual_s) : bool :=
  match m with SPos _ :: _ | SStarItem _ :: _ => true | _ => false end.

Definition check_formal_s (unexpected : bool) (f : formal) (mapped : list actual_s) : bool :=
  if is_required (fkind f) && null mapped && negb unexpected then false
  else if negb (is_star (fkind f)) && is_duplicate_mapping mapped then false
  else if is_named (fkind f) && negb (null mapped) && first_positional_s mapped then false
  else true.

(* check_for_extra_actual_arguments, positional part: a plain positional mapped nowhere; a non-empty tuple
   mapped nowhere; a tuple with unmapped items when the callee has no *args *)
Definition extra_positional (formals : list formal) (flat : list actual_s) : bool :=
  let mapped := concat (map_pos_s formals flat) in
  existsb (fun a => match a with
                    | SPos _ => true
                    | SStarItem i => negb (has_kind is_star1 formals) || negb (existsb (fun b => idx b =? i) mapped)
                    | _ => false
                    end) (leftover_s formals flat).
(* keyword part: an explicit keyword mapped nowhere (unexpected keyword argument); a TypedDict with fewer
   mapped keys than items (Extra argument from **args): both set is_unexpected_arg_error *)
Definition unexpected_s (formals : list formal) (kwa : list actual_s) : bool :=
  existsb (fun a => match a with
                    | SKw _ k => negb (name_matched formals k || has_kind is_star2 formals)
                    | STDKey _ k => negb (name_in formals k || has_kind is_star2 formals)
                    | _ => false
                    end) kwa.

Definition mypy_accepts_s (formals : list formal) (c : call_s) : bool :=
  let flat := flatten 0 (pitems c) in
  let kwa := kw_entries (length (pitems c)) (kitems c) in
  let un := unexpected_s formals kwa in
  negb (extra_positional formals flat) && negb un
  && forallb2 (check_formal_s un) formals (map_actuals_to_formals_s formals c).

(* CPython: the call site expands star actuals (a repeated keyword while merging is a TypeError
   "got multiple values for keyword argument"), then binds as before *)
Fixpoint npos_of (ps : list pitem) : nat :=
  match ps with [] => 0 | PPos :: r => S (npos_of r) | PStar n :: r => n + npos_of r end.
Fixpoint kws_of (ks : list kitem) : list nat :=
  match ks with [] => [] | KName n :: r => n :: kws_of r | KTD keys :: r => keys ++ kws_of r end.
Fixpoint has_dup_kw (l : list nat) : bool :=
  match l with [] => false | x :: t => existsb (Nat.eqb x) t || has_dup_kw t end.
Definition expand (c : call_s) : call := mkCall (npos_of (pitems c)) (kws_of (kitems c)).
Definition cpython_bind_s (formals : list formal) (c : call_s) : bind_result :=
  if has_dup_kw (kws_of (kitems c)) then TypeError else cpython_bind formals (expand c).

(* the three places where mypy is more lenient than the expanded call (each refuted separately):
   L1 a TypedDict key named like the *args parameter (and no **kwargs);
   L2 a *tuple item and a **TypedDict key for the same parameter (exempt_pair);
   L3 a keyword supplied twice after expansion *)
Definition tdkeys_of (ks : list kitem) : list nat :=
  flat_map (fun k => match k with KTD keys => keys | KName _ => [] end) ks.
Definition no_L1 (formals : list formal) (c : call_s) : bool :=
  has_kind is_star2 formals
  || forallb (fun k => negb (existsb (fun f => named_by f k && is_star1 (fkind f)) formals)) (tdkeys_of (kitems c)).
Definition no_L2 (formals : list formal) (c : call_s) : bool :=
  forallb2 (fun f m => is_star (fkind f) || negb (exempt_pair m)) formals (map_actuals_to_formals_s formals c).
Definition no_L3 (c : call_s) : bool := negb (has_dup_kw (kws_of (kitems c))).
Definition plain_like (formals : list formal) (c : call_s) : bool := no_L1 formals c && no_L2 formals c && no_L3 c.
