(* The functions REGENERATED from mypy/reachability.py (Gen.Reach) are the specifications of Version.v,
   for every input; the reverse_op table is the mirror of the comparison operators. *)
From Coq Require Import ZArith List String Bool Lia.
From C12 Require Import PyRules Version Proofs ProofsVersion.
From Gen Require Import Reach.
Import ListNotations.
Open Scope Z_scope.

(* ---- consider_sys_version_info, decision core *)
Lemma consider_core_eq : forall major minor idx op th,
  consider_core [major; minor] idx op th = Some (consider major minor idx op th).
Proof.
  intros. unfold consider_core, consider, known_op.
  destruct (negb _) eqn:G; [reflexivity|].
  destruct idx as [i|lo hi]; destruct th as [k|t]; try reflexivity.
  - destruct ((0 <=? i) && (i <=? 1)) eqn:B; [|reflexivity].
    assert (i = 0 \/ i = 1) as [-> | ->] by lia; reflexivity.
  - unfold opt_default, is_eq_op.
    destruct lo as [lo|]; destruct hi as [hi|]; cbv zeta;
      match goal with |- (if ?c then _ else _) = _ => destruct c end; try reflexivity;
      match goal with |- (if ?c then _ else _) = _ => destruct c end; reflexivity.
Qed.

(* no IndexError can escape for a two-component target version *)
Corollary consider_core_no_raise : forall major minor idx op th, consider_core [major; minor] idx op th <> None.
Proof. intros. rewrite consider_core_eq. discriminate. Qed.

(* ---- reverse_op is the mirror image of the comparison operators *)
Lemma reverse_op_mirror : forall op r, reverse_op op = Some r ->
  forall c, py_cmp_op r (CompOpp c) = py_cmp_op op c.
Proof.
  intros op r H c. unfold reverse_op in H.
  repeat match type of H with
  | (if String.eqb op ?s then _ else _) = _ =>
      destruct (String.eqb_spec op s) as [->|_]; [inversion H; subst; destruct c; reflexivity|]
  end.
  discriminate.
Qed.

Lemma tuple_cmp_antisym : forall a b, tuple_cmp b a = CompOpp (tuple_cmp a b).
Proof.
  induction a as [|x a IH]; destruct b as [|y b]; simpl; auto.
  rewrite (Z.compare_antisym x y). destruct (x ?= y); simpl; auto.
Qed.

(* run time: a <op> b  =  b <reverse_op[op]> a, on ints and on tuples of ints *)
Theorem reverse_op_mirror_int : forall op r a b, reverse_op op = Some r ->
  py_cmp_op r (Z.compare b a) = py_cmp_op op (Z.compare a b).
Proof. intros. rewrite (Z.compare_antisym a b). apply reverse_op_mirror. auto. Qed.
Theorem reverse_op_mirror_tuple : forall op r a b, reverse_op op = Some r ->
  py_cmp_op r (tuple_cmp b a) = py_cmp_op op (tuple_cmp a b).
Proof. intros. rewrite (tuple_cmp_antisym a b). apply reverse_op_mirror. auto. Qed.

(* defined exactly on the six operators consider_sys_version_info accepts, and stays inside them *)
Lemma reverse_op_known : forall op, known_op op = true <-> exists r, reverse_op op = Some r /\ known_op r = true.
Proof.
  intros op. unfold known_op, reverse_op. split.
  - intros H.
    repeat match goal with
    | |- exists r, (if String.eqb op ?s then _ else _) = _ /\ _ =>
        destruct (String.eqb op s) eqn:?; [eexists; split; reflexivity|]
    end. simpl in H. discriminate.
  - intros [r [H _]].
    repeat match type of H with
    | (if String.eqb op ?s then _ else _) = _ => destruct (String.eqb op s) eqn:?; [simpl; rewrite ?orb_true_r; reflexivity|]
    end. discriminate.
Qed.

(* mypy level: deciding `thing <op> sys.version_info...` through the reversed operator is deciding the
   mirrored comparison (any ordered type whose comparison is antisymmetric) *)
Lemma fixed_comparison_mirror : forall (T : Type) (cmp : T -> T -> comparison),
  (forall a b, cmp b a = CompOpp (cmp a b)) ->
  forall op r a b, reverse_op op = Some r -> fixed_comparison T cmp b r a = fixed_comparison T cmp a op b.
Proof.
  intros T cmp AS op r a b H. unfold reverse_op in H. unfold fixed_comparison.
  repeat match type of H with
  | (if String.eqb op ?s then _ else _) = _ =>
      destruct (String.eqb_spec op s) as [->|_]; [inversion H; subst; simpl; rewrite (AS a b); destruct (cmp a b); reflexivity|]
  end.
  discriminate.
Qed.

(* ---- and / or / not of infer_condition_value *)
Lemma eq_chain : forall l r c, ((l =? r) && (r =? c)) = ((l =? c) && (r =? c)).
Proof. intros. destruct (Z.eqb_spec l r), (Z.eqb_spec r c), (Z.eqb_spec l c); simpl; auto; lia. Qed.

Lemma infer_op_table_or : forall l r, infer_op_table "or" l r = or_table l r.
Proof. intros. unfold infer_op_table, or_table, mem2. simpl. rewrite eq_chain. reflexivity. Qed.
Lemma infer_op_table_and : forall l r, infer_op_table "and" l r = and_table l r.
Proof. intros. unfold infer_op_table, and_table, mem2. simpl. rewrite eq_chain. reflexivity. Qed.
Lemma infer_op_table_other : forall op l r, op <> "or"%string -> op <> "and"%string -> infer_op_table op l r = TRUTH_VALUE_UNKNOWN.
Proof.
  intros op l r H1 H2. unfold infer_op_table.
  destruct (String.eqb_spec op "or"); [contradiction|]. destruct (String.eqb_spec op "and"); [contradiction|]. reflexivity.
Qed.

Definition truth_value (v : Z) : Prop :=
  v = ALWAYS_TRUE \/ v = MYPY_TRUE \/ v = ALWAYS_FALSE \/ v = MYPY_FALSE \/ v = TRUTH_VALUE_UNKNOWN.
(* the dict lookup never raises KeyError on a truth value and is the hand table *)
Lemma inverted_truth_mapping_eq : forall v, truth_value v -> inverted_truth_mapping v = Some (inverted v).
Proof. intros v [->|[->|[->|[->| ->]]]]; reflexivity. Qed.

(* ---- sys.platform *)
Lemma platform_cmp_core_eq : forall platform op lit, platform_cmp_core platform op lit = consider_platform_cmp platform op lit.
Proof. intros. unfold platform_cmp_core, consider_platform_cmp, is_eq_op. reflexivity. Qed.
Lemma platform_startswith_core_eq : forall platform lit,
  platform_startswith_core platform lit = if String.prefix lit platform then ALWAYS_TRUE else ALWAYS_FALSE.
Proof. reflexivity. Qed.

(* ---- the theorems of ProofsVersion, over the generated function *)
Lemma version_test_exact_gen : forall major minor micro lvl serial idx op th b,
  consider_core [major; minor] idx op th = Some (always b) ->
  runtime_test (vinfo major minor micro lvl serial) idx op th
  = Some (if f5_class major minor idx op th then negb b else b).
Proof.
  intros until b. rewrite consider_core_eq. intros H. inversion H.
  apply version_test_exact. assumption.
Qed.

(* operands the other way round: mypy reverses the operator with the generated table, and the reversed test
   has the same run-time value *)
Lemma runtime_flipped_mirror : forall vi idx op r th, reverse_op op = Some r ->
  runtime_test_flipped vi idx op th = runtime_test vi idx r th.
Proof.
  intros vi idx op r th H. unfold runtime_test_flipped, runtime_test.
  destruct idx as [i|lo hi]; destruct th as [k|t]; auto.
  - destruct (_ && _); auto. symmetry. apply reverse_op_mirror_int. assumption.
  - cbv zeta. destruct (_ && _); auto. symmetry. apply reverse_op_mirror_tuple. assumption.
Qed.

Lemma version_test_flipped_exact_gen : forall major minor micro lvl serial idx op r th b,
  reverse_op op = Some r ->
  consider_core [major; minor] idx r th = Some (always b) ->
  runtime_test_flipped (vinfo major minor micro lvl serial) idx op th
  = Some (if f5_class major minor idx r th then negb b else b).
Proof.
  intros until b. intros HR H. rewrite (runtime_flipped_mirror _ _ _ _ _ HR).
  apply version_test_exact_gen. assumption.
Qed.
