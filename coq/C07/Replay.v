(* C07 — trace validation: replay a real coordinator/worker event log on the model (executable only).
   Every event must be enabled, the observations logged by the shim must equal what the model predicts
   (ready set at classification, queue / free workers after a submit, which dependencies a worker loads from
   the shared cache, kind and batch of every reply), the invariant monitors must hold after every event, the final
   state must be `finished`, and the model's results must equal the model's sequential run. *)
From Coq Require Import List Arith Bool PeanoNat NArith.
From C07 Require Import Model.
Import ListNotations.

Section Replay.
Variable nodes : list nat.
Variable deps : nat -> list nat.
Variable fresh : list nat.          (* SCCs the real run classified as fresh (oracle taken from the trace) *)
Variable nworkers : nat.

(* symbolic analysis: an interface "hash" that depends on every input it is given *)
Local Open Scope N_scope.
Definition h_view (v : list (nat * option N)) : N :=
  fold_left (fun a p => (a * 31 + N.of_nat (fst p) * 7 + match snd p with Some x => x + 1 | None => 0 end) mod 1000003) v 17.
Definition a_iface (s : nat) (v : list (nat * option N)) : N := (N.of_nat s * 101 + h_view v) mod 1000003.
Definition a_impl (s : nat) (own : option N) (v : list (nat * option N)) : N :=
  (N.of_nat s * 103 + 5 * h_view v + match own with Some x => x | None => 0 end) mod 1000003.
Definition fr (s : nat) (_ : list (nat * option N)) : bool := memb s fresh.
Definition i0 (s : nat) : option N := if memb s fresh then Some (N.of_nat s + 500000) else None.
Definition e0 (s : nat) : option N := if memb s fresh then Some (N.of_nat s + 700000) else None.
Local Close Scope N_scope.

Definition St := state N N.
Definition stp := step nat N N nodes deps (fun s => s) a_iface a_impl fr.
Definition ini : St := init N N nodes deps i0 e0 nworkers.
Definition seqr := run_sequential nat N N nodes deps (fun s => s) a_iface a_impl fr i0 e0.

Definition same_set (a b : list nat) : bool := subset a b && subset b a.

(* observation attached to an event by the harness *)
Definition obs := (list nat * list nat)%type.

Definition pre_ok (st : St) (e : event) (o : obs) : bool :=
  match e with
  | EClassify => same_set (ready st) (fst o)
  | EIface w =>
      match ph (wk st w) with
      | PIface (s :: _) _ => same_set (to_load N nodes deps (mem (wk st w)) s) (fst o) && same_set [s] (snd o)
      | _ => false
      end
  | ERecv w =>
      match outbox (wk st w) with
      | MIface res :: _ => same_set (fst o) [0] && same_set (map fst res) (snd o)
      | MImpl res :: _ => same_set (fst o) [1] && same_set (map fst res) (snd o)
      | [] => false
      end
  | _ => true
  end.

Definition post_ok (st : St) (e : event) (o : obs) : bool :=
  match e with
  | ESubmit _ _ => same_set (queue st) (fst o) && same_set (free st) (snd o)
  | _ => true
  end.

(* result: (0, _) accepted; (1, i) event i not enabled; (2, i) observation before event i differs;
   (3, i) observation after event i differs; (4, i) invariant monitor false after event i;
   (5, _) final state not finished; (6, s) model result for SCC s differs from the model's sequential run *)
Fixpoint replay (i : nat) (st : St) (evs : list (event * obs)) : (nat * nat) + St :=
  match evs with
  | [] => inr st
  | (e, o) :: r =>
      if negb (pre_ok st e o) then inl (2, i) else
      match stp st e with
      | None => inl (1, i)
      | Some st' =>
          if negb (post_ok st' e o) then inl (3, i) else
          if negb (monitor N N deps nworkers st') then inl (4, i) else replay (S i) st' r
      end
  end.

Definition opt_eqb (a b : option N) : bool :=
  match a, b with Some x, Some y => N.eqb x y | None, None => true | _, _ => false end.

Definition validate (evs : list (event * obs)) : nat * nat :=
  match replay 0 ini evs with
  | inl r => r
  | inr st =>
      if negb (finished N N nodes nworkers st) then (5, 0) else
      match find (fun s => negb (opt_eqb (s_iface (sto st) s) (s_iface seqr s)
                                 && opt_eqb (s_errs (sto st) s) (s_errs seqr s))) nodes with
      | Some s => (6, s)
      | None => (0, length (done st))
      end
  end.
(* traces of builds that abort on a blocking error: the events up to the blocker reply must be a run of the model *)
Definition validate_prefix (evs : list (event * obs)) : nat * nat :=
  match replay 0 ini evs with
  | inl r => r
  | inr st => (0, length (done st))
  end.
End Replay.
