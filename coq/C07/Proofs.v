(* C07 — confluence of DAG evaluation and the local correctness lemmas of the parallel protocol. *)
From Coq Require Import List Arith Bool PeanoNat Lia.
From C07 Require Import Model ProofsSeq.
Import ListNotations.

Section Par.
Variables Src Iface Errs : Type.
Variable nodes : list nat.
Variable deps : nat -> list nat.
Variable src : nat -> Src.
Variable analyze_iface : Src -> list (nat * option Iface) -> Iface.
Variable analyze_impl : Src -> option Iface -> list (nat * option Iface) -> Errs.
Variable is_fresh : nat -> list (nat * option Iface) -> bool.
Variable iface0 : nat -> option Iface.
Variable errs0 : nat -> option Errs.

Notation SEQ' := (SEQ Src Iface Errs nodes deps src analyze_iface analyze_impl is_fresh iface0 errs0).
Notation SI := (s_iface SEQ').
Notation SE := (s_errs SEQ').
Notation spec := (spec_ok Src Iface Errs nodes deps src analyze_iface analyze_impl is_fresh iface0 errs0).
Notation WF := (wf nodes deps).
Notation td := (tdeps nodes deps).

(* ---- confluence, denotationally: the DAG equations have exactly one solution, the sequential build.
   Whatever order (schedule, batching, worker assignment) was used to fill a store, if every SCC's record is
   the analysis of its sources against the FINAL interfaces of its transitive dependencies (or the old cache
   record when classified fresh on the final interfaces of its direct dependencies), the store is the
   sequential one. *)
Lemma solution_unique_from : forall (F : store Iface Errs) l seen,
  wf_from deps seen l -> (forall n, In n seen -> incl (deps n) seen) ->
  (forall d, In d seen -> s_iface F d = SI d) ->
  (forall s, In s l -> spec F s /\ spec SEQ' s) ->
  forall s, In s l -> s_iface F s = SI s /\ s_errs F s = SE s.
Proof.
  induction l; simpl; intros seen Hwf Hcl Hseen Hsp s Hs; [tauto|].
  destruct Hwf as (H1 & H2 & H3 & H4).
  assert (Ha : s_iface F a = SI a /\ s_errs F a = SE a).
  { destruct (Hsp a (or_introl eq_refl)) as [SF SS]. unfold spec_ok in SF, SS.
    assert (Htd : forall d, In d (td a) -> In d seen).
    { apply (tdeps_closed nodes deps (fun d => In d seen)); [intros; apply H2; auto | intros n Hn d Hd; eapply Hcl; eauto]. }
    rewrite (view_of_ext Iface (s_iface F) SI (deps a)) in SF by (intros; apply Hseen; apply H2; auto).
    rewrite (view_of_ext Iface (s_iface F) SI (td a)) in SF by (intros; apply Hseen; auto).
    destruct (is_fresh a (view_of Iface SI (deps a))); destruct SF as [A B]; destruct SS as [C D]; split; congruence. }
  destruct Hs as [->|Hs]; auto.
  apply (IHl (a :: seen)); auto.
  - intros n [<-|Hn] d Hd; [right; apply H2; auto | right; eapply Hcl; eauto].
  - intros d [<-|Hd]; [apply Ha | auto].
Qed.

Theorem dag_solution_unique : WF -> forall F : store Iface Errs,
  (forall s, In s nodes -> spec F s) ->
  forall s, In s nodes -> s_iface F s = SI s /\ s_errs F s = SE s.
Proof.
  intros Hwf F HF s Hs. apply (solution_unique_from F nodes []); auto.
  - intros n [].
  - intros d [].
  - intros x Hx; split; auto. apply seq_spec; auto.
Qed.

(* ---- worker memory lookups *)
Lemma mlookup_in : forall (m : list (nat * option Iface)) d v, mlookup Iface m d = Some v -> In (d, v) m.
Proof.
  unfold mlookup; intros. destruct (find _ m) eqn:E; inversion H; subst.
  apply find_some in E as [E1 E2]. apply Nat.eqb_eq in E2. destruct p; simpl in *; subst; auto.
Qed.
Lemma mhas_app : forall (m m' : list (nat * option Iface)) d, mhas Iface (m ++ m') d = mhas Iface m d || mhas Iface m' d.
Proof.
  unfold mhas, mlookup; induction m; simpl; intros; auto.
  destruct (Nat.eqb (fst a) d); simpl; auto.
Qed.
Lemma mhas_loaded : forall (f : nat -> option Iface) l d, In d l -> mhas Iface (map (fun d => (d, f d)) l) d = true.
Proof.
  unfold mhas, mlookup; induction l; simpl; intros; [tauto|].
  destruct (Nat.eqb_spec a d); simpl; auto. destruct H; [congruence|auto].
Qed.
Lemma mget_correct : forall (G : nat -> option Iface) (m : list (nat * option Iface)) d,
  (forall d v, In (d, v) m -> v = G d) -> mhas Iface m d = true -> mget Iface m d = G d.
Proof.
  unfold mget, mhas; intros. destruct (mlookup Iface m d) eqn:E; [|discriminate]. apply mlookup_in in E; auto.
Qed.

(* ---- reads_see_committed_deps => the interface a worker commits is the sequential one.
   Hypotheses = what the protocol guarantees when worker w starts SCC s (checked on every real trace by the
   monitors of Replay.v): everything in w's memory is a sequential interface, and every transitive dependency
   that w does not hold in memory has its committed (sequential) interface in the shared store. *)
Notation wiface' := (wiface Src Iface Errs nodes deps src analyze_iface).
Notation wimpl' := (wimpl Src Iface Errs nodes deps src analyze_impl).

Lemma wiface_correct : WF -> forall (st st' : state Iface Errs) w s todo fin,
  ph (wk st w) = PIface (s :: todo) fin -> In s nodes ->
  is_fresh s (view_of Iface SI (deps s)) = false ->
  (forall d v, In (d, v) (mem (wk st w)) -> v = SI d) ->
  (forall d, In d (td s) -> mhas Iface (mem (wk st w)) d = false -> s_iface (sto st) d = SI d) ->
  wiface' st w = Some st' ->
  s_iface (sto st') s = SI s
  /\ (forall d v, In (d, v) (mem (wk st' w)) -> v = SI d)
  /\ (forall x, x <> s -> s_iface (sto st') x = s_iface (sto st) x)
  /\ (forall x, s_errs (sto st') x = s_errs (sto st) x)
  /\ (exists v, ph (wk st' w) = PIface todo (fin ++ [(s, v)]) /\ SI s = Some v).
Proof.
  intros Hwf st st' w s todo fin Hph Hs Hst Hmem Hsto Hstep.
  unfold wiface in Hstep. rewrite Hph in Hstep. inversion Hstep; subst; clear Hstep. simpl.
  set (m1 := mem (wk st w) ++ map (fun d => (d, s_iface (sto st) d)) (to_load Iface nodes deps (mem (wk st w)) s)).
  assert (Hm1 : forall d v, In (d, v) m1 -> v = SI d).
  { intros d v Hin. apply in_app_or in Hin as [Hin|Hin]; auto.
    apply in_map_iff in Hin as [x [Hx1 Hx2]]. inversion Hx1; subst. unfold to_load in Hx2.
    apply filter_In in Hx2 as [Hx2 Hx3]. apply negb_true_iff in Hx3. auto. }
  assert (Hhas : forall d, In d (td s) -> mhas Iface m1 d = true).
  { intros d Hd. unfold m1. rewrite mhas_app. destruct (mhas Iface (mem (wk st w)) d) eqn:E; auto. simpl.
    apply mhas_loaded. unfold to_load. apply filter_In; split; auto. rewrite E; auto. }
  assert (Hview : view_of Iface (mget Iface m1) (td s) = view_of Iface SI (td s)).
  { apply view_of_ext. intros d Hd. apply mget_correct; auto. }
  pose proof (seq_spec Src Iface Errs nodes deps src analyze_iface analyze_impl is_fresh iface0 errs0 Hwf s Hs) as Hsp.
  unfold spec_ok in Hsp. rewrite Hst in Hsp. destruct Hsp as [Hsi _].
  fold m1. rewrite Hview.
  split; [|split; [|split; [|split]]].
  - rewrite upd_same. auto.
  - rewrite upd_same. simpl. intros d v Hin. apply in_app_or in Hin as [Hin|[Hin|[]]]; auto.
    inversion Hin; subst. auto.
  - intros x Hx. rewrite upd_other; auto.
  - auto.
  - rewrite upd_same. simpl. eexists; split; eauto.
Qed.

(* the diagnostics a worker commits in the implementation phase are the sequential ones *)
Lemma wimpl_value : WF -> forall s v (m : list (nat * option Iface)),
  In s nodes -> is_fresh s (view_of Iface SI (deps s)) = false -> SI s = Some v ->
  (forall d v, In (d, v) m -> v = SI d) -> (forall d, In d (td s) -> mhas Iface m d = true) ->
  Some (analyze_impl (src s) (Some v) (view_of Iface (mget Iface m) (td s))) = SE s.
Proof.
  intros Hwf s v m Hs Hst Hv Hm Hhas.
  pose proof (seq_spec Src Iface Errs nodes deps src analyze_iface analyze_impl is_fresh iface0 errs0 Hwf s Hs) as Hsp.
  unfold spec_ok in Hsp. rewrite Hst in Hsp. destruct Hsp as [Hsi Hse].
  rewrite (view_of_ext Iface (mget Iface m) SI (td s)) by (intros; apply mget_correct; auto).
  rewrite Hse. rewrite Hsi in Hv. inversion Hv; subst. auto.
Qed.

(* the coordinator classifies an SCC exactly as the sequential build does once it knows the sequential
   interface hashes of its direct dependencies *)
Lemma classify_agrees : forall (known : nat -> option Iface) s,
  (forall d, In d (deps s) -> known d = SI d) ->
  is_fresh s (view_of Iface known (deps s)) = is_fresh s (view_of Iface SI (deps s)).
Proof. intros. rewrite (view_of_ext Iface known SI (deps s)); auto. Qed.

(* submit_only_when_deps_done, downward closure: if the done set is closed under deps and contains the direct
   dependencies of s, it contains every SCC a worker will load for s *)
Lemma loads_are_done : forall (done : list nat) s,
  (forall d, In d done -> incl (deps d) done) -> incl (deps s) done -> incl (td s) done.
Proof.
  intros done s Hcl Hs d Hd.
  apply (tdeps_closed nodes deps (fun d => In d done) s); [intros; apply Hs; auto | intros n Hn x Hx; eapply Hcl; eauto | auto].
Qed.

(* ---- bookkeeping of not_ready_count: one notification round *)
Lemma notify_spec : forall ds (n : nat -> nat) rdy, NoDup ds ->
  let '(n', rdy') := notify ds n rdy in
  (forall s, n' s = if memb s ds then pred (n s) else n s)
  /\ rdy' = rdy ++ filter (fun s => Nat.eqb (pred (n s)) 0) ds.
Proof.
  induction ds; simpl; intros n rdy Hnd.
  - split; auto. rewrite app_nil_r; auto.
  - inversion Hnd; subst. specialize (IHds (upd n a (pred (n a))) (if Nat.eqb (pred (n a)) 0 then rdy ++ [a] else rdy) H2).
    destruct (notify ds _ _) as [n' rdy']. destruct IHds as [A B]. split.
    + intros s. rewrite A. destruct (Nat.eqb_spec s a).
      * subst. simpl. assert (memb a ds = false) by (apply memb_false; auto). rewrite H. rewrite upd_same; auto.
      * simpl. destruct (memb s ds); rewrite upd_other; auto.
    + rewrite B. assert (Hf : filter (fun s => Nat.eqb (pred (upd n a (pred (n a)) s)) 0) ds = filter (fun s => Nat.eqb (pred (n s)) 0) ds).
      { apply filter_ext_in. intros x Hx. rewrite upd_other; auto. intro; subst; tauto. }
      rewrite Hf. destruct (Nat.eqb (pred (n a)) 0); simpl; auto. rewrite <- app_assoc; auto.
Qed.

End Par.
