(* C07 — basic lemmas, well-formed DAGs, characterisation of the sequential build. *)
From Coq Require Import List Arith Bool PeanoNat Lia.
From C07 Require Import Model.
Import ListNotations.

Lemma memb_In : forall x l, memb x l = true <-> In x l.
Proof.
  unfold memb; intros; rewrite existsb_exists; split.
  - intros [y [H1 H2]]. apply Nat.eqb_eq in H2; subst; auto.
  - intros; exists x; split; auto. apply Nat.eqb_refl.
Qed.
Lemma memb_false : forall x l, memb x l = false <-> ~ In x l.
Proof. intros. rewrite <- memb_In. destruct (memb x l); split; congruence. Qed.
Lemma subset_incl : forall a b, subset a b = true <-> incl a b.
Proof.
  unfold subset, incl; intros; rewrite forallb_forall; split; intros H x Hx.
  - apply memb_In; auto. - apply memb_In; auto.
Qed.
Lemma upd_same : forall A (f : nat -> A) k v, upd f k v k = v.
Proof. intros; unfold upd; rewrite Nat.eqb_refl; auto. Qed.
Lemma upd_other : forall A (f : nat -> A) k v x, x <> k -> upd f k v x = f x.
Proof. intros; unfold upd. destruct (Nat.eqb_spec x k); congruence. Qed.
Lemma nodupb_NoDup : forall l, nodupb l = true <-> NoDup l.
Proof.
  induction l; simpl; split; intros; try constructor; auto.
  - apply andb_true_iff in H as [H1 H2]. apply negb_true_iff, memb_false in H1. auto.
  - apply andb_true_iff in H as [H1 H2]. apply IHl; auto.
  - inversion H; subst. apply andb_true_iff; split. apply negb_true_iff, memb_false; auto. apply IHl; auto.
Qed.

Section Seq.
Variables Src Iface Errs : Type.
Variable nodes : list nat.
Variable deps : nat -> list nat.
Variable src : nat -> Src.
Variable analyze_iface : Src -> list (nat * option Iface) -> Iface.
Variable analyze_impl : Src -> option Iface -> list (nat * option Iface) -> Errs.
Variable is_fresh : nat -> list (nat * option Iface) -> bool.
Variable iface0 : nat -> option Iface.
Variable errs0 : nat -> option Errs.

(* `l` is listed dependencies-first after the already seen SCCs: an arbitrary finite DAG in topological order *)
Fixpoint wf_from (seen l : list nat) : Prop :=
  match l with
  | [] => True
  | s :: r => ~ In s seen /\ incl (deps s) seen /\ NoDup (deps s) /\ wf_from (s :: seen) r
  end.
Definition wf : Prop := wf_from [] nodes.

Lemma wf_from_notin : forall l seen, wf_from seen l -> forall x, In x l -> ~ In x seen.
Proof.
  induction l; simpl; intros seen H x Hx; [tauto|]. destruct H as (H1 & H2 & H3 & H4). destruct Hx as [->|Hx]; auto.
  intro Hs. eapply IHl; eauto. right; auto.
Qed.
Lemma wf_from_NoDup : forall l seen, wf_from seen l -> NoDup l.
Proof.
  induction l; simpl; intros; constructor. 
  - destruct H as (H1 & H2 & H3 & H4). intro Hin. eapply wf_from_notin in H4; eauto. apply H4; left; auto.
  - destruct H as (H1 & H2 & H3 & H4). eauto.
Qed.
Lemma wf_from_deps : forall l seen, wf_from seen l -> forall s, In s l -> incl (deps s) (seen ++ l) /\ NoDup (deps s).
Proof.
  induction l; simpl; intros seen H s Hs; [tauto|]. destruct H as (H1 & H2 & H3 & H4). destruct Hs as [->|Hs].
  - split; auto. intros d Hd. apply in_or_app; left; auto.
  - destruct (IHl _ H4 s Hs) as [Ha Hb]. split; auto. intros d Hd. specialize (Ha d Hd).
    apply in_app_or in Ha. apply in_or_app. simpl in *. tauto.
Qed.

Lemma need_from_P : forall (P : nat -> Prop), (forall n, P n -> forall d, In d (deps n) -> P d) ->
  forall l need, Forall P need -> Forall P (need_from deps l need).
Proof.
  intros P Hc; induction l; simpl; intros; auto. apply IHl. destruct (memb a need) eqn:E; auto.
  apply Forall_app; split; auto. apply Forall_forall; intros d Hd. eapply Hc; eauto.
  apply memb_In in E. rewrite Forall_forall in H; auto.
Qed.
Lemma tdeps_closed : forall (P : nat -> Prop) s, (forall d, In d (deps s) -> P d) ->
  (forall n, P n -> forall d, In d (deps n) -> P d) -> forall d, In d (tdeps nodes deps s) -> P d.
Proof.
  intros P s H1 H2 d Hd. unfold tdeps in Hd. apply filter_In in Hd as [_ Hd]. apply memb_In in Hd.
  assert (HF : Forall P (need_from deps (rev nodes) (deps s))).
  { apply need_from_P; auto. apply Forall_forall; auto. }
  rewrite Forall_forall in HF; auto.
Qed.
Lemma tdeps_nodes : forall s d, In d (tdeps nodes deps s) -> In d nodes.
Proof. unfold tdeps; intros. apply filter_In in H; tauto. Qed.

Lemma view_of_ext : forall (f g : nat -> option Iface) l, (forall d, In d l -> f d = g d) -> view_of Iface f l = view_of Iface g l.
Proof. intros; unfold view_of; apply map_ext_in; intros; rewrite H; auto. Qed.

Notation sstep := (seq_step Src Iface Errs nodes deps src analyze_iface analyze_impl is_fresh).
Definition seq_from (st : store Iface Errs) (l : list nat) := fold_left sstep l st.

Lemma seq_step_other : forall st s x, x <> s -> s_iface (sstep st s) x = s_iface st x /\ s_errs (sstep st s) x = s_errs st x.
Proof.
  intros. unfold seq_step. destruct (is_fresh _ _); auto. simpl. rewrite !upd_other; auto.
Qed.
Lemma seq_from_notin : forall l st x, ~ In x l -> s_iface (seq_from st l) x = s_iface st x /\ s_errs (seq_from st l) x = s_errs st x.
Proof.
  induction l; simpl; intros; auto. destruct (IHl (sstep st a) x) as [A B]; [tauto|].
  destruct (seq_step_other st a x) as [C D]; [intro; subst; tauto|]. unfold seq_from in *; simpl. rewrite A, B; auto.
Qed.

(* what the sequential build computes for SCC s, in terms of its own final store F *)
Definition spec_ok (F : store Iface Errs) (s : nat) : Prop :=
  let vt := view_of Iface (s_iface F) (tdeps nodes deps s) in
  if is_fresh s (view_of Iface (s_iface F) (deps s))
  then s_iface F s = iface0 s /\ s_errs F s = errs0 s
  else s_iface F s = Some (analyze_iface (src s) vt)
       /\ s_errs F s = Some (analyze_impl (src s) (Some (analyze_iface (src s) vt)) vt).

Lemma seq_from_spec : forall l seen st,
  wf_from seen l -> (forall n, In n seen -> incl (deps n) seen) ->
  (forall x, In x l -> s_iface st x = iface0 x /\ s_errs st x = errs0 x) ->
  (forall s d, In s l -> In d (tdeps nodes deps s) -> In d (seen ++ l)) ->
  forall s, In s l -> spec_ok (seq_from st l) s.
Proof.
  induction l; simpl; intros seen st Hwf Hcl Hinit Htd s Hs; [tauto|].
  destruct Hwf as (H1 & H2 & H3 & H4).
  assert (Hnr : forall x, In x l -> x <> a).
  { intros x Hx ->. eapply wf_from_notin in H4; eauto. apply H4; left; auto. }
  destruct Hs as [->|Hs].
  - (* s itself: later steps do not touch s nor anything it read *)
    assert (Hs_notin : ~ In s l). { intro Hx. apply (Hnr s Hx); auto. }
    assert (Htdseen : forall d, In d (tdeps nodes deps s) -> In d seen).
    { apply (tdeps_closed (fun d => In d seen)); [intros; apply H2; auto | intros n Hn d Hd; eapply Hcl; eauto]. }
    assert (Hpre : forall d, In d seen -> s_iface (seq_from (sstep st s) l) d = s_iface st d).
    { intros d Hd. assert (d <> s) by (intro; subst; tauto).
      assert (~ In d l). { intro Hx. eapply wf_from_notin in H4; eauto. apply H4; right; auto. }
      destruct (seq_from_notin l (sstep st s) d H0) as [A _]. rewrite A. apply seq_step_other; auto. }
    unfold spec_ok. change (fold_left sstep l (sstep st s)) with (seq_from (sstep st s) l).
    rewrite (view_of_ext (s_iface (seq_from (sstep st s) l)) (s_iface st) (deps s)) by (intros; apply Hpre; auto).
    rewrite (view_of_ext (s_iface (seq_from (sstep st s) l)) (s_iface st) (tdeps nodes deps s)) by (intros; apply Hpre; auto).
    destruct (seq_from_notin l (sstep st s) s Hs_notin) as [A B]. rewrite A, B.
    unfold seq_step. destruct (is_fresh s (view_of Iface (s_iface st) (deps s))) eqn:E.
    + apply Hinit; left; auto.
    + simpl. rewrite !upd_same. auto.
  - change (fold_left sstep l (sstep st a)) with (seq_from (sstep st a) l).
    apply (IHl (a :: seen)); auto.
    + intros n [<-|Hn] d Hd; [right; apply H2; auto | right; eapply Hcl; eauto].
    + intros x Hx. destruct (seq_step_other st a x (Hnr x Hx)) as [A B]. rewrite A, B. apply Hinit; right; auto.
    + intros s0 d Hs0 Hd. specialize (Htd s0 d (or_intror Hs0) Hd). apply in_app_or in Htd. simpl in *.
      destruct Htd as [Ht|[Ht|Ht]]; [right; apply in_or_app; left; auto | left; auto | right; apply in_or_app; right; auto].
Qed.

Definition SEQ := run_sequential Src Iface Errs nodes deps src analyze_iface analyze_impl is_fresh iface0 errs0.

Theorem seq_spec : wf -> forall s, In s nodes -> spec_ok SEQ s.
Proof.
  intros Hwf s Hs. unfold SEQ, run_sequential.
  apply (seq_from_spec nodes [] {| s_iface := iface0; s_errs := errs0 |}); auto.
  - intros n [].
  - intros; apply tdeps_nodes in H0; auto.
Qed.
Lemma seq_untouched : forall s, ~ In s nodes -> s_iface SEQ s = iface0 s /\ s_errs SEQ s = errs0 s.
Proof. intros. unfold SEQ, run_sequential. apply (seq_from_notin nodes {| s_iface := iface0; s_errs := errs0 |} s H). Qed.

End Seq.
