(* C07 — blocking errors and worker crashes, as an overlay on the scheduler model (executable definitions only).
   A blocking error (CompileError) raised by the interface phase of an SCC makes the worker reply
   SccResponseMessage(blocker=...) for the whole batch instead of the interface reply (worker.serve); the coordinator
   re-raises it as soon as it reads that reply (wait_for_done_workers: `raise data.blocker`): nothing more is received,
   submitted or flushed; build() reports the blocker, exit status 2.  A worker that dies makes receive() fail:
   OSError, also status 2.  (Syntax errors are raised by the coordinator while loading the graph, before any
   scheduling, identically in both modes: not part of this model.) *)
From Coq Require Import List Arith Bool PeanoNat.
From C07 Require Import Model.
Import ListNotations.

Inductive bevent :=
| BCoarse (e : event)
| BBlock (w : nat)        (* worker: interface phase of its next SCC raises a blocker; blocker reply sent *)
| BRecvBlock (w : nat)    (* coordinator reads the blocker reply and raises *)
| BCrash (w : nat)        (* a busy worker dies *)
| BDetect (w : nat).      (* coordinator notices the lost connection and aborts *)

Section Blocker.
Variables Src Iface Errs Blk : Type.
Variable nodes : list nat.
Variable deps : nat -> list nat.
Variable src : nat -> Src.
Variable analyze_iface : Src -> list (nat * option Iface) -> Iface.
Variable analyze_impl : Src -> option Iface -> list (nat * option Iface) -> Errs.
Variable is_fresh : nat -> list (nat * option Iface) -> bool.
Variable blk_of : Src -> list (nat * option Iface) -> option Blk.   (* the blocking error of an SCC's interface phase, if any *)
Variable iface0 : nat -> option Iface.
Variable errs0 : nat -> option Errs.

Inductive outcome := Reported (b : Blk) | Crashed.
Record bstate := { bco : state Iface Errs; replied : nat -> option Blk; dead : nat -> bool; aborted : option outcome }.

Definition cstepb := step Src Iface Errs nodes deps src analyze_iface analyze_impl is_fresh.

(* the view a worker analyses SCC s with (same as in Model.wiface) *)
Definition wview (st : state Iface Errs) (w s : nat) : list (nat * option Iface) :=
  let x := wk st w in
  let m1 := mem x ++ map (fun d => (d, s_iface (sto st) d)) (to_load Iface nodes deps (mem x) s) in
  view_of Iface (mget Iface m1) (tdeps nodes deps s).

Definition worker_of (e : event) : option nat :=
  match e with
  | EIface w | ESendIface w | EImpl w | ESendImpl w => Some w
  | _ => None
  end.

Definition bstep (bs : bstate) (e : bevent) : option bstate :=
  match aborted bs with
  | Some _ => None                                   (* the coordinator has raised: the build is over *)
  | None =>
    match e with
    | BCoarse ce =>
        let alive := match worker_of ce with
                     | Some w => negb (dead bs w) && match replied bs w with None => true | Some _ => false end
                     | None => true end in
        let noblock := match ce with
                       | EIface w => match ph (wk (bco bs) w) with
                                     | PIface (s :: _) _ => match blk_of (src s) (wview (bco bs) w s) with None => true | Some _ => false end
                                     | _ => true end
                       | _ => true end in
        if alive && noblock then
          match cstepb (bco bs) ce with
          | Some c => Some {| bco := c; replied := replied bs; dead := dead bs; aborted := None |}
          | None => None end
        else None
    | BBlock w =>
        if dead bs w then None else
        match replied bs w, ph (wk (bco bs) w) with
        | None, PIface (s :: _) _ =>
            match blk_of (src s) (wview (bco bs) w s) with
            | Some b => Some {| bco := bco bs; replied := upd (replied bs) w (Some b); dead := dead bs; aborted := None |}
            | None => None end
        | _, _ => None
        end
    | BRecvBlock w =>
        match replied bs w, outbox (wk (bco bs) w) with
        | Some b, [] => Some {| bco := bco bs; replied := replied bs; dead := dead bs; aborted := Some (Reported b) |}
        | _, _ => None
        end
    | BCrash w =>
        match ph (wk (bco bs) w) with
        | PIdle => None
        | _ => Some {| bco := bco bs; replied := replied bs; dead := upd (dead bs) w true; aborted := None |}
        end
    | BDetect w =>
        if dead bs w then Some {| bco := bco bs; replied := replied bs; dead := dead bs; aborted := Some Crashed |} else None
    end
  end.

Fixpoint brun (bs : bstate) (sched : list bevent) : option bstate :=
  match sched with
  | [] => Some bs
  | e :: r => match bstep bs e with Some bs' => brun bs' r | None => None end
  end.

Definition binit (nworkers : nat) : bstate :=
  {| bco := init Iface Errs nodes deps iface0 errs0 nworkers; replied := fun _ => None; dead := fun _ => false; aborted := None |}.

Definition bproj (sched : list bevent) : list event :=
  flat_map (fun e => match e with BCoarse ce => [ce] | _ => [] end) sched.

(* exit status of the coordinator *)
Definition bstatus (bs : bstate) : nat := match aborted bs with Some _ => 2 | None => 0 end.

(* the sequential build with blockers: SCCs in top_order; stops at the first stale SCC whose interface phase blocks *)
Fixpoint seq_b (l : list nat) (st : store Iface Errs) (out : list (nat * Errs)) : list (nat * Errs) * option Blk :=
  match l with
  | [] => (out, None)
  | s :: r =>
      if is_fresh s (view_of Iface (s_iface st) (deps s)) then seq_b r st out
      else match blk_of (src s) (view_of Iface (s_iface st) (tdeps nodes deps s)) with
           | Some b => (out, Some b)
           | None =>
               let st' := seq_step Src Iface Errs nodes deps src analyze_iface analyze_impl is_fresh st s in
               seq_b r st' (out ++ match s_errs st' s with Some e => [(s, e)] | None => [] end)
           end
  end.
Definition run_sequential_b := seq_b nodes {| s_iface := iface0; s_errs := errs0 |} [].

End Blocker.

Arguments bco {Iface Errs Blk}.  Arguments replied {Iface Errs Blk}.  Arguments dead {Iface Errs Blk}.
Arguments aborted {Iface Errs Blk}.  Arguments Reported {Blk}.  Arguments Crashed {Blk}.
