(* C07 — bookkeeping lemmas of the coordinator: not_ready_count = number of undone dependencies,
   one round of `mark_done` releases exactly the SCCs whose dependencies became all done. *)
From Coq Require Import List Arith Bool PeanoNat Lia Permutation.
From C07 Require Import Model ProofsSeq.
Import ListNotations.

Lemma memb_app : forall x a b, memb x (a ++ b) = memb x a || memb x b.
Proof. intros; unfold memb; apply existsb_app. Qed.

Lemma nodup_app : forall (a b : list nat), NoDup (a ++ b) <-> NoDup a /\ NoDup b /\ (forall x, In x a -> In x b -> False).
Proof.
  induction a; simpl; intros b.
  - split; [intros H; repeat split; auto; constructor | tauto].
  - split.
    + intros H. inversion H as [|x l H1 H2]; subst. apply IHa in H2 as (A & B & C). repeat split; auto.
      * constructor; auto. intro Hi; apply H1; apply in_or_app; auto.
      * intros x [<-|Hx] Hb; [apply H1; apply in_or_app; auto | eauto].
    + intros (A & B & C). inversion A as [|x l H1 H2]; subst. constructor.
      * intro Hi. apply in_app_or in Hi as [Hi|Hi]; [tauto | eapply C; eauto].
      * apply IHa. repeat split; auto. intros x Hx Hb; eapply C; eauto.
Qed.
Lemma NoDup_app_intro : forall (a b : list nat), NoDup a -> NoDup b -> (forall x, In x a -> In x b -> False) -> NoDup (a ++ b).
Proof. intros; apply nodup_app; auto. Qed.

Lemma notify_spec' : forall ds (n : nat -> nat) rdy, NoDup ds ->
  let '(n', rdy') := notify ds n rdy in
  (forall s, n' s = if memb s ds then pred (n s) else n s)
  /\ rdy' = rdy ++ filter (fun s => Nat.eqb (pred (n s)) 0) ds.
Proof.
  induction ds; simpl; intros n rdy Hnd.
  - split; auto. rewrite app_nil_r; auto.
  - inversion Hnd as [|x l Hx Hl]; subst.
    specialize (IHds (upd n a (pred (n a))) (if Nat.eqb (pred (n a)) 0 then rdy ++ [a] else rdy) Hl).
    destruct (notify ds _ _) as [n' rdy']. destruct IHds as [A B]. split.
    + intros s. rewrite A. destruct (Nat.eqb_spec s a).
      * subst. simpl. assert (E : memb a ds = false) by (apply memb_false; auto). rewrite E. rewrite upd_same; auto.
      * simpl. destruct (memb s ds); rewrite upd_other; auto.
    + rewrite B. assert (Hf : filter (fun s => Nat.eqb (pred (upd n a (pred (n a)) s)) 0) ds = filter (fun s => Nat.eqb (pred (n s)) 0) ds).
      { apply filter_ext_in. intros x Hx'. rewrite upd_other; auto. intro; subst; tauto. }
      rewrite Hf. destruct (Nat.eqb (pred (n a)) 0); simpl; auto. rewrite <- app_assoc; auto.
Qed.

Section Sched.
Variable nodes : list nat.
Variable deps : nat -> list nat.

Definition undone (D : list nat) (s : nat) : nat := length (filter (fun d => negb (memb d D)) (deps s)).

Lemma undone_zero : forall D s, undone D s = 0 <-> incl (deps s) D.
Proof.
  unfold undone. intros D s. generalize (deps s) as l. induction l; simpl; split; intros H.
  - intros x [].
  - auto.
  - destruct (memb a D) eqn:E; simpl in H; [|discriminate]. apply memb_In in E.
    intros x [<-|Hx]; auto. apply IHl; auto.
  - assert (Ha : In a D) by (apply H; left; auto). apply memb_In in Ha. rewrite Ha. simpl.
    apply IHl. intros x Hx; apply H; right; auto.
Qed.

Lemma undone_mono : forall D D' s, incl D D' -> undone D' s <= undone D s.
Proof.
  unfold undone; intros D D' s H. generalize (deps s) as l. induction l; simpl; auto.
  destruct (memb a D) eqn:E.
  - apply memb_In in E. apply H in E. apply memb_In in E. rewrite E. simpl. auto.
  - simpl. destruct (memb a D'); simpl; lia.
Qed.

Lemma filter_len_add : forall D d l, ~ In d D -> NoDup l ->
  length (filter (fun x => negb (memb x (D ++ [d]))) l)
  = (if memb d l then pred (length (filter (fun x => negb (memb x D)) l)) else length (filter (fun x => negb (memb x D)) l))
  /\ (memb d l = true -> 1 <= length (filter (fun x => negb (memb x D)) l)).
Proof.
  intros D d l Hd. induction l; intros Hnd; simpl.
  - split; auto. discriminate.
  - inversion Hnd as [|x l' Hx Hl]; subst. destruct (IHl Hl) as [A B]. rewrite memb_app.
    destruct (Nat.eqb_spec d a).
    + subst a. assert (E : memb d l = false) by (apply memb_false; auto). rewrite E in *.
      assert (E2 : memb d D = false) by (apply memb_false; auto). rewrite E2. simpl. rewrite Nat.eqb_refl. simpl.
      rewrite A. split; auto; lia.
    + assert (E3 : memb a [d] = false). { simpl. destruct (Nat.eqb_spec a d); auto; congruence. }
      rewrite E3, orb_false_r. simpl. destruct (memb a D); simpl.
      * rewrite A. split; auto.
      * rewrite A. destruct (memb d l); split; auto; try lia; specialize (B eq_refl); lia.
Qed.

Lemma undone_add : forall D d s, ~ In d D -> NoDup (deps s) ->
  undone (D ++ [d]) s = (if memb d (deps s) then pred (undone D s) else undone D s).
Proof. intros. unfold undone. apply filter_len_add; auto. Qed.

Lemma not_incl_witness : forall D s, ~ incl (deps s) D -> exists x, In x (deps s) /\ ~ In x D.
Proof.
  intros D s H. destruct (undone D s) eqn:E.
  - apply undone_zero in E. tauto.
  - unfold undone in E. destruct (filter (fun d => negb (memb d D)) (deps s)) as [|x r] eqn:F; [discriminate|].
    assert (Hx : In x (filter (fun d => negb (memb d D)) (deps s))) by (rewrite F; left; auto).
    apply filter_In in Hx as [H1 H2]. exists x; split; auto. apply negb_true_iff, memb_false in H2; auto.
Qed.
Lemma incl_dec' : forall D s, incl (deps s) D \/ ~ incl (deps s) D.
Proof. intros. destruct (undone D s) eqn:E. left; apply undone_zero; auto. right; intro H; apply undone_zero in H; lia. Qed.

Definition J1 (D : list nat) (n : nat -> nat) : Prop := forall s, In s nodes -> n s = undone D s.

Hypothesis Hnd : NoDup nodes.
Hypothesis Hdd : forall s, In s nodes -> NoDup (deps s).

Lemma dependents_spec : forall d s, In s (dependents nodes deps d) <-> In s nodes /\ In d (deps s).
Proof. unfold dependents; intros. rewrite filter_In, memb_In. tauto. Qed.

Lemma notify_dep : forall D n rdy d, J1 D n -> ~ In d D ->
  let '(n', rdy') := notify (dependents nodes deps d) n rdy in
  J1 (D ++ [d]) n' /\ rdy' = rdy ++ filter (fun s => Nat.eqb (undone (D ++ [d]) s) 0) (dependents nodes deps d).
Proof.
  intros D n rdy d HJ Hd.
  pose proof (notify_spec' (dependents nodes deps d) n rdy) as H.
  assert (Hn : NoDup (dependents nodes deps d)) by (apply NoDup_filter; auto). specialize (H Hn).
  destruct (notify _ n rdy) as [n' rdy']. destruct H as [A B]. split.
  - intros s Hs. rewrite A. rewrite undone_add; auto. rewrite HJ; auto.
    destruct (memb d (deps s)) eqn:E.
    + assert (Hm : memb s (dependents nodes deps d) = true). { apply memb_In, dependents_spec. split; auto. apply memb_In; auto. }
      rewrite Hm; auto.
    + assert (Hm : memb s (dependents nodes deps d) = false). { apply memb_false. intro Hx. apply dependents_spec in Hx as [_ Hx]. apply memb_In in Hx. congruence. }
      rewrite Hm; auto.
  - rewrite B. f_equal. apply filter_ext_in. intros s Hs. apply dependents_spec in Hs as [Hs1 Hs2].
    rewrite undone_add; auto. apply memb_In in Hs2. rewrite Hs2. rewrite HJ; auto.
Qed.

Lemma mark_done_spec : forall ds D n rdy,
  NoDup ds -> (forall d, In d ds -> ~ In d D) -> J1 D n ->
  let '(n', rdy') := mark_done nodes deps ds n rdy in
  J1 (D ++ ds) n' /\ exists new, rdy' = rdy ++ new /\ NoDup new /\
    forall s, In s new <-> (In s nodes /\ incl (deps s) (D ++ ds) /\ ~ incl (deps s) D).
Proof.
  induction ds; intros D n rdy Hds HD HJ; simpl.
  - rewrite app_nil_r. split; auto. exists []. rewrite app_nil_r. split; auto. split; [constructor|].
    intros s; split; [intros [] | intros (_ & A & B); tauto].
  - inversion Hds as [|x l Ha Hl]; subst.
    pose proof (notify_dep D n rdy a HJ (HD a (or_introl eq_refl))) as H1.
    destruct (notify (dependents nodes deps a) n rdy) as [n1 r1]. destruct H1 as [J1' R1].
    assert (HD' : forall d, In d ds -> ~ In d (D ++ [a])).
    { intros d Hd Hin. apply in_app_or in Hin as [Hin|[->|[]]]; [eapply HD; eauto; right; auto | tauto]. }
    specialize (IHds (D ++ [a]) n1 r1 Hl HD' J1').
    destruct (mark_done nodes deps ds n1 r1) as [n' rdy']. destruct IHds as [J2 (new2 & R2 & N2 & C2)].
    replace (D ++ a :: ds) with ((D ++ [a]) ++ ds) by (rewrite <- app_assoc; auto).
    split; auto.
    set (new1 := filter (fun s => Nat.eqb (undone (D ++ [a]) s) 0) (dependents nodes deps a)) in *.
    assert (C1 : forall s, In s new1 <-> In s nodes /\ incl (deps s) (D ++ [a]) /\ ~ incl (deps s) D).
    { intros s. unfold new1. rewrite filter_In, dependents_spec, Nat.eqb_eq, undone_zero. split.
      - intros [[A B] C]. repeat split; auto. intro Hi. apply (HD a (or_introl eq_refl)). apply Hi; auto.
      - intros (A & B & C). repeat split; auto. apply not_incl_witness in C as [x [X1 X2]].
        assert (Hx : In x (D ++ [a])) by (apply B; auto). apply in_app_or in Hx as [Hx|[<-|[]]]; tauto. }
    exists (new1 ++ new2). split; [rewrite R2, R1, <- app_assoc; auto|]. split.
    + apply NoDup_app_intro; auto.
      * unfold new1. apply NoDup_filter. apply NoDup_filter; auto.
      * intros s S1 S2. apply C1 in S1. apply C2 in S2. tauto.
    + intros s. rewrite in_app_iff, C1, C2. split.
      * intros [(A & B & C)|(A & B & C)]; repeat split; auto.
        -- intros x Hx. apply in_or_app; left; auto.
        -- intro Hi. apply C. intros x Hx. apply in_or_app; left; auto.
      * intros (A & B & C). destruct (incl_dec' (D ++ [a]) s); [left|right]; tauto.
Qed.

End Sched.
