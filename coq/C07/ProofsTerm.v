(* C07 — termination: every event strictly decreases a potential, so every run has at most 8*|nodes| events. *)
From Coq Require Import List Arith Bool PeanoNat Lia Permutation.
From C07 Require Import Model ProofsSeq Proofs ProofsSched ProofsInv.
Import ListNotations.

Lemma cnt_eq_length : forall l1 l2 : list nat, (forall x, cnt l1 x = cnt l2 x) -> length l1 = length l2.
Proof. intros. apply Permutation_length. apply (Permutation_count_occ Nat.eq_dec). auto. Qed.
Lemma filter_part_length : forall (f : nat -> bool) l, length (filter f l) + length (filter (fun y => negb (f y)) l) = length l.
Proof. induction l; simpl; auto. destruct (f a); simpl; lia. Qed.

Section Term.
Variables Src Iface Errs : Type.
Variable nodes : list nat.
Variable deps : nat -> list nat.
Variable src : nat -> Src.
Variable analyze_iface : Src -> list (nat * option Iface) -> Iface.
Variable analyze_impl : Src -> option Iface -> list (nat * option Iface) -> Errs.
Variable is_fresh : nat -> list (nat * option Iface) -> bool.
Variable iface0 : nat -> option Iface.
Variable errs0 : nat -> option Errs.
Variable N : nat.
Hypothesis Hwf : wf nodes deps.

Notation State := (state Iface Errs).
Notation W := (wstate Iface Errs).
Notation Inv' := (Inv Src Iface Errs nodes deps src analyze_iface analyze_impl is_fresh iface0 errs0 N).
Notation "'PRJ' f" := (f Src Iface Errs nodes deps src analyze_iface analyze_impl is_fresh iface0 errs0 N) (at level 10, only parsing).
Notation wids := (w_ids Iface Errs).
Notation step' := (step Src Iface Errs nodes deps src analyze_iface analyze_impl is_fresh).
Notation run' := (run Src Iface Errs nodes deps src analyze_iface analyze_impl is_fresh).
Notation par := (run_parallel Src Iface Errs nodes deps src analyze_iface analyze_impl is_fresh iface0 errs0).

Definition sumw (f : W -> nat) (wkf : nat -> W) : nat := list_sum (map (fun w => f (wkf w)) (seq 0 N)).

Lemma sum_upd_notin : forall l (f : W -> nat) wkf w x, ~ In w l ->
  list_sum (map (fun w0 => f (upd wkf w x w0)) l) = list_sum (map (fun w0 => f (wkf w0)) l).
Proof. induction l; simpl; intros; auto. rewrite IHl by tauto. rewrite upd_other by (intro; subst; tauto). auto. Qed.
Lemma sum_upd_in : forall l (f : W -> nat) wkf w x, NoDup l -> In w l ->
  list_sum (map (fun w0 => f (upd wkf w x w0)) l) + f (wkf w) = list_sum (map (fun w0 => f (wkf w0)) l) + f x.
Proof.
  induction l; simpl; intros f wkf w x Hnd Hin; [tauto|]. inversion Hnd as [|y l' Hy Hl]; subst. destruct Hin as [->|Hin].
  - rewrite upd_same. rewrite sum_upd_notin by auto. lia.
  - assert (a <> w) by (intro; subst; tauto). rewrite upd_other by auto. specialize (IHl f wkf w x Hl Hin). lia.
Qed.
Lemma sumw_upd : forall f wkf w x, w < N -> sumw f (upd wkf w x) + f (wkf w) = sumw f wkf + f x.
Proof. intros. unfold sumw. apply sum_upd_in. apply seq_NoDup. apply in_seq; lia. Qed.
Lemma len_inflight : forall (st : State), length (inflight Iface Errs N st) = sumw (fun x => length (wids x)) (wk st).
Proof.
  intros. unfold inflight, inflight_on, sumw. induction (seq 0 N); simpl; auto. rewrite app_length, IHl. auto.
Qed.

Definition tlen (x : W) : nat := match ph x with PIface todo _ => length todo | _ => 0 end.
Definition wpot (x : W) : nat := match ph x with PIface _ _ => 5 | PImpl _ => 3 | PImplDone _ => 2 | PIdle => 0 end + length (outbox x).
Definition g (x : W) : nat := tlen x + wpot x.

Definition ilen (x : W) : nat := length (wids x).
Definition IL (wkf : nat -> W) : nat := sumw ilen wkf.
Definition GS (wkf : nat -> W) : nat := sumw g wkf.
Lemma IL_upd : forall wkf w x, w < N -> IL (upd wkf w x) + ilen (wkf w) = IL wkf + ilen x.
Proof. intros; apply sumw_upd; auto. Qed.
Lemma GS_upd : forall wkf w x, w < N -> GS (upd wkf w x) + g (wkf w) = GS wkf + g x.
Proof. intros; apply sumw_upd; auto. Qed.

Definition Phi (st : State) : nat :=
  8 * (length nodes - (length (done st) + length (queue st) + IL (wk st))) + 7 * length (queue st) + GS (wk st).

Lemma no_underflow : forall st, Inv' st ->
  length (ready st) + length (queue st) + IL (wk st) + length (done st) <= length nodes.
Proof.
  intros st HI. unfold IL, ilen. rewrite <- len_inflight.
  assert (H : length (released Iface Errs N st) <= length nodes).
  { apply NoDup_incl_length. apply cnt_nodup. apply (PRJ i_cnt st HI). intros s Hs. apply (PRJ i_rel st HI s Hs). }
  unfold released in H. rewrite !app_length in H. lia.
Qed.

Lemma lt_N : forall st w, Inv' st -> (ph (wk st w) <> PIdle \/ outbox (wk st w) <> []) -> w < N.
Proof.
  intros st w HI H. destruct (Nat.lt_ge_cases w N); auto. destruct (PRJ i_out st HI w H0) as [A B]. destruct H; congruence.
Qed.

Ltac worker_case st w x' HI Hw :=
  unfold Phi; simpl;
  pose proof (IL_upd (wk st) w x' Hw) as P1;
  pose proof (GS_upd (wk st) w x' Hw) as P2;
  pose proof (no_underflow st HI) as P3.

Ltac wcase st w HI Hw :=
  unfold Phi; simpl;
  match goal with |- context [upd (wk st) w ?x] =>
    pose proof (IL_upd (wk st) w x Hw) as P1; pose proof (GS_upd (wk st) w x Hw) as P2 end;
  pose proof (no_underflow st HI) as P3.

Theorem step_decreases : forall st st' e, Inv' st -> step' st e = Some st' -> Phi st' < Phi st.
Proof.
  intros st st' e HI H. pose proof (PRJ inv_step Hwf st st' e HI H) as HI'.
  pose proof (no_underflow st' HI') as U'. destruct e; simpl in H.
  - (* EClassify *)
    unfold classify in H. destruct (ready st) as [|a r0] eqn:Hr; [discriminate|]. rewrite <- Hr in *.
    destruct (mark_done _ _ _ _ _) as [n' rdy']. inversion H; subst st'; clear H. unfold Phi in *; simpl in *.
    rewrite !app_length in *.
    pose proof (filter_part_length (fun s => is_fresh s (view_of Iface (known st) (deps s))) (ready st)) as Fp.
    assert (1 <= length (ready st)) by (rewrite Hr; simpl; lia). lia.
  - (* ESubmit *)
    unfold submit in H. destruct batch as [|b0 br] eqn:Hb; [discriminate|]. rewrite <- Hb in *.
    destruct (memb w (free st) && subset batch (queue st) && nodupb batch) eqn:Hc; [|discriminate].
    apply andb_true_iff in Hc as [Hc Hc3]. apply andb_true_iff in Hc as [Hc1 Hc2].
    apply memb_In in Hc1. apply subset_incl in Hc2. apply nodupb_NoDup in Hc3.
    inversion H; subst st'; clear H. destruct (PRJ i_free st HI w Hc1) as (Hw & Hph & Ho).
    set (x' := {| ph := PIface batch []; mem := mem (wk st w); outbox := outbox (wk st w) |}) in *.
    worker_case st w x' HI Hw.
    assert (Hq : length (remove_all batch (queue st)) + length batch = length (queue st)).
    { rewrite <- app_length. apply cnt_eq_length. intros x. rewrite count_occ_app, cnt_remove_all. destruct (memb x batch) eqn:E.
      - apply memb_In in E. assert (A : cnt batch x <= 1) by (apply cnt_nodup; auto).
        assert (B : 1 <= cnt batch x) by (apply cnt_in; auto). assert (C : 1 <= cnt (queue st) x) by (apply cnt_in; auto).
        pose proof (PRJ i_cnt st HI x) as D. unfold released in D. rewrite !count_occ_app in D. lia.
      - apply memb_false in E. assert (cnt batch x = 0) by (apply count_occ_not_In; auto). lia. }
    assert (1 <= length batch) by (rewrite Hb; simpl; lia).
    unfold ilen, g, tlen, wpot, w_ids in P1, P2. simpl in P1, P2. rewrite Hph, Ho in P1, P2. simpl in P1, P2.
    rewrite ?app_length, ?app_nil_r in P1. simpl in P1. unfold Phi in U'. simpl in U'. lia.
  - (* EIface *)
    unfold wiface in H. destruct (ph (wk st w)) as [|todo fin| |] eqn:Hph; try discriminate.
    destruct todo as [|s todo]; [discriminate|]. inversion H; subst st'; clear H.
    assert (Hw : w < N) by (apply (lt_N st w HI); left; congruence).
    wcase st w HI Hw.
    unfold ilen, g, tlen, wpot, w_ids in P1, P2. simpl in P1, P2. rewrite Hph in P1, P2. simpl in P1, P2.
    rewrite ?app_length, ?map_app, ?app_length in P1. simpl in P1. rewrite ?map_length, ?app_length in P1. simpl in P1. lia.
  - (* ESendIface *)
    unfold wsend_iface in H. destruct (ph (wk st w)) as [|todo fin| |] eqn:Hph; try discriminate.
    destruct todo; [|discriminate]. inversion H; subst st'; clear H.
    assert (Hw : w < N) by (apply (lt_N st w HI); left; congruence).
    wcase st w HI Hw.
    unfold ilen, g, tlen, wpot, w_ids in P1, P2. simpl in P1, P2. rewrite Hph in P1, P2. simpl in P1, P2.
    rewrite flat_map_app in P1. simpl in P1. repeat rewrite app_length in P1. repeat rewrite app_length in P2. simpl in P1, P2. repeat rewrite map_length in P1. lia.
  - (* EImpl *)
    unfold wimpl in H. destruct (ph (wk st w)) as [| |batch|] eqn:Hph; try discriminate. inversion H; subst st'; clear H.
    assert (Hw : w < N) by (apply (lt_N st w HI); left; congruence).
    wcase st w HI Hw.
    unfold ilen, g, tlen, wpot, w_ids in P1, P2. simpl in P1, P2. rewrite Hph in P1, P2. simpl in P1, P2. lia.
  - (* ESendImpl *)
    unfold wsend_impl in H. destruct (ph (wk st w)) as [| | |res] eqn:Hph; try discriminate. inversion H; subst st'; clear H.
    assert (Hw : w < N) by (apply (lt_N st w HI); left; congruence).
    wcase st w HI Hw.
    unfold ilen, g, tlen, wpot, w_ids in P1, P2. simpl in P1, P2. rewrite Hph in P1, P2. simpl in P1, P2.
    rewrite flat_map_app in P1. simpl in P1. repeat rewrite app_length in P1. repeat rewrite app_length in P2. simpl in P1, P2. lia.
  - (* ERecv *)
    unfold recv in H. destruct (outbox (wk st w)) as [|m rest] eqn:Ho; [discriminate|].
    assert (Hw : w < N) by (apply (lt_N st w HI); right; congruence).
    destruct m as [res|res].
    + destruct (mark_done _ _ _ _ _) as [n' rdy']. inversion H; subst st'; clear H.
      set (x' := {| ph := ph (wk st w); mem := mem (wk st w); outbox := rest |}) in *.
      worker_case st w x' HI Hw.
      unfold ilen, g, tlen, wpot, w_ids in P1, P2. simpl in P1, P2. rewrite Ho in P1, P2. simpl in P1, P2.
      rewrite ?app_length, ?map_length in *. unfold Phi in U'; simpl in U'. rewrite ?app_length, ?map_length in U'. lia.
    + inversion H; subst st'; clear H.
      set (x' := {| ph := ph (wk st w); mem := mem (wk st w); outbox := rest |}) in *.
      worker_case st w x' HI Hw.
      unfold ilen, g, tlen, wpot, w_ids in P1, P2. simpl in P1, P2. rewrite Ho in P1, P2. simpl in P1, P2. lia.
Qed.

Lemma run_bound : forall sched st st', Inv' st -> run' st sched = Some st' -> length sched + Phi st' <= Phi st.
Proof.
  induction sched; simpl; intros st st' HI H.
  - inversion H; subst; lia.
  - destruct (step' st a) as [st1|] eqn:E; [|discriminate].
    pose proof (step_decreases st st1 a HI E). pose proof (PRJ inv_step Hwf st st1 a HI E) as HI1.
    specialize (IHsched st1 st' HI1 H). lia.
Qed.

Lemma sum_zero : forall (l : list nat) (f : nat -> nat), (forall w, f w = 0) -> list_sum (map f l) = 0.
Proof. induction l; simpl; intros; auto. rewrite H, IHl; auto. Qed.

Lemma Phi_init : Phi (init Iface Errs nodes deps iface0 errs0 N) <= 8 * length nodes.
Proof.
  unfold Phi. simpl. assert (E : GS (fun _ : nat => {| ph := PIdle; mem := []; outbox := [] |} : W) = 0).
  { unfold GS, sumw. apply sum_zero. intros; reflexivity. }
  rewrite E. lia.
Qed.

Theorem run_terminates : forall sched st, par N sched = Some st -> length sched <= 8 * length nodes.
Proof.
  intros sched st H. unfold run_parallel in H.
  pose proof (run_bound sched _ st (PRJ inv_init Hwf) H). pose proof Phi_init. lia.
Qed.

End Term.
