(* C07 — blocking errors / worker crashes: what every schedule guarantees, and what it does not. *)
From Coq Require Import List Arith Bool PeanoNat Lia.
From C07 Require Import Model ProofsSeq Proofs ProofsSched Blocker ProofsInv.
Import ListNotations.

Section PB.
Variables Src Iface Errs Blk : Type.
Variable nodes : list nat.
Variable deps : nat -> list nat.
Variable src : nat -> Src.
Variable analyze_iface : Src -> list (nat * option Iface) -> Iface.
Variable analyze_impl : Src -> option Iface -> list (nat * option Iface) -> Errs.
Variable is_fresh : nat -> list (nat * option Iface) -> bool.
Variable blk_of : Src -> list (nat * option Iface) -> option Blk.
Variable iface0 : nat -> option Iface.
Variable errs0 : nat -> option Errs.
Variable N : nat.
Hypothesis Hwf : wf nodes deps.

Notation BS := (bstate Iface Errs Blk).
Notation bstep' := (bstep Src Iface Errs Blk nodes deps src analyze_iface analyze_impl is_fresh blk_of).
Notation brun' := (brun Src Iface Errs Blk nodes deps src analyze_iface analyze_impl is_fresh blk_of).
Notation binit' := (binit Iface Errs Blk nodes deps iface0 errs0).
Notation run' := (run Src Iface Errs nodes deps src analyze_iface analyze_impl is_fresh).
Notation step' := (step Src Iface Errs nodes deps src analyze_iface analyze_impl is_fresh).
Notation par := (run_parallel Src Iface Errs nodes deps src analyze_iface analyze_impl is_fresh iface0 errs0).
Notation SEQ' := (SEQ Src Iface Errs nodes deps src analyze_iface analyze_impl is_fresh iface0 errs0).
Notation SI := (s_iface SEQ').
Notation Inv' := (Inv Src Iface Errs nodes deps src analyze_iface analyze_impl is_fresh iface0 errs0 N).
Notation stale' := (stale Src Iface Errs nodes deps src analyze_iface analyze_impl is_fresh iface0 errs0).

Definition bp1 (e : bevent) : list event := match e with BCoarse ce => [ce] | _ => [] end.
Lemma bstep_coarse : forall (bs bs' : BS) e, bstep' bs e = Some bs' ->
  run' (bco bs) (bp1 e) = Some (bco bs').
Proof.
  intros bs bs' e H. unfold bstep in H. destruct (aborted bs); [discriminate|]. destruct e; simpl.
  - match type of H with (if ?c then _ else _) = _ => destruct c; [|discriminate] end.
    unfold cstepb in H. destruct (step' (bco bs) e) eqn:E; [|discriminate]. inversion H; subst; simpl. auto.
  - destruct (dead bs w); [discriminate|]. destruct (replied bs w); [discriminate|].
    destruct (ph (wk (bco bs) w)) as [|[|s t] f|b|r]; try discriminate. destruct (blk_of _ _); inversion H; subst; auto.
  - destruct (replied bs w); [|discriminate]. destruct (outbox (wk (bco bs) w)); inversion H; subst; auto.
  - destruct (ph (wk (bco bs) w)); inversion H; subst; auto.
  - destruct (dead bs w); inversion H; subst; auto.
Qed.

Lemma run_app' : forall a b st st', run' st a = Some st' -> run' st (a ++ b) = run' st' b.
Proof. induction a; simpl; intros. inversion H; auto. destruct (step' st a); [eauto|discriminate]. Qed.

Lemma brun_coarse : forall sched (bs bs' : BS), brun' bs sched = Some bs' -> run' (bco bs) (bproj sched) = Some (bco bs').
Proof.
  induction sched; intros bs bs' H; simpl in H. inversion H; subst; auto.
  destruct (bstep' bs a) as [b1|] eqn:E; [|discriminate].
  change (bproj (a :: sched)) with (bp1 a ++ bproj sched).
  rewrite (run_app' _ _ _ _ (bstep_coarse bs b1 a E)). eauto.
Qed.

(* the coarse component of a run with blockers / crashes is a reachable state of the scheduler model *)
Theorem blocker_run_is_coarse_run : forall sched (bs : BS), brun' (binit' N) sched = Some bs -> par N (bproj sched) = Some (bco bs).
Proof. intros. apply (brun_coarse sched (binit' N) bs H). Qed.

Theorem blocker_run_inv : forall sched (bs : BS), brun' (binit' N) sched = Some bs -> Inv' (bco bs).
Proof.
  intros sched bs H.
  exact (inv_reachable Src Iface Errs nodes deps src analyze_iface analyze_impl is_fresh iface0 errs0 N Hwf _ _ (blocker_run_is_coarse_run sched bs H)).
Qed.

(* every diagnostic printed before the abort is the sequential diagnostic of its SCC *)
Theorem blocker_run_diagnostics_sequential : forall sched (bs : BS), brun' (binit' N) sched = Some bs ->
  forall s e, In (s, e) (flushed (bco bs)) -> s_errs SEQ' s = Some e.
Proof.
  intros sched bs H.
  exact (i_fl Src Iface Errs nodes deps src analyze_iface analyze_impl is_fresh iface0 errs0 N (bco bs) (blocker_run_inv sched bs H)).
Qed.

(* a blocker in flight / reported is the blocking error that the sequential semantics gives to some stale SCC *)
Definition RInv (bs : BS) : Prop :=
  forall w b, replied bs w = Some b -> exists s, In s nodes /\ stale' s /\ blk_of (src s) (view_of Iface SI (tdeps nodes deps s)) = Some b.

Lemma rinv_run : forall sched (bs0 bs : BS), Inv' (bco bs0) -> RInv bs0 -> brun' bs0 sched = Some bs -> RInv bs.
Proof.
  induction sched; simpl; intros bs0 bs HI HR H. inversion H; subst; auto.
  destruct (bstep' bs0 a) as [b1|] eqn:E; [|discriminate].
  assert (HI1 : Inv' (bco b1)).
  { pose proof (bstep_coarse bs0 b1 a E) as R.
    exact (inv_run Src Iface Errs nodes deps src analyze_iface analyze_impl is_fresh iface0 errs0 N Hwf _ _ _ HI R). }
  apply (IHsched b1 bs HI1); auto. clear IHsched H.
  unfold bstep in E. destruct (aborted bs0); [discriminate|]. destruct a.
  - match type of E with (if ?c then _ else _) = _ => destruct c; [|discriminate] end.
    destruct (cstepb _ _ _ _ _ _ _ _ _ _ _); inversion E; subst; exact HR.
  - destruct (dead bs0 w); [discriminate|]. destruct (replied bs0 w) eqn:Er; [discriminate|].
    destruct (ph (wk (bco bs0) w)) as [|[|s t] f|b|r] eqn:Hph; try discriminate.
    destruct (blk_of (src s) (wview Iface Errs nodes deps (bco bs0) w s)) eqn:Eb; inversion E; subst; clear E.
    intros w' b' Hr. simpl in Hr. destruct (Nat.eq_dec w' w).
    + subst. rewrite upd_same in Hr. inversion Hr; subst.
      destruct (wview_sequential Src Iface Errs nodes deps src analyze_iface analyze_impl is_fresh iface0 errs0 N (bco bs0) w s t f HI Hph) as (V & A & B).
      exists s. rewrite <- V. auto.
    + rewrite upd_other in Hr by auto. apply (HR w' b' Hr).
  - destruct (replied bs0 w); [|discriminate]. destruct (outbox _); inversion E; subst; exact HR.
  - destruct (ph _); inversion E; subst; exact HR.
  - destruct (dead bs0 w); inversion E; subst; exact HR.
Qed.

Theorem blocker_reported_is_sequential_semantics : forall sched (bs : BS) b, brun' (binit' N) sched = Some bs ->
  aborted bs = Some (Reported b) ->
  bstatus Iface Errs Blk bs = 2
  /\ exists s, In s nodes /\ stale' s /\ blk_of (src s) (view_of Iface SI (tdeps nodes deps s)) = Some b.
Proof.
  intros sched. induction sched using rev_ind; intros bs b H Hab.
  - simpl in H. inversion H; subst. discriminate.
  - split; [unfold bstatus; rewrite Hab; auto|].
    (* the last event is the one that aborted *)
    assert (Hsplit : exists bs1, brun' (binit' N) sched = Some bs1 /\ bstep' bs1 x = Some bs).
    { clear IHsched Hab. revert H. generalize (binit' N). induction sched; simpl; intros b0 H.
      - destruct (bstep' b0 x) eqn:E; [|discriminate]. inversion H; subst. eauto.
      - destruct (bstep' b0 a); [eauto|discriminate]. }
    destruct Hsplit as (bs1 & R1 & S1).
    assert (HI0 : Inv' (bco (binit' N))) by (apply (inv_init Src Iface Errs nodes deps src analyze_iface analyze_impl is_fresh iface0 errs0 N Hwf)).
    assert (HR1 : RInv bs1) by (apply (rinv_run sched (binit' N) bs1 HI0); [intros w b' Hr; discriminate | auto]).
    unfold bstep in S1. destruct (aborted bs1) eqn:Ea; [discriminate|]. destruct x.
    + match type of S1 with (if ?c then _ else _) = _ => destruct c; [|discriminate] end.
      destruct (cstepb _ _ _ _ _ _ _ _ _ _ _); inversion S1; subst; discriminate.
    + destruct (dead bs1 w); [discriminate|]. destruct (replied bs1 w); [discriminate|].
      destruct (ph _) as [|[|s t] f|b0|r]; try discriminate. destruct (blk_of _ _); inversion S1; subst; discriminate.
    + destruct (replied bs1 w) as [b1|] eqn:Er; [|discriminate]. destruct (outbox _); inversion S1; subst. simpl in Hab.
      inversion Hab; subst. apply (HR1 w b Er).
    + destruct (ph _); inversion S1; subst; discriminate.
    + destruct (dead bs1 w); inversion S1; subst; discriminate.
Qed.

(* worker failure (blocker reply or crash) never yields a partial result: in every state of every run
   (i) each store record is the initial cache record or the sequential one (no half-written interface / error record),
   (ii) every printed diagnostic is the sequential one of its SCC, and
   (iii) either the failure is reported (abort, status 2) or, if the build completes, the records are exactly the sequential ones *)
Theorem worker_failure_no_partial_result : forall sched (bs : BS), brun' (binit' N) sched = Some bs ->
  (forall s, (s_iface (sto (bco bs)) s = iface0 s \/ s_iface (sto (bco bs)) s = SI s)
          /\ (s_errs (sto (bco bs)) s = errs0 s \/ s_errs (sto (bco bs)) s = s_errs SEQ' s))
  /\ (forall s e, In (s, e) (flushed (bco bs)) -> s_errs SEQ' s = Some e)
  /\ ((exists o, aborted bs = Some o /\ bstatus Iface Errs Blk bs = 2)
      \/ (aborted bs = None /\ bstatus Iface Errs Blk bs = 0
          /\ (finished Iface Errs nodes N (bco bs) = true ->
              forall s, s_iface (sto (bco bs)) s = SI s /\ s_errs (sto (bco bs)) s = s_errs SEQ' s))).
Proof.
  intros sched bs H. pose proof (blocker_run_inv sched bs H) as HI. split; [|split].
  - intros s. split.
    + exact (i_v6 Src Iface Errs nodes deps src analyze_iface analyze_impl is_fresh iface0 errs0 N (bco bs) HI s).
    + exact (i_v4 Src Iface Errs nodes deps src analyze_iface analyze_impl is_fresh iface0 errs0 N (bco bs) HI s).
  - exact (blocker_run_diagnostics_sequential sched bs H).
  - unfold bstatus. destruct (aborted bs) as [o|] eqn:Ea.
    + left. exists o. auto.
    + right. split; auto. split; auto. intros Hfin s.
      exact (par_eq_seq Src Iface Errs nodes deps src analyze_iface analyze_impl is_fresh iface0 errs0 N Hwf _ (bco bs)
               (blocker_run_is_coarse_run sched bs H) Hfin s).
Qed.

End PB.

(* ---- the full statement is FALSE: the diagnostics printed before the blocker depend on batching / reply order.
   Witness (= the real `-n 1` run): two independent SCCs in one batch, the second one blocks: the interface phase of the
   batch is abandoned, the first SCC's diagnostics are never produced; the sequential build prints them first. *)
Definition y_nodes := [0; 1].
Definition y_deps (s : nat) : list nat := [].
Definition y_ai (s : nat) (v : list (nat * option nat)) : nat := s.
Definition y_am (s : nat) (o : option nat) (v : list (nat * option nat)) : nat := 100 + s.
Definition y_fr (s : nat) (v : list (nat * option nat)) : bool := false.
Definition y_blk (s : nat) (v : list (nat * option nat)) : option nat := if Nat.eqb s 1 then Some 7 else None.
Definition y_sched : list bevent := [BCoarse EClassify; BCoarse (ESubmit 0 [0; 1]); BCoarse (EIface 0); BBlock 0; BRecvBlock 0].

Definition blocker_output_eq_sequential : Prop :=
  forall sched (bs : bstate nat nat nat) b,
    brun nat nat nat nat y_nodes y_deps (fun s => s) y_ai y_am y_fr y_blk (binit nat nat nat y_nodes y_deps (fun _ => None) (fun _ => None) 1) sched = Some bs ->
    aborted bs = Some (Reported b) ->
    (flushed (bco bs), Some b) = run_sequential_b nat nat nat nat y_nodes y_deps (fun s => s) y_ai y_am y_fr y_blk (fun _ => None) (fun _ => None).

Lemma blocker_output_refuted : ~ blocker_output_eq_sequential.
Proof.
  intro H. specialize (H y_sched).
  destruct (brun nat nat nat nat y_nodes y_deps (fun s => s) y_ai y_am y_fr y_blk (binit nat nat nat y_nodes y_deps (fun _ => None) (fun _ => None) 1) y_sched) as [bs|] eqn:E;
    [|vm_compute in E; discriminate].
  specialize (H bs 7 eq_refl).
  assert (A : aborted bs = Some (Reported 7)) by (vm_compute in E; inversion E; subst; reflexivity).
  specialize (H A). vm_compute in E. inversion E; subst. vm_compute in H. discriminate.
Qed.

(* the hypotheses are satisfiable: a run in which a worker dies in the middle of its batch and the coordinator aborts *)
Definition y_crash : list bevent := [BCoarse EClassify; BCoarse (ESubmit 0 [0; 1]); BCoarse (EIface 0); BCrash 0; BDetect 0].
Example crash_run_aborts :
  match brun nat nat nat nat y_nodes y_deps (fun s => s) y_ai y_am y_fr (fun _ _ => None) (binit nat nat nat y_nodes y_deps (fun _ => None) (fun _ => None) 1) y_crash with
  | Some bs => match aborted bs with Some Crashed => bstatus nat nat nat bs =? 2 | _ => false end
  | None => false
  end = true.
Proof. vm_compute. reflexivity. Qed.
