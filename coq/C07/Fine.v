(* C07 — module-granular refinement of the scheduler model: inside the interface phase of an SCC and the
   implementation phase of a batch a worker goes module by module (process_stale_scc_interface: two loops over the
   modules, write_cache + commit_module, write_cache_meta + commit_module; worker.serve: per module
   process_stale_scc_implementation([id]) = write_cache_meta_ex + commit_module; then manager.commit()).
   The shared store is sharded (sqlite shards); a worker that has written to a shard and not committed holds that shard's
   write lock; another worker cannot write to the shard meanwhile ("database is locked" after the busy timeout).
   Records become visible to other processes at commit; dependants read only after the reply, which follows the
   SCC/batch-level commit: so the fine events change locks and progress only, values are those of the coarse events
   EIface / EImpl performed at `FDone`.  Executable definitions only.
   pm_iface / pm_impl : does the per-module loop end with commit_module? (extracted from the source: gen/C07Protocol.v) *)
From Coq Require Import List Arith Bool PeanoNat.
From C07 Require Import Model.
Import ListNotations.

Inductive kind := KIface | KImpl.
Inductive fprog := FIdle | FMods (k : kind) (todo : list nat) (cur : option nat).

Inductive fevent :=
| FCoarse (e : event)      (* EClassify, ESubmit, ESendIface, ESendImpl, ERecv of the coarse model *)
| FStart (w : nat)         (* worker enters the per-module loops of its next SCC (interface) / of its batch (implementation) *)
| FWrite (w : nat)         (* analyse the next module and write its record: needs / takes the write lock of its shard *)
| FModuleEnd (w : nat)     (* end of the loop body: commit_module(meta_file) iff the protocol has it *)
| FDone (w : nat).         (* manager.commit(): coarse EIface w / EImpl w; every lock of w is released *)

Section Fine.
Variables Src Iface Errs : Type.
Variable nodes : list nat.
Variable deps : nat -> list nat.
Variable src : nat -> Src.
Variable analyze_iface : Src -> list (nat * option Iface) -> Iface.
Variable analyze_impl : Src -> option Iface -> list (nat * option Iface) -> Errs.
Variable is_fresh : nat -> list (nat * option Iface) -> bool.
Variable iface0 : nat -> option Iface.
Variable errs0 : nat -> option Errs.
Variable mods : nat -> list nat.      (* modules of an SCC (order_ascc order) *)
Variable shard : nat -> nat.          (* sqlite shard of a module's cache files *)
Variable pm_iface pm_impl : bool.

Record fstate := { co : state Iface Errs; locks : nat -> option nat; fp : nat -> fprog }.

Definition pm (k : kind) : bool := match k with KIface => pm_iface | KImpl => pm_impl end.
Definition cstep := step Src Iface Errs nodes deps src analyze_iface analyze_impl is_fresh.
Definition holds (l : nat -> option nat) (sh w : nat) : bool := match l sh with Some w' => Nat.eqb w' w | None => false end.
Definition release_all (l : nat -> option nat) (w : nat) : nat -> option nat := fun sh => if holds l sh w then None else l sh.
Definition release_one (l : nat -> option nat) (sh w : nat) : nat -> option nat :=
  fun x => if Nat.eqb x sh && holds l sh w then None else l x.

Definition fstep (fs : fstate) (e : fevent) : option fstate :=
  match e with
  | FCoarse (EIface _) | FCoarse (EImpl _) => None
  | FCoarse ce => match cstep (co fs) ce with
                  | Some c => Some {| co := c; locks := locks fs; fp := fp fs |}
                  | None => None end
  | FStart w =>
      match fp fs w with
      | FIdle =>
          match ph (wk (co fs) w) with
          | PIface (s :: _) _ => Some {| co := co fs; locks := locks fs; fp := upd (fp fs) w (FMods KIface (mods s ++ mods s) None) |}
          | PImpl b => Some {| co := co fs; locks := locks fs; fp := upd (fp fs) w (FMods KImpl (flat_map mods (map fst b)) None) |}
          | _ => None
          end
      | _ => None
      end
  | FWrite w =>
      match fp fs w with
      | FMods k (m :: rest) None =>
          match locks fs (shard m) with
          | Some w' => if Nat.eqb w' w
                       then Some {| co := co fs; locks := locks fs; fp := upd (fp fs) w (FMods k rest (Some m)) |}
                       else None                      (* blocked: another worker holds the shard's write lock *)
          | None => Some {| co := co fs; locks := upd (locks fs) (shard m) (Some w); fp := upd (fp fs) w (FMods k rest (Some m)) |}
          end
      | _ => None
      end
  | FModuleEnd w =>
      match fp fs w with
      | FMods k rest (Some m) =>
          Some {| co := co fs; locks := if pm k then release_one (locks fs) (shard m) w else locks fs;
                  fp := upd (fp fs) w (FMods k rest None) |}
      | _ => None
      end
  | FDone w =>
      match fp fs w with
      | FMods k [] None =>
          match cstep (co fs) (match k with KIface => EIface w | KImpl => EImpl w end) with
          | Some c => Some {| co := c; locks := release_all (locks fs) w; fp := upd (fp fs) w FIdle |}
          | None => None
          end
      | _ => None
      end
  end.

Fixpoint frun (fs : fstate) (sched : list fevent) : option fstate :=
  match sched with
  | [] => Some fs
  | e :: r => match fstep fs e with Some fs' => frun fs' r | None => None end
  end.

Definition finit (nworkers : nat) : fstate :=
  {| co := init Iface Errs nodes deps iface0 errs0 nworkers; locks := fun _ => None; fp := fun _ => FIdle |}.

(* projection of a fine schedule onto the coarse model *)
(* the coarse event performed by a fine event in a given state *)
Definition coarse_of (fs : fstate) (e : fevent) : list event :=
  match e with
  | FCoarse ce => [ce]
  | FDone w => match fp fs w with
               | FMods KIface _ _ => [EIface w]
               | FMods KImpl _ _ => [EImpl w]
               | FIdle => [] end
  | _ => []
  end.
Fixpoint proj_run (fs : fstate) (sched : list fevent) : list event :=
  match sched with
  | [] => []
  | e :: r => coarse_of fs e ++ match fstep fs e with Some fs' => proj_run fs' r | None => [] end
  end.

End Fine.

Arguments co {Iface Errs}.  Arguments locks {Iface Errs}.  Arguments fp {Iface Errs}.  Arguments Build_fstate {Iface Errs}.
