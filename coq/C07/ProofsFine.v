(* C07 — the module-granular model refines the coarse one; shard write locks under the per-module-commit protocol. *)
From Coq Require Import List Arith Bool PeanoNat Lia.
From C07 Require Import Model ProofsSeq Proofs ProofsSched ProofsInv Fine.
Import ListNotations.

Section PF.
Variables Src Iface Errs : Type.
Variable nodes : list nat.
Variable deps : nat -> list nat.
Variable src : nat -> Src.
Variable analyze_iface : Src -> list (nat * option Iface) -> Iface.
Variable analyze_impl : Src -> option Iface -> list (nat * option Iface) -> Errs.
Variable is_fresh : nat -> list (nat * option Iface) -> bool.
Variable iface0 : nat -> option Iface.
Variable errs0 : nat -> option Errs.
Variable mods : nat -> list nat.
Variable shard : nat -> nat.
Variable pm_iface pm_impl : bool.

Notation FS := (fstate Iface Errs).
Notation fstep' := (fstep Src Iface Errs nodes deps src analyze_iface analyze_impl is_fresh mods shard pm_iface pm_impl).
Notation frun' := (frun Src Iface Errs nodes deps src analyze_iface analyze_impl is_fresh mods shard pm_iface pm_impl).
Notation projr := (proj_run Src Iface Errs nodes deps src analyze_iface analyze_impl is_fresh mods shard pm_iface pm_impl).
Notation run' := (run Src Iface Errs nodes deps src analyze_iface analyze_impl is_fresh).
Notation step' := (step Src Iface Errs nodes deps src analyze_iface analyze_impl is_fresh).
Notation finit' := (finit Iface Errs nodes deps iface0 errs0).

Lemma run_app : forall a b st st', run' st a = Some st' -> run' st (a ++ b) = run' st' b.
Proof. induction a; simpl; intros. inversion H; auto. destruct (step' st a); [eauto|discriminate]. Qed.

Lemma fstep_coarse : forall (fs fs' : FS) e, fstep' fs e = Some fs' -> run' (co fs) (coarse_of Iface Errs fs e) = Some (co fs').
Proof.
  intros fs fs' e H. destruct e; simpl in *.
  - unfold cstep in H. destruct e; try discriminate;
      match goal with H : match ?x with Some _ => _ | None => _ end = Some _ |- _ => destruct x eqn:E; [|discriminate] end;
      inversion H; subst; simpl; auto.
  - destruct (fp fs w); try discriminate. destruct (ph (wk (co fs) w)) as [|[|s t] f|b|r]; inversion H; subst; auto.
  - destruct (fp fs w) as [|k [|m rest] [c|]]; try discriminate.
    destruct (locks fs (shard m)) as [w'|]; [destruct (Nat.eqb w' w)|]; inversion H; subst; auto.
  - destruct (fp fs w) as [|k rest [m|]]; inversion H; subst; auto.
  - destruct (fp fs w) as [|k [|m rest] [c|]]; try discriminate. unfold cstep in H.
    destruct k; match goal with H : match ?x with Some _ => _ | None => _ end = Some _ |- _ => destruct x eqn:E; [|discriminate] end;
      inversion H; subst; unfold coarse_of; cbv beta iota; unfold run; cbn [co]; rewrite E; auto.
Qed.

(* (a) refinement: every run of the fine model projects to a run of the coarse model *)
Theorem fine_refines : forall sched (fs fs' : FS), frun' fs sched = Some fs' -> run' (co fs) (projr fs sched) = Some (co fs').
Proof.
  induction sched; simpl; intros fs fs' H.
  - inversion H; subst; auto.
  - destruct (fstep' fs a) as [fs1|] eqn:E; [|discriminate].
    rewrite (run_app _ _ _ _ (fstep_coarse fs fs1 a E)). eauto.
Qed.

(* ---- shard write locks under the protocol "commit_module at the end of every per-module loop body" *)
Definition LInv (fs : FS) : Prop :=
  forall sh w, locks fs sh = Some w -> exists k rest m, fp fs w = FMods k rest (Some m) /\ shard m = sh.

Hypothesis Hpi : pm_iface = true.
Hypothesis Hpm : pm_impl = true.

Lemma pm_true : forall k, pm pm_iface pm_impl k = true.
Proof. destruct k; simpl; auto. Qed.

Lemma linv_step : forall (fs fs' : FS) e, LInv fs -> fstep' fs e = Some fs' -> LInv fs'.
Proof.
  intros fs fs' e HL H. destruct e; simpl in H.
  - unfold cstep in H. destruct e; try discriminate;
      match goal with H : match ?x with Some _ => _ | None => _ end = Some _ |- _ => destruct x; [|discriminate] end;
      injection H as <-; exact HL.
  - destruct (fp fs w) eqn:Ef; try discriminate.
    assert (Hn : forall sh, locks fs sh <> Some w).
    { intros sh Hl. destruct (HL sh w Hl) as (k & r & m & A & _). congruence. }
    destruct (ph (wk (co fs) w)) as [|[|s t] f|b|r]; try discriminate; injection H as <-; intros sh w' Hl; simpl in *;
      (destruct (Nat.eq_dec w' w); [subst w'; exfalso; eapply Hn; eauto | rewrite upd_other by auto; apply HL; auto]).
  - destruct (fp fs w) as [|k [|m rest] [c|]] eqn:Ef; try discriminate.
    assert (Hn : forall sh, locks fs sh <> Some w).
    { intros sh Hl. destruct (HL sh w Hl) as (k' & r & m' & A & _). congruence. }
    destruct (locks fs (shard m)) as [w'|] eqn:El.
    + destruct (Nat.eqb_spec w' w); [subst w'; exfalso; eapply Hn; eauto | discriminate].
    + injection H as <-. intros sh w' Hl. simpl in *. destruct (Nat.eq_dec sh (shard m)).
      * subst sh. rewrite upd_same in Hl. injection Hl as <-. rewrite upd_same. eauto.
      * rewrite upd_other in Hl by auto. destruct (Nat.eq_dec w' w); [subst w'; exfalso; eapply Hn; eauto|].
        rewrite upd_other by auto. apply HL; auto.
  - destruct (fp fs w) as [|k rest [m|]] eqn:Ef; try discriminate; injection H as <-. rewrite pm_true. intros sh w' Hl. simpl in *.
    unfold release_one, holds in Hl. destruct (Nat.eq_dec w' w).
    + subst w'. exfalso. destruct (Nat.eqb_spec sh (shard m)).
      * subst sh. simpl in Hl. destruct (locks fs (shard m)) as [w0|] eqn:El; [|discriminate].
        destruct (Nat.eqb_spec w0 w); [discriminate | congruence].
      * simpl in Hl. destruct (HL sh w Hl) as (k' & r & m' & A & B). rewrite Ef in A. injection A as _ _ ->. congruence.
    + rewrite upd_other by auto. apply HL. destruct (Nat.eqb sh (shard m) && _); [discriminate | auto].
  - destruct (fp fs w) as [|k [|m rest] [c|]] eqn:Ef; try discriminate. unfold cstep in H.
    match goal with H : match ?x with Some _ => _ | None => _ end = Some _ |- _ => destruct x; [|discriminate] end.
    injection H as <-. intros sh w' Hl. simpl in *. unfold release_all, holds in Hl.
    destruct (locks fs sh) as [w0|] eqn:El; [|discriminate]. destruct (Nat.eqb_spec w0 w); [discriminate|].
    injection Hl as ->. rewrite upd_other by auto. apply HL; auto.
Qed.

Lemma linv_run : forall sched (fs fs' : FS), LInv fs -> frun' fs sched = Some fs' -> LInv fs'.
Proof.
  induction sched; simpl; intros fs fs' HL H. inversion H; subst; auto.
  destruct (fstep' fs a) eqn:E; [|discriminate]. eapply IHsched; [|eauto]. eapply linv_step; eauto.
Qed.

(* (b) lock_released_per_module: a worker holds a shard lock only for the module it has just written and is about
   to commit; while it analyses another module (or is between phases) it holds none; and the holder can always release *)
Theorem lock_only_for_current_module : forall N sched (fs : FS), frun' (finit' N) sched = Some fs ->
  forall sh w, locks fs sh = Some w -> exists k rest m, fp fs w = FMods k rest (Some m) /\ shard m = sh.
Proof. intros N sched fs H. apply (linv_run sched (finit' N) fs); auto. intros sh w Hl. discriminate. Qed.

Theorem no_lock_while_analysing : forall N sched (fs : FS), frun' (finit' N) sched = Some fs ->
  forall w, (fp fs w = FIdle \/ exists k todo, fp fs w = FMods k todo None) -> forall sh, locks fs sh <> Some w.
Proof.
  intros N sched fs H w Hw sh Hl. destruct (lock_only_for_current_module N sched fs H sh w Hl) as (k & r & m & A & _).
  destruct Hw as [E|[k' [t E]]]; congruence.
Qed.

Theorem holder_releases_next : forall N sched (fs : FS), frun' (finit' N) sched = Some fs ->
  forall sh w, locks fs sh = Some w -> exists fs', fstep' fs (FModuleEnd w) = Some fs' /\ locks fs' sh = None.
Proof.
  intros N sched fs H sh w Hl. destruct (lock_only_for_current_module N sched fs H sh w Hl) as (k & r & m & A & B).
  simpl. rewrite A. eexists; split; [reflexivity|]. simpl. rewrite pm_true. unfold release_one, holds. subst sh.
  rewrite Nat.eqb_refl, Hl, Nat.eqb_refl. auto.
Qed.

End PF.
