(* C07 — full-strength statements over the scheduler model (always visible).
   STATUS: ALL statements below are PROVED (Properties.v): parallel_eq_sequential, cache_after_parallel_eq_sequential,
   submit_only_when_deps_done, reads_see_committed_deps, every_scc_processed_once, no_deadlock, termination — via the global
   invariant ProofsInv.Inv (Inv init; Inv preserved by each of the 7 event kinds; induction over the schedule) and the
   potential ProofsTerm.Phi (strictly decreasing at every event, <= 8*|nodes| initially). *)
From Coq Require Import List Arith Bool PeanoNat.
From C07 Require Import Model ProofsSeq.
Import ListNotations.

Section Statement.
Variables Src Iface Errs : Type.
Variable nodes : list nat.
Variable deps : nat -> list nat.
Variable src : nat -> Src.
Variable analyze_iface : Src -> list (nat * option Iface) -> Iface.
Variable analyze_impl : Src -> option Iface -> list (nat * option Iface) -> Errs.
Variable is_fresh : nat -> list (nat * option Iface) -> bool.
Variable iface0 : nat -> option Iface.
Variable errs0 : nat -> option Errs.

Notation par := (run_parallel Src Iface Errs nodes deps src analyze_iface analyze_impl is_fresh iface0 errs0).
Notation stp := (step Src Iface Errs nodes deps src analyze_iface analyze_impl is_fresh).
Notation SEQ' := (run_sequential Src Iface Errs nodes deps src analyze_iface analyze_impl is_fresh iface0 errs0).
Notation WF := (wf nodes deps).

(* any DAG, any N >= 1, any schedule (worker choice, batching, progress and arrival order): a completed parallel
   run leaves exactly the records of the sequential build — diagnostics and cache, as maps *)
Definition parallel_eq_sequential : Prop :=
  WF -> forall N sched st, 1 <= N -> par N sched = Some st -> finished Iface Errs nodes N st = true ->
  forall s, s_iface (sto st) s = s_iface SEQ' s /\ s_errs (sto st) s = s_errs SEQ' s.

Definition cache_after_parallel_eq_sequential : Prop := parallel_eq_sequential.

Definition submit_only_when_deps_done : Prop :=
  WF -> forall N sched st, par N sched = Some st ->
  forall s, In s (ready st ++ queue st ++ in_flight_iface Iface Errs st N) -> incl (deps s) (done st).

(* every interface a worker reads from the shared store belongs to an SCC whose reply the coordinator had received
   (or that is fresh) and is the committed = final one *)
Definition reads_see_committed_deps : Prop :=
  WF -> forall N sched st w s todo fin, par N sched = Some st -> ph (wk st w) = PIface (s :: todo) fin ->
  forall d, In d (to_load Iface nodes deps (mem (wk st w)) s) ->
    In d (done st) /\ s_iface (sto st) d = s_iface SEQ' d.

Definition every_scc_processed_once : Prop :=
  WF -> forall N sched st, par N sched = Some st ->
  NoDup (ready st ++ queue st ++ in_flight_iface Iface Errs st N ++ done st)
  /\ (finished Iface Errs nodes N st = true -> forall s, In s nodes -> In s (done st)).

Definition no_deadlock : Prop :=
  WF -> forall N sched st, 1 <= N -> par N sched = Some st -> finished Iface Errs nodes N st = false ->
  exists e, stp st e <> None.

Definition termination : Prop :=
  WF -> forall N, exists bound, forall sched st, par N sched = Some st -> length sched <= bound.
End Statement.
