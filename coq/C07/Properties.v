(* Property C07.  Only theorem statements closed by `exact`, each followed by Print Assumptions.
   The first seven theorems are the full-strength statements of Statement.v (quantified over every well-formed DAG, every
   N, every schedule = list of events, every analysis / freshness oracle / initial cache); the remaining ones are the
   denotational confluence core and step-local lemmas they are built from. *)
From Coq Require Import List Arith Bool PeanoNat.
From C07 Require Import Model ProofsSeq Proofs ProofsSched ProofsInv Statement ProofsMain Fine ProofsFine ProofsFineVerdict Blocker ProofsBlocker.
From Gen Require Import C07Protocol.
Import ListNotations.

Section P.
Variables Src Iface Errs : Type.
Variable nodes : list nat.
Variable deps : nat -> list nat.
Variable src : nat -> Src.
Variable analyze_iface : Src -> list (nat * option Iface) -> Iface.
Variable analyze_impl : Src -> option Iface -> list (nat * option Iface) -> Errs.
Variable is_fresh : nat -> list (nat * option Iface) -> bool.
Variable iface0 : nat -> option Iface.
Variable errs0 : nat -> option Errs.

Notation SEQ' := (SEQ Src Iface Errs nodes deps src analyze_iface analyze_impl is_fresh iface0 errs0).
Notation spec := (spec_ok Src Iface Errs nodes deps src analyze_iface analyze_impl is_fresh iface0 errs0).

(* any DAG, any N, any schedule: a completed parallel run leaves exactly the sequential records (interfaces, diagnostics) *)
Theorem parallel_eq_sequential :
  Statement.parallel_eq_sequential Src Iface Errs nodes deps src analyze_iface analyze_impl is_fresh iface0 errs0.
Proof. exact (parallel_eq_sequential_proved Src Iface Errs nodes deps src analyze_iface analyze_impl is_fresh iface0 errs0). Qed.

Theorem cache_after_parallel_eq_sequential :
  Statement.cache_after_parallel_eq_sequential Src Iface Errs nodes deps src analyze_iface analyze_impl is_fresh iface0 errs0.
Proof. exact (cache_after_parallel_proved Src Iface Errs nodes deps src analyze_iface analyze_impl is_fresh iface0 errs0). Qed.

(* invariant: whatever is ready, queued or being analysed has all its direct dependencies interface-done *)
Theorem submit_only_when_deps_done :
  Statement.submit_only_when_deps_done Src Iface Errs nodes deps src analyze_iface analyze_impl is_fresh iface0 errs0.
Proof. exact (submit_only_when_deps_done_proved Src Iface Errs nodes deps src analyze_iface analyze_impl is_fresh iface0 errs0). Qed.

(* every interface a worker loads from the shared store belongs to a done SCC and is the committed = sequential one *)
Theorem reads_see_committed_deps :
  Statement.reads_see_committed_deps Src Iface Errs nodes deps src analyze_iface analyze_impl is_fresh iface0 errs0.
Proof. exact (reads_see_committed_deps_proved Src Iface Errs nodes deps src analyze_iface analyze_impl is_fresh iface0 errs0). Qed.

(* no SCC is ever in two stages of the pipeline or twice in one; a finished run has every SCC done *)
Theorem every_scc_processed_once :
  Statement.every_scc_processed_once Src Iface Errs nodes deps src analyze_iface analyze_impl is_fresh iface0 errs0.
Proof. exact (every_scc_processed_once_proved Src Iface Errs nodes deps src analyze_iface analyze_impl is_fresh iface0 errs0). Qed.

(* progress: a reachable state that is not finished has an enabled event, for every N >= 1 *)
Theorem no_deadlock :
  Statement.no_deadlock Src Iface Errs nodes deps src analyze_iface analyze_impl is_fresh iface0 errs0.
Proof. exact (no_deadlock_proved Src Iface Errs nodes deps src analyze_iface analyze_impl is_fresh iface0 errs0). Qed.

(* termination: every run (any schedule) has at most 8*|nodes| events; with no_deadlock: every maximal run ends finished *)
Theorem termination :
  Statement.termination Src Iface Errs nodes deps src analyze_iface analyze_impl is_fresh iface0 errs0.
Proof. exact (termination_proved Src Iface Errs nodes deps src analyze_iface analyze_impl is_fresh iface0 errs0). Qed.

(* the sequential build satisfies the DAG equations: each SCC's record is the analysis of its sources against the
   final interfaces of its transitive dependencies, or the old cache record when classified fresh *)
Theorem sequential_build_spec : wf nodes deps -> forall s, In s nodes -> spec SEQ' s.
Proof. exact (seq_spec Src Iface Errs nodes deps src analyze_iface analyze_impl is_fresh iface0 errs0). Qed.

(* confluence of DAG evaluation (any DAG, no bound): ANY store that satisfies the DAG equations — however it was
   filled: any number of workers, any batching, any completion order — is the sequential store.
   (denotational core; the operational theorem is parallel_eq_sequential above) *)
Theorem dag_confluence : wf nodes deps -> forall F : store Iface Errs,
  (forall s, In s nodes -> spec F s) ->
  forall s, In s nodes -> s_iface F s = s_iface SEQ' s /\ s_errs F s = s_errs SEQ' s.
Proof. exact (dag_solution_unique Src Iface Errs nodes deps src analyze_iface analyze_impl is_fresh iface0 errs0). Qed.

(* one interface step of a worker: if its memory holds sequential interfaces and every transitive dependency it must
   load has its committed interface in the shared store, then what it commits for s IS the sequential interface,
   nothing else in the store changes, and its memory stays correct *)
Theorem iface_step_sequential : wf nodes deps -> forall (st st' : state Iface Errs) w s todo fin,
  ph (wk st w) = PIface (s :: todo) fin -> In s nodes ->
  is_fresh s (view_of Iface (s_iface SEQ') (deps s)) = false ->
  (forall d v, In (d, v) (mem (wk st w)) -> v = s_iface SEQ' d) ->
  (forall d, In d (tdeps nodes deps s) -> mhas Iface (mem (wk st w)) d = false -> s_iface (sto st) d = s_iface SEQ' d) ->
  wiface Src Iface Errs nodes deps src analyze_iface st w = Some st' ->
  s_iface (sto st') s = s_iface SEQ' s
  /\ (forall d v, In (d, v) (mem (wk st' w)) -> v = s_iface SEQ' d)
  /\ (forall x, x <> s -> s_iface (sto st') x = s_iface (sto st) x)
  /\ (forall x, s_errs (sto st') x = s_errs (sto st) x)
  /\ (exists v, ph (wk st' w) = PIface todo (fin ++ [(s, v)]) /\ s_iface SEQ' s = Some v).
Proof. exact (wiface_correct Src Iface Errs nodes deps src analyze_iface analyze_impl is_fresh iface0 errs0). Qed.

Theorem impl_step_sequential : wf nodes deps -> forall s v (m : list (nat * option Iface)),
  In s nodes -> is_fresh s (view_of Iface (s_iface SEQ') (deps s)) = false -> s_iface SEQ' s = Some v ->
  (forall d v, In (d, v) m -> v = s_iface SEQ' d) -> (forall d, In d (tdeps nodes deps s) -> mhas Iface m d = true) ->
  Some (analyze_impl (src s) (Some v) (view_of Iface (mget Iface m) (tdeps nodes deps s))) = s_errs SEQ' s.
Proof. exact (wimpl_value Src Iface Errs nodes deps src analyze_iface analyze_impl is_fresh iface0 errs0). Qed.

Theorem classification_agrees : forall (known : nat -> option Iface) s,
  (forall d, In d (deps s) -> known d = s_iface SEQ' d) ->
  is_fresh s (view_of Iface known (deps s)) = is_fresh s (view_of Iface (s_iface SEQ') (deps s)).
Proof. exact (classify_agrees Src Iface Errs nodes deps src analyze_iface analyze_impl is_fresh iface0 errs0). Qed.

(* if `done` is closed under deps and contains the direct dependencies of s (the submit condition), it contains every
   SCC a worker loads for s *)
Theorem loads_within_done : forall (done : list nat) s,
  (forall d, In d done -> incl (deps d) done) -> incl (deps s) done -> incl (tdeps nodes deps s) done.
Proof. exact (loads_are_done nodes deps). Qed.

Theorem notify_bookkeeping : forall ds (n : nat -> nat) rdy, NoDup ds ->
  let '(n', rdy') := notify ds n rdy in
  (forall s, n' s = if memb s ds then pred (n s) else n s)
  /\ rdy' = rdy ++ filter (fun s => Nat.eqb (pred (n s)) 0) ds.
Proof. exact (notify_spec Src Iface Errs deps src analyze_iface analyze_impl is_fresh iface0 errs0). Qed.
End P.

Print Assumptions parallel_eq_sequential.
Print Assumptions cache_after_parallel_eq_sequential.
Print Assumptions submit_only_when_deps_done.
Print Assumptions reads_see_committed_deps.
Print Assumptions every_scc_processed_once.
Print Assumptions no_deadlock.
Print Assumptions termination.
Print Assumptions sequential_build_spec.
Print Assumptions dag_confluence.
Print Assumptions iface_step_sequential.
Print Assumptions impl_step_sequential.
Print Assumptions classification_agrees.
Print Assumptions loads_within_done.
Print Assumptions notify_bookkeeping.

(* ---- module-granular refinement (Fine.v): per-module analysis / write / commit_module, sharded store with write locks *)

(* (a) every run of the fine model projects to a run of the coarse model, whatever the commit protocol *)
Theorem fine_refines_coarse : forall (Src Iface Errs : Type) nodes deps src ai am fr mods shard pi pm sched (fs fs' : fstate Iface Errs),
  frun Src Iface Errs nodes deps src ai am fr mods shard pi pm fs sched = Some fs' ->
  run Src Iface Errs nodes deps src ai am fr (co fs) (proj_run Src Iface Errs nodes deps src ai am fr mods shard pi pm fs sched) = Some (co fs').
Proof. exact fine_refines_all. Qed.

(* ... so the coarse theorems transfer; the headline one restated on the fine model *)
Theorem fine_parallel_eq_sequential : forall (Src Iface Errs : Type) nodes deps src ai am fr i0 e0 mods shard pi pm N sched (fs : fstate Iface Errs),
  wf nodes deps ->
  frun Src Iface Errs nodes deps src ai am fr mods shard pi pm (finit Iface Errs nodes deps i0 e0 N) sched = Some fs ->
  finished Iface Errs nodes N (co fs) = true ->
  forall s, s_iface (sto (co fs)) s = s_iface (run_sequential Src Iface Errs nodes deps src ai am fr i0 e0) s
         /\ s_errs (sto (co fs)) s = s_errs (run_sequential Src Iface Errs nodes deps src ai am fr i0 e0) s.
Proof. exact fine_par_eq_seq. Qed.

(* (b) protocol "commit_module at the end of every per-module loop body": in every reachable state a worker that is idle,
   between modules or analysing a module holds NO shard write lock (it holds one only between a module's write and
   that module's commit), for every DAG, module/shard assignment, N and schedule *)
Theorem lock_released_per_module : lock_safe true true.
Proof. exact safe_both. Qed.

(* ... and the protocol without the per-module commit is refuted (two workers, colliding shard: the holder is analysing its
   next module, the other worker's write is blocked) *)
Theorem lock_released_per_module_refuted : lock_unsafe true false /\ (forall pm, lock_unsafe false pm).
Proof. exact (conj unsafe_impl unsafe_iface). Qed.

(* the verdict for the protocol the CURRENT source follows (flags regenerated by tools/extractors/t07.py) *)
Theorem current_code_lock_verdict : lock_verdict pm_iface pm_impl.
Proof. exact (lock_verdict_holds pm_iface pm_impl). Qed.

(* fail-closed: type-checks only while the extracted flags are (true, true) *)
Theorem current_code_commits_per_module : lock_safe pm_iface pm_impl.
Proof. exact safe_both. Qed.

Print Assumptions fine_refines_coarse.
Print Assumptions fine_parallel_eq_sequential.
Print Assumptions lock_released_per_module.
Print Assumptions lock_released_per_module_refuted.
Print Assumptions current_code_lock_verdict.
Print Assumptions current_code_commits_per_module.

(* ---- blocking errors and worker crashes (Blocker.v) *)

(* whatever happens (blocker replies, crashes), the scheduler part of the run is a run of the scheduler model, so every
   invariant above holds up to the abort *)
Theorem blocker_run_is_coarse_run : forall (Src Iface Errs Blk : Type) nodes deps src ai am fr blk i0 e0 N sched (bs : bstate Iface Errs Blk),
  brun Src Iface Errs Blk nodes deps src ai am fr blk (binit Iface Errs Blk nodes deps i0 e0 N) sched = Some bs ->
  run_parallel Src Iface Errs nodes deps src ai am fr i0 e0 N (bproj sched) = Some (bco bs).
Proof. exact ProofsBlocker.blocker_run_is_coarse_run. Qed.

(* every diagnostic printed before the abort is the sequential diagnostic of its SCC *)
Theorem blocker_run_diagnostics_sequential : forall (Src Iface Errs Blk : Type) nodes deps src ai am fr blk i0 e0 N,
  wf nodes deps -> forall sched (bs : bstate Iface Errs Blk),
  brun Src Iface Errs Blk nodes deps src ai am fr blk (binit Iface Errs Blk nodes deps i0 e0 N) sched = Some bs ->
  forall s e, In (s, e) (flushed (bco bs)) -> s_errs (run_sequential Src Iface Errs nodes deps src ai am fr i0 e0) s = Some e.
Proof. exact ProofsBlocker.blocker_run_diagnostics_sequential. Qed.

(* PARTIAL form of "the parallel run reports the sequential blocker": status 2, and the reported blocker is the blocking error
   that the sequential semantics assigns to SOME stale SCC (the sequential one when only one SCC blocks) *)
Theorem blocker_run_reports_sequential_blocker_partial : forall (Src Iface Errs Blk : Type) nodes deps src ai am fr blk i0 e0 N,
  wf nodes deps -> forall sched (bs : bstate Iface Errs Blk) b,
  brun Src Iface Errs Blk nodes deps src ai am fr blk (binit Iface Errs Blk nodes deps i0 e0 N) sched = Some bs ->
  aborted bs = Some (Reported b) ->
  bstatus Iface Errs Blk bs = 2
  /\ exists s, In s nodes /\ stale Src Iface Errs nodes deps src ai am fr i0 e0 s
       /\ blk (src s) (view_of Iface (s_iface (run_sequential Src Iface Errs nodes deps src ai am fr i0 e0)) (tdeps nodes deps s)) = Some b.
Proof. exact ProofsBlocker.blocker_reported_is_sequential_semantics. Qed.

(* the FULL statement (printed diagnostics + blocker = those of the sequential build) is refuted by the faithful model:
   two independent SCCs in one batch, the second blocks; reproduced on the real code (`-n 1`), see notes: finding *)
Theorem blocker_run_reports_sequential_blocker_refuted : ~ blocker_output_eq_sequential.
Proof. exact blocker_output_refuted. Qed.

Print Assumptions blocker_run_is_coarse_run.
Print Assumptions blocker_run_diagnostics_sequential.
Print Assumptions blocker_run_reports_sequential_blocker_partial.
Print Assumptions blocker_run_reports_sequential_blocker_refuted.

(* worker failure (blocker reply or crash, at any point of any schedule) never yields a partial result:
   (i) every store record is the initial cache record or the sequential one, (ii) every printed diagnostic is the sequential
   one of its SCC, (iii) either the failure is reported (abort, status 2) or, if the build completes, every record is the sequential one.
   (Completeness of the PRINTED list at completion is covered through the committed error records, not proved for `flushed`.) *)
Theorem worker_failure_never_yields_partial_result : forall (Src Iface Errs Blk : Type) nodes deps src ai am fr blk i0 e0 N,
  wf nodes deps -> forall sched (bs : bstate Iface Errs Blk),
  brun Src Iface Errs Blk nodes deps src ai am fr blk (binit Iface Errs Blk nodes deps i0 e0 N) sched = Some bs ->
  (forall s, (s_iface (sto (bco bs)) s = i0 s \/ s_iface (sto (bco bs)) s = s_iface (run_sequential Src Iface Errs nodes deps src ai am fr i0 e0) s)
          /\ (s_errs (sto (bco bs)) s = e0 s \/ s_errs (sto (bco bs)) s = s_errs (run_sequential Src Iface Errs nodes deps src ai am fr i0 e0) s))
  /\ (forall s e, In (s, e) (flushed (bco bs)) -> s_errs (run_sequential Src Iface Errs nodes deps src ai am fr i0 e0) s = Some e)
  /\ ((exists o, aborted bs = Some o /\ bstatus Iface Errs Blk bs = 2)
      \/ (aborted bs = None /\ bstatus Iface Errs Blk bs = 0
          /\ (finished Iface Errs nodes N (bco bs) = true ->
              forall s, s_iface (sto (bco bs)) s = s_iface (run_sequential Src Iface Errs nodes deps src ai am fr i0 e0) s
                     /\ s_errs (sto (bco bs)) s = s_errs (run_sequential Src Iface Errs nodes deps src ai am fr i0 e0) s))).
Proof. exact ProofsBlocker.worker_failure_no_partial_result. Qed.

(* fail-closed tie: the coordinator of the CURRENT source re-raises a blocker reply before using its results and turns a lost
   worker connection into an error (flags regenerated by tools/extractors/t07.py), as Blocker.v models *)
Theorem current_code_aborts_on_worker_failure : abort_on_blocker && abort_on_lost_worker = true.
Proof. exact (eq_refl true). Qed.

Print Assumptions worker_failure_never_yields_partial_result.
Print Assumptions current_code_aborts_on_worker_failure.

(* the hypotheses are satisfiable: a diamond with a cycle-free tail is a well-formed DAG ... *)
Definition ex_nodes := [0; 1; 2; 3; 4].
Definition ex_deps (s : nat) : list nat := match s with 1 => [0] | 2 => [0] | 3 => [1; 2] | 4 => [3; 0] | _ => [] end.
Example ex_wf : wf ex_nodes ex_deps.
Proof. unfold wf, ex_nodes; simpl. repeat split; try (intro H; simpl in H; tauto); try (intros x Hx; simpl in *; tauto);
  repeat constructor; simpl; intuition congruence. Qed.

(* ... and a concrete 2-worker schedule (batch [1;2] on one worker, out-of-order replies) completes in the model with
   the sequential result (vm_compute test of the operational model, not a theorem) *)
Definition ex_ai (s : nat) (v : list (nat * option nat)) : nat := s + 10 * fold_left (fun a p => a + match snd p with Some x => x | None => 0 end) v 1.
Definition ex_am (s : nat) (o : option nat) (v : list (nat * option nat)) : nat := s + length v.
Definition ex_fr (s : nat) (_ : list (nat * option nat)) : bool := false.
Definition ex_sched : list event :=
  [EClassify; ESubmit 1 [0]; EIface 1; ESendIface 1; ERecv 1; EClassify; ESubmit 0 [1; 2]; EIface 0; EImpl 1; EIface 0;
   ESendIface 0; ESendImpl 1; ERecv 0; EClassify; ERecv 1; ESubmit 1 [3]; EIface 1; ESendIface 1; EImpl 0; ERecv 1; EClassify;
   ESendImpl 0; ERecv 0; ESubmit 0 [4]; EIface 0; ESendIface 0; EImpl 0; ESendImpl 0; EImpl 1; ESendImpl 1; ERecv 1; ERecv 0; ERecv 0].
Example ex_run :
  match run_parallel nat nat nat ex_nodes ex_deps (fun s => s) ex_ai ex_am ex_fr (fun _ => None) (fun _ => None) 2 ex_sched with
  | Some st => finished nat nat ex_nodes 2 st
               && forallb (fun s => match s_iface (sto st) s, s_iface (run_sequential nat nat nat ex_nodes ex_deps (fun s => s) ex_ai ex_am ex_fr (fun _ => None) (fun _ => None)) s with
                                    | Some a, Some b => Nat.eqb a b | _, _ => false end) ex_nodes
  | None => false
  end = true.
Proof. vm_compute. reflexivity. Qed.
