(* C07 — shard-lock verdict as a function of the protocol flags extracted from the source (gen/C07Protocol.v):
   per-module commit in both loops  => no worker holds a shard lock while it analyses another module;
   per-module commit missing        => refuted: a worker keeps a shard locked while analysing its next module and
                                       blocks another worker that needs the same shard (two workers, colliding shard). *)
From Coq Require Import List Arith Bool PeanoNat Lia.
From C07 Require Import Model ProofsSeq Proofs ProofsSched ProofsInv Fine ProofsFine.
Import ListNotations.

Definition lock_safe (pi pm : bool) : Prop :=
  forall (Src Iface Errs : Type) nodes deps src ai am fr i0 e0 mods shard N sched (fs : fstate Iface Errs),
    frun Src Iface Errs nodes deps src ai am fr mods shard pi pm (finit Iface Errs nodes deps i0 e0 N) sched = Some fs ->
    forall w, (fp fs w = FIdle \/ exists k todo, fp fs w = FMods k todo None) -> forall sh, locks fs sh <> Some w.

(* concrete instance for the counterexamples *)
Definition x_ai (s : nat) (v : list (nat * option nat)) : nat := s.
Definition x_am (s : nat) (o : option nat) (v : list (nat * option nat)) : nat := s.
Definition x_fr (s : nat) (v : list (nat * option nat)) : bool := false.
Definition x_frun nodes deps mods shard pi pm N :=
  frun nat nat nat nodes deps (fun s => s) x_ai x_am x_fr mods shard pi pm (finit nat nat nodes deps (fun _ => None) (fun _ => None) N).
Definition x_fstep nodes deps mods shard pi pm :=
  fstep nat nat nat nodes deps (fun s => s) x_ai x_am x_fr mods shard pi pm.

Definition lock_unsafe (pi pm : bool) : Prop :=
  exists nodes deps mods shard N sched w w' sh k m' rest k' m'' rest' (fs : fstate nat nat),
    x_frun nodes deps mods shard pi pm N sched = Some fs
    /\ locks fs sh = Some w /\ fp fs w = FMods k (m' :: rest) None
    /\ w' <> w /\ fp fs w' = FMods k' (m'' :: rest') None /\ shard m'' = sh
    /\ x_fstep nodes deps mods shard pi pm fs (FWrite w') = None.

Definition lock_verdict (pi pm : bool) : Prop := if pi && pm then lock_safe pi pm else lock_unsafe pi pm.

Definition x_nodes := [0; 1].
Definition x_deps (s : nat) : list nat := [].
Definition x_mods (s : nat) : list nat := match s with 0 => [10; 11] | _ => [20] end.
Definition x_shard (m : nat) : nat := 0.
Definition x_prefix : list fevent := [FCoarse EClassify; FCoarse (ESubmit 0 [0]); FCoarse (ESubmit 1 [1])].
(* interface phase of a worker whose SCC has n modules, protocol respected *)
Fixpoint wr (w n : nat) : list fevent := match n with 0 => [] | S k => FWrite w :: FModuleEnd w :: wr w k end.
Definition x_iface_ok : list fevent :=
  FStart 0 :: wr 0 4 ++ [FDone 0; FCoarse (ESendIface 0)] ++ FStart 1 :: wr 1 2 ++ [FDone 1; FCoarse (ESendIface 1)].
Definition x_sched_iface : list fevent := x_prefix ++ [FStart 0; FWrite 0; FModuleEnd 0; FStart 1].
Definition x_sched_impl : list fevent := x_prefix ++ x_iface_ok ++ [FStart 0; FWrite 0; FModuleEnd 0; FStart 1].

Lemma unsafe_iface : forall pm, lock_unsafe false pm.
Proof.
  intros pm. exists x_nodes, x_deps, x_mods, x_shard, 2, x_sched_iface, 0, 1, 0, KIface, 11, [10; 11], KIface, 20, [20].
  eexists. split; [destruct pm; vm_compute; reflexivity|]. destruct pm; vm_compute; repeat split; try reflexivity; discriminate.
Qed.
Lemma unsafe_impl : lock_unsafe true false.
Proof.
  exists x_nodes, x_deps, x_mods, x_shard, 2, x_sched_impl, 0, 1, 0, KImpl, 11, (@nil nat), KImpl, 20, (@nil nat).
  eexists. split; [vm_compute; reflexivity|]. vm_compute; repeat split; try reflexivity; discriminate.
Qed.

Lemma safe_both : lock_safe true true.
Proof.
  unfold lock_safe. intros Src Iface Errs nodes deps src ai am fr i0 e0 mods shard N sched fs H w Hw sh.
  exact (no_lock_while_analysing Src Iface Errs nodes deps src ai am fr i0 e0 mods shard true true eq_refl eq_refl N sched fs H w Hw sh).
Qed.

Theorem lock_verdict_holds : forall pi pm, lock_verdict pi pm.
Proof.
  intros [|] [|]; unfold lock_verdict; simpl.
  - exact safe_both. - exact unsafe_impl. - exact (unsafe_iface true). - exact (unsafe_iface false).
Qed.

(* every theorem of the coarse model transfers to the module-granular one through the refinement; the main one: *)
Lemma fine_par_eq_seq : forall (Src Iface Errs : Type) nodes deps src ai am fr i0 e0 mods shard pi pm N sched (fs : fstate Iface Errs),
  wf nodes deps ->
  frun Src Iface Errs nodes deps src ai am fr mods shard pi pm (finit Iface Errs nodes deps i0 e0 N) sched = Some fs ->
  finished Iface Errs nodes N (co fs) = true ->
  forall s, s_iface (sto (co fs)) s = s_iface (run_sequential Src Iface Errs nodes deps src ai am fr i0 e0) s
         /\ s_errs (sto (co fs)) s = s_errs (run_sequential Src Iface Errs nodes deps src ai am fr i0 e0) s.
Proof.
  intros Src Iface Errs nodes deps src ai am fr i0 e0 mods shard pi pm N sched fs Hwf H Hfin s.
  pose proof (fine_refines Src Iface Errs nodes deps src ai am fr mods shard pi pm sched _ fs H) as R. simpl in R.
  exact (par_eq_seq Src Iface Errs nodes deps src ai am fr i0 e0 N Hwf _ (co fs) R Hfin s).
Qed.

Lemma fine_refines_all : forall (Src Iface Errs : Type) nodes deps src ai am fr mods shard pi pm sched (fs fs' : fstate Iface Errs),
  frun Src Iface Errs nodes deps src ai am fr mods shard pi pm fs sched = Some fs' ->
  run Src Iface Errs nodes deps src ai am fr (co fs) (proj_run Src Iface Errs nodes deps src ai am fr mods shard pi pm fs sched) = Some (co fs').
Proof. intros. apply fine_refines; auto. Qed.
