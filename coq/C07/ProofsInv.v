(* C07 — the global invariant of the operational scheduler model and its preservation by every event. *)
From Coq Require Import List Arith Bool PeanoNat Lia Permutation.
From C07 Require Import Model ProofsSeq Proofs ProofsSched Blocker.
Import ListNotations.

Notation cnt := (count_occ Nat.eq_dec).

Lemma cnt_in : forall l x, In x l <-> 1 <= cnt l x.
Proof. intros. rewrite (count_occ_In Nat.eq_dec). lia. Qed.
Lemma cnt_nodup : forall l, NoDup l <-> forall x, cnt l x <= 1.
Proof. intros; apply NoDup_count_occ. Qed.
Lemma cnt_filter_part : forall (f : nat -> bool) l x,
  cnt (filter f l) x + cnt (filter (fun y => negb (f y)) l) x = cnt l x.
Proof.
  induction l; simpl; intros; auto. destruct (f a); simpl; destruct (Nat.eq_dec a x); simpl; rewrite <- (IHl x); lia.
Qed.
Lemma cnt_remove_all : forall xs l x, cnt (remove_all xs l) x = if memb x xs then 0 else cnt l x.
Proof.
  unfold remove_all; induction l; simpl; intros.
  - destruct (memb x xs); auto.
  - destruct (memb a xs) eqn:E; simpl.
    + rewrite IHl. destruct (Nat.eq_dec a x); subst; auto. rewrite E; auto.
    + destruct (Nat.eq_dec a x); subst; rewrite IHl; auto. rewrite E; auto.
Qed.
Lemma in_remove_all : forall xs l x, In x (remove_all xs l) <-> In x l /\ ~ In x xs.
Proof.
  unfold remove_all; intros. rewrite filter_In. split; intros [A B]; split; auto.
  - apply negb_true_iff in B. apply memb_false in B; auto.
  - apply negb_true_iff. apply memb_false; auto.
Qed.

Lemma fold_upd_spec : forall A (res : list (nat * A)) (f : nat -> option A) s,
  let F := fold_left (fun f p => upd f (fst p) (Some (snd p))) res f in
  (~ In s (map fst res) /\ F s = f s) \/ (exists e, In (s, e) res /\ F s = Some e).
Proof.
  induction res as [|[k e] r]; simpl; intros f s; auto.
  destruct (IHr (upd f k (Some e)) s) as [[A1 A2]|[e' [A1 A2]]].
  - destruct (Nat.eq_dec s k).
    + subst. right. exists e. split; auto. rewrite A2, upd_same; auto.
    + left. split; [intros [E|E]; [congruence|tauto]|]. rewrite A2, upd_other; auto.
  - right. exists e'; auto.
Qed.

Section Inv.
Variables Src Iface Errs : Type.
Variable nodes : list nat.
Variable deps : nat -> list nat.
Variable src : nat -> Src.
Variable analyze_iface : Src -> list (nat * option Iface) -> Iface.
Variable analyze_impl : Src -> option Iface -> list (nat * option Iface) -> Errs.
Variable is_fresh : nat -> list (nat * option Iface) -> bool.
Variable iface0 : nat -> option Iface.
Variable errs0 : nat -> option Errs.
Variable N : nat.

Notation SEQ' := (SEQ Src Iface Errs nodes deps src analyze_iface analyze_impl is_fresh iface0 errs0).
Notation SI := (s_iface SEQ').
Notation SE := (s_errs SEQ').
Notation td := (tdeps nodes deps).
Notation State := (state Iface Errs).
Notation W := (wstate Iface Errs).

Hypothesis Hwf : wf nodes deps.

Lemma nodes_nodup : NoDup nodes.
Proof. exact (wf_from_NoDup Src Iface Errs deps src analyze_iface analyze_impl is_fresh iface0 errs0 nodes [] Hwf). Qed.
Lemma deps_nodup : forall s, In s nodes -> NoDup (deps s).
Proof. intros s H. exact (proj2 (wf_from_deps Src Iface Errs deps src analyze_iface analyze_impl is_fresh iface0 errs0 nodes [] Hwf s H)). Qed.
Lemma deps_nodes : forall s, In s nodes -> incl (deps s) nodes.
Proof. intros s H. destruct (wf_from_deps Src Iface Errs deps src analyze_iface analyze_impl is_fresh iface0 errs0 nodes [] Hwf s H) as [A _]. simpl in A. auto. Qed.

Definition stale (s : nat) : Prop := is_fresh s (view_of Iface SI (deps s)) = false.

Lemma stale_spec : forall s, In s nodes -> stale s ->
  SI s = Some (analyze_iface (src s) (view_of Iface SI (td s)))
  /\ SE s = Some (analyze_impl (src s) (SI s) (view_of Iface SI (td s))).
Proof.
  intros s Hs Hst.
  pose proof (seq_spec Src Iface Errs nodes deps src analyze_iface analyze_impl is_fresh iface0 errs0 Hwf s Hs) as Hsp.
  unfold spec_ok in Hsp. unfold stale in Hst. rewrite Hst in Hsp. destruct Hsp as [A B]. split; [exact A|]. rewrite B, A; reflexivity.
Qed.
Lemma fresh_spec : forall s, In s nodes -> ~ stale s -> SI s = iface0 s /\ SE s = errs0 s.
Proof.
  intros s Hs Hst.
  pose proof (seq_spec Src Iface Errs nodes deps src analyze_iface analyze_impl is_fresh iface0 errs0 Hwf s Hs) as Hsp.
  unfold spec_ok in Hsp. unfold stale in Hst. destruct (is_fresh s _); [auto | tauto].
Qed.

(* ---- in-flight SCCs *)
Definition msg_ids (m : msg Iface Errs) : list nat := match m with MIface res => map fst res | MImpl _ => [] end.
Definition ph_ids (p : phase Iface Errs) : list nat := match p with PIface todo fin => todo ++ map fst fin | _ => [] end.
Definition w_ids (x : W) : list nat := ph_ids (ph x) ++ flat_map msg_ids (outbox x).
Definition inflight_on (l : list nat) (wkf : nat -> W) : list nat := flat_map (fun w => w_ids (wkf w)) l.
Definition inflight (st : State) : list nat := inflight_on (seq 0 N) (wk st).
Definition released (st : State) : list nat := ready st ++ queue st ++ inflight st ++ done st.

Lemma cnt_inflight_on_notin : forall l wkf w x s, ~ In w l -> cnt (inflight_on l (upd wkf w x)) s = cnt (inflight_on l wkf) s.
Proof.
  induction l; simpl; intros; auto. rewrite !count_occ_app. rewrite IHl by tauto. rewrite upd_other by (intro; subst; tauto). auto.
Qed.
Lemma cnt_inflight_on_upd : forall l wkf w x s, NoDup l -> In w l ->
  cnt (inflight_on l (upd wkf w x)) s + cnt (w_ids (wkf w)) s = cnt (inflight_on l wkf) s + cnt (w_ids x) s.
Proof.
  induction l; simpl; intros wkf w x s Hnd Hin; [tauto|]. inversion Hnd as [|y l' Hy Hl]; subst. rewrite !count_occ_app.
  destruct Hin as [->|Hin].
  - rewrite upd_same. rewrite cnt_inflight_on_notin by auto. lia.
  - assert (a <> w) by (intro; subst; tauto). rewrite upd_other by auto. specialize (IHl wkf w x s Hl Hin). lia.
Qed.
Lemma cnt_inflight_upd : forall (st : State) w x s, w < N ->
  cnt (inflight_on (seq 0 N) (upd (wk st) w x)) s + cnt (w_ids (wk st w)) s = cnt (inflight st) s + cnt (w_ids x) s.
Proof. intros. apply cnt_inflight_on_upd. apply seq_NoDup. apply in_seq; lia. Qed.
Lemma in_inflight : forall (st : State) w s, w < N -> In s (w_ids (wk st w)) -> In s (inflight st).
Proof. intros. unfold inflight, inflight_on. apply in_flat_map. exists w; split; auto. apply in_seq; lia. Qed.
Lemma inflight_inv : forall (st : State) s, In s (inflight st) -> exists w, w < N /\ In s (w_ids (wk st w)).
Proof. unfold inflight, inflight_on; intros. apply in_flat_map in H as [w [A B]]. apply in_seq in A. exists w; split; auto; lia. Qed.

(* ---- worker well-formedness: phase / outbox shapes and the values they carry *)
Definition memT := list (nat * option Iface).
Definition mem_ok (m : memT) : Prop := forall d v, In (d, v) m -> v = SI d.
Definition good_b (fi : nat -> option Iface) (m : memT) (b : list (nat * Iface)) : Prop :=
  forall s v, In (s, v) b -> In s nodes /\ stale s /\ SI s = Some v /\ fi s = Some v /\ (forall d, In d (td s) -> mhas Iface m d = true).
Definition good_r (r : list (nat * Errs)) : Prop := forall s e, In (s, e) r -> SE s = Some e.
Definition errs_done (fe : nat -> option Errs) (ids : list nat) : Prop := forall s, In s ids -> fe s = SE s.

Definition wshape (fi : nat -> option Iface) (fe : nat -> option Errs) (m : memT) (p : phase Iface Errs) (o : list (msg Iface Errs)) : Prop :=
  match p, o with
  | PIdle, [] => True
  | PIface todo fin, [] => (forall s, In s todo -> stale s) /\ good_b fi m fin
  | PImpl b, [MIface b'] => b' = b /\ good_b fi m b
  | PImpl b, [] => good_b fi m b
  | PImplDone r, [MIface b] => good_b fi m b /\ errs_done fe (map fst b) /\ good_r r
  | PImplDone r, [] => good_r r
  | PIdle, [MIface b; MImpl r] => good_b fi m b /\ errs_done fe (map fst b) /\ good_r r
  | PIdle, [MImpl r] => good_r r
  | _, _ => False
  end.
Definition wok (fi : nat -> option Iface) (fe : nat -> option Errs) (x : W) : Prop :=
  mem_ok (mem x) /\ wshape fi fe (mem x) (ph x) (outbox x).

Definition pending_impl (st : State) (s : nat) : Prop := exists w b, ph (wk st w) = PImpl b /\ In s (map fst b).

Record Inv (st : State) : Prop := {
  i_cnt : forall s, cnt (released st) s <= 1;
  i_rel : forall s, In s (released st) -> In s nodes /\ incl (deps s) (done st);
  i_nrc : J1 nodes deps (done st) (nrc st);
  i_unrel : forall s, In s nodes -> ~ In s (released st) -> ~ incl (deps s) (done st);
  i_free : forall w, In w (free st) -> w < N /\ ph (wk st w) = PIdle /\ outbox (wk st w) = [];
  i_freend : NoDup (free st);
  i_busy : forall w, w < N -> ph (wk st w) = PIdle -> outbox (wk st w) = [] -> In w (free st);
  i_out : forall w, N <= w -> ph (wk st w) = PIdle /\ outbox (wk st w) = [];
  i_wok : forall w, wok (s_iface (sto st)) (s_errs (sto st)) (wk st w);
  i_queue : forall s, In s (queue st) -> stale s;
  i_v1 : forall s, In s (done st) -> s_iface (sto st) s = SI s /\ known st s = SI s;
  i_v6 : forall s, s_iface (sto st) s = iface0 s \/ s_iface (sto st) s = SI s;
  i_v7 : forall s, ~ In s (done st) -> known st s = iface0 s;
  i_v4 : forall s, s_errs (sto st) s = errs0 s \/ s_errs (sto st) s = SE s;
  i_v5 : forall s, In s (done st) -> stale s -> s_errs (sto st) s = SE s \/ pending_impl st s;
  i_fl : forall s e, In (s, e) (flushed st) -> SE s = Some e
}.

Lemma good_b_mono : forall fi fi' m m' b,
  (forall s v, SI s = Some v -> fi s = Some v -> fi' s = Some v) ->
  (forall d, mhas Iface m d = true -> mhas Iface m' d = true) ->
  good_b fi m b -> good_b fi' m' b.
Proof. unfold good_b; intros fi fi' m m' b H1 H2 H s v Hin. destruct (H s v Hin) as (A0 & A & B & C & D). repeat split; auto. Qed.
Lemma wshape_mono : forall fi fi' fe fe' m p o,
  (forall s v, SI s = Some v -> fi s = Some v -> fi' s = Some v) ->
  (forall s, fe s = SE s -> fe' s = SE s) ->
  wshape fi fe m p o -> wshape fi' fe' m p o.
Proof.
  intros fi fi' fe fe' m p o H1 H2. assert (G : forall b, good_b fi m b -> good_b fi' m b) by (intros; eapply good_b_mono; eauto).
  assert (E : forall ids, errs_done fe ids -> errs_done fe' ids) by (unfold errs_done; auto).
  unfold wshape. destruct p; destruct o as [|[?|?] [|[?|?] [|? ?]]]; intuition auto.
Qed.
Lemma wok_mono : forall fi fi' fe fe' x,
  (forall s v, SI s = Some v -> fi s = Some v -> fi' s = Some v) ->
  (forall s, fe s = SE s -> fe' s = SE s) ->
  wok fi fe x -> wok fi' fe' x.
Proof. unfold wok; intros. destruct H1; split; auto. eapply wshape_mono; eauto. Qed.

(* done is closed under deps, so everything a worker may load for a released SCC is done *)
Lemma done_closed : forall st, Inv st -> forall d, In d (done st) -> incl (deps d) (done st).
Proof. intros st HI d Hd. apply (i_rel st HI d). unfold released. rewrite !in_app_iff; auto. Qed.
Lemma released_tdeps_done : forall st, Inv st -> forall s, In s (released st) -> incl (td s) (done st).
Proof.
  intros st HI s Hs. apply (loads_are_done nodes deps); [apply done_closed; auto | apply (i_rel st HI s Hs)].
Qed.

Lemma released_cnt : forall st s, cnt (released st) s = cnt (ready st) s + cnt (queue st) s + cnt (inflight st) s + cnt (done st) s.
Proof. intros; unfold released; rewrite !count_occ_app; lia. Qed.

Lemma inv_sched_same : forall st st', Inv st ->
  nrc st' = nrc st -> done st' = done st -> (forall s, cnt (released st') s = cnt (released st) s) ->
  (forall s, cnt (released st') s <= 1)
  /\ (forall s, In s (released st') -> In s nodes /\ incl (deps s) (done st'))
  /\ J1 nodes deps (done st') (nrc st')
  /\ (forall s, In s nodes -> ~ In s (released st') -> ~ incl (deps s) (done st')).
Proof.
  intros st st' HI E1 E2 E3. rewrite E1, E2.
  assert (Hin : forall s, In s (released st') <-> In s (released st)) by (intros; rewrite !cnt_in, E3; tauto).
  repeat split.
  - intros s; rewrite E3; apply (i_cnt st HI).
  - apply (i_rel st HI); apply Hin; auto.
  - apply (i_rel st HI); apply Hin; auto.
  - apply (i_nrc st HI).
  - intros s Hs Hn. apply (i_unrel st HI s Hs). intro; apply Hn; apply Hin; auto.
Qed.

(* a step of worker w that changes only w's state and the store *)
Lemma inv_worker_update : forall st st' w x' ,
  Inv st -> w < N -> ~ In w (free st) ->
  nrc st' = nrc st -> ready st' = ready st -> queue st' = queue st -> free st' = free st -> done st' = done st ->
  known st' = known st -> flushed st' = flushed st -> wk st' = upd (wk st) w x' ->
  (forall s, cnt (w_ids x') s = cnt (w_ids (wk st w)) s) ->
  ~ (ph x' = PIdle /\ outbox x' = []) ->
  (forall s, s_iface (sto st') s = s_iface (sto st) s \/ s_iface (sto st') s = SI s) ->
  (forall s, s_errs (sto st') s = s_errs (sto st) s \/ s_errs (sto st') s = SE s) ->
  wok (s_iface (sto st')) (s_errs (sto st')) x' ->
  (forall s, In s (done st) -> stale s -> s_errs (sto st) s = SE s \/ pending_impl st s ->
             s_errs (sto st') s = SE s \/ pending_impl st' s) ->
  Inv st'.
Proof.
  intros st st' w x' HI Hw Hnf E1 E2 E3 E4 E5 E6 E7 E8 Hids Hbusy Hfi Hfe Hwok Hv5.
  assert (Hc : forall s, cnt (released st') s = cnt (released st) s).
  { intros s. rewrite !released_cnt. rewrite E2, E3, E5. unfold inflight at 1. rewrite E8.
    pose proof (cnt_inflight_upd st w x' s Hw). specialize (Hids s). lia. }
  destruct (inv_sched_same st st' HI E1 E5 Hc) as (A & B & C & D).
  assert (Hfi' : forall s v, SI s = Some v -> s_iface (sto st) s = Some v -> s_iface (sto st') s = Some v).
  { intros s v H1 H2. destruct (Hfi s) as [H|H]; congruence. }
  assert (Hfe' : forall s, s_errs (sto st) s = SE s -> s_errs (sto st') s = SE s).
  { intros s H1. destruct (Hfe s) as [H|H]; congruence. }
  constructor; auto.
  - rewrite E4, E8. intros w' Hw'. destruct (i_free st HI w' Hw') as (F1 & F2 & F3).
    assert (w' <> w) by (intro; subst; tauto). rewrite upd_other; auto.
  - rewrite E4. apply (i_freend st HI).
  - rewrite E4, E8. intros w' Hw' P1 P2. destruct (Nat.eq_dec w' w).
    + subst. rewrite upd_same in *. tauto.
    + rewrite upd_other in * by auto. apply (i_busy st HI); auto.
  - rewrite E8. intros w' Hw'. rewrite upd_other by lia. apply (i_out st HI); auto.
  - rewrite E8. intros w'. destruct (Nat.eq_dec w' w).
    + subst. rewrite upd_same. auto.
    + rewrite upd_other by auto. eapply wok_mono; [apply Hfi' | apply Hfe' | apply (i_wok st HI)].
  - rewrite E3. apply (i_queue st HI).
  - rewrite E5, E6. intros s Hs. destruct (i_v1 st HI s Hs) as [V1 V2]. split; auto. destruct (Hfi s); congruence.
  - intros s. destruct (Hfi s) as [H|H]; [rewrite H; apply (i_v6 st HI) | auto].
  - rewrite E5, E6. apply (i_v7 st HI).
  - intros s. destruct (Hfe s) as [H|H]; [rewrite H; apply (i_v4 st HI) | auto].
  - rewrite E5. intros s Hs Hst. apply Hv5; auto. apply (i_v5 st HI); auto.
  - rewrite E7. apply (i_fl st HI).
Qed.

Lemma pending_other : forall (st st' : State) w x' s, wk st' = upd (wk st) w x' ->
  (forall b, ph (wk st w) = PImpl b -> ph x' = PImpl b) -> pending_impl st s -> pending_impl st' s.
Proof.
  intros st st' w x' s E H [w0 [b [P1 P2]]]. exists w0, b. split; auto. rewrite E. destruct (Nat.eq_dec w0 w).
  - subst. rewrite upd_same. auto.
  - rewrite upd_other; auto.
Qed.

Lemma busy_lt : forall st w, Inv st -> ph (wk st w) <> PIdle -> w < N /\ ~ In w (free st).
Proof.
  intros st w HI H. split.
  - destruct (Nat.lt_ge_cases w N); auto. destruct (i_out st HI w H0); congruence.
  - intro Hf. destruct (i_free st HI w Hf) as (_ & A & _). congruence.
Qed.

Notation wsend_iface' := (wsend_iface Iface Errs).
Notation wsend_impl' := (wsend_impl Iface Errs).
Notation wiface' := (wiface Src Iface Errs nodes deps src analyze_iface).
Notation wimpl' := (wimpl Src Iface Errs nodes deps src analyze_impl).

Lemma inv_send_iface : forall st st' w, Inv st -> wsend_iface' st w = Some st' -> Inv st'.
Proof.
  intros st st' w HI H. unfold wsend_iface in H. destruct (ph (wk st w)) as [|todo fin| |] eqn:Hph; try discriminate.
  destruct todo; [|discriminate]. inversion H; subst; clear H.
  destruct (busy_lt st w HI) as [Hw Hnf]; [congruence|].
  pose proof (i_wok st HI w) as [Hm Hs]. rewrite Hph in Hs. simpl in Hs.
  destruct (outbox (wk st w)) eqn:Ho; [|contradiction]. destruct Hs as [Hs1 Hs2].
  eapply (inv_worker_update st _ w _ HI Hw Hnf); try reflexivity; simpl.
  - intros s. unfold w_ids. rewrite Hph, Ho. simpl. rewrite !app_nil_r. auto.
  - intros [A _]; discriminate.
  - auto.
  - auto.
  - split; simpl; auto.
  - intros s Hs0 Hst [A|A]; auto. right. eapply (pending_other st _ w _ s); [reflexivity | intros b Hb; congruence | exact A].
Qed.

Lemma inv_send_impl : forall st st' w, Inv st -> wsend_impl' st w = Some st' -> Inv st'.
Proof.
  intros st st' w HI H. unfold wsend_impl in H. destruct (ph (wk st w)) as [| | |res] eqn:Hph; try discriminate.
  inversion H; subst; clear H.
  destruct (busy_lt st w HI) as [Hw Hnf]; [congruence|].
  pose proof (i_wok st HI w) as [Hm Hs]. rewrite Hph in Hs. simpl in Hs.
  eapply (inv_worker_update st _ w _ HI Hw Hnf); try reflexivity; simpl.
  - intros s. unfold w_ids. rewrite Hph. simpl. rewrite flat_map_app. simpl. rewrite app_nil_r. auto.
  - intros [_ A]. destruct (outbox (wk st w)); discriminate.
  - auto.
  - auto.
  - split; simpl; auto. destruct (outbox (wk st w)) as [|[b|?] [|? ?]]; simpl; try contradiction; auto.
  - intros s Hs0 Hst [A|A]; auto. right. eapply (pending_other st _ w _ s); [reflexivity | intros b Hb; congruence | exact A].
Qed.

Lemma inv_impl : forall st st' w, Inv st -> wimpl' st w = Some st' -> Inv st'.
Proof.
  intros st st' w HI H. unfold wimpl in H. destruct (ph (wk st w)) as [| |batch|] eqn:Hph; try discriminate.
  inversion H; subst; clear H.
  destruct (busy_lt st w HI) as [Hw Hnf]; [congruence|].
  pose proof (i_wok st HI w) as [Hm Hs]. rewrite Hph in Hs. simpl in Hs.
  set (res := map (fun p => (fst p, analyze_impl (src (fst p)) (Some (snd p)) (view_of Iface (mget Iface (mem (wk st w))) (td (fst p))))) batch) in *.
  assert (Hgb : good_b (s_iface (sto st)) (mem (wk st w)) batch).
  { destruct (outbox (wk st w)) as [|[b|?] [|? ?]]; simpl in Hs; try contradiction; tauto. }
  assert (Hgr : good_r res).
  { intros s e Hin. unfold res in Hin. apply in_map_iff in Hin as [[s0 v] [E1 E2]]. simpl in E1. inversion E1; subst.
    destruct (Hgb s v E2) as (G0 & G1 & G2 & G3 & G4). symmetry.
    apply (wimpl_value Src Iface Errs nodes deps src analyze_iface analyze_impl is_fresh iface0 errs0 Hwf s v (mem (wk st w))); auto. }
  assert (Hids : map fst res = map fst batch). { unfold res. rewrite map_map. simpl. auto. }
  set (fe' := fold_left (fun f p => upd f (fst p) (Some (snd p))) res (s_errs (sto st))).
  assert (Hfe : forall s, fe' s = s_errs (sto st) s \/ fe' s = SE s).
  { intros s. destruct (fold_upd_spec Errs res (s_errs (sto st)) s) as [[A B]|[e [A B]]]; [left; auto|right].
    unfold fe'. rewrite B. symmetry; apply (Hgr s e A). }
  assert (Hed : errs_done fe' (map fst batch)).
  { intros s Hin. rewrite <- Hids in Hin. destruct (fold_upd_spec Errs res (s_errs (sto st)) s) as [[A B]|[e [A B]]]; [tauto|].
    unfold fe'. rewrite B. symmetry; apply (Hgr s e A). }
  eapply (inv_worker_update st _ w _ HI Hw Hnf); try reflexivity; simpl.
  - intros s. unfold w_ids. rewrite Hph. simpl. auto.
  - intros [A _]; discriminate.
  - auto.
  - exact Hfe.
  - split; simpl; auto. fold fe'.
    destruct (outbox (wk st w)) as [|[b|?] [|? ?]]; simpl in *; try contradiction; auto.
    destruct Hs as [-> Hs]. auto.
  - fold fe'. intros s Hs0 Hst [A|[w0 [b [P1 P2]]]].
    + left. destruct (Hfe s); congruence.
    + destruct (Nat.eq_dec w0 w).
      * subst. left. rewrite Hph in P1. inversion P1; subst. apply Hed; auto.
      * right. exists w0, b. simpl. rewrite upd_other; auto.
Qed.

Lemma mhas_loaded' : forall (f : nat -> option Iface) l d, In d l -> mhas Iface (map (fun d => (d, f d)) l) d = true.
Proof. exact (mhas_loaded Src Iface Errs deps src analyze_iface analyze_impl is_fresh iface0 errs0). Qed.

Lemma inv_iface : forall st st' w, Inv st -> wiface' st w = Some st' -> Inv st'.
Proof.
  intros st st' w HI H. pose proof H as Hstep. unfold wiface in H.
  destruct (ph (wk st w)) as [|todo fin| |] eqn:Hph; try discriminate.
  destruct todo as [|s todo]; [discriminate|]. inversion H; subst; clear H.
  destruct (busy_lt st w HI) as [Hw Hnf]; [congruence|].
  pose proof (i_wok st HI w) as [Hm Hs]. rewrite Hph in Hs. simpl in Hs.
  destruct (outbox (wk st w)) eqn:Ho; [|contradiction]. destruct Hs as [Hs1 Hs2].
  assert (Hrel : In s (released st)).
  { unfold released. rewrite !in_app_iff. right; right; left. apply (in_inflight st w s Hw). unfold w_ids. rewrite Hph. simpl. auto. }
  assert (Hsn : In s nodes) by (apply (i_rel st HI s Hrel)).
  assert (Hst : stale s) by (apply Hs1; left; auto).
  assert (Hsto : forall d, In d (td s) -> mhas Iface (mem (wk st w)) d = false -> s_iface (sto st) d = SI d).
  { intros d Hd _. apply (i_v1 st HI). apply (released_tdeps_done st HI s Hrel); auto. }
  destruct (wiface_correct Src Iface Errs nodes deps src analyze_iface analyze_impl is_fresh iface0 errs0 Hwf st _ w s todo fin Hph Hsn Hst Hm Hsto Hstep)
    as (C1 & C2 & C3 & C4 & (v & C5 & C6)).
  simpl in C1, C2, C5. rewrite upd_same in C2, C5. simpl in C2, C5.
  set (m1 := mem (wk st w) ++ map (fun d => (d, s_iface (sto st) d)) (to_load Iface nodes deps (mem (wk st w)) s)) in *.
  set (v0 := analyze_iface (src s) (view_of Iface (mget Iface m1) (td s))) in *.
  assert (Hv : v = v0).
  { inversion C5. apply app_inj_tail in H0 as [_ E]. inversion E; auto. }
  subst v.
  assert (Hmono : forall d, mhas Iface (mem (wk st w)) d = true -> mhas Iface (m1 ++ [(s, Some v0)]) d = true).
  { intros d Hd. unfold m1. rewrite !mhas_app, Hd. auto. }
  assert (Hhas : forall d, In d (td s) -> mhas Iface (m1 ++ [(s, Some v0)]) d = true).
  { intros d Hd. rewrite mhas_app. unfold m1. rewrite mhas_app. destruct (mhas Iface (mem (wk st w)) d) eqn:E; auto. simpl.
    rewrite mhas_loaded'; auto. unfold to_load. apply filter_In; split; auto. rewrite E; auto. }
  assert (Hfi : forall x, upd (s_iface (sto st)) s (Some v0) x = s_iface (sto st) x \/ upd (s_iface (sto st)) s (Some v0) x = SI x).
  { intros x. destruct (Nat.eq_dec x s); [subst; right; rewrite upd_same; auto | left; rewrite upd_other; auto]. }
  eapply (inv_worker_update st _ w _ HI Hw Hnf); try reflexivity; simpl.
  - intros x. unfold w_ids. rewrite Hph, Ho. simpl. rewrite !app_nil_r, map_app, !count_occ_app. simpl.
    destruct (Nat.eq_dec s x); lia.
  - intros [A _]; discriminate.
  - exact Hfi.
  - auto.
  - split; simpl; auto. split.
    + intros x Hx. apply Hs1; right; auto.
    + intros x vx Hin. apply in_app_or in Hin as [Hin|[Hin|[]]].
      * destruct (Hs2 x vx Hin) as (G0 & G1 & G2 & G3 & G4). repeat split; auto.
        destruct (Hfi x) as [E|E]; congruence.
      * inversion Hin; subst. repeat split; auto. rewrite upd_same; auto.
  - intros x Hx Hstx [A|A]; auto. right. eapply (pending_other st _ w _ x); [reflexivity | intros b Hb; congruence | exact A].
Qed.

Lemma inv_submit : forall st st' w batch, Inv st -> submit Iface Errs st w batch = Some st' -> Inv st'.
Proof.
  intros st st' w batch HI H. unfold submit in H. destruct batch as [|b0 br] eqn:Hb; [discriminate|]. rewrite <- Hb in *.
  destruct (memb w (free st) && subset batch (queue st) && nodupb batch) eqn:Hc; [|discriminate].
  apply andb_true_iff in Hc as [Hc Hc3]. apply andb_true_iff in Hc as [Hc1 Hc2].
  apply memb_In in Hc1. apply subset_incl in Hc2. apply nodupb_NoDup in Hc3.
  inversion H; subst st'; clear H.
  destruct (i_free st HI w Hc1) as (Hw & Hph & Ho).
  assert (Hcq : forall x, cnt (remove_all batch (queue st)) x + cnt batch x = cnt (queue st) x).
  { intros x. rewrite cnt_remove_all. destruct (memb x batch) eqn:E.
    - apply memb_In in E. assert (A : cnt batch x <= 1) by (apply cnt_nodup; auto).
      assert (B : 1 <= cnt batch x) by (apply cnt_in; auto).
      assert (C : 1 <= cnt (queue st) x) by (apply cnt_in; auto).
      pose proof (i_cnt st HI x) as D. rewrite released_cnt in D. lia.
    - apply memb_false in E. assert (cnt batch x = 0) by (apply count_occ_not_In; auto). lia. }
  set (x' := {| ph := PIface batch []; mem := mem (wk st w); outbox := outbox (wk st w) |}).
  set (st' := {| nrc := nrc st; ready := ready st; queue := remove_all batch (queue st); free := remove_all [w] (free st);
                 done := done st; known := known st; flushed := flushed st; wk := upd (wk st) w x'; sto := sto st |}).
  assert (Hcr : forall x, cnt (released st') x = cnt (released st) x).
  { intros x. rewrite !released_cnt. unfold st' at 1 2 4; simpl. unfold inflight, st'; simpl.
    pose proof (cnt_inflight_upd st w x' x Hw) as P. unfold w_ids in P. rewrite Hph in P. simpl in P. rewrite Ho in P. simpl in P.
    rewrite !app_nil_r in P. pose proof (Hcq x) as Q. unfold inflight in *. lia. }
  destruct (inv_sched_same st st' HI eq_refl eq_refl Hcr) as (A & B & C & D).
  constructor; auto; simpl.
  - intros w' Hw'. apply in_remove_all in Hw' as [F1 F2]. assert (w' <> w) by (intro; subst; apply F2; left; auto).
    rewrite upd_other; auto. apply (i_free st HI); auto.
  - unfold remove_all. apply NoDup_filter. apply (i_freend st HI).
  - intros w' Hw' P1 P2. destruct (Nat.eq_dec w' w).
    + subst. rewrite upd_same in P1. discriminate.
    + rewrite upd_other in * by auto. apply in_remove_all. split; [apply (i_busy st HI); auto | intros [E|[]]; congruence].
  - intros w' Hw'. rewrite upd_other by lia. apply (i_out st HI); auto.
  - intros w'. destruct (Nat.eq_dec w' w).
    + subst. rewrite upd_same. destruct (i_wok st HI w) as [M _]. split; simpl; auto. rewrite Ho. split.
      * intros s Hs. apply (i_queue st HI). apply Hc2; auto.
      * intros s v [].
    + rewrite upd_other by auto. apply (i_wok st HI).
  - intros s Hs. apply in_remove_all in Hs as [Hs _]. apply (i_queue st HI); auto.
  - apply (i_v1 st HI).
  - apply (i_v6 st HI).
  - apply (i_v7 st HI).
  - apply (i_v4 st HI).
  - intros s Hs Hst. destruct (i_v5 st HI s Hs Hst) as [V|V]; auto. right.
    eapply (pending_other st st' w x' s); [reflexivity | intros b Hb0; congruence | exact V].
  - apply (i_fl st HI).
Qed.

(* one round of notifications (interface reply received, or fresh SCCs classified) *)
Lemma sched_round : forall st st' ds rdy0 n' rdy', Inv st -> NoDup ds -> (forall d, In d ds -> ~ In d (done st)) ->
  mark_done nodes deps ds (nrc st) rdy0 = (n', rdy') -> nrc st' = n' -> done st' = done st ++ ds ->
  (forall s, cnt (released st') s + cnt rdy0 s = cnt (released st) s + cnt rdy' s) ->
  (forall s, cnt (released st') s <= 1)
  /\ (forall s, In s (released st') -> In s nodes /\ incl (deps s) (done st'))
  /\ J1 nodes deps (done st') (nrc st')
  /\ (forall s, In s nodes -> ~ In s (released st') -> ~ incl (deps s) (done st')).
Proof.
  intros st st' ds rdy0 n' rdy' HI Hnd Hds Hmd E1 E2 Hc.
  pose proof (mark_done_spec nodes deps nodes_nodup deps_nodup ds (done st) (nrc st) rdy0 Hnd Hds (i_nrc st HI)) as Sp.
  rewrite Hmd in Sp. destruct Sp as [J (new & R & Nn & C)]. subst rdy'.
  assert (Hc' : forall s, cnt (released st') s = cnt (released st) s + cnt new s).
  { intros s. specialize (Hc s). rewrite count_occ_app in Hc. lia. }
  assert (Hnew : forall s, In s new -> ~ In s (released st)).
  { intros s Hs Hr. apply C in Hs as (_ & _ & Hs). apply Hs. apply (i_rel st HI s Hr). }
  assert (Hin : forall s, In s (released st') <-> In s (released st) \/ In s new).
  { intros s. rewrite !cnt_in, Hc'. lia. }
  rewrite E1, E2. repeat split.
  - intros s. rewrite Hc'. destruct (in_dec Nat.eq_dec s new) as [Hs|Hs].
    + assert (cnt new s <= 1) by (apply cnt_nodup; auto).
      assert (cnt (released st) s = 0) by (apply count_occ_not_In; auto). lia.
    + assert (cnt new s = 0) by (apply count_occ_not_In; auto). pose proof (i_cnt st HI s). lia.
  - apply Hin in H as [H|H]; [apply (i_rel st HI s H) | apply C in H; tauto].
  - apply Hin in H as [H|H].
    + intros d Hd. apply in_or_app; left. apply (i_rel st HI s H); auto.
    + apply C in H; tauto.
  - exact J.
  - intros s Hs Hn Hi. apply Hn. apply Hin. right. apply C. repeat split; auto.
    apply (i_unrel st HI s Hs). intro Hr. apply Hn. apply Hin; auto.
Qed.

Lemma recv_iface_shape : forall fi fe (x : W) res rest, wok fi fe x -> outbox x = MIface res :: rest ->
  good_b fi (mem x) res
  /\ (forall s, cnt (w_ids x) s = cnt (map fst res) s)
  /\ ~ (ph x = PIdle /\ rest = [])
  /\ wshape fi fe (mem x) (ph x) rest
  /\ (ph x = PImpl res \/ errs_done fe (map fst res))
  /\ (forall s, cnt (ph_ids (ph x) ++ flat_map msg_ids rest) s = 0).
Proof.
  intros fi fe x res rest [Hm Hs] Ho. unfold w_ids. rewrite Ho in *.
  destruct (ph x) eqn:Hph; simpl in Hs; try contradiction.
  - destruct rest as [|[?|r] [|? ?]]; try contradiction. destruct Hs as (A & B & C).
    split; [auto|]. split; [intros; simpl; rewrite ?app_nil_r; auto|]. split; [intros [E1 E2]; discriminate|].
    split; [simpl; auto|]. split; [right; auto|intros; simpl; auto].
  - destruct rest; try contradiction. destruct Hs as [-> A].
    split; [auto|]. split; [intros; simpl; rewrite ?app_nil_r; auto|]. split; [intros [E1 E2]; discriminate|].
    split; [simpl; auto|]. split; [left; auto|intros; simpl; auto].
  - destruct rest; try contradiction. destruct Hs as (A & B & C).
    split; [auto|]. split; [intros; simpl; rewrite ?app_nil_r; auto|]. split; [intros [E1 E2]; discriminate|].
    split; [simpl; auto|]. split; [right; auto|intros; simpl; auto].
Qed.

Lemma inv_recv : forall st st' w, Inv st -> recv Iface Errs nodes deps st w = Some st' -> Inv st'.
Proof.
  intros st st' w HI H. unfold recv in H. destruct (outbox (wk st w)) as [|m rest] eqn:Ho; [discriminate|].
  assert (Hw : w < N). { destruct (Nat.lt_ge_cases w N); auto. destruct (i_out st HI w H0); congruence. }
  assert (Hnf : ~ In w (free st)). { intro Hf. destruct (i_free st HI w Hf) as (_ & _ & A). congruence. }
  pose proof (i_wok st HI w) as Hwok.
  destruct m as [res|res].
  - (* interface reply *)
    destruct (recv_iface_shape _ _ _ res rest Hwok Ho) as (Hgb & Hids & Hbusy & Hsh & Herr & Hrest).
    set (ids := map fst res) in *.
    destruct (mark_done nodes deps ids (nrc st) (ready st)) as [n' rdy'] eqn:Hmd. inversion H; subst st'; clear H.
    set (x' := {| ph := ph (wk st w); mem := mem (wk st w); outbox := rest |}).
    set (kn' := fold_left (fun f p => upd f (fst p) (Some (snd p))) res (known st)).
    set (st' := {| nrc := n'; ready := rdy'; queue := queue st; free := free st; done := done st ++ ids; known := kn';
                   flushed := flushed st; wk := upd (wk st) w x'; sto := sto st |}).
    assert (Hidin : forall s, In s ids -> In s (inflight st)).
    { intros s Hs. apply (in_inflight st w s Hw). apply cnt_in. rewrite Hids. apply cnt_in; auto. }
    assert (Hidc : forall s, cnt ids s <= cnt (inflight st) s).
    { intros s. pose proof (cnt_inflight_upd st w x' s Hw) as P. rewrite Hids in P. unfold w_ids in P; simpl in P. rewrite Hrest in P. lia. }
    assert (Hnd : NoDup ids).
    { apply cnt_nodup. intros s. pose proof (i_cnt st HI s) as P. rewrite released_cnt in P. specialize (Hidc s). lia. }
    assert (Hnotdone : forall d, In d ids -> ~ In d (done st)).
    { intros d Hd Hdn. apply cnt_in in Hd. apply cnt_in in Hdn. pose proof (i_cnt st HI d) as P. rewrite released_cnt in P.
      specialize (Hidc d). lia. }
    assert (Hcr : forall s, cnt (released st') s + cnt (ready st) s = cnt (released st) s + cnt rdy' s).
    { intros s. rewrite !released_cnt. unfold st' at 1 2 4; simpl. unfold inflight at 1; simpl. rewrite count_occ_app.
      pose proof (cnt_inflight_upd st w x' s Hw) as P. rewrite Hids in P. unfold w_ids in P; simpl in P. rewrite Hrest in P. lia. }
    destruct (sched_round st st' ids (ready st) n' rdy' HI Hnd Hnotdone Hmd eq_refl eq_refl Hcr) as (A & B & C & D).
    assert (Hkn : forall s, (~ In s ids /\ kn' s = known st s) \/ (exists e, In (s, e) res /\ kn' s = Some e)).
    { intros s. apply (fold_upd_spec Iface res (known st) s). }
    constructor; auto; simpl.
    + intros w' Hw'. assert (w' <> w) by (intro; subst; tauto). rewrite upd_other; auto. apply (i_free st HI); auto.
    + apply (i_freend st HI).
    + intros w' Hw' P1 P2. destruct (Nat.eq_dec w' w).
      * subst. rewrite upd_same in *. simpl in *. tauto.
      * rewrite upd_other in * by auto. apply (i_busy st HI); auto.
    + intros w' Hw'. rewrite upd_other by lia. apply (i_out st HI); auto.
    + intros w'. destruct (Nat.eq_dec w' w).
      * subst. rewrite upd_same. destruct Hwok as [M _]. split; simpl; auto.
      * rewrite upd_other by auto. apply (i_wok st HI).
    + apply (i_queue st HI).
    + intros s Hs. apply in_app_or in Hs as [Hs|Hs].
      * destruct (i_v1 st HI s Hs) as [V1 V2]. split; auto.
        destruct (Hkn s) as [[K1 K2]|[e [K1 K2]]]; [congruence|]. rewrite K2. symmetry. apply (Hgb s e K1).
      * unfold ids in Hs. apply in_map_iff in Hs as [[s0 v] [E1 E2]]. simpl in E1; subst s0.
        destruct (Hgb s v E2) as (G0 & G1 & G2 & G3 & G4). split; [congruence|].
        destruct (Hkn s) as [[K1 K2]|[e [K1 K2]]].
        -- exfalso. apply K1. unfold ids. apply in_map_iff. exists (s, v); auto.
        -- rewrite K2. symmetry. apply (Hgb s e K1).
    + apply (i_v6 st HI).
    + intros s Hs. destruct (Hkn s) as [[K1 K2]|[e [K1 K2]]].
      * rewrite K2. apply (i_v7 st HI). intro; apply Hs; apply in_or_app; auto.
      * exfalso. apply Hs. apply in_or_app; right. unfold ids. apply in_map_iff. exists (s, e); auto.
    + apply (i_v4 st HI).
    + intros s Hs Hst. apply in_app_or in Hs as [Hs|Hs].
      * destruct (i_v5 st HI s Hs Hst) as [V|V]; auto. right.
        eapply (pending_other st st' w x' s); [reflexivity | intros b Hb0; exact Hb0 | exact V].
      * destruct Herr as [E|E]; [|left; apply E; auto]. right. exists w, res. simpl. rewrite upd_same. simpl. auto.
    + apply (i_fl st HI).
  - (* implementation reply *)
    inversion H; subst st'; clear H.
    destruct Hwok as [Hm Hs]. rewrite Ho in Hs.
    assert (Hshape : ph (wk st w) = PIdle /\ rest = [] /\ good_r res).
    { destruct (ph (wk st w)); simpl in Hs; try contradiction. destruct rest; try contradiction. auto. }
    destruct Hshape as (Hph & -> & Hgr).
    set (x' := {| ph := ph (wk st w); mem := mem (wk st w); outbox := [] |}).
    set (st' := {| nrc := nrc st; ready := ready st; queue := queue st; free := free st ++ [w]; done := done st;
                   known := known st; flushed := flushed st ++ res; wk := upd (wk st) w x'; sto := sto st |}).
    assert (Hcr : forall s, cnt (released st') s = cnt (released st) s).
    { intros s. rewrite !released_cnt. unfold st' at 1 2 4; simpl. unfold inflight at 1; simpl.
      pose proof (cnt_inflight_upd st w x' s Hw) as P. unfold w_ids in P. rewrite Ho, Hph in P. simpl in P. rewrite Hph in P. simpl in P. lia. }
    destruct (inv_sched_same st st' HI eq_refl eq_refl Hcr) as (A & B & C & D).
    constructor; auto; simpl.
    + intros w' Hw'. apply in_app_or in Hw' as [Hw'|[<-|[]]].
      * assert (w' <> w) by (intro; subst; tauto). rewrite upd_other; auto. apply (i_free st HI); auto.
      * rewrite upd_same. simpl. auto.
    + apply NoDup_app_intro; [apply (i_freend st HI) | constructor; [intros []|constructor] | intros y Hy [<-|[]]; tauto].
    + intros w' Hw' P1 P2. apply in_or_app. destruct (Nat.eq_dec w' w); [right; left; auto|left].
      rewrite upd_other in * by auto. apply (i_busy st HI); auto.
    + intros w' Hw'. rewrite upd_other by lia. apply (i_out st HI); auto.
    + intros w'. destruct (Nat.eq_dec w' w).
      * subst. rewrite upd_same. split; simpl; auto. rewrite Hph. simpl. auto.
      * rewrite upd_other by auto. apply (i_wok st HI).
    + apply (i_queue st HI).
    + apply (i_v1 st HI).
    + apply (i_v6 st HI).
    + apply (i_v7 st HI).
    + apply (i_v4 st HI).
    + intros s Hs0 Hst. destruct (i_v5 st HI s Hs0 Hst) as [V|V]; auto. right.
      eapply (pending_other st st' w x' s); [reflexivity | intros b Hb0; exact Hb0 | exact V].
    + intros s e Hin. apply in_app_or in Hin as [Hin|Hin]; [apply (i_fl st HI); auto | apply Hgr; auto].
Qed.

Lemma inv_classify : forall st st', Inv st -> classify Iface Errs nodes deps is_fresh st = Some st' -> Inv st'.
Proof.
  intros st st' HI H. unfold classify in H. destruct (ready st) as [|a r0] eqn:Hr; [discriminate|]. rewrite <- Hr in H.
  set (f := fun s => is_fresh s (view_of Iface (known st) (deps s))) in *.
  destruct (mark_done nodes deps (filter f (ready st)) (nrc st) []) as [n' rdy'] eqn:Hmd. inversion H; subst st'; clear H.
  set (fresh := filter f (ready st)) in *. set (stl := filter (fun s => negb (f s)) (ready st)) in *.
  set (st' := {| nrc := n'; ready := rdy'; queue := queue st ++ stl; free := free st; done := done st ++ fresh;
                 known := known st; flushed := flushed st; wk := wk st; sto := sto st |}).
  assert (Hrel : forall s, In s (ready st) -> In s (released st)).
  { intros s Hs. unfold released. apply in_or_app; auto. }
  assert (Hf : forall s, In s (ready st) -> f s = is_fresh s (view_of Iface SI (deps s))).
  { intros s Hs. unfold f.
    apply (classify_agrees Src Iface Errs nodes deps src analyze_iface analyze_impl is_fresh iface0 errs0 (known st) s).
    intros d Hd. apply (i_v1 st HI). apply (i_rel st HI s (Hrel s Hs)); auto. }
  assert (Hcp : forall s, cnt fresh s + cnt stl s = cnt (ready st) s) by (intros; apply cnt_filter_part).
  assert (Hnd : NoDup fresh).
  { apply cnt_nodup. intros s. pose proof (i_cnt st HI s) as P. rewrite released_cnt in P. specialize (Hcp s). lia. }
  assert (Hnotdone : forall d, In d fresh -> ~ In d (done st)).
  { intros d Hd Hdn. apply cnt_in in Hd. apply cnt_in in Hdn. pose proof (i_cnt st HI d) as P. rewrite released_cnt in P.
    specialize (Hcp d). lia. }
  assert (Hcr : forall s, cnt (released st') s + cnt [] s = cnt (released st) s + cnt rdy' s).
  { intros s. rewrite !released_cnt. unfold st' at 1 2 4; simpl. unfold inflight; simpl. rewrite !count_occ_app.
    specialize (Hcp s). lia. }
  destruct (sched_round st st' fresh [] n' rdy' HI Hnd Hnotdone Hmd eq_refl eq_refl Hcr) as (A & B & C & D).
  constructor; auto; simpl.
  - apply (i_free st HI).
  - apply (i_freend st HI).
  - apply (i_busy st HI).
  - apply (i_out st HI).
  - apply (i_wok st HI).
  - intros s Hs. apply in_app_or in Hs as [Hs|Hs]; [apply (i_queue st HI); auto|].
    unfold stl in Hs. apply filter_In in Hs as [H1 H2]. apply negb_true_iff in H2. unfold stale. rewrite <- Hf; auto.
  - intros s Hs. apply in_app_or in Hs as [Hs|Hs]; [apply (i_v1 st HI); auto|].
    pose proof (Hnotdone s Hs) as Hnd'. unfold fresh in Hs. apply filter_In in Hs as [H1 H2].
    assert (Hns : ~ stale s). { unfold stale. rewrite <- Hf; auto. congruence. }
    destruct (fresh_spec s (proj1 (i_rel st HI s (Hrel s H1))) Hns) as [F1 F2].
    split.
    + destruct (i_v6 st HI s); congruence.
    + rewrite (i_v7 st HI s Hnd'). auto.
  - apply (i_v6 st HI).
  - intros s Hs. apply (i_v7 st HI). intro; apply Hs; apply in_or_app; auto.
  - apply (i_v4 st HI).
  - intros s Hs Hst. apply in_app_or in Hs as [Hs|Hs].
    + destruct (i_v5 st HI s Hs Hst) as [V|V]; auto.
    + exfalso. unfold fresh in Hs. apply filter_In in Hs as [H1 H2]. unfold stale in Hst. rewrite <- Hf in Hst; auto. congruence.
  - apply (i_fl st HI).
Qed.

Notation step' := (step Src Iface Errs nodes deps src analyze_iface analyze_impl is_fresh).

Theorem inv_step : forall st st' e, Inv st -> step' st e = Some st' -> Inv st'.
Proof.
  intros st st' e HI H. destruct e; simpl in H.
  - eapply inv_classify; eauto.
  - eapply inv_submit; eauto.
  - eapply inv_iface; eauto.
  - eapply inv_send_iface; eauto.
  - eapply inv_impl; eauto.
  - eapply inv_send_impl; eauto.
  - eapply inv_recv; eauto.
Qed.

Notation init' := (init Iface Errs nodes deps iface0 errs0).
Notation run' := (run Src Iface Errs nodes deps src analyze_iface analyze_impl is_fresh).
Notation par := (run_parallel Src Iface Errs nodes deps src analyze_iface analyze_impl is_fresh iface0 errs0).

Lemma inflight_on_idle : forall l, inflight_on l (fun _ : nat => {| ph := PIdle; mem := []; outbox := [] |} : W) = [].
Proof. induction l; simpl; auto. Qed.
Lemma undone_nil : forall s, undone deps [] s = length (deps s).
Proof. intros. unfold undone. induction (deps s); simpl; auto. Qed.

Lemma inv_init : Inv (init' N).
Proof.
  assert (Hrel : released (init' N) = filter (fun s => match deps s with [] => true | _ => false end) nodes).
  { unfold released, inflight. simpl. rewrite inflight_on_idle. simpl. rewrite app_nil_r; auto. }
  constructor; simpl.
  - rewrite Hrel. apply cnt_nodup. apply NoDup_filter. apply nodes_nodup.
  - rewrite Hrel. intros s Hs. apply filter_In in Hs as [H1 H2]. split; auto. destruct (deps s); [intros x []|discriminate].
  - intros s Hs. rewrite undone_nil; auto.
  - rewrite Hrel. intros s Hs Hn Hi. apply Hn. apply filter_In. split; auto. destruct (deps s) as [|d l]; auto. destruct (Hi d); left; auto.
  - intros w Hw. apply in_seq in Hw. repeat split; auto; lia.
  - apply seq_NoDup.
  - intros w Hw _ _. apply in_seq; lia.
  - auto.
  - intros w. split; simpl; auto. intros d v [].
  - intros s [].
  - intros s [].
  - auto.
  - auto.
  - auto.
  - intros s [].
  - intros s e [].
Qed.

Lemma inv_run : forall sched st st', Inv st -> run' st sched = Some st' -> Inv st'.
Proof.
  induction sched; simpl; intros st st' HI H.
  - inversion H; subst; auto.
  - destruct (step' st a) eqn:E; [|discriminate]. eapply IHsched; [|eauto]. eapply inv_step; eauto.
Qed.

Theorem inv_reachable : forall sched st, par N sched = Some st -> Inv st.
Proof. intros sched st H. eapply inv_run; [apply inv_init | exact H]. Qed.

(* ---- consequences *)
Lemma finished_facts : forall st, finished Iface Errs nodes N st = true ->
  ready st = [] /\ queue st = [] /\ (forall w, w < N -> ph (wk st w) = PIdle /\ outbox (wk st w) = [])
  /\ (forall s, In s nodes -> In s (done st)) /\ length (free st) = N.
Proof.
  intros st H. unfold finished in H. destruct (ready st); [|discriminate]. destruct (queue st); [|discriminate].
  apply andb_true_iff in H as [H H3]. apply andb_true_iff in H as [H1 H2].
  rewrite forallb_forall in H1, H2. apply Nat.eqb_eq in H3. repeat split; auto.
  - assert (In w (seq 0 N)) by (apply in_seq; lia). specialize (H1 w H0). unfold idle in H1.
    destruct (ph (wk st w)); try discriminate. auto.
  - assert (In w (seq 0 N)) by (apply in_seq; lia). specialize (H1 w H0). unfold idle in H1.
    destruct (ph (wk st w)); try discriminate. destruct (outbox (wk st w)); auto; discriminate.
  - intros s Hs. apply memb_In. apply H2; auto.
Qed.

Theorem par_eq_seq : forall sched st, par N sched = Some st -> finished Iface Errs nodes N st = true ->
  forall s, s_iface (sto st) s = SI s /\ s_errs (sto st) s = SE s.
Proof.
  intros sched st Hrun Hfin s. pose proof (inv_reachable sched st Hrun) as HI.
  destruct (finished_facts st Hfin) as (F1 & F2 & F3 & F4 & F5).
  destruct (in_dec Nat.eq_dec s nodes) as [Hs|Hs].
  - pose proof (F4 s Hs) as Hd. split; [apply (i_v1 st HI s Hd)|].
    destruct (is_fresh s (view_of Iface SI (deps s))) eqn:Efr.
    + assert (Hns : ~ stale s) by (unfold stale; congruence). destruct (fresh_spec s Hs Hns) as [_ E].
      destruct (i_v4 st HI s); congruence.
    + destruct (i_v5 st HI s Hd Efr) as [V|[w [b [P1 P2]]]]; auto. exfalso.
      destruct (Nat.lt_ge_cases w N) as [L|L]; [destruct (F3 w L) | destruct (i_out st HI w L)]; congruence.
  - destruct (seq_untouched Src Iface Errs nodes deps src analyze_iface analyze_impl is_fresh iface0 errs0 s Hs) as [U1 U2].
    split; [destruct (i_v6 st HI s) | destruct (i_v4 st HI s)]; congruence.
Qed.

Lemma ifi_in_inflight : forall st s, In s (in_flight_iface Iface Errs st N) -> In s (inflight st).
Proof.
  intros st s H. unfold in_flight_iface in H. apply in_flat_map in H as [w [A B]]. apply in_seq in A.
  apply (in_inflight st w s); [lia|]. unfold w_ids. destruct (ph (wk st w)); try contradiction. simpl.
  apply in_or_app; left. apply in_or_app; left; auto.
Qed.

Theorem submit_deps_done : forall sched st, par N sched = Some st ->
  forall s, In s (ready st ++ queue st ++ in_flight_iface Iface Errs st N) -> incl (deps s) (done st).
Proof.
  intros sched st Hrun s Hs. pose proof (inv_reachable sched st Hrun) as HI. apply (i_rel st HI s).
  unfold released. rewrite !in_app_iff in *. destruct Hs as [H|[H|H]]; auto. right; right; left. apply ifi_in_inflight; auto.
Qed.

Theorem reads_committed : forall sched st w s todo fin, par N sched = Some st -> ph (wk st w) = PIface (s :: todo) fin ->
  forall d, In d (to_load Iface nodes deps (mem (wk st w)) s) -> In d (done st) /\ s_iface (sto st) d = SI d.
Proof.
  intros sched st w s todo fin Hrun Hph d Hd. pose proof (inv_reachable sched st Hrun) as HI.
  destruct (busy_lt st w HI) as [Hw _]; [congruence|].
  assert (Hrel : In s (released st)).
  { unfold released. rewrite !in_app_iff. right; right; left. apply (in_inflight st w s Hw). unfold w_ids. rewrite Hph. simpl. auto. }
  unfold to_load in Hd. apply filter_In in Hd as [Hd _].
  assert (In d (done st)) by (apply (released_tdeps_done st HI s Hrel); auto). split; auto. apply (i_v1 st HI); auto.
Qed.

Lemma cnt_flat_map_le : forall (f g : nat -> list nat) l s, (forall w, cnt (f w) s <= cnt (g w) s) -> cnt (flat_map f l) s <= cnt (flat_map g l) s.
Proof. induction l; simpl; intros; auto. rewrite !count_occ_app. specialize (IHl s H). specialize (H a). lia. Qed.

Theorem processed_once : forall sched st, par N sched = Some st ->
  NoDup (ready st ++ queue st ++ in_flight_iface Iface Errs st N ++ done st)
  /\ (finished Iface Errs nodes N st = true -> forall s, In s nodes -> In s (done st)).
Proof.
  intros sched st Hrun. pose proof (inv_reachable sched st Hrun) as HI. split.
  - apply cnt_nodup. intros s. pose proof (i_cnt st HI s) as P. rewrite released_cnt in P. rewrite !count_occ_app.
    assert (cnt (in_flight_iface Iface Errs st N) s <= cnt (inflight st) s).
    { unfold in_flight_iface, inflight, inflight_on. apply cnt_flat_map_le. intros w. unfold w_ids.
      destruct (ph (wk st w)); simpl; try lia. rewrite !count_occ_app. lia. }
    lia.
  - intros Hfin. apply (finished_facts st Hfin).
Qed.

(* ---- progress: a reachable state that is not finished can always take a step (no deadlock) *)
Lemma all_done : forall (D : list nat) l seen, wf_from deps seen l -> (forall x, In x seen -> In x D) ->
  (forall s, In s l -> ~ In s D -> ~ incl (deps s) D) -> forall s, In s l -> In s D.
Proof.
  induction l; simpl; intros seen Hw Hseen Hun s Hs; [tauto|]. destruct Hw as (H1 & H2 & H3 & H4).
  assert (Ha : In a D).
  { destruct (in_dec Nat.eq_dec a D) as [|Hn]; auto. exfalso. apply (Hun a (or_introl eq_refl) Hn).
    intros d Hd. apply Hseen. apply H2; auto. }
  destruct Hs as [<-|Hs]; auto. apply (IHl (a :: seen)); auto. intros x [<-|Hx]; auto.
Qed.

Lemma inflight_on_nil : forall l (wkf : nat -> W), (forall w, In w l -> w_ids (wkf w) = []) -> inflight_on l wkf = [].
Proof. induction l; simpl; intros; auto. rewrite H by auto. rewrite IHl; auto. Qed.

Theorem progress : 1 <= N -> forall st, Inv st -> finished Iface Errs nodes N st = false -> exists e, step' st e <> None.
Proof.
  intros HN st HI Hfin.
  destruct (ready st) as [|r0 rr] eqn:Hr.
  2:{ exists EClassify. simpl. unfold classify. rewrite Hr. destruct (mark_done _ _ _ _ _); discriminate. }
  destruct (existsb (fun w => negb (idle Iface Errs (wk st w))) (seq 0 N)) eqn:Ex.
  - apply existsb_exists in Ex as [w [Hw Hi]]. apply in_seq in Hw. apply negb_true_iff in Hi. unfold idle in Hi.
    pose proof (i_wok st HI w) as [_ Hs].
    destruct (ph (wk st w)) as [|todo fin|b|r] eqn:Hph.
    + destruct (outbox (wk st w)) as [|m rest] eqn:Ho; [discriminate|].
      exists (ERecv w). simpl. unfold recv. rewrite Ho. destruct m; [destruct (mark_done _ _ _ _ _)|]; discriminate.
    + destruct todo as [|s todo].
      * exists (ESendIface w). simpl. unfold wsend_iface. rewrite Hph. discriminate.
      * exists (EIface w). simpl. unfold wiface. rewrite Hph. discriminate.
    + exists (EImpl w). simpl. unfold wimpl. rewrite Hph. discriminate.
    + exists (ESendImpl w). simpl. unfold wsend_impl. rewrite Hph. discriminate.
  - assert (Hidle : forall w, w < N -> ph (wk st w) = PIdle /\ outbox (wk st w) = []).
    { intros w Hw. assert (Hin : In w (seq 0 N)) by (apply in_seq; lia).
      destruct (idle Iface Errs (wk st w)) eqn:E.
      - unfold idle in E. destruct (ph (wk st w)); try discriminate. destruct (outbox (wk st w)); try discriminate. auto.
      - assert (existsb (fun w => negb (idle Iface Errs (wk st w))) (seq 0 N) = true).
        { apply existsb_exists. exists w. rewrite E. auto. } congruence. }
    destruct (queue st) as [|q qr] eqn:Hq.
    + exfalso. unfold finished in Hfin. rewrite Hr, Hq in Hfin.
      assert (E1 : forallb (fun w => idle Iface Errs (wk st w)) (seq 0 N) = true).
      { apply forallb_forall. intros w Hw. apply in_seq in Hw. destruct (Hidle w) as [A B]; [lia|]. unfold idle. rewrite A, B. auto. }
      assert (Hinf : inflight st = []).
      { unfold inflight. apply inflight_on_nil. intros w Hw. apply in_seq in Hw. destruct (Hidle w) as [A B]; [lia|].
        unfold w_ids. rewrite A, B. auto. }
      assert (Hrel : released st = done st). { unfold released. rewrite Hr, Hq, Hinf. auto. }
      assert (E2 : forallb (fun s => memb s (done st)) nodes = true).
      { apply forallb_forall. intros s Hs. apply memb_In. apply (all_done (done st) nodes [] Hwf); auto.
        - intros x [].
        - intros s0 Hs0 Hn. apply (i_unrel st HI s0 Hs0). rewrite Hrel; auto. }
      assert (E3 : Nat.eqb (length (free st)) N = true).
      { apply Nat.eqb_eq. apply Nat.le_antisymm.
        - rewrite <- (seq_length N 0). apply NoDup_incl_length; [apply (i_freend st HI)|].
          intros w Hw. apply in_seq. destruct (i_free st HI w Hw). lia.
        - rewrite <- (seq_length N 0) at 1. apply NoDup_incl_length; [apply seq_NoDup|].
          intros w Hw. apply in_seq in Hw. destruct (Hidle w) as [A B]; [lia|]. apply (i_busy st HI); auto; lia. }
      rewrite E1, E2, E3 in Hfin. discriminate.
    + exists (ESubmit 0 [q]). simpl. unfold submit.
      assert (F : memb 0 (free st) = true). { apply memb_In. destruct (Hidle 0) as [A B]; [lia|]. apply (i_busy st HI); auto. }
      rewrite F, Hq. simpl. rewrite Nat.eqb_refl. simpl. discriminate.
Qed.

Theorem no_deadlock_run : 1 <= N -> forall sched st, par N sched = Some st -> finished Iface Errs nodes N st = false ->
  exists e, step' st e <> None.
Proof. intros HN sched st Hrun Hfin. apply progress; auto. eapply inv_reachable; eauto. Qed.

(* the view a worker analyses its next SCC with is the sequential view (used for blockers) *)
Lemma wview_sequential : forall st w s todo fin, Inv st -> ph (wk st w) = PIface (s :: todo) fin ->
  wview Iface Errs nodes deps st w s = view_of Iface SI (td s) /\ In s nodes /\ stale s.
Proof.
  intros st w s todo fin HI Hph.
  destruct (busy_lt st w HI) as [Hw Hnf]; [congruence|].
  pose proof (i_wok st HI w) as [Hm Hs]. rewrite Hph in Hs. simpl in Hs.
  destruct (outbox (wk st w)) eqn:Ho; [|contradiction]. destruct Hs as [Hs1 Hs2].
  assert (Hrel : In s (released st)).
  { unfold released. rewrite !in_app_iff. right; right; left. apply (in_inflight st w s Hw). unfold w_ids. rewrite Hph. simpl. auto. }
  split; [|split; [apply (i_rel st HI s Hrel) | apply Hs1; left; auto]].
  unfold wview. apply view_of_ext. intros d Hd. apply mget_correct.
  - intros d0 v Hin. apply in_app_or in Hin as [Hin|Hin]; [apply Hm; auto|].
    apply in_map_iff in Hin as [x [Hx1 Hx2]]. inversion Hx1; subst. unfold to_load in Hx2. apply filter_In in Hx2 as [Hx2 _].
    apply (i_v1 st HI). apply (released_tdeps_done st HI s Hrel); auto.
  - rewrite mhas_app. destruct (mhas Iface (mem (wk st w)) d) eqn:E; auto. simpl.
    apply mhas_loaded'. unfold to_load. apply filter_In; split; auto. rewrite E; auto.
Qed.

End Inv.
