(* C07 — model of mypy's parallel build scheduler (mypy/build.py process_graph parallel branch,
   BuildManager.submit_to_workers / get_scc_batch / wait_for_done_workers, mypy/build_worker/worker.py serve).
   Executable definitions only.

   SCC DAG       : `nodes` (the topologically sorted list `sorted_components` returns, dependencies first) and
                   `deps` (SCC.deps, direct dependencies).  Any DAG.
   coordinator   : not_ready_count, ready list, queue of stale SCCs, free workers, done (= interface-done or fresh),
                   `known` = the interface hashes the coordinator has learnt from replies (graph[id].interface_hash).
   worker w      : phase (idle / interface phase of a batch / implementation phase / reply pending), private memory
                   `mem` (SCCs it analysed itself or loaded from the cache: manager.done_sccs + graph),
                   outbox (replies sent, not yet received by the coordinator; FIFO).
   shared store  : committed interface records (data + meta) and committed error records (meta_ex), per SCC.
   nondeterminism: the schedule, a list of events; which worker is popped from free_workers, which SCCs of the
                   queue form the batch, which worker makes progress, whose reply is received next.
   Un-modelled   : the analysis itself = Section functions of (sources of the SCC, interfaces of its transitive
                   dependencies as read from the worker's memory / the shared store). *)
From Coq Require Import List Arith Bool PeanoNat.
Import ListNotations.

Section Model.

Variables Src Iface Errs : Type.

Variable nodes : list nat.             (* SCC ids, dependencies first (manager.top_order) *)
Variable deps : nat -> list nat.       (* SCC.deps *)
Variable src : nat -> Src.             (* sources of the modules of an SCC *)

(* view = (dependency, interface as read) in top_order *)
Definition view := list (nat * option Iface).

Variable analyze_iface : Src -> view -> Iface.          (* process_stale_scc_interface *)
Variable analyze_impl : Src -> option Iface -> view -> Errs.   (* process_stale_scc_implementation *)
Variable is_fresh : nat -> view -> bool.                (* find_stale_sccs, on the coordinator's view of direct deps *)

(* the cache before the run *)
Variable iface0 : nat -> option Iface.
Variable errs0 : nat -> option Errs.

Definition memb (x : nat) (l : list nat) : bool := existsb (Nat.eqb x) l.
Definition upd {A} (f : nat -> A) (k : nat) (v : A) : nat -> A := fun x => if Nat.eqb x k then v else f x.
Definition remove_all (xs l : list nat) : list nat := filter (fun x => negb (memb x xs)) l.
Definition subset (a b : list nat) : bool := forallb (fun x => memb x b) a.
Fixpoint nodupb (l : list nat) : bool :=
  match l with [] => true | x :: r => negb (memb x r) && nodupb r end.

(* transitive dependencies, in top_order (maybe_load_deps: closure over scc.deps; fresh_sccs_to_load is sorted by
   manager.top_order).  Walk top_order from the dependants' end, collecting deps of everything needed. *)
Fixpoint need_from (rev_order : list nat) (need : list nat) : list nat :=
  match rev_order with
  | [] => need
  | n :: r => need_from r (if memb n need then deps n ++ need else need)
  end.
Definition tdeps (s : nat) : list nat :=
  let need := need_from (rev nodes) (deps s) in filter (fun n => memb n need) nodes.

Definition dependents (d : nat) : list nat := filter (fun s => memb d (deps s)) nodes.

(* ---------------------------------------------------------------- sequential build (process_graph, no workers) *)

Record store := { s_iface : nat -> option Iface; s_errs : nat -> option Errs }.

Definition view_of (f : nat -> option Iface) (l : list nat) : view := map (fun d => (d, f d)) l.

Definition seq_step (st : store) (s : nat) : store :=
  if is_fresh s (view_of (s_iface st) (deps s)) then st
  else
    let v := analyze_iface (src s) (view_of (s_iface st) (tdeps s)) in
    let e := analyze_impl (src s) (Some v) (view_of (s_iface st) (tdeps s)) in
    {| s_iface := upd (s_iface st) s (Some v); s_errs := upd (s_errs st) s (Some e) |}.

Definition run_sequential : store := fold_left seq_step nodes {| s_iface := iface0; s_errs := errs0 |}.

(* ---------------------------------------------------------------- parallel build *)

Inductive msg :=
| MIface (res : list (nat * Iface))      (* SccResponseMessage(is_interface=True): interface hashes of the batch *)
| MImpl (res : list (nat * Errs)).       (* SccResponseMessage(is_interface=False): error lines of the batch *)

Inductive phase :=
| PIdle
| PIface (todo : list nat) (finished : list (nat * Iface))   (* interface phase, SCC by SCC, commit after each *)
| PImpl (batch : list (nat * Iface))                         (* interface reply sent, implementation phase to do *)
| PImplDone (res : list (nat * Errs)).                       (* implementation committed, reply not yet sent *)

Record wstate := { ph : phase; mem : list (nat * option Iface); outbox : list msg }.

Record state := {
  nrc : nat -> nat;                 (* SCC.not_ready_count *)
  ready : list nat;                 (* `ready` of process_graph: all dependencies done, not yet classified *)
  queue : list nat;                 (* manager.scc_queue (as a set: the heap order is a policy, see Policy below) *)
  free : list nat;                  (* manager.free_workers *)
  done : list nat;                  (* SCCs whose interface is available: fresh, or interface reply received *)
  known : nat -> option Iface;      (* graph[id].interface_hash in the coordinator *)
  flushed : list (nat * Errs);      (* diagnostics flushed by the coordinator, in arrival order *)
  wk : nat -> wstate;
  sto : store
}.

Definition mlookup (m : list (nat * option Iface)) (d : nat) : option (option Iface) :=
  match find (fun p => Nat.eqb (fst p) d) m with Some p => Some (snd p) | None => None end.
Definition mhas (m : list (nat * option Iface)) (d : nat) : bool :=
  match mlookup m d with Some _ => true | None => false end.
Definition mget (m : list (nat * option Iface)) (d : nat) : option Iface :=
  match mlookup m d with Some v => v | None => None end.

Definition init (nworkers : nat) : state := {|
  nrc := fun s => length (deps s);
  ready := filter (fun s => match deps s with [] => true | _ => false end) nodes;
  queue := [];
  free := seq 0 nworkers;
  done := [];
  known := iface0;
  flushed := [];
  wk := fun _ => {| ph := PIdle; mem := []; outbox := [] |};
  sto := {| s_iface := iface0; s_errs := errs0 |}
|}.

(* `for done_scc in done: for dependent in done_scc.direct_dependents: not_ready_count -= 1; if 0: ready.append` *)
Fixpoint notify (ds : list nat) (n : nat -> nat) (rdy : list nat) : (nat -> nat) * list nat :=
  match ds with
  | [] => (n, rdy)
  | s :: r => let c := pred (n s) in
              notify r (upd n s c) (if Nat.eqb c 0 then rdy ++ [s] else rdy)
  end.
Fixpoint mark_done (ds : list nat) (n : nat -> nat) (rdy : list nat) : (nat -> nat) * list nat :=
  match ds with
  | [] => (n, rdy)
  | d :: r => let '(n', rdy') := notify (dependents d) n rdy in mark_done r n' rdy'
  end.

Definition set_wk (st : state) (w : nat) (x : wstate) : state :=
  {| nrc := nrc st; ready := ready st; queue := queue st; free := free st; done := done st; known := known st;
     flushed := flushed st; wk := upd (wk st) w x; sto := sto st |}.

Inductive event :=
| EClassify                         (* find_stale_sccs(ready): stale ones are queued, fresh ones are done at once *)
| ESubmit (w : nat) (batch : list nat)   (* free_workers.pop() = w, get_scc_batch() = batch, send request *)
| EIface (w : nat)                  (* worker: maybe_load_deps + interface phase of the next SCC of the batch + commit *)
| ESendIface (w : nat)              (* worker: interface reply *)
| EImpl (w : nat)                   (* worker: implementation phase of the whole batch + commit *)
| ESendImpl (w : nat)               (* worker: implementation reply *)
| ERecv (w : nat).                  (* coordinator: receive the next reply of worker w *)

Definition classify (st : state) : option state :=
  match ready st with
  | [] => None
  | r =>
    let fresh := filter (fun s => is_fresh s (view_of (known st) (deps s))) r in
    let stale := filter (fun s => negb (is_fresh s (view_of (known st) (deps s)))) r in
    let '(n', rdy') := mark_done fresh (nrc st) [] in
    Some {| nrc := n'; ready := rdy'; queue := queue st ++ stale; free := free st; done := done st ++ fresh;
            known := known st; flushed := flushed st; wk := wk st; sto := sto st |}
  end.

Definition submit (st : state) (w : nat) (batch : list nat) : option state :=
  match batch with
  | [] => None
  | _ =>
    if memb w (free st) && subset batch (queue st) && nodupb batch
    then Some {| nrc := nrc st; ready := ready st; queue := remove_all batch (queue st);
                 free := remove_all [w] (free st); done := done st; known := known st; flushed := flushed st;
                 wk := upd (wk st) w {| ph := PIface batch []; mem := mem (wk st w); outbox := outbox (wk st w) |};
                 sto := sto st |}
    else None
  end.

(* SCCs the worker reads from the shared store: transitive deps it does not hold in memory *)
Definition to_load (m : list (nat * option Iface)) (s : nat) : list nat :=
  filter (fun d => negb (mhas m d)) (tdeps s).

Definition wiface (st : state) (w : nat) : option state :=
  let x := wk st w in
  match ph x with
  | PIface (s :: todo) fin =>
      let m1 := mem x ++ map (fun d => (d, s_iface (sto st) d)) (to_load (mem x) s) in
      let v := analyze_iface (src s) (view_of (mget m1) (tdeps s)) in
      let st1 := set_wk st w {| ph := PIface todo (fin ++ [(s, v)]); mem := m1 ++ [(s, Some v)]; outbox := outbox x |} in
      Some {| nrc := nrc st1; ready := ready st1; queue := queue st1; free := free st1; done := done st1;
              known := known st1; flushed := flushed st1; wk := wk st1;
              sto := {| s_iface := upd (s_iface (sto st)) s (Some v); s_errs := s_errs (sto st) |} |}
  | _ => None
  end.

Definition wsend_iface (st : state) (w : nat) : option state :=
  let x := wk st w in
  match ph x with
  | PIface [] fin => Some (set_wk st w {| ph := PImpl fin; mem := mem x; outbox := outbox x ++ [MIface fin] |})
  | _ => None
  end.

Definition wimpl (st : state) (w : nat) : option state :=
  let x := wk st w in
  match ph x with
  | PImpl batch =>
      let res := map (fun p => (fst p, analyze_impl (src (fst p)) (Some (snd p)) (view_of (mget (mem x)) (tdeps (fst p))))) batch in
      let st1 := set_wk st w {| ph := PImplDone res; mem := mem x; outbox := outbox x |} in
      Some {| nrc := nrc st1; ready := ready st1; queue := queue st1; free := free st1; done := done st1;
              known := known st1; flushed := flushed st1; wk := wk st1;
              sto := {| s_iface := s_iface (sto st);
                        s_errs := fold_left (fun f p => upd f (fst p) (Some (snd p))) res (s_errs (sto st)) |} |}
  | _ => None
  end.

Definition wsend_impl (st : state) (w : nat) : option state :=
  let x := wk st w in
  match ph x with
  | PImplDone res => Some (set_wk st w {| ph := PIdle; mem := mem x; outbox := outbox x ++ [MImpl res] |})
  | _ => None
  end.

Definition recv (st : state) (w : nat) : option state :=
  let x := wk st w in
  match outbox x with
  | [] => None
  | MIface res :: rest =>
      let ids := map fst res in
      let '(n', rdy') := mark_done ids (nrc st) (ready st) in
      Some {| nrc := n'; ready := rdy'; queue := queue st; free := free st; done := done st ++ ids;
              known := fold_left (fun f p => upd f (fst p) (Some (snd p))) res (known st);
              flushed := flushed st;
              wk := upd (wk st) w {| ph := ph x; mem := mem x; outbox := rest |}; sto := sto st |}
  | MImpl res :: rest =>
      Some {| nrc := nrc st; ready := ready st; queue := queue st; free := free st ++ [w]; done := done st;
              known := known st; flushed := flushed st ++ res;
              wk := upd (wk st) w {| ph := ph x; mem := mem x; outbox := rest |}; sto := sto st |}
  end.

Definition step (st : state) (e : event) : option state :=
  match e with
  | EClassify => classify st
  | ESubmit w b => submit st w b
  | EIface w => wiface st w
  | ESendIface w => wsend_iface st w
  | EImpl w => wimpl st w
  | ESendImpl w => wsend_impl st w
  | ERecv w => recv st w
  end.

Fixpoint run (st : state) (sched : list event) : option state :=
  match sched with
  | [] => Some st
  | e :: r => match step st e with Some st' => run st' r | None => None end
  end.

Definition run_parallel (nworkers : nat) (sched : list event) : option state := run (init nworkers) sched.

Definition idle (x : wstate) : bool :=
  match ph x, outbox x with PIdle, [] => true | _, _ => false end.

(* the state process_graph leaves when its loop exits: nothing ready / not ready / queued / in flight *)
Definition finished (nworkers : nat) (st : state) : bool :=
  match ready st, queue st with
  | [], [] => forallb (fun w => idle (wk st w)) (seq 0 nworkers)
              && forallb (fun s => memb s (done st)) nodes
              && Nat.eqb (length (free st)) nworkers
  | _, _ => false
  end.

(* executable monitors of the main invariants (used by the trace validation on every prefix) *)
Definition in_flight_iface (st : state) (nworkers : nat) : list nat :=
  flat_map (fun w => match ph (wk st w) with PIface todo _ => todo | _ => [] end) (seq 0 nworkers).
Definition deps_done_b (st : state) (l : list nat) : bool :=
  forallb (fun s => subset (deps s) (done st)) l.
Definition monitor (nworkers : nat) (st : state) : bool :=
  deps_done_b st (ready st) && deps_done_b st (queue st) && deps_done_b st (in_flight_iface st nworkers)
  && deps_done_b st (done st)
  && nodupb (done st).

End Model.

Arguments MIface {Iface Errs}.   Arguments MImpl {Iface Errs}.
Arguments PIdle {Iface Errs}.    Arguments PIface {Iface Errs}.
Arguments PImpl {Iface Errs}.    Arguments PImplDone {Iface Errs}.
Arguments ph {Iface Errs}.       Arguments mem {Iface Errs}.      Arguments outbox {Iface Errs}.
Arguments nrc {Iface Errs}.      Arguments ready {Iface Errs}.    Arguments queue {Iface Errs}.
Arguments free {Iface Errs}.     Arguments done {Iface Errs}.     Arguments known {Iface Errs}.
Arguments flushed {Iface Errs}.  Arguments wk {Iface Errs}.       Arguments sto {Iface Errs}.
Arguments s_iface {Iface Errs}.  Arguments s_errs {Iface Errs}.
Arguments Build_store {Iface Errs}.  Arguments Build_wstate {Iface Errs}.  Arguments Build_state {Iface Errs}.
