(* C07 — the statements of Statement.v, proved from the global invariant (ProofsInv.v). *)
From Coq Require Import List Arith Bool PeanoNat Lia.
From C07 Require Import Model ProofsSeq Proofs ProofsSched ProofsInv ProofsTerm Statement.
Import ListNotations.

Section Main.
Variables Src Iface Errs : Type.
Variable nodes : list nat.
Variable deps : nat -> list nat.
Variable src : nat -> Src.
Variable analyze_iface : Src -> list (nat * option Iface) -> Iface.
Variable analyze_impl : Src -> option Iface -> list (nat * option Iface) -> Errs.
Variable is_fresh : nat -> list (nat * option Iface) -> bool.
Variable iface0 : nat -> option Iface.
Variable errs0 : nat -> option Errs.

Lemma parallel_eq_sequential_proved :
  parallel_eq_sequential Src Iface Errs nodes deps src analyze_iface analyze_impl is_fresh iface0 errs0.
Proof.
  unfold parallel_eq_sequential. intros Hwf N sched st _ Hrun Hfin s.
  exact (par_eq_seq Src Iface Errs nodes deps src analyze_iface analyze_impl is_fresh iface0 errs0 N Hwf sched st Hrun Hfin s).
Qed.

Lemma cache_after_parallel_proved :
  cache_after_parallel_eq_sequential Src Iface Errs nodes deps src analyze_iface analyze_impl is_fresh iface0 errs0.
Proof. exact parallel_eq_sequential_proved. Qed.

Lemma submit_only_when_deps_done_proved :
  submit_only_when_deps_done Src Iface Errs nodes deps src analyze_iface analyze_impl is_fresh iface0 errs0.
Proof.
  unfold submit_only_when_deps_done. intros Hwf N sched st Hrun s Hs.
  exact (submit_deps_done Src Iface Errs nodes deps src analyze_iface analyze_impl is_fresh iface0 errs0 N Hwf sched st Hrun s Hs).
Qed.

Lemma reads_see_committed_deps_proved :
  reads_see_committed_deps Src Iface Errs nodes deps src analyze_iface analyze_impl is_fresh iface0 errs0.
Proof.
  unfold reads_see_committed_deps. intros Hwf N sched st w s todo fin Hrun Hph d Hd.
  exact (reads_committed Src Iface Errs nodes deps src analyze_iface analyze_impl is_fresh iface0 errs0 N Hwf sched st w s todo fin Hrun Hph d Hd).
Qed.

Lemma every_scc_processed_once_proved :
  every_scc_processed_once Src Iface Errs nodes deps src analyze_iface analyze_impl is_fresh iface0 errs0.
Proof.
  unfold every_scc_processed_once. intros Hwf N sched st Hrun.
  exact (processed_once Src Iface Errs nodes deps src analyze_iface analyze_impl is_fresh iface0 errs0 N Hwf sched st Hrun).
Qed.

Lemma no_deadlock_proved :
  no_deadlock Src Iface Errs nodes deps src analyze_iface analyze_impl is_fresh iface0 errs0.
Proof.
  unfold no_deadlock. intros Hwf N sched st HN Hrun Hfin.
  exact (no_deadlock_run Src Iface Errs nodes deps src analyze_iface analyze_impl is_fresh iface0 errs0 N Hwf HN sched st Hrun Hfin).
Qed.
Lemma termination_proved :
  termination Src Iface Errs nodes deps src analyze_iface analyze_impl is_fresh iface0 errs0.
Proof.
  unfold termination. intros Hwf N. exists (8 * length nodes). intros sched st Hrun.
  exact (run_terminates Src Iface Errs nodes deps src analyze_iface analyze_impl is_fresh iface0 errs0 N Hwf sched st Hrun).
Qed.
End Main.
