(* is_subtype / is_proper_subtype / is_same_type and make_simplified_union, transcribed from
   mypy/subtypes.py and mypy/typeops.py for the type language of Ty.v.  Executable definitions only.
   Recursion is on explicit fuel (depth); None = out of fuel, never an answer. *)
From Coq Require Import ZArith List Bool PArith.
From Types Require Import Ty.
Import ListNotations.

(* SubtypeVisitor.build_subtype_kind restricted to the flags the modelled callers use *)
Record kind := { k_proper : bool; k_nopromo : bool; k_notparams : bool }.
Definition K_sub : kind := {| k_proper := false; k_nopromo := false; k_notparams := false |}.
Definition K_proper : kind := {| k_proper := true; k_nopromo := false; k_notparams := false |}.
Definition K_proper_np : kind := {| k_proper := true; k_nopromo := true; k_notparams := false |}.
Definition K_proper_ntp : kind := {| k_proper := true; k_nopromo := false; k_notparams := true |}.
Definition kind_eqb (a b : kind) : bool :=
  Bool.eqb (k_proper a) (k_proper b) && Bool.eqb (k_nopromo a) (k_nopromo b)
  && Bool.eqb (k_notparams a) (k_notparams b).

Definition ob := option bool.

(* any(f x for x in l): stops at the first True *)
Fixpoint anyM {A} (f : A -> ob) (l : list A) : ob :=
  match l with
  | [] => Some false
  | x :: r => match f x with
              | None => None
              | Some true => Some true
              | Some false => anyM f r
              end
  end.
(* all(f x for x in l): stops at the first False *)
Fixpoint allM {A} (f : A -> ob) (l : list A) : ob :=
  match l with
  | [] => Some true
  | x :: r => match f x with
              | None => None
              | Some false => Some false
              | Some true => allM f r
              end
  end.
(* loop that evaluates every element and remembers a failure (visit_instance type_params loop) *)
Fixpoint allM_ns {A} (f : A -> ob) (l : list A) : ob :=
  match l with
  | [] => Some true
  | x :: r => match f x, allM_ns f r with
              | Some a, Some b => Some (a && b)
              | _, _ => None
              end
  end.
(* a and b *)
Definition andM (a : ob) (b : unit -> ob) : ob :=
  match a with
  | None => None
  | Some false => Some false
  | Some true => b tt
  end.

Fixpoint zip3 {A B C} (a : list A) (b : list B) (c : list C) : list (A * B * C) :=
  match a, b, c with
  | x :: a', y :: b', z :: c' => (x, y, z) :: zip3 a' b' c'
  | _, _, _ => []
  end.

Section WithTable.
Variable ct : ctable.

Definition contractible (c : cid) : bool := is_enum ct c || Pos.eqb c (k_bool ct).
Definition members (c : cid) : list Z :=
  match c_enum (cls_of ct c) with Some ms => ms | None => [0%Z; 1%Z] end.
Definition lit_of (c : cid) (v : Z) (t : ty) : bool :=
  match t with TLit d w => Pos.eqb c d && Z.eqb v w | _ => false end.
Definition complete (items : list ty) (c : cid) : bool :=
  forallb (fun m => existsb (lit_of c m) items) (members c).

(* typeops.try_contracting_literals_in_union *)
Fixpoint contract_go (all items : list ty) (done : list cid) : list ty :=
  match items with
  | [] => []
  | TLit c v :: r =>
      if contractible c && complete all c then
        if mem_cid c done then contract_go all r done
        else TInst c [] :: contract_go all r (c :: done)
      else TLit c v :: contract_go all r done
  | t :: r => t :: contract_go all r done
  end.
Definition contract (items : list ty) : list ty := contract_go items items [].

Definition is_erased (args : list ty) : bool :=
  match args with [] => false | _ => forallb is_any args end.

Section WithCache.
(* TypeState subtype caches seen by visit_instance: Some true = positive entry, Some false = negative *)
Variable lk : kind -> ty -> ty -> option bool.

Section Generic.
(* the subtype function one fuel level below *)
Variable subf : kind -> ty -> ty -> ob.

(* one direction of typeops._remove_redundant_union_items *)
Fixpoint rr_pass (items new_items : list ty) (fbs : list cid) : option (list ty) :=
  match items with
  | [] => Some new_items
  | ti :: rest =>
      if is_never ti then rr_pass rest new_items fbs
      else
        let dup : ob :=
          if mem_ty ti new_items then Some true
          else match ti with
               | TLit c _ =>
                   if mem_cid c fbs then Some false
                   else anyM (fun tj => subf K_proper_np ti tj) new_items
               | _ => anyM (fun tj => subf K_proper_np ti tj) new_items
               end in
        match dup with
        | None => None
        | Some true => rr_pass rest new_items fbs
        | Some false =>
            rr_pass rest (new_items ++ [ti])
                    (match ti with TLit c _ => c :: fbs | _ => fbs end)
        end
  end.

Definition short (l : list ty) : bool := match l with [] => true | [_] => true | _ => false end.

Definition remove_redundant (items : list ty) : option (list ty) :=
  match rr_pass items [] [] with
  | None => None
  | Some p1 =>
      if short p1 then Some p1
      else match rr_pass (rev p1) [] [] with
           | None => None
           | Some p2 => if short p2 then Some p2 else Some (rev p2)
           end
  end.

Definition count_lit (l : list ty) : nat := length (filter is_lit l).

(* typeops.make_simplified_union (contract_literals=True, keep_erased=False) *)
Definition simpl_union (items : list ty) : option ty :=
  let fl := flatten items in
  match fl with
  | [x] => Some x
  | _ => match remove_redundant fl with
         | None => None
         | Some rr =>
             let rr' := if Nat.ltb 1 (count_lit rr) then contract rr else rr in
             Some (make_union rr')
         end
  end.

(* typeops.tuple_fallback for partial_fallback = builtins.tuple *)
Definition tuple_fallback (items : list ty) : option ty :=
  match simpl_union items with
  | None => None
  | Some u => Some (TInst (k_tuple ct) [u])
  end.

(* is_same_type(a, b, ignore_promotions=..., subtype_context=...): the Instance fast path recurses
   with DEFAULT flags (ignore_promotions=True, no context), as in the source *)
Fixpoint same_gen (kk : kind) (a b : ty) {struct a} : ob :=
  match a, b with
  | TInst c xs, TInst d ys =>
      if Pos.eqb c d && Nat.eqb (length xs) (length ys)
      then (fix go (xs ys : list ty) {struct xs} : ob :=
              match xs, ys with
              | x :: xs', y :: ys' =>
                  match same_gen K_proper_np x y with
                  | None => None
                  | Some false => Some false
                  | Some true => go xs' ys'
                  end
              | _, _ => Some true
              end) xs ys
      else andM (subf kk a b) (fun _ => subf kk b a)
  | _, _ => andM (subf kk a b) (fun _ => subf kk b a)
  end.

Definition sub_step (k : kind) (l r : ty) : ob :=
    (* is_subtype / is_proper_subtype: `if left == right: return True` *)
    if ty_eqb l r then Some true else
    (* _is_subtype *)
    if negb (k_proper k) && is_any r then Some true else
    (* check_type_parameter *)
    let check_param (p : ty * ty * variance) : ob :=
      let '(la, ra, v) := p in
      match v with
      | Cov => subf k la ra
      | Contra => subf k ra la
      | Inv => if k_proper k then same_gen k la ra
               else andM (subf k la ra) (fun _ => subf k ra la)
      end in
    let visit (_ : unit) : ob :=
      match l with
      | TAny => Some (if k_proper k then is_any r else true)
      | TNever => Some true
      | TNone =>
          match r with
          | TNone => Some true
          | TInst d _ => Some (Pos.eqb d (k_object ct))
          | _ => Some false
          end
      | TInst c args =>
          match r with
          | TTuple _ =>
              Some (has_base ct c (k_tuple ct) && negb (k_proper k)
                    && is_erased (map_to_super ct c args (k_tuple ct)))
          | TInst d rargs =>
              match lk k l r with
              | Some b => Some b
              | None =>
                let promo : ob :=
                  if negb (k_nopromo k) && negb (c_protocol (cls_of ct d)) then
                    anyM (fun b => anyM (fun p => subf k (TInst p []) r) (c_promote (cls_of ct b)))
                         (c_mro (cls_of ct c))
                  else Some false in
                match promo with
                | None => None
                | Some true => Some true
                | Some false =>
                    if has_base ct c d || Pos.eqb d (k_object ct) then
                      if k_notparams k then Some true
                      else allM_ns check_param
                             (zip3 (map_to_super ct c args d) rargs (c_var (cls_of ct d)))
                    else Some false
                end
              end
          | _ => Some false
          end
      | TLit c v =>
          match r with
          | TLit _ _ => Some false     (* left == right already failed *)
          | _ => subf k (TInst c []) r
          end
      | TUnion litems =>
          match r with
          | TInst _ _ =>
              (* literal items are replaced by their fallbacks, duplicates skipped *)
              (fix go (items : list ty) (seen : list cid) : ob :=
                 match items with
                 | [] => Some true
                 | TLit c v :: rest =>
                     if mem_cid c seen then go rest seen
                     else match subf k (TInst c []) r with
                          | None => None
                          | Some false => Some false
                          | Some true => go rest (c :: seen)
                          end
                 | it :: rest =>
                     match subf k it r with
                     | None => None
                     | Some false => Some false
                     | Some true => go rest seen
                     end
                 end) litems []
          | TUnion ritems =>
              let fast := flatten ritems in
              allM (fun it =>
                      if mem_ty it fast then Some true
                      else match it with
                           | TLit c _ => if mem_ty (TInst c []) fast then Some true else subf k it r
                           | _ => subf k it r
                           end) litems
          | _ => allM (fun it => subf k it r) litems
          end
      | TTuple litems =>
          match r with
          | TInst d rargs =>
              if Pos.eqb d (k_sized ct) then Some true
              else if mem_cid d (k_tuplelike ct) then
                match rargs with
                | [] => if k_proper k then Some false
                        else if Pos.eqb d (k_tuple ct) then Some true
                        else allM (fun li => subf k li TAny) litems
                | iter :: _ =>
                    if Pos.eqb d (k_tuple ct) && is_any iter then Some true
                    else allM (fun li => subf k li iter) litems
                end
              else
                andM (subf k (TInst (k_tuple ct) [TAny]) r)
                     (fun _ => match tuple_fallback litems with
                               | None => None
                               | Some fb => subf k fb r
                               end)
          | TTuple ritems =>
              if negb (Nat.eqb (length litems) (length ritems)) then Some false
              else allM (fun p => subf k (fst p) (snd p)) (combine litems ritems)
          | _ => Some false
          end
      end in
    match r with
    | TUnion ritems =>
        if is_union l then visit tt
        else match anyM (fun it => subf k l it) ritems with
             | None => None
             | Some true => Some true
             | Some false =>
                 match l with
                 | TInst c _ =>
                     if contractible c
                     then anyM (fun it => subf k l it) (contract (flatten ritems))
                     else Some false
                 | _ => Some false
                 end
             end
    | _ => visit tt
    end.

End Generic.

(* is_same_type(a, b) with default arguments (ignore_promotions=True) *)
Fixpoint sub (n : nat) : kind -> ty -> ty -> ob :=
  match n with
  | O => fun _ _ _ => None
  | S n' => sub_step (sub n')
  end.

Definition same_type (n : nat) (a b : ty) : ob := same_gen (sub n) K_proper_np a b.

Definition simplified_union (n : nat) (items : list ty) : option ty := simpl_union (sub n) items.

End WithCache.
End WithTable.

Definition no_cache : kind -> ty -> ty -> option bool := fun _ _ _ => None.
