(* join_types / TypeJoinVisitor / InstanceJoiner (mypy/join.py) and meet_types / TypeMeetVisitor
   (mypy/meet.py) for the type language of Ty.v.  Executable definitions only. *)
From Coq Require Import ZArith List Bool PArith.
From Types Require Import Ty Subtype.
Import ListNotations.

Fixpoint mapM {A B} (f : A -> option B) (l : list A) : option (list B) :=
  match l with
  | [] => Some []
  | x :: r => match f x with
              | None => None
              | Some y => match mapM f r with None => None | Some ys => Some (y :: ys) end
              end
  end.

Section JoinMeet.
Variable ct : ctable.
Variable lk : kind -> ty -> ty -> option bool.
Variable m : nat.          (* fuel given to every subtype query issued by join/meet *)

Definition subq := sub ct lk m.
Definition simplq := simpl_union ct subq.
Definition object_t : ty := TInst (k_object ct) [].
Definition is_proto (c : cid) : bool := c_protocol (cls_of ct c).

(* typeops.true_or_false on types with default truthiness: only unions are rebuilt *)
Fixpoint tof (t : ty) : option ty :=
  match t with
  | TUnion items =>
      match (fix go (l : list ty) : option (list ty) :=
               match l with
               | [] => Some []
               | x :: r => match tof x, go r with
                           | Some a, Some b => Some (a :: b)
                           | _, _ => None
                           end
               end) items with
      | None => None
      | Some items' => simplq items'
      end
  | _ => Some t
  end.

(* join.is_better *)
Definition is_better (t s : ty) : bool :=
  match t with
  | TInst c _ =>
      match s with
      | TInst d _ =>
          if negb (Bool.eqb (is_proto c) (is_proto d))
             && negb (Pos.eqb c (k_object ct)) && negb (Pos.eqb d (k_object ct))
          then negb (is_proto c)
          else Nat.ltb (length (c_mro (cls_of ct d))) (length (c_mro (cls_of ct c)))
      | _ => true
      end
  | _ => false
  end.

(* TypeJoinVisitor.default *)
Definition join_default (s : ty) : ty :=
  match s with
  | TInst _ _ => object_t
  | TTuple _ => object_t
  | _ => TAny
  end.

Definition swap_if (b : bool) (p : ty * ty) : ty * ty := if b then (snd p, fst p) else p.

(* is `arg` a subtype of a bare class type variable (join_instances_via_supertype protocol bases) *)
Definition sub_typevar (v : variance) (a : ty) : bool :=
  match v with
  | Cov => is_any a || is_never a
  | _ => is_any a
  end.

Fixpoint join (n : nat) (s0 t0 : ty) {struct n} : option ty :=
  match n with
  | O => None
  | S n' =>
    let norm : option (ty * ty) :=
      if Bool.eqb (can_be_true ct s0) (can_be_true ct t0)
         && Bool.eqb (can_be_false ct s0) (can_be_false ct t0)
      then Some (s0, t0)
      else match tof s0, tof t0 with
           | Some a, Some b => Some (a, b)
           | _, _ => None
           end in
    match norm with
    | None => None
    | Some p0 =>
      let p1 := swap_if (is_union (fst p0) && negb (is_union (snd p0))) p0 in
      if is_any (fst p1) then Some (fst p1) else
      let p2 := swap_if (is_none (fst p1) && negb (is_none (snd p1))) p1 in
      let p3 := swap_if (is_never (fst p2) && negb (is_never (snd p2))) p2 in
      let s := fst p3 in
      let t := snd p3 in
      match t with
      | TUnion _ =>
          match subq K_proper s t with
          | None => None
          | Some true => Some t
          | Some false => simplq [s; t]
          end
      | TAny => Some t
      | TNone =>
          match s with
          | TNone => Some t
          | TNever => Some t
          | TAny => Some TAny
          | _ => simplq [s; t]
          end
      | TNever => Some s
      | TInst c targs =>
          match s with
          | TInst _ _ => join_inst n' t s
          | TTuple _ => join n' t s
          | TLit _ _ => join n' t s
          | _ => Some (join_default s)
          end
      | TLit c v =>
          match s with
          | TLit d w =>
              if ty_eqb t s then Some t
              else if is_enum ct d && is_enum ct c then simplq [s; t]
              else join n' (TInst d []) (TInst c [])
          | _ => join n' s (TInst c [])
          end
      | TTuple titems =>
          match s with
          | TTuple sitems =>
              if Nat.eqb (length sitems) (length titems) then
                match mapM (fun p => join n' (fst p) (snd p)) (combine titems sitems) with
                | None => None
                | Some items => Some (TTuple items)
                end
              else
                match subq K_proper s t with
                | None => None
                | Some true => Some t
                | Some false =>
                    match subq K_proper t s with
                    | None => None
                    | Some true => Some s
                    | Some false =>
                        match tuple_fallback ct subq sitems, tuple_fallback ct subq titems with
                        | Some fs, Some ft => join_inst n' fs ft
                        | _, _ => None
                        end
                    end
                end
          | _ => match tuple_fallback ct subq titems with
                 | None => None
                 | Some fb => join n' s fb
                 end
          end
      end
    end
  end

(* InstanceJoiner.join_instances(t, s); the seen_instances guard is not modelled *)
with join_inst (n : nat) (t s : ty) {struct n} : option ty :=
  match n with
  | O => None
  | S n' =>
    match t, s with
    | TInst c targs, TInst d sargs =>
        if Pos.eqb c d then
          (* None = out of fuel; Some None = early `return object_from_instance(t)` *)
          match (fix go (l : list (ty * ty * variance)) : option (option (list ty)) :=
                   match l with
                   | [] => Some (Some [])
                   | (ta, sa, v) :: r =>
                       let one : option (option ty) :=
                         if is_any ta then Some (Some TAny)
                         else if is_any sa then Some (Some TAny)
                         else match v with
                              | Cov => match join n' ta sa with
                                       | None => None
                                       | Some x => Some (Some x)
                                       end
                              | _ =>
                                  match andM (subq K_sub ta sa) (fun _ => subq K_sub sa ta) with
                                  | None => None
                                  | Some false => Some None
                                  | Some true => match join n' ta sa with
                                                 | None => None
                                                 | Some x => Some (Some x)
                                                 end
                                  end
                              end in
                       match one with
                       | None => None
                       | Some None => Some None
                       | Some (Some x) =>
                           match go r with
                           | None => None
                           | Some None => Some None
                           | Some (Some xs) => Some (Some (x :: xs))
                           end
                       end
                   end) (zip3 targs sargs (c_var (cls_of ct c))) with
          | None => None
          | Some None => Some object_t
          | Some (Some args) => Some (TInst c args)
          end
        else
          match (match c_bases (cls_of ct c) with
                 | [] => Some false
                 | _ => subq K_proper_ntp t s
                 end) with
          | None => None
          | Some true => join_via n' t s
          | Some false => join_via n' s t
          end
    | _, _ => Some TAny
    end
  end

(* InstanceJoiner.join_instances_via_supertype(t, s) *)
with join_via (n : nat) (t s : ty) {struct n} : option ty :=
  match n with
  | O => None
  | S n' =>
    match t, s with
    | TInst c targs, TInst d sargs =>
        (* promotions of t, then of s *)
        (fix p1 (ps : list cid) : option ty :=
           match ps with
           | p :: r => match subq K_sub (TInst p []) s with
                       | None => None
                       | Some true => join n' (TInst p []) s
                       | Some false => p1 r
                       end
           | [] =>
             (fix p2 (ps : list cid) : option ty :=
                match ps with
                | p :: r => match subq K_sub (TInst p []) t with
                            | None => None
                            | Some true => join n' t (TInst p [])
                            | Some false => p2 r
                            end
                | [] =>
                  let own := c_bases (cls_of ct c) in
                  let extra :=
                    filter (fun b => is_proto b && negb (mem_cid b own) && has_base ct c b
                                     && forallb (fun p => sub_typevar (snd p) (fst p))
                                          (combine (map_to_super ct c targs b) (c_var (cls_of ct b))))
                           (c_bases (cls_of ct d)) in
                  let fix best_of (bs : list cid) (best : option ty) : option (option ty) :=
                    match bs with
                    | [] => Some best
                    | b :: r =>
                        match join_inst n' (TInst b (map_to_super ct c targs b)) s with
                        | None => None
                        | Some res =>
                            best_of r (match best with
                                       | None => Some res
                                       | Some bst => if is_better res bst then Some res else Some bst
                                       end)
                        end
                    end in
                  match best_of (nodup Pos.eq_dec (own ++ extra)) None with
                  | None => None
                  | Some None => Some object_t      (* `assert best is not None` *)
                  | Some (Some bst) =>
                      (fix p3 (ps : list cid) (best : ty) : option ty :=
                         match ps with
                         | [] => Some best
                         | p :: r =>
                             match join_inst n' (TInst p []) s with
                             | None => None
                             | Some res => p3 r (if is_better res best then res else best)
                             end
                         end) (c_promote (cls_of ct c)) bst
                  end
                end) (c_promote (cls_of ct d))
           end) (c_promote (cls_of ct c))
    | _, _ => Some TAny
    end
  end.

(* ------------------------------------------------------------------ meet *)

Fixpoint meet (n : nat) (s0 t0 : ty) {struct n} : option ty :=
  match n with
  | O => None
  | S n' =>
    match subq K_proper_np s0 t0 with
    | None => None
    | Some true => Some s0
    | Some false =>
    match subq K_proper_np t0 s0 with
    | None => None
    | Some true => Some t0
    | Some false =>
      if is_any s0 then Some t0 else
      let p := swap_if (is_union s0 && negb (is_union t0)) (s0, t0) in
      let s := fst p in
      let t := snd p in
      match t with
      | TAny => Some s
      | TUnion titems =>
          match (match s with
                 | TUnion sitems =>
                     mapM (fun xy => meet n' (fst xy) (snd xy))
                          (flat_map (fun x => map (fun y => (x, y)) sitems) titems)
                 | _ => mapM (fun x => meet n' x s) titems
                 end) with
          | None => None
          | Some meets => simplq meets
          end
      | TNone =>
          match s with
          | TNone => Some t
          | TInst d _ => if Pos.eqb d (k_object ct) then Some t else Some TNever
          | _ => Some TNever
          end
      | TNever => Some t
      | TInst c targs =>
          match s with
          | TInst d sargs =>
              if Pos.eqb c d then
                match (match subq K_sub t s with
                       | None => None
                       | Some true => Some true
                       | Some false => subq K_sub s t
                       end) with
                | None => None
                | Some true =>
                    match mapM (fun q => meet n' (fst (fst q)) (snd (fst q)))
                               (zip3 targs sargs (c_var (cls_of ct c))) with
                    | None => None
                    | Some args => Some (TInst c args)
                    end
                | Some false => Some TNever
                end
              else
                match subq K_sub t s with
                | None => None
                | Some true => Some t
                | Some false =>
                    match subq K_sub s t with
                    | None => None
                    | Some true => Some s
                    | Some false => Some TNever
                    end
                end
          | TTuple _ => meet n' t s
          | TLit _ _ => meet n' t s
          | _ => Some TNever
          end
      | TLit c v =>
          match s with
          | TLit _ _ => if ty_eqb s t then Some t else Some TNever
          | TInst _ _ =>
              match subq K_sub (TInst c []) s with
              | None => None
              | Some true => Some t
              | Some false => Some TNever
              end
          | _ => Some TNever
          end
      | TTuple titems =>
          match s with
          | TTuple sitems =>
              if Nat.eqb (length sitems) (length titems) then
                match mapM (fun q => meet n' (fst q) (snd q)) (combine titems sitems) with
                | None => None
                | Some items => Some (TTuple items)
                end
              else Some TNever
          | TInst d sargs =>
              match (if mem_cid d (k_tuplelike ct) then sargs else []) with
              | arg :: _ =>
                  match mapM (fun it => meet n' it arg) titems with
                  | None => None
                  | Some items => Some (TTuple items)
                  end
              | [] =>
                  match subq K_proper t s with
                  | None => None
                  | Some true => Some t
                  | Some false => Some TNever
                  end
              end
          | _ => Some TNever
          end
      end
    end
    end
  end.

End JoinMeet.
