(* Shared type language over an arbitrary class table (C08; meant to be reused by C01, C11).
   Executable definitions only.  Transcribed from mypy/types.py (equality, truthiness defaults),
   mypy/nodes.py (TypeInfo: mro, bases, variance, _promote, is_enum), mypy/maptype.py. *)
From Coq Require Import ZArith List Bool PArith.
Import ListNotations.

Definition cid := positive.

(* mypy.types: AnyType | UninhabitedType | NoneType | Instance | LiteralType | UnionType | TupleType
   (fixed length, partial_fallback = builtins.tuple).  Literal values are interned by the harness as
   Z so that falsy values (0, False, "", b"") are 0. *)
Inductive ty : Type :=
| TAny
| TNever
| TNone
| TInst (c : cid) (args : list ty)
| TLit (c : cid) (v : Z)
| TUnion (ts : list ty)
| TTuple (ts : list ty).

(* Type.__eq__: structural; UnionType.__eq__ compares frozenset(items). *)
Fixpoint ty_eqb (a b : ty) {struct a} : bool :=
  match a, b with
  | TAny, TAny => true
  | TNever, TNever => true
  | TNone, TNone => true
  | TInst c xs, TInst d ys =>
      Pos.eqb c d &&
      (fix go (xs ys : list ty) {struct xs} : bool :=
         match xs, ys with
         | [], [] => true
         | x :: xs', y :: ys' => ty_eqb x y && go xs' ys'
         | _, _ => false
         end) xs ys
  | TLit c v, TLit d w => Pos.eqb c d && Z.eqb v w
  | TUnion xs, TUnion ys =>
      (fix incl1 (xs : list ty) : bool :=
         match xs with
         | [] => true
         | x :: xs' => existsb (ty_eqb x) ys && incl1 xs'
         end) xs
      && forallb (fun y =>
           (fix ex (xs : list ty) : bool :=
              match xs with
              | [] => false
              | x :: xs' => ty_eqb x y || ex xs'
              end) xs) ys
  | TTuple xs, TTuple ys =>
      (fix go (xs ys : list ty) {struct xs} : bool :=
         match xs, ys with
         | [], [] => true
         | x :: xs', y :: ys' => ty_eqb x y && go xs' ys'
         | _, _ => false
         end) xs ys
  | _, _ => false
  end.

Definition mem_ty (x : ty) (l : list ty) : bool := existsb (ty_eqb x) l.

Inductive variance := Inv | Cov | Contra.

(* argument of a base class in terms of the class' own parameters *)
Inductive aspec := AP (i : nat) | AC (t : ty).

Record cls := {
  c_mro : list cid;                 (* TypeInfo.mro, self first, object last *)
  c_var : list variance;            (* defn.type_vars variances; length = arity *)
  c_bases : list cid;               (* TypeInfo.bases (their classes), in order *)
  c_amap : list (cid * list aspec); (* map_instance_to_supertype(C[T1..Tn], B) for each B in mro *)
  c_promote : list cid;             (* TypeInfo._promote targets (all non-generic instances) *)
  c_enum : option (list Z);         (* Some members iff is_enum *)
  c_protocol : bool
}.

Record ctable := {
  classes : list (cid * cls);
  k_object : cid;
  k_tuple : cid;
  k_bool : cid;
  k_sized : cid;                    (* typing.Sized *)
  k_tuplelike : list cid            (* TUPLE_LIKE_INSTANCE_NAMES present in the table *)
}.

Definition empty_cls : cls :=
  {| c_mro := []; c_var := []; c_bases := []; c_amap := []; c_promote := []; c_enum := None;
     c_protocol := false |}.

Fixpoint lookup_cls (l : list (cid * cls)) (c : cid) : cls :=
  match l with
  | [] => empty_cls
  | (d, x) :: r => if Pos.eqb c d then x else lookup_cls r c
  end.

Definition cls_of (ct : ctable) (c : cid) : cls := lookup_cls (classes ct) c.
Definition mem_cid (c : cid) (l : list cid) : bool := existsb (Pos.eqb c) l.
(* TypeInfo.has_base: membership in the mro.  mro[0] is always the class itself (TypeInfo invariant,
   checked on the real class table by wf_ct), which is built in here. *)
Definition has_base (ct : ctable) (c d : cid) : bool := Pos.eqb c d || mem_cid d (c_mro (cls_of ct c)).
Definition is_enum (ct : ctable) (c : cid) : bool :=
  match c_enum (cls_of ct c) with Some _ => true | None => false end.
Definition arity (ct : ctable) (c : cid) : nat := length (c_var (cls_of ct c)).

Fixpoint assoc_cid {A} (l : list (cid * A)) (c : cid) : option A :=
  match l with
  | [] => None
  | (d, x) :: r => if Pos.eqb c d then Some x else assoc_cid r c
  end.

Definition inst_spec (args : list ty) (s : aspec) : ty :=
  match s with
  | AP i => nth i args TAny
  | AC t => t
  end.

(* maptype.map_instance_to_supertype: returns the argument list of the mapped instance *)
Definition map_to_super (ct : ctable) (c : cid) (args : list ty) (d : cid) : list ty :=
  if Pos.eqb c d then args
  else match c_var (cls_of ct d) with
       | [] => []
       | vs => match assoc_cid (c_amap (cls_of ct c)) d with
               | Some specs => map (inst_spec args) specs
               | None => map (fun _ => TAny) vs     (* "Nothing. Presumably due to an error." *)
               end
       end.

(* can_be_true_default / can_be_false_default *)
Fixpoint can_be_true (ct : ctable) (t : ty) : bool :=
  match t with
  | TNever => false
  | TNone => false
  | TLit c v => if is_enum ct c then true else negb (Z.eqb v 0)
  | TUnion ts => existsb (can_be_true ct) ts
  | TTuple ts => match ts with [] => false | _ => true end
  | _ => true
  end.

Fixpoint can_be_false (ct : ctable) (t : ty) : bool :=
  match t with
  | TNever => false
  | TLit c v => if is_enum ct c then true else Z.eqb v 0
  | TUnion ts => existsb (can_be_false ct) ts
  | TTuple ts => match ts with [] => true | _ => false end
  | _ => true
  end.

(* types.flatten_nested_unions *)
Fixpoint flatten_one (t : ty) : list ty :=
  match t with
  | TUnion us =>
      (fix fl (us : list ty) : list ty :=
         match us with
         | [] => []
         | u :: r' => flatten_one u ++ fl r'
         end) us
  | _ => [t]
  end.
Definition flatten (ts : list ty) : list ty := flat_map flatten_one ts.

Definition is_union (t : ty) : bool := match t with TUnion _ => true | _ => false end.
Definition is_any (t : ty) : bool := match t with TAny => true | _ => false end.
Definition is_none (t : ty) : bool := match t with TNone => true | _ => false end.
Definition is_never (t : ty) : bool := match t with TNever => true | _ => false end.
Definition is_lit (t : ty) : bool := match t with TLit _ _ => true | _ => false end.

(* UnionType.make_union *)
Definition make_union (ts : list ty) : ty :=
  match ts with
  | [] => TNever
  | [t] => t
  | _ => TUnion ts
  end.

(* no Any anywhere inside *)
Fixpoint any_free (t : ty) : bool :=
  match t with
  | TAny => false
  | TInst _ args => forallb any_free args
  | TUnion ts => forallb any_free ts
  | TTuple ts => forallb any_free ts
  | _ => true
  end.
