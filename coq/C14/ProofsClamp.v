(* C14 (a): the span clamp of Errors.report (regenerated: Gen.Clamp) always stores a well-formed span. *)
From Coq Require Import ZArith Bool Lia.
From Gen Require Import Clamp.
Open Scope Z_scope.

Definition span_ok (r : Z * Z * Z * Z) : Prop :=
  let '(line, column, end_line, end_column) := r in
  end_line >= line /\ (end_line = line -> end_column > column).

Ltac split_ifs :=
  repeat match goal with
  | |- context [if ?c then _ else _] => let E := fresh "E" in destruct c eqn:E
  end.

Lemma clamp_span_ok : forall line column end_line end_column,
  span_ok (report_clamp line column end_line end_column).
Proof.
  intros line column end_line end_column. unfold report_clamp, span_ok.
  destruct end_line as [el|]; destruct column as [c|]; destruct end_column as [ec|]; cbv zeta;
    split_ifs;
    repeat match goal with
    | H : (_ && _) = true |- _ => apply andb_true_iff in H; destruct H
    | H : (_ && _) = false |- _ => apply andb_false_iff in H
    end; lia.
Qed.

(* what the clamp keeps: line and (given) column are stored unchanged; a span that is already well formed is untouched *)
Lemma clamp_keeps_start : forall line column end_line end_column,
  let '(l, c, _, _) := report_clamp line column end_line end_column in
  l = line /\ c = match column with Some c0 => c0 | None => -1 end.
Proof.
  intros. unfold report_clamp. destruct end_line, column, end_column; cbv zeta; split_ifs; auto.
Qed.

Lemma clamp_identity_on_valid : forall line c el ec,
  el >= line -> (el = line -> ec > c) ->
  report_clamp line (Some c) (Some el) (Some ec) = (line, c, el, ec).
Proof.
  intros. unfold report_clamp. cbv zeta. split_ifs;
    repeat match goal with
    | H : (_ && _) = true |- _ => apply andb_true_iff in H; destruct H
    end; try reflexivity; try (exfalso; lia); repeat f_equal; lia.
Qed.

(* the PRINTED form (format_messages_default): start column is printed as column + 1, the end column as stored;
   "end not before start" for the printed numbers *)
Lemma clamp_printed_end_not_before_start : forall line column end_line end_column,
  let '(l, c, el, ec) := report_clamp line column end_line end_column in
  el > l \/ (el = l /\ ec >= c + 1).
Proof.
  intros. pose proof (clamp_span_ok line column end_line end_column) as H.
  destruct (report_clamp line column end_line end_column) as [[[l c] el] ec]. cbn in H. lia.
Qed.
