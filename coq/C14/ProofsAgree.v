(* C14 (b): on well-formed trees the native result (nconvert) IS the fastparse result (convert), positions included. *)
From Coq Require Import ZArith List String Bool Lia Arith.
From Gen Require Import Magic.
From C14 Require Import Model Proofs ProofsStmt.
Import ListNotations.
Open Scope Z_scope.

Lemma mepos_mk_member : forall p e a, mepos (mk_member p e a) = p.
Proof.
  intros. unfold mk_member. destruct e; try reflexivity. destruct e; try reflexivity.
  destruct (String.eqb name "super"); reflexivity.
Qed.
Lemma mepos_group : forall rest p op a b, mepos (group p op a b rest) = p.
Proof. destruct rest; reflexivity. Qed.
Lemma mepos_conv : forall e, wf_e e -> mepos (conv_e e) = epos e.
Proof.
  destruct e; cbn [conv_e epos mepos wf_e]; intros Hw; try reflexivity;
    [apply mepos_mk_member | apply mepos_group | contradiction | destruct k; reflexivity].
Qed.
Lemma combine_fst_snd : forall A C (l : list (A * C)), combine (map fst l) (map snd l) = l.
Proof. induction l as [|[a c] l IH]; cbn; [reflexivity|]. rewrite IH. reflexivity. Qed.
Lemma span_start_eq : forall a a' x, p_line a = p_line a' -> p_col a = p_col a' -> span a x = span a' x.
Proof. intros. unfold span. congruence. Qed.
Lemma span_end_eq : forall x b b', p_eline b = p_eline b' -> p_ecol b = p_ecol b' -> span x b = span x b'.
Proof. intros. unfold span. congruence. Qed.

Definition Ae (e : expr) := wf_e e -> nconv_e e = conv_e e.
Definition Aes (es : exprs) := wf_es es -> nconv_es es = conv_es es.
Definition Aargs (a : args) := wf_args a -> nconv_args a = conv_args a.
Definition Acmps (c : cmps) := wf_cmps c -> nconv_cmps c = conv_cmps c.
Definition Aoe (o : oexpr) := wf_oe o -> nconv_oe o = conv_oe o.
Definition Aditems (d : ditems) := wf_ditems d ->
  nconv_dkeys d = map fst (conv_ditems d) /\ nconv_dvals d = map snd (conv_ditems d).
Definition Aparams (ps : params) := wf_params ps -> nconv_params ps = conv_params ps.
Definition Agens (g : gens) := wf_gens g ->
  nconv_gtargets g = conv_gtargets g /\ nconv_giters g = conv_giters g /\ nconv_gifs g = conv_gifs g.

Lemma agree_e_all :
  (forall e, Ae e) /\ (forall es, Aes es) /\ (forall a, Aargs a) /\ (forall c, Acmps c) /\ (forall o, Aoe o) /\
  (forall d, Aditems d) /\ (forall ps, Aparams ps) /\ (forall g, Agens g).
Proof.
  apply expr_all_mut; unfold Ae, Aes, Aargs, Acmps, Aoe, Aditems, Aparams, Agens; intros;
    cbn [wf_e wf_es wf_args wf_cmps wf_oe wf_ditems wf_params wf_gens] in *;
    cbn [nconv_e nconv_es nconv_args nconv_cmps nconv_oe nconv_dkeys nconv_dvals nconv_params nconv_gtargets nconv_giters nconv_gifs
         conv_e conv_es conv_args conv_cmps conv_oe conv_ditems conv_params conv_gtargets conv_giters conv_gifs];
    try reflexivity; try contradiction.
  - (* EAttr *) rewrite H by auto. reflexivity.
  - (* ECall *) destruct H1. rewrite H, H0 by auto. reflexivity.
  - (* EBin *) destruct H1 as [Hp [Hl Hr]]. rewrite H, H0 by auto. rewrite !mepos_conv by auto. rewrite <- Hp. reflexivity.
  - (* EUnary *) rewrite H by auto. reflexivity.
  - (* ECompare *) destruct H1. rewrite H, H0 by auto. reflexivity.
  - (* EBoolOp *) destruct H2 as [Hr [H1' H2']]. subst rest. rewrite H, H0 by auto. reflexivity.
  - (* EIfExp *) destruct H2 as [A [B C]]. rewrite H, H0, H1 by auto. reflexivity.
  - rewrite H by auto. reflexivity.
  - rewrite H by auto. reflexivity.
  - rewrite H by auto. reflexivity.
  - (* EDict *) destruct (H H0) as [A B]. rewrite A, B, combine_fst_snd. reflexivity.
  - (* ESubscript *) destruct H1. rewrite H, H0 by auto. reflexivity.
  - (* ESlice *) destruct H2 as [A [B C]]. rewrite H, H0, H1 by auto. reflexivity.
  - (* EStar *) rewrite H by auto. reflexivity.
  - (* EComp *) destruct H1 as [A B]. destruct (H0 B) as [X [Y Z]]. cbv zeta. rewrite H, X, Y, Z by auto. reflexivity.
  - (* EDictComp *) destruct H2 as [A [B C]]. destruct (H1 C) as [X [Y Z]]. rewrite H, H0, X, Y, Z by auto. reflexivity.
  - (* EYield *) rewrite H by auto. reflexivity.
  - (* EYieldFrom *) rewrite H by auto. reflexivity.
  - (* EAwait *) rewrite H by auto. reflexivity.
  - (* EWalrus *) rewrite H by auto. reflexivity.
  - (* ECons *) destruct H1. rewrite H, H0 by auto. reflexivity.
  - destruct H1. rewrite H, H0 by auto. reflexivity.
  - destruct H1. rewrite H, H0 by auto. reflexivity.
  - (* OSome *) rewrite H by auto. reflexivity.
  - (* DNil *) split; reflexivity.
  - (* DCons *) destruct H2 as [A [B C]]. destruct (H1 C) as [K V]. cbn [map fst snd]. rewrite H, H0, K, V by auto. split; reflexivity.
  - (* PCons *) destruct H1 as [Hsp [Hpo [Hd Hr]]]. subst sp. rewrite H, H0, Hpo by auto. reflexivity.
  - (* GNil *) repeat split.
  - (* GCons *) destruct H3 as [A [B [C D]]]. destruct (H2 D) as [X [Y Z]]. rewrite H, H0, H1, X, Y, Z by auto. repeat split.
Qed.

Definition agree_e := proj1 agree_e_all.
Definition agree_es := proj1 (proj2 agree_e_all).
Definition agree_oe := proj1 (proj2 (proj2 (proj2 (proj2 agree_e_all)))).
Definition agree_params := proj1 (proj2 (proj2 (proj2 (proj2 (proj2 (proj2 agree_e_all)))))).

Lemma agree_ckws : forall k, wf_ckws k -> nconv_ckws k = conv_ckws k.
Proof. induction k; cbn [wf_ckws nconv_ckws conv_ckws]; intros; [reflexivity|]. destruct H. rewrite agree_e, IHk by auto. reflexivity. Qed.
Lemma agree_witems : forall w, wf_witems w ->
  map fst (nconv_witems w) = conv_wexprs w /\ map snd (nconv_witems w) = conv_wtargets w.
Proof.
  induction w; cbn [wf_witems nconv_witems conv_wexprs conv_wtargets map fst snd]; intros; [split; reflexivity|].
  destruct H as [A [B C]]. destruct (IHw C) as [X Y]. rewrite agree_e, agree_oe, X, Y by auto. split; reflexivity.
Qed.

(* positions of converted statements *)
Lemma mspos_conv_start : forall s, p_line (mspos (conv_s s)) = p_line (first_pos s) /\ p_col (mspos (conv_s s)) = p_col (first_pos s).
Proof.
  destruct s; try (split; reflexivity).
  cbn [conv_s first_pos]. destruct decorators; unfold mk_funcdef; cbn; split; reflexivity.
Qed.
Lemma mspos_conv_end : forall s, p_eline (mspos (conv_s s)) = p_eline (spos s) /\ p_ecol (mspos (conv_s s)) = p_ecol (spos s).
Proof.
  destruct s; try (split; reflexivity).
  cbn [conv_s spos]. destruct decorators; unfold mk_funcdef; cbn; split; reflexivity.
Qed.
Lemma last_mspos_conv_end : forall ss s0,
  p_eline (last_mspos (conv_s s0) (conv_ss ss)) = p_eline (last_spos s0 ss) /\
  p_ecol (last_mspos (conv_s s0) (conv_ss ss)) = p_ecol (last_spos s0 ss).
Proof. induction ss; intros; cbn [conv_ss last_mspos last_spos]; [apply mspos_conv_end | apply IHss]. Qed.

Lemma block_conv : forall b0 bs,
  mk_block_ne false (conv_s b0) (conv_ss bs) = MBlock (block_pos b0 bs) false (conv_s b0 :: conv_ss bs).
Proof.
  intros. unfold mk_block_ne, block_pos. f_equal.
  destruct (mspos_conv_start b0) as [A B]. destruct (last_mspos_conv_end bs b0) as [C D].
  rewrite (span_start_eq _ (first_pos b0)) by assumption. apply span_end_eq; assumption.
Qed.
Lemma oblock_conv : forall o, mk_block false (conv_ss o) = as_block o.
Proof. destruct o; [reflexivity|]. cbn [conv_ss as_block mk_block]. rewrite block_conv. reflexivity. Qed.

Definition As (s : stmt) := wf_s s -> nconv_s s = conv_s s.
Definition Ass (ss : stmts) := wf_ss ss -> nconv_ss ss = conv_ss ss.
Definition Ael (el : elifs) := True.
Definition Ahs (hs : handlers) := wf_hs hs ->
  nconv_hbodies hs = conv_hbodies hs /\ nconv_hvars hs = conv_hvars hs /\ nconv_htypes hs = conv_htypes hs.

Lemma agree_s_all : (forall s, As s) /\ (forall ss, Ass ss) /\ (forall el, Ael el) /\ (forall hs, Ahs hs).
Proof.
  apply stmt_all_mut; unfold As, Ass, Ael, Ahs; intros; try exact Logic.I;
    cbn [wf_s wf_ss wf_hs] in *;
    cbn [nconv_s nconv_ss nconv_hbodies nconv_hvars nconv_htypes conv_s conv_ss conv_hbodies conv_hvars conv_htypes];
    try reflexivity; try contradiction.
  - (* SClass *) destruct H1 as [A [B [C [D E]]]]. rewrite H, H0, !agree_es, agree_ckws, block_conv by auto. reflexivity.
  - (* SDef *) destruct H1 as [Hd [A [B [C D]]]]. rewrite H, H0, agree_es, agree_params, block_conv by auto.
    destruct decorators as [|d ds]; [reflexivity|]. destruct Hd as [L K]. unfold mk_funcdef. cbn [conv_es].
    rewrite (span_start_eq dp (epos d)) by assumption. reflexivity.
  - (* SExpr *) destruct H as [Hp He]. rewrite agree_e, mepos_conv by auto. rewrite <- Hp. reflexivity.
  - (* SAssign *) destruct H. rewrite agree_es, agree_e by auto. reflexivity.
  - (* SAugAssign *) destruct H. rewrite !agree_e by auto. reflexivity.
  - (* SReturn *) rewrite agree_oe by auto. reflexivity.
  - (* SDel *) destruct H as [Ht He]. subst ts. rewrite agree_e by auto. reflexivity.
  - (* SAssert *) destruct H. rewrite agree_e, agree_oe by auto. reflexivity.
  - (* SRaise *) destruct H. rewrite !agree_oe by auto. reflexivity.
  - (* SWhile *) destruct H2 as [A [B [C D]]]. rewrite agree_e, H, H0, H1, block_conv, oblock_conv by auto. reflexivity.
  - (* SFor *) destruct H2 as [A [A' [B [C D]]]]. rewrite !agree_e, H, H0, H1, block_conv, oblock_conv by auto. reflexivity.
  - (* SIf *) destruct H3 as [He [A [B [C D]]]]. subst el. rewrite agree_e, H, H0, H2, block_conv, oblock_conv by auto. reflexivity.
  - (* SWith *) destruct H1 as [A [B C]]. destruct (agree_witems items A) as [X Y]. rewrite X, Y, H, H0, block_conv by auto. reflexivity.
  - (* STry *) destruct H4 as [A [B [C [D E]]]]. destruct (H1 C) as [X [Y Z]].
    rewrite H, H0, H2, H3, X, Y, Z, block_conv, !oblock_conv by auto. reflexivity.
  - (* SCons *) destruct H1. rewrite H, H0 by auto. reflexivity.
  - (* HNil *) repeat split.
  - (* HCons *) destruct H2 as [Hn [A [B [C D]]]]. subst name. destruct (H1 D) as [X [Y Z]].
    rewrite H, H0, X, Y, Z, agree_oe, block_conv by auto. repeat split.
Qed.

Theorem nconvert_eq_convert : forall t, wf_ss t -> nconvert t = convert t.
Proof. exact (proj1 (proj2 agree_s_all)). Qed.
