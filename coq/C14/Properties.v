(* C14 -- theorems (each followed by Print Assumptions).  PARTIAL: see Statement.v / notes/C14.md. *)
From Coq Require Import ZArith List String Bool.
From C14 Require Import Model Proofs ProofsStmt ProofsFuel ProofsAgree ProofsShape ProofsClamp Statement.
From Gen Require Import Clamp.
Import ListNotations.
Open Scope Z_scope.

(* (a) the span stored by Errors.report: for ALL (line, column, end_line, end_column), None included *)
Theorem report_clamp_valid : forall line column end_line end_column,
  let '(l, c, el, ec) := report_clamp line column end_line end_column in
  l = line /\ el >= l /\ (el = l -> ec > c).
Proof.
  intros. pose proof (clamp_span_ok line column end_line end_column) as H.
  pose proof (clamp_keeps_start line column end_line end_column) as K.
  destruct (report_clamp line column end_line end_column) as [[[l c] el] ec]. cbn in H. intuition.
Qed.
Print Assumptions report_clamp_valid.

Theorem report_clamp_identity_on_valid : forall line c el ec,
  el >= line -> (el = line -> ec > c) -> report_clamp line (Some c) (Some el) (Some ec) = (line, c, el, ec).
Proof. exact clamp_identity_on_valid. Qed.
Print Assumptions report_clamp_identity_on_valid.

Theorem report_clamp_printed_end_not_before_start : forall line column end_line end_column,
  let '(l, c, el, ec) := report_clamp line column end_line end_column in el > l \/ (el = l /\ ec >= c + 1).
Proof. exact clamp_printed_end_not_before_start. Qed.
Print Assumptions report_clamp_printed_end_not_before_start.

(* (b1) the native reader on the serializer's stream, for EVERY tree of the fragment (no side condition, unbounded size):
   what it yields is the function nconvert of the tree -- positions by the reader's own rules *)
Theorem native_reader_correct : forall t : stmts, read_native (emit t) = Some (nconvert t).
Proof. exact read_native_emit. Qed.
Print Assumptions native_reader_correct.

(* (b2) on the well-formed trees this IS the fastparse result, positions included *)
Theorem native_equals_fastparse_on_wf : forall t : stmts, wf_ss t -> nconvert t = convert t.
Proof. exact nconvert_eq_convert. Qed.
Print Assumptions native_equals_fastparse_on_wf.

Theorem parsers_agree_on_fragment : forall t : stmts, wf_ss t -> read_native (emit t) = Some (convert t).
Proof. intros t Hw. rewrite read_native_emit, (nconvert_eq_convert t Hw). reflexivity. Qed.
Print Assumptions parsers_agree_on_fragment.

(* (b3) for EVERY tree of the fragment -- parenthesised operands, n-ary and/or, elif chains, *args/**kwargs, lambda,
   del a, b, except .. as name, annotated assignments included -- the two converters yield the same tree up to positions;
   the only side condition: no keyword-only / star parameter is called `__x` (ok_ss; there the pos_only flag differs) *)
Theorem parsers_agree_up_to_positions : forall t : stmts, ok_ss t ->
  exists l, read_native (emit t) = Some l /\ map er_s l = map er_s (convert t).
Proof. intros t H. exists (nconvert t). split; [apply read_native_emit | apply same_shape; exact H]. Qed.
Print Assumptions parsers_agree_up_to_positions.

(* the hypotheses are satisfiable:
   @d
   def f(a, b=1):
       x += 1
       with g(a) as h:
           del h[0]
       try:
           import m.n as o
       except (E, F):
           raise G from None_
       finally:
           assert a, {b: [*c], **d}[1:2]                                                                         *)
Definition example_tree : stmts :=
  (SCons (SDef (P 2 0 11 37) "f" (PCons (P 2 6 2 7) (P 2 6 2 7) "a" KPos ONone (PCons (P 2 9 2 10) (P 2 9 2 10) "b" KPos (OSome (EInt (P 2 11 2 12) 1)) PNil))
    (ECons (EName (P 1 1 1 2) "d") ENil) (P 1 1 1 2)
    (SAugAssign (P 3 4 3 10) Add (EName (P 3 4 3 5) "x") (EInt (P 3 9 3 10) 1))
    (SCons (SWith (P 4 4 5 16) (WCons (ECall (P 4 9 4 13) (EName (P 4 9 4 10) "g") (ACons APos (EName (P 4 11 4 12) "a") ANil)) (OSome (EName (P 4 17 4 18) "h")) WNil)
              (SDel (P 5 8 5 16) (ESubscript (P 5 12 5 16) (EName (P 5 12 5 13) "h") (EInt (P 5 14 5 15) 0)) ENil) SNil)
    (SCons (STry (P 6 4 11 37) (SImport (P 7 8 7 23) [("m.n"%string, Some "o"%string)]) SNil
              (HCons (P 8 4 9 26) (OSome (ETuple (P 8 11 8 17) (ECons (EName (P 8 12 8 13) "E") (ECons (EName (P 8 15 8 16) "F") ENil)))) None
                 (SRaise (P 9 8 9 26) (OSome (EName (P 9 14 9 15) "G")) (OSome (EName (P 9 21 9 26) "None_"))) SNil HNil)
              SNil
              (SCons (SAssert (P 11 8 11 37) (EName (P 11 15 11 16) "a")
                 (OSome (ESubscript (P 11 18 11 37)
                    (EDict (P 11 18 11 32) (DCons (OSome (EName (P 11 19 11 20) "b")) (EList (P 11 22 11 26) (ECons (EStar (P 11 23 11 25) (EName (P 11 24 11 25) "c")) ENil))
                                            (DCons ONone (EName (P 11 30 11 31) "d") DNil)))
                    (ESlice (P 11 33 11 36) (OSome (EInt (P 11 33 11 34) 1)) (OSome (EInt (P 11 35 11 36) 2)) ONone)))) SNil)) SNil))) SNil).
(* ... and  x = [f(i, None) for i in y if i is not None if True]
            z = {k: ... for k, v in (m for m in n)}                     (constants, Ellipsis, comprehensions) *)
Definition example_comprehension : stmts :=
  SCons (SAssign (P 1 0 1 52) (ECons (EName (P 1 0 1 1) "x") ENil)
    (EComp (P 1 4 1 52) CList
       (ECall (P 1 5 1 15) (EName (P 1 5 1 6) "f") (ACons APos (EName (P 1 7 1 8) "i") (ACons APos (EConst (P 1 10 1 14) CNone) ANil)))
       (GCons (EName (P 1 20 1 21) "i") (EName (P 1 25 1 26) "y")
          (ECons (ECompare (P 1 30 1 43) (EName (P 1 30 1 31) "i") (CCons IsNot (EConst (P 1 39 1 43) CNone) CNil))
          (ECons (EConst (P 1 47 1 51) CTrue) ENil)) GNil)))
  (SCons (SAssign (P 2 0 2 39) (ECons (EName (P 2 0 2 1) "z") ENil)
    (EDictComp (P 2 4 2 39) (EName (P 2 5 2 6) "k") (EEllipsis (P 2 8 2 11))
       (GCons (ETuple (P 2 16 2 20) (ECons (EName (P 2 16 2 17) "k") (ECons (EName (P 2 19 2 20) "v") ENil)))
          (EComp (P 2 24 2 38) CGen (EName (P 2 25 2 26) "m") (GCons (EName (P 2 31 2 32) "m") (EName (P 2 36 2 37) "n") ENil GNil))
          ENil GNil))) SNil).
Example example_comprehension_wf : wf_ss example_comprehension /\ ok_ss example_comprehension.
Proof. cbn. intuition. Qed.
Example example_comprehension_agrees : read_native (emit example_comprehension) = Some (convert example_comprehension).
Proof. vm_compute. reflexivity. Qed.
Example example_tree_wf : wf_ss example_tree.
Proof. cbn. intuition. Qed.
Example witnesses_ok : ok_ss example_tree.
Proof. cbn. intuition. Qed.
Example example_tree_agrees : read_native (emit example_tree) = Some (convert example_tree).
Proof. vm_compute. reflexivity. Qed.
Example clamp_example : report_clamp 3 (Some 7) None None = (3, 7, 3, 8) /\ report_clamp 3 None (Some 1) (Some 0) = (3, -1, 3, 0).
Proof. split; reflexivity. Qed.

(* (b) at full strength (all trees of the fragment type) is REFUTED by the faithful model; each witness is the CPython
   tree of a real program on which the real converters differ in the same way (checked in stage C / S):
   1. `(a) + b`              OpExpr starts at the parenthesis (fastparse) / at the operand (nativeparse: no location in the stream)
   2. `if a: b  elif c: d`   nested IfStmt/Block start at `elif` (fastparse) / at the elif expression (nativeparse)
   3. `a and b and c`        the inner OpExpr spans the whole BoolOp (fastparse group) / from b to c (nativeparse)
   4. `def f( *a ): pass`    the Argument/Var of the star parameter start at the name (fastparse) / at the star (nativeparse)
   5. `def f( *, __x ): pass`  fastparse makes the keyword-only parameter `__x` positional-only; the serializer does not.
                             Observable: `f(__x=1)` is "Unexpected keyword argument" under the default parser only.
   6. `x = lambda a: a`      LambdaExpr, its Block and its ReturnStmt have no end position under fastparse
   7. `del a, b`             the synthetic TupleExpr has line only (column -1, no end) under fastparse
   8. `except E as e`        the NameExpr e is placed at the handler (fastparse) / at the name (nativeparse)
   9. `@(d) def f`           the Decorator starts at d (fastparse) / at the parenthesis (nativeparse)                     *)
Definition witness_paren : stmts :=
  SCons (SExpr (P 1 0 1 7) (EBin (P 1 0 1 7) Add (EName (P 1 1 1 2) "a") (EName (P 1 6 1 7) "b"))) SNil.
Definition witness_elif : stmts :=
  SCons (SIf (P 1 0 4 5) (EName (P 1 3 1 4) "a") (SExpr (P 2 4 2 5) (EName (P 2 4 2 5) "b")) SNil
    (LCons (P 3 0 4 5) (EName (P 3 5 3 6) "c") (SExpr (P 4 4 4 5) (EName (P 4 4 4 5) "d")) SNil LNil) SNil) SNil.
Definition witness_bool3 : stmts :=
  SCons (SExpr (P 1 0 1 13) (EBoolOp (P 1 0 1 13) And (EName (P 1 0 1 1) "a") (EName (P 1 6 1 7) "b")
    (ECons (EName (P 1 12 1 13) "c") ENil))) SNil.
Definition witness_star_param : stmts :=
  SCons (SDef (P 1 0 2 8) "f" (PCons (P 1 7 1 8) (P 1 6 1 8) "a" KStar ONone PNil) ENil (P 1 0 2 8) (SPass (P 2 4 2 8)) SNil) SNil.
Definition witness_kwonly_dunder : stmts :=
  SCons (SDef (P 1 0 2 8) "f" (PCons (P 1 9 1 12) (P 1 9 1 12) "__x" KKwOnly ONone PNil) ENil (P 1 0 2 8) (SPass (P 2 4 2 8)) SNil) SNil.
Definition witness_lambda : stmts :=
  SCons (SAssign (P 1 0 1 15) (ECons (EName (P 1 0 1 1) "x") ENil)
    (ELambda (P 1 4 1 15) (PCons (P 1 11 1 12) (P 1 11 1 12) "a" KPos ONone PNil) (EName (P 1 14 1 15) "a"))) SNil.
Definition witness_del2 : stmts :=
  SCons (SDel (P 1 0 1 8) (EName (P 1 4 1 5) "a") (ECons (EName (P 1 7 1 8) "b") ENil)) SNil.
Definition witness_except_as : stmts :=
  SCons (STry (P 1 0 4 5) (SExpr (P 2 4 2 5) (EName (P 2 4 2 5) "a")) SNil
    (HCons (P 3 0 4 5) (OSome (EName (P 3 7 3 8) "E")) (Some ("e"%string, P 3 12 3 13)) (SExpr (P 4 4 4 5) (EName (P 4 4 4 5) "b")) SNil HNil) SNil SNil) SNil.
Definition witness_paren_decorator : stmts :=
  SCons (SDef (P 2 0 3 8) "f" PNil (ECons (EName (P 1 2 1 3) "d") ENil) (P 1 1 1 3) (SPass (P 3 4 3 8)) SNil) SNil.

(* 10. `x: t[A | B, None]`  declared types: fastparse gives every node the statement's line, no end (except subscripts)
                             and no column to None; nativeparse gives the real extent *)
Definition witness_annotation : stmts :=
  SCons (SAnnAssign (P 1 0 1 17) (EName (P 1 0 1 1) "x")
    (TySub (P 1 3 1 17) "t" true (TCons (TyUnion (P 1 5 1 10) (TyName (P 1 5 1 6) "A") (TyName (P 1 9 1 10) "B")) (TCons (TyNone (P 1 12 1 16)) TNil))) ONone) SNil.

Ltac refute w := exists w; vm_compute; discriminate.
Theorem parsers_agree_all_trees_refuted_annotation : exists t, read_native (emit t) <> Some (convert t).
Proof. refute witness_annotation. Qed.
Print Assumptions parsers_agree_all_trees_refuted_annotation.
Example witness_annotation_values :
  read_native (emit witness_annotation) =
    Some [MAnnAssign (P 1 0 1 17) [MName (P 1 0 1 1) "x"] (MTemp (P 1 0 1 17))
            (MUnbound (P 1 3 1 17) "t" [MUnion (P 1 5 1 10) [MUnbound (P 1 5 1 6) "A" [] false; MUnbound (P 1 9 1 10) "B" [] false];
                                        MUnbound (P 1 12 1 16) "None" [] false] false) true]
  /\ convert witness_annotation =
    [MAnnAssign (P 1 0 1 17) [MName (P 1 0 1 1) "x"] (MTemp (P 1 0 1 17))
            (MUnbound (P 1 3 1 17) "t" [MUnion (PN 1 5) [MUnbound (PN 1 5) "A" [] false; MUnbound (PN 1 9) "B" [] false];
                                        MUnbound (PN 1 (-1)) "None" [] false] false) true].
Proof. split; vm_compute; reflexivity. Qed.
Theorem parsers_agree_all_trees_refuted_paren : exists t, read_native (emit t) <> Some (convert t).
Proof. refute witness_paren. Qed.
Print Assumptions parsers_agree_all_trees_refuted_paren.
Theorem parsers_agree_all_trees_refuted_elif : exists t, read_native (emit t) <> Some (convert t).
Proof. refute witness_elif. Qed.
Print Assumptions parsers_agree_all_trees_refuted_elif.
Theorem parsers_agree_all_trees_refuted_bool3 : exists t, read_native (emit t) <> Some (convert t).
Proof. refute witness_bool3. Qed.
Print Assumptions parsers_agree_all_trees_refuted_bool3.
Theorem parsers_agree_all_trees_refuted_star_param : exists t, read_native (emit t) <> Some (convert t).
Proof. refute witness_star_param. Qed.
Print Assumptions parsers_agree_all_trees_refuted_star_param.
Theorem parsers_agree_all_trees_refuted_lambda : exists t, read_native (emit t) <> Some (convert t).
Proof. refute witness_lambda. Qed.
Print Assumptions parsers_agree_all_trees_refuted_lambda.
Theorem parsers_agree_all_trees_refuted_del2 : exists t, read_native (emit t) <> Some (convert t).
Proof. refute witness_del2. Qed.
Print Assumptions parsers_agree_all_trees_refuted_del2.
Theorem parsers_agree_all_trees_refuted_except_as : exists t, read_native (emit t) <> Some (convert t).
Proof. refute witness_except_as. Qed.
Print Assumptions parsers_agree_all_trees_refuted_except_as.
Theorem parsers_agree_all_trees_refuted_paren_decorator : exists t, read_native (emit t) <> Some (convert t).
Proof. refute witness_paren_decorator. Qed.
Print Assumptions parsers_agree_all_trees_refuted_paren_decorator.

Theorem parsers_disagree_kwonly_dunder_pos_only :
  read_native (emit witness_kwonly_dunder) =
    Some [MFuncDef (P 1 0 2 8) "f" [MArg (P 1 9 1 12) (P 1 9 1 12) "__x" ARG_NAMED None false] (MBlock (P 2 4 2 8) false [MPass (P 2 4 2 8)])]
  /\ convert witness_kwonly_dunder =
    [MFuncDef (P 1 0 2 8) "f" [MArg (P 1 9 1 12) (P 1 9 1 12) "__x" ARG_NAMED None true] (MBlock (P 2 4 2 8) false [MPass (P 2 4 2 8)])].
Proof. split; vm_compute; reflexivity. Qed.
Print Assumptions parsers_disagree_kwonly_dunder_pos_only.

(* in the elif case the reader still succeeds and differs ONLY in the start column of the nested IfStmt / Block *)
Example witness_elif_values :
  read_native (emit witness_elif) =
    Some [MIf (P 1 0 4 5) (MName (P 1 3 1 4) "a") (MBlock (P 2 4 2 5) false [MExprStmt (P 2 4 2 5) (MName (P 2 4 2 5) "b")])
      (Some (MBlock (P 3 5 4 5) false [MIf (P 3 5 4 5) (MName (P 3 5 3 6) "c")
         (MBlock (P 4 4 4 5) false [MExprStmt (P 4 4 4 5) (MName (P 4 4 4 5) "d")]) None]))]
  /\ convert witness_elif =
    [MIf (P 1 0 4 5) (MName (P 1 3 1 4) "a") (MBlock (P 2 4 2 5) false [MExprStmt (P 2 4 2 5) (MName (P 2 4 2 5) "b")])
      (Some (MBlock (P 3 0 4 5) false [MIf (P 3 0 4 5) (MName (P 3 5 3 6) "c")
         (MBlock (P 4 4 4 5) false [MExprStmt (P 4 4 4 5) (MName (P 4 4 4 5) "d")]) None]))].
Proof. split; vm_compute; reflexivity. Qed.
