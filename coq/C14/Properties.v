(* C14 -- theorems (each followed by Print Assumptions).  PARTIAL: see Statement.v / notes/C14.md. *)
From Coq Require Import ZArith List String Bool.
From C14 Require Import Model Proofs ProofsStmt ProofsClamp Statement.
From Gen Require Import Clamp.
Import ListNotations.
Open Scope Z_scope.

(* (a) the span stored by Errors.report: for ALL (line, column, end_line, end_column), None included *)
Theorem report_clamp_valid : forall line column end_line end_column,
  let '(l, c, el, ec) := report_clamp line column end_line end_column in
  l = line /\ el >= l /\ (el = l -> ec > c).
Proof.
  intros. pose proof (clamp_span_ok line column end_line end_column) as H.
  pose proof (clamp_keeps_start line column end_line end_column) as K.
  destruct (report_clamp line column end_line end_column) as [[[l c] el] ec]. cbn in H. intuition.
Qed.
Print Assumptions report_clamp_valid.

Theorem report_clamp_identity_on_valid : forall line c el ec,
  el >= line -> (el = line -> ec > c) -> report_clamp line (Some c) (Some el) (Some ec) = (line, c, el, ec).
Proof. exact clamp_identity_on_valid. Qed.
Print Assumptions report_clamp_identity_on_valid.

Theorem report_clamp_printed_end_not_before_start : forall line column end_line end_column,
  let '(l, c, el, ec) := report_clamp line column end_line end_column in el > l \/ (el = l /\ ec >= c + 1).
Proof. exact clamp_printed_end_not_before_start. Qed.
Print Assumptions report_clamp_printed_end_not_before_start.

(* (b) the two converters agree, positions included, on every well-formed tree of the fragment (unbounded size) *)
Theorem parsers_agree_on_fragment : forall t : stmts, wf_ss t -> read_native (emit t) = Some (convert t).
Proof. exact read_native_emit. Qed.
Print Assumptions parsers_agree_on_fragment.

(* the hypotheses are satisfiable: `x = f(a, *b, k=1, **d).y ; while x < 1 <= y: pass  else: return not x` *)
Definition example_tree : stmts :=
  (SCons (SAssign (P 1 0 1 24) (ECons (EName (P 1 0 1 1) "x") ENil) (EAttr (P 1 4 1 24) (ECall (P 1 4 1 22) (EName (P 1 4 1 5) "f")
    (ACons APos (EName (P 1 6 1 7) "a") (ACons AStar (EName (P 1 10 1 11) "b") (ACons (ANamed "k") (EInt (P 1 15 1 16) 1)
    (ACons ADStar (EName (P 1 20 1 21) "d") ANil))))) "y"))
  (SCons (SWhile (P 2 0 5 16) (ECompare (P 2 6 2 16) (EName (P 2 6 2 7) "x") (CCons Lt (EInt (P 2 10 2 11) 1) (CCons LtE (EName (P 2 15 2 16) "y") CNil)))
    (SPass (P 3 4 3 8)) SNil (SCons (SReturn (P 5 4 5 16) (Some (EUnary (P 5 11 5 16) Not (EName (P 5 15 5 16) "x")))) SNil)) SNil)).
Example example_tree_wf : wf_ss example_tree.
Proof. cbn. intuition. Qed.
Example example_tree_agrees : read_native (emit example_tree) = Some (convert example_tree).
Proof. vm_compute. reflexivity. Qed.
(* ... and `def f(a, b=1, /, c=g(2), *, k, j=3): return a` (all parameter kinds except *args / **kwargs) *)
Definition example_def : stmts :=
  (SCons (SDef (P 1 0 2 12) "f" (PCons (P 1 6 1 7) (P 1 6 1 7) "a" KPosOnly None (PCons (P 1 9 1 10) (P 1 9 1 10) "b" KPosOnly (Some (EInt (P 1 11 1 12) 1))
    (PCons (P 1 17 1 18) (P 1 17 1 18) "c" KPos (Some (ECall (P 1 19 1 23) (EName (P 1 19 1 20) "g") (ACons APos (EInt (P 1 21 1 22) 2) ANil)))
    (PCons (P 1 28 1 29) (P 1 28 1 29) "k" KKwOnly None (PCons (P 1 31 1 32) (P 1 31 1 32) "j" KKwOnly (Some (EInt (P 1 33 1 34) 3)) PNil)))))
    (SReturn (P 2 4 2 12) (Some (EName (P 2 11 2 12) "a"))) SNil) SNil).
Example example_def_wf : wf_ss example_def.
Proof. cbn. intuition. Qed.
(* ... and `@dec  class A(B, metaclass=M): pass` *)
Definition example_class : stmts :=
  SCons (SClass (P 2 0 3 8) "A" (ECons (EName (P 2 8 2 9) "B") ENil) (KCons "metaclass" (EName (P 2 21 2 22) "M") KNil)
           (ECons (EName (P 1 1 1 4) "dec") ENil) (SPass (P 3 4 3 8)) SNil) SNil.
Example example_class_wf : wf_ss example_class.
Proof. cbn. intuition. Qed.
Example example_class_value :
  read_native (emit example_class) =
    Some [MClassDef (P 2 0 3 8) "A" (MBlock (P 3 4 3 8) false [MPass (P 3 4 3 8)]) [MName (P 2 8 2 9) "B"]
            (Some (MName (P 2 21 2 22) "M")) [("metaclass"%string, MName (P 2 21 2 22) "M")] [MName (P 1 1 1 4) "dec"]].
Proof. vm_compute. reflexivity. Qed.
Example clamp_example : report_clamp 3 (Some 7) None None = (3, 7, 3, 8) /\ report_clamp 3 None (Some 1) (Some 0) = (3, -1, 3, 0).
Proof. split; reflexivity. Qed.

(* (b) at full strength (all trees of the fragment type) is REFUTED by the faithful model; each witness is the CPython
   tree of a real program on which the real converters differ in the same way (checked in stage C / S):
   1. `(a) + b`        OpExpr starts at the parenthesis (fastparse) / at the operand (nativeparse: no location in the stream)
   2. `if a: b  elif c: d`   nested IfStmt/Block start at `elif` (fastparse) / at the elif expression (nativeparse)
   3. `a and b and c`  the inner OpExpr spans the whole BoolOp (fastparse group) / from b to c (nativeparse)            *)
Definition witness_paren : stmts :=
  SCons (SExpr (P 1 0 1 7) (EBin (P 1 0 1 7) Add (EName (P 1 1 1 2) "a") (EName (P 1 6 1 7) "b"))) SNil.
Definition witness_elif : stmts :=
  SCons (SIf (P 1 0 4 5) (EName (P 1 3 1 4) "a") (SExpr (P 2 4 2 5) (EName (P 2 4 2 5) "b")) SNil
    (LCons (P 3 0 4 5) (EName (P 3 5 3 6) "c") (SExpr (P 4 4 4 5) (EName (P 4 4 4 5) "d")) SNil LNil) SNil) SNil.
Definition witness_bool3 : stmts :=
  SCons (SExpr (P 1 0 1 13) (EBoolOp (P 1 0 1 13) And (EName (P 1 0 1 1) "a") (EName (P 1 6 1 7) "b")
    (ECons (EName (P 1 12 1 13) "c") ENil))) SNil.

(* 4. `def f( *a ): pass`      the Argument/Var of the star parameter start at the name (fastparse: ast.arg) / at the star (nativeparse)
   5. `def f( *, __x ): pass`   fastparse makes the keyword-only parameter `__x` positional-only (argument_elide_name on
                              every parameter); the serializer applies the rule to ordinary positional parameters only.
                              Observable: `f(__x=1)` is "Unexpected keyword argument" under the default parser only. *)
Definition witness_star_param : stmts :=
  SCons (SDef (P 1 0 2 8) "f" (PCons (P 1 7 1 8) (P 1 6 1 8) "a" KStar None PNil) (SPass (P 2 4 2 8)) SNil) SNil.
Definition witness_kwonly_dunder : stmts :=
  SCons (SDef (P 1 0 2 8) "f" (PCons (P 1 9 1 12) (P 1 9 1 12) "__x" KKwOnly None PNil) (SPass (P 2 4 2 8)) SNil) SNil.

Theorem parsers_agree_all_trees_refuted_star_param : exists t, read_native (emit t) <> Some (convert t).
Proof. exists witness_star_param. vm_compute. discriminate. Qed.
Print Assumptions parsers_agree_all_trees_refuted_star_param.
Theorem parsers_disagree_kwonly_dunder_pos_only :
  read_native (emit witness_kwonly_dunder) =
    Some [MFuncDef (P 1 0 2 8) "f" [MArg (P 1 9 1 12) (P 1 9 1 12) "__x" ARG_NAMED None false] (MBlock (P 2 4 2 8) false [MPass (P 2 4 2 8)])]
  /\ convert witness_kwonly_dunder =
    [MFuncDef (P 1 0 2 8) "f" [MArg (P 1 9 1 12) (P 1 9 1 12) "__x" ARG_NAMED None true] (MBlock (P 2 4 2 8) false [MPass (P 2 4 2 8)])].
Proof. split; vm_compute; reflexivity. Qed.
Print Assumptions parsers_disagree_kwonly_dunder_pos_only.

Theorem parsers_agree_all_trees_refuted_paren : exists t, read_native (emit t) <> Some (convert t).
Proof. exists witness_paren. vm_compute. discriminate. Qed.
Print Assumptions parsers_agree_all_trees_refuted_paren.
Theorem parsers_agree_all_trees_refuted_elif : exists t, read_native (emit t) <> Some (convert t).
Proof. exists witness_elif. vm_compute. discriminate. Qed.
Print Assumptions parsers_agree_all_trees_refuted_elif.
Theorem parsers_agree_all_trees_refuted_bool3 : exists t, read_native (emit t) <> Some (convert t).
Proof. exists witness_bool3. vm_compute. discriminate. Qed.
Print Assumptions parsers_agree_all_trees_refuted_bool3.

(* ... and in each of the three cases the reader still succeeds and differs ONLY in start positions *)
Example witness_elif_values :
  read_native (emit witness_elif) =
    Some [MIf (P 1 0 4 5) (MName (P 1 3 1 4) "a") (MBlock (P 2 4 2 5) false [MExprStmt (P 2 4 2 5) (MName (P 2 4 2 5) "b")])
      (Some (MBlock (P 3 5 4 5) false [MIf (P 3 5 4 5) (MName (P 3 5 3 6) "c")
         (MBlock (P 4 4 4 5) false [MExprStmt (P 4 4 4 5) (MName (P 4 4 4 5) "d")]) None]))]
  /\ convert witness_elif =
    [MIf (P 1 0 4 5) (MName (P 1 3 1 4) "a") (MBlock (P 2 4 2 5) false [MExprStmt (P 2 4 2 5) (MName (P 2 4 2 5) "b")])
      (Some (MBlock (P 3 0 4 5) false [MIf (P 3 0 4 5) (MName (P 3 5 3 6) "c")
         (MBlock (P 4 4 4 5) false [MExprStmt (P 4 4 4 5) (MName (P 4 4 4 5) "d")]) None]))].
Proof. split; vm_compute; reflexivity. Qed.
