(* C14 (b): enough fuel -- the emitted stream is at least as long as the tree is big; file-level theorem. *)
From Coq Require Import ZArith List String Bool Lia Arith.
From Gen Require Import Magic.
From C14 Require Import Model Proofs ProofsStmt.
Import ListNotations.
Open Scope Z_scope.

Local Notation len := (@List.length tok).

Lemma len_kinds_k : forall a k, (len k <= len (kinds_k a k))%nat.
Proof. induction a; intros; cbn [kinds_k List.length]; [lia|]. specialize (IHa k0). lia. Qed.
Lemma len_names_k : forall a k, (len k <= len (names_k a k))%nat.
Proof. induction a; intros; cbn [names_k]; [lia|]. specialize (IHa k0). destruct (name_of k); cbn [List.length]; lia. Qed.
Lemma len_cmpidx_k : forall c k, (len k <= len (cmpidx_k c k))%nat.
Proof. induction c; intros; cbn [cmpidx_k List.length]; [lia|]. specialize (IHc k). lia. Qed.
Lemma len_strs_k : forall l k, (len k <= len (strs_k l k))%nat.
Proof. induction l; intros; cbn [strs_k str_k List.length]; [lia|]. specialize (IHl k). lia. Qed.
Lemma len_aliases_k : forall l k, (len k <= len (aliases_k l k))%nat.
Proof. induction l as [|[n [a|]] l IH]; intros; cbn [aliases_k str_k List.length]; [lia| |]; specialize (IH k); lia. Qed.

Fixpoint size_gt (g : gens) : nat := match g with GNil => 0 | GCons t _ _ r => size_e t + size_gt r end%nat.
Fixpoint size_gi (g : gens) : nat := match g with GNil => 0 | GCons _ i _ r => size_e i + size_gi r end%nat.
Fixpoint size_gc (g : gens) : nat := match g with GNil => 0 | GCons _ _ c r => size_es c + size_gc r end%nat.
Lemma size_gens_split : forall g, size_gens g = (size_gt g + size_gi g + size_gc g)%nat.
Proof. induction g; cbn [size_gens size_gt size_gi size_gc]; lia. Qed.
Lemma len_gasync_k : forall g k, (len k <= len (gasync_k g k))%nat.
Proof. induction g as [|t i c r IH]; intros; cbn [gasync_k List.length]; [lia|]. specialize (IH k). lia. Qed.

(* replace, outside-in, every `len (f x K)` of the goal by a fresh variable constrained by the matching lemma *)
Ltac peel :=
  repeat (cbn [List.length];
    match goal with
    | H : forall k : list tok, (_ + len k <= len (?f ?x k))%nat |- context [len (?f ?x ?K)] =>
        generalize (H K); generalize (len (f x K)); intro
    | H : forall (top : bool) (k : list tok), (_ + len k <= len (?f top ?x k))%nat |- context [len (?f ?t ?x ?K)] =>
        generalize (H t K); generalize (len (f t x K)); intro
    | H : forall (x : _) (k : list tok), (_ + len k <= len (?f x k))%nat |- context [len (?f ?y ?K)] =>
        generalize (H y K); generalize (len (f y K)); intro
    | |- context [len (kinds_k ?a ?K)] => generalize (len_kinds_k a K); generalize (len (kinds_k a K)); intro
    | |- context [len (names_k ?a ?K)] => generalize (len_names_k a K); generalize (len (names_k a K)); intro
    | |- context [len (cmpidx_k ?a ?K)] => generalize (len_cmpidx_k a K); generalize (len (cmpidx_k a K)); intro
    | |- context [len (strs_k ?a ?K)] => generalize (len_strs_k a K); generalize (len (strs_k a K)); intro
    | |- context [len (aliases_k ?a ?K)] => generalize (len_aliases_k a K); generalize (len (aliases_k a K)); intro
    | |- context [len (gasync_k ?a ?K)] => generalize (len_gasync_k a K); generalize (len (gasync_k a K)); intro
    end);
  cbn [List.length]; intros; lia.

Fixpoint size_dkeys (d : ditems) : nat := match d with DNil => 0 | DCons k _ r => size_oe k + size_dkeys r end%nat.
Fixpoint size_dvals (d : ditems) : nat := match d with DNil => 0 | DCons _ v r => size_e v + size_dvals r end%nat.
Lemma size_ditems_split : forall d, size_ditems d = (size_dkeys d + size_dvals d)%nat.
Proof. induction d; cbn [size_ditems size_dkeys size_dvals]; lia. Qed.

Ltac split_IH :=
  repeat match goal with
  | H : forall k : list tok, _ /\ _ |- _ =>
      let A := fresh "HA" in let B := fresh "HB" in
      pose proof (fun k => proj1 (H k)) as A; pose proof (fun k => proj2 (H k)) as B; cbv beta in A, B; clear H
  end.

Lemma emit_e_length_all :
  (forall e k, (size_e e + len k <= len (emit_e e k))%nat) /\
  (forall es k, (size_es es + len k <= len (emit_es es k))%nat) /\
  (forall a k, (size_args a + len k <= len (emit_args a k))%nat) /\
  (forall c k, (size_cmps c + len k <= len (emit_cmps c k))%nat) /\
  (forall o k, (size_oe o + len k <= len (emit_oe o k))%nat) /\
  (forall d k, (size_dkeys d + len k <= len (emit_dkeys d k))%nat /\ (size_dvals d + len k <= len (emit_dvals d k))%nat) /\
  (forall ps k, (size_params ps + len k <= len (emit_params ps k))%nat) /\
  (forall g k, (size_gt g + len k <= len (emit_gtargets g k))%nat /\ (size_gi g + len k <= len (emit_giters g k))%nat /\
               (size_gc g + len k <= len (emit_gifs g k))%nat).
Proof.
  apply expr_all_mut; intros; split_IH; repeat split;
    cbn [emit_e emit_es emit_args emit_cmps emit_oe emit_dkeys emit_dvals emit_params emit_gtargets emit_giters emit_gifs
         size_e size_es size_args size_cmps size_oe size_dkeys size_dvals size_params size_gt size_gi size_gc];
    rewrite ?size_ditems_split, ?size_gens_split; unfold str_k, int_k, loc_k, nat_k;
    try match goal with |- context [match ?c with CList => _ | CSet => _ | CGen => _ end] => destruct c end; peel.
Qed.

Lemma emit_ty_length_all :
  (forall t k, (size_ty t + len k <= len (emit_ty t k))%nat) /\
  (forall a k, (size_tys a + len k <= len (emit_tys a k))%nat).
Proof.
  apply ty_all_mut; intros; cbn [emit_ty emit_tys size_ty size_tys]; unfold str_k, loc_k, nat_k; peel.
Qed.
Definition Hty := proj1 emit_ty_length_all.

Definition He := proj1 emit_e_length_all.
Definition Hes := proj1 (proj2 emit_e_length_all).
Definition Hoe := proj1 (proj2 (proj2 (proj2 (proj2 emit_e_length_all)))).
Definition Hps := proj1 (proj2 (proj2 (proj2 (proj2 (proj2 (proj2 emit_e_length_all)))))).

Ltac with_expr_lemmas := pose proof He as He'; pose proof Hes as Hes'; pose proof Hoe as Hoe'; pose proof Hps as Hps'; pose proof Hty as Hty'.

Lemma len_emit_ckws : forall kw k, (size_ckws kw + len k <= len (emit_ckws kw k))%nat.
Proof. with_expr_lemmas. induction kw as [|n e r IH]; intros; cbn [emit_ckws size_ckws]; unfold str_k; peel. Qed.
Lemma len_emit_witems : forall w k, (size_witems w + len k <= len (emit_witems w k))%nat.
Proof. with_expr_lemmas. induction w as [|c t r IH]; intros; cbn [emit_witems size_witems]; peel. Qed.

Fixpoint size_htypes (hs : handlers) : nat := match hs with HNil => 0 | HCons _ ty _ _ _ r => size_oe ty + size_htypes r end%nat.
Fixpoint size_hbodies (hs : handlers) : nat :=
  match hs with HNil => 0 | HCons _ _ _ b0 bs r => 1 + size_s b0 + size_ss bs + size_hbodies r end%nat.
Lemma size_hs_split : forall hs, size_hs hs = (size_htypes hs + size_hbodies hs)%nat.
Proof. induction hs; cbn [size_hs size_htypes size_hbodies]; lia. Qed.
Lemma len_emit_htypes : forall hs k, (size_htypes hs + len k <= len (emit_htypes hs k))%nat.
Proof. with_expr_lemmas. induction hs as [|hp ty nm b0 bs r IH]; intros; cbn [emit_htypes size_htypes]; peel. Qed.
Lemma len_emit_hvars : forall hs k, (0 + len k <= len (emit_hvars hs k))%nat.
Proof.
  induction hs as [|hp ty nm b0 bs r IH]; intros; cbn [emit_hvars]; [lia|].
  destruct nm as [[n np]|]; unfold str_k, loc_k; peel.
Qed.

Lemma emit_s_length_all :
  (forall s top k, (size_s s + len k <= len (emit_s top s k))%nat) /\
  (forall ss top k, (size_ss ss + len k <= len (emit_ss top ss k))%nat) /\
  (forall el top k, (size_el el + len k <= len (emit_elifs top el k))%nat) /\
  (forall hs top k, (size_hbodies hs + len k <= len (emit_hbodies top hs k))%nat).
Proof.
  with_expr_lemmas.
  pose proof len_emit_ckws as Hck. pose proof len_emit_witems as Hw. pose proof len_emit_htypes as Hht. pose proof len_emit_hvars as Hhv.
  assert (Hob : forall o, (forall top k, (size_ss o + len k <= len (emit_ss top o k))%nat) ->
                forall top k, (size_ss o + len k <= len (emit_oblk top o k))%nat).
  { intros o Ho top k. destruct o as [|s ss]; cbn [emit_oblk size_ss]; [cbn [List.length]; lia|].
    specialize (Ho top (T END_TAG :: k)). cbn [emit_ss size_ss] in Ho. unfold blk. cbn [List.length] in *. lia. }
  apply stmt_all_mut; intros;
    cbn [emit_s emit_ss emit_elifs emit_hbodies size_s size_ss size_el size_hbodies];
    rewrite ?size_hs_split;
    try match goal with |- context [match ?d with ENil => _ | ECons _ _ => _ end] => destruct d end;
    try match goal with |- context [match ?d with ONone => _ | OSome _ => _ end] => destruct d end;
    cbv zeta; cbn [size_es emit_es size_oe];
    repeat match goal with
    | H : forall (top : bool) (k : list tok), (size_ss ?o + len k <= len (emit_ss top ?o k))%nat |- context [emit_oblk _ ?o _] =>
        lazymatch goal with
        | _ : forall (top : bool) (k : list tok), (size_ss o + len k <= len (emit_oblk top o k))%nat |- _ => fail
        | _ => pose proof (Hob o H)
        end
    end;
    unfold flags_k, str_k, int_k, loc_k, nat_k, blk; peel.
Qed.

(* ---------------------------------------------------------------- the file level *)
Theorem read_native_emit : forall ss, read_native (emit ss) = Some (nconvert ss).
Proof.
  intros ss. unfold read_native, emit, read_file, int_k, nconvert. rewrite Nat2Z.id.
  destruct read_stmt_ok_all as [_ [Hss _]].
  rewrite (Hss ss true).
  - reflexivity.
  - cbn [List.length]. pose proof (proj1 (proj2 emit_s_length_all) ss true []) as HL. cbn [List.length] in HL. lia.
Qed.
