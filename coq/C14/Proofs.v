(* C14 (b): the native reader applied to the emitted stream yields the fastparse conversion, for every well-formed
   fragment tree (induction on the tree; no bound on its size). *)
From Coq Require Import ZArith List String Bool Lia Arith.
From C14 Require Import Model.
Import ListNotations.
Open Scope Z_scope.

(* ---------------------------------------------------------------- primitives *)
Lemma read_loc_ok : forall p k, read_loc (loc_k p k) = Some (p, k).
Proof.
  intros [l c el ec] k. unfold loc_k, read_loc. cbn [p_line p_col p_eline p_ecol].
  replace (l + (el - l)) with el by lia. replace (c + (ec - c)) with ec by lia. reflexivity.
Qed.

Lemma loc_finish_ok : forall A (mk : pos -> A) p k, loc_finish mk (loc_k p (T END_TAG :: k)) = Some (mk p, k).
Proof. intros. unfold loc_finish. rewrite read_loc_ok. reflexivity. Qed.

Lemma read_binop_ok : forall op k, read_op bin_ops (I (binop_idx op) :: k) = Some (binop_str op, k).
Proof. destruct op; reflexivity. Qed.
Lemma read_unop_ok : forall op k, read_op unary_ops (I (unop_idx op) :: k) = Some (unop_str op, k).
Proof. destruct op; reflexivity. Qed.
Lemma read_boolop_ok : forall op k, read_op bool_ops (I (boolop_idx op) :: k) = Some (boolop_str op, k).
Proof. destruct op; reflexivity. Qed.
Lemma read_cmpop_ok : forall op k, read_op cmp_ops (I (cmpop_idx op) :: k) = Some (cmpop_str op, k).
Proof. destruct op; reflexivity. Qed.
Lemma read_kind_ok : forall kd k, read_kind (I (argkind_idx (kind_of kd)) :: k) = Some (kind_of kd, k).
Proof. destruct kd; reflexivity. Qed.

Lemma read_kinds_ok : forall a k, read_n read_kind (len_args a) (kinds_k a k) = Some (arg_kinds a, k).
Proof.
  induction a; intros; cbn [len_args kinds_k arg_kinds read_n]; [reflexivity|].
  rewrite read_kind_ok, IHa. reflexivity.
Qed.
Lemma read_names_ok : forall a k, read_n read_name (len_args a) (names_k a k) = Some (arg_names a, k).
Proof.
  induction a; intros; cbn [len_args names_k arg_names read_n]; [reflexivity|].
  destruct k; cbn [name_of read_name]; rewrite IHa; reflexivity.
Qed.
Lemma read_cmpidx_ok : forall c k, read_n (read_op cmp_ops) (len_cmps c) (cmpidx_k c k) = Some (cmp_strs c, k).
Proof.
  induction c; intros; cbn [len_cmps cmpidx_k cmp_strs read_n]; [reflexivity|].
  rewrite read_cmpop_ok, IHc. reflexivity.
Qed.

Lemma len_cmp_strs : forall c, List.length (cmp_strs c) = len_cmps c.
Proof. induction c; cbn; congruence. Qed.
Lemma len_conv_cmps : forall c, List.length (conv_cmps c) = len_cmps c.
Proof. induction c; cbn; congruence. Qed.

(* ---------------------------------------------------------------- positions of converted nodes *)
Lemma mepos_mk_member : forall p e a, mepos (mk_member p e a) = p.
Proof.
  intros. unfold mk_member. destruct e; try reflexivity. destruct e; try reflexivity.
  destruct (String.eqb name "super"); reflexivity.
Qed.
Lemma mepos_group : forall rest p op a b, mepos (group p op a b rest) = p.
Proof. destruct rest; reflexivity. Qed.
Lemma mepos_conv : forall e, mepos (conv_e e) = epos e.
Proof. destruct e; cbn [conv_e epos mepos]; try reflexivity; [apply mepos_mk_member | apply mepos_group]. Qed.

(* ---------------------------------------------------------------- sizes (fuel) *)
Fixpoint size_e (e : expr) : nat :=
  match e with
  | EName _ _ | EInt _ _ | EStr _ _ => 1
  | EAttr _ e _ => 1 + size_e e
  | ECall _ f a => 1 + size_e f + size_args a
  | EBin _ _ l r => 1 + size_e l + size_e r
  | EUnary _ _ e => 1 + size_e e
  | ECompare _ l c => 1 + size_e l + size_cmps c
  | EBoolOp _ _ e1 e2 rest => 1 + size_e e1 + size_e e2 + size_es rest
  | EIfExp _ t b o => 1 + size_e t + size_e b + size_e o
  | ETuple _ es | EList _ es => 1 + size_es es
  end%nat
with size_es (es : exprs) : nat := match es with ENil => 0 | ECons e es' => size_e e + size_es es' end%nat
with size_args (a : args) : nat := match a with ANil => 0 | ACons _ e a' => size_e e + size_args a' end%nat
with size_cmps (c : cmps) : nat := match c with CNil => 0 | CCons _ e c' => size_e e + size_cmps c' end%nat.

Scheme expr_mut := Induction for expr Sort Prop
  with exprs_mut := Induction for exprs Sort Prop
  with args_mut := Induction for args Sort Prop
  with cmps_mut := Induction for cmps Sort Prop.
Combined Scheme expr_all_mut from expr_mut, exprs_mut, args_mut, cmps_mut.

Definition Pe (e : expr) := wf_e e -> forall f k, (size_e e <= f)%nat -> read_expr f (emit_e e k) = Some (conv_e e, k).
Definition Pes (es : exprs) := wf_es es -> forall f k, (size_es es <= f)%nat ->
  read_n (read_expr f) (len_es es) (emit_es es k) = Some (conv_es es, k).
Definition Pargs (a : args) := wf_args a -> forall f k, (size_args a <= f)%nat ->
  read_n (read_expr f) (len_args a) (emit_args a k) = Some (conv_args a, k).
Definition Pcmps (c : cmps) := wf_cmps c -> forall f k, (size_cmps c <= f)%nat ->
  read_n (read_expr f) (len_cmps c) (emit_cmps c k) = Some (conv_cmps c, k).

Ltac red1 := cbv beta iota; rewrite ?Nat2Z.id.
Ltac fuel f := destruct f as [|f]; [cbn [size_e] in *; lia|].

Lemma read_expr_ok_all :
  (forall e, Pe e) /\ (forall es, Pes es) /\ (forall a, Pargs a) /\ (forall c, Pcmps c).
Proof.
  apply expr_all_mut; unfold Pe, Pes, Pargs, Pcmps.
  - (* EName *) intros p id _ f k Hf. fuel f. cbn [emit_e read_expr str_k]. apply loc_finish_ok.
  - (* EInt *) intros p v _ f k Hf. fuel f. cbn [emit_e read_expr int_k]. apply loc_finish_ok.
  - (* EStr *) intros p s _ f k Hf. fuel f. cbn [emit_e read_expr str_k]. apply loc_finish_ok.
  - (* EAttr *) intros p e IH a Hw f k Hf. fuel f. cbn [wf_e size_e] in *. cbn [emit_e read_expr].
    rewrite IH by (auto; lia). cbn [str_k]. apply loc_finish_ok.
  - (* ECall *) intros p fn IHf a IHa Hw f k Hf. fuel f. cbn [wf_e size_e] in *. destruct Hw as [Hw1 Hw2].
    cbn [emit_e read_expr]. rewrite IHf by (auto; lia). red1.
    rewrite IHa by (auto; lia). red1. rewrite read_kinds_ok. red1. rewrite read_names_ok. apply loc_finish_ok.
  - (* EBin *) intros p op l IHl r IHr Hw f k Hf. fuel f. cbn [wf_e size_e] in *. destruct Hw as [Hp [Hl Hr]].
    cbn [emit_e read_expr int_k]. rewrite read_binop_ok. rewrite IHl by (auto; lia). rewrite IHr by (auto; lia).
    cbn [finish]. rewrite !mepos_conv. rewrite <- Hp. reflexivity.
  - (* EUnary *) intros p op e IH Hw f k Hf. fuel f. cbn [wf_e size_e] in *.
    cbn [emit_e read_expr int_k]. rewrite read_unop_ok. rewrite IH by (auto; lia). apply loc_finish_ok.
  - (* ECompare *) intros p l IHl c IHc Hw f k Hf. fuel f. cbn [wf_e size_e] in *. destruct Hw as [Hl Hc].
    cbn [emit_e read_expr]. rewrite IHl by (auto; lia). red1. rewrite read_cmpidx_ok. red1.
    rewrite IHc by (auto; lia). red1. rewrite len_cmp_strs, len_conv_cmps, Nat.eqb_refl. apply loc_finish_ok.
  - (* EBoolOp *) intros p op e1 IH1 e2 IH2 rest _ Hw f k Hf. fuel f. cbn [wf_e size_e] in *.
    destruct Hw as [Hr [H1 H2]]. subst rest. cbn [emit_e read_expr int_k len_es emit_es].
    rewrite read_boolop_ok. red1. cbn [read_n].
    rewrite IH1 by (auto; lia). rewrite IH2 by (auto; cbn [size_es] in *; lia). red1.
    cbn [split_last nest_bool conv_es group]. rewrite loc_finish_ok. reflexivity.
  - (* EIfExp *) intros p t IHt b IHb o IHo Hw f k Hf. fuel f. cbn [wf_e size_e] in *. destruct Hw as [Ht [Hb Ho]].
    cbn [emit_e read_expr]. rewrite IHb by (auto; lia). rewrite IHt by (auto; lia). rewrite IHo by (auto; lia).
    apply loc_finish_ok.
  - (* ETuple *) intros p es IH Hw f k Hf. fuel f. cbn [wf_e size_e] in *. cbn [emit_e read_expr].
    rewrite Nat2Z.id. rewrite IH by (auto; lia). apply loc_finish_ok.
  - (* EList *) intros p es IH Hw f k Hf. fuel f. cbn [wf_e size_e] in *. cbn [emit_e read_expr].
    rewrite Nat2Z.id. rewrite IH by (auto; lia). apply loc_finish_ok.
  - (* ENil *) intros _ f k _. reflexivity.
  - (* ECons *) intros e IHe es IHes Hw f k Hf. cbn [wf_es size_es] in *. destruct Hw as [H1 H2].
    cbn [len_es emit_es read_n conv_es]. rewrite IHe by (auto; lia). rewrite IHes by (auto; lia). reflexivity.
  - intros _ f k _. reflexivity.
  - intros kd e IHe a IHa Hw f k Hf. cbn [wf_args size_args] in *. destruct Hw as [H1 H2].
    cbn [len_args emit_args read_n conv_args]. rewrite IHe by (auto; lia). rewrite IHa by (auto; lia). reflexivity.
  - intros _ f k _. reflexivity.
  - intros op e IHe c IHc Hw f k Hf. cbn [wf_cmps size_cmps] in *. destruct Hw as [H1 H2].
    cbn [len_cmps emit_cmps read_n conv_cmps]. rewrite IHe by (auto; lia). rewrite IHc by (auto; lia). reflexivity.
Qed.

Lemma read_expr_ok : forall e, wf_e e -> forall f k, (size_e e <= f)%nat -> read_expr f (emit_e e k) = Some (conv_e e, k).
Proof. exact (proj1 read_expr_ok_all). Qed.
Lemma read_exprs_ok : forall es, wf_es es -> forall f k, (size_es es <= f)%nat ->
  read_n (read_expr f) (len_es es) (emit_es es k) = Some (conv_es es, k).
Proof. exact (proj1 (proj2 read_expr_ok_all)). Qed.
