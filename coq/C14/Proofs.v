(* C14 (b): the native reader applied to the emitted stream yields nconvert, for EVERY fragment tree (induction on the
   tree; no bound on its size, no well-formedness hypothesis).  Expressions. *)
From Coq Require Import ZArith List String Bool Lia Arith.
From C14 Require Import Model.
Import ListNotations.
Open Scope Z_scope.

(* ---------------------------------------------------------------- primitives *)
Lemma read_loc_ok : forall p k, read_loc (loc_k p k) = Some (p, k).
Proof.
  intros [l c el ec] k. unfold loc_k, read_loc. cbn [p_line p_col p_eline p_ecol].
  replace (l + (el - l)) with el by lia. replace (c + (ec - c)) with ec by lia. reflexivity.
Qed.
Lemma span_self : forall p, span p p = p.
Proof. intros [a b c d]. reflexivity. Qed.

Lemma loc_finish_ok : forall A (mk : pos -> A) p k, loc_finish mk (loc_k p (T END_TAG :: k)) = Some (mk p, k).
Proof. intros. unfold loc_finish. rewrite read_loc_ok. reflexivity. Qed.

Lemma read_binop_ok : forall op k, read_op bin_ops (I (binop_idx op) :: k) = Some (binop_str op, k).
Proof. destruct op; reflexivity. Qed.
Lemma read_unop_ok : forall op k, read_op unary_ops (I (unop_idx op) :: k) = Some (unop_str op, k).
Proof. destruct op; reflexivity. Qed.
Lemma read_boolop_ok : forall op k, read_op bool_ops (I (boolop_idx op) :: k) = Some (boolop_str op, k).
Proof. destruct op; reflexivity. Qed.
Lemma read_cmpop_ok : forall op k, read_op cmp_ops (I (cmpop_idx op) :: k) = Some (cmpop_str op, k).
Proof. destruct op; reflexivity. Qed.
Lemma read_kind_ok : forall kd k, read_kind (I (argkind_idx (kind_of kd)) :: k) = Some (kind_of kd, k).
Proof. destruct kd; reflexivity. Qed.
Lemma nth_kind : forall k, nth_error ARG_KINDS (Z.to_nat (argkind_idx k)) = Some k.
Proof. destruct k; reflexivity. Qed.

Lemma read_kinds_ok : forall a k, read_n read_kind (len_args a) (kinds_k a k) = Some (arg_kinds a, k).
Proof.
  induction a; intros; cbn [len_args kinds_k arg_kinds read_n]; [reflexivity|].
  rewrite read_kind_ok, IHa. reflexivity.
Qed.
Lemma read_names_ok : forall a k, read_n read_name (len_args a) (names_k a k) = Some (arg_names a, k).
Proof.
  induction a; intros; cbn [len_args names_k arg_names read_n]; [reflexivity|].
  destruct k; cbn [name_of read_name]; rewrite IHa; reflexivity.
Qed.
Lemma read_cmpidx_ok : forall c k, read_n (read_op cmp_ops) (len_cmps c) (cmpidx_k c k) = Some (cmp_strs c, k).
Proof.
  induction c; intros; cbn [len_cmps cmpidx_k cmp_strs read_n]; [reflexivity|].
  rewrite read_cmpop_ok, IHc. reflexivity.
Qed.
Lemma read_strs_ok : forall l k, read_n read_strtok (List.length l) (strs_k l k) = Some (l, k).
Proof. induction l; intros; cbn [List.length strs_k read_n str_k read_strtok]; [reflexivity|]. rewrite IHl. reflexivity. Qed.
Lemma read_aliases_ok : forall l k, read_n read_alias (List.length l) (aliases_k l k) = Some (l, k).
Proof.
  induction l as [|[n [a|]] l IH]; intros; cbn [List.length aliases_k read_n str_k read_alias]; [reflexivity| |];
    rewrite IH; reflexivity.
Qed.

Lemma len_cmp_strs : forall c, List.length (cmp_strs c) = len_cmps c.
Proof. induction c; cbn; congruence. Qed.
Lemma len_nconv_cmps : forall c, List.length (nconv_cmps c) = len_cmps c.
Proof. induction c; cbn; congruence. Qed.

(* ---------------------------------------------------------------- sizes (fuel) *)
Fixpoint size_e (e : expr) : nat :=
  match e with
  | EName _ _ | EInt _ _ | EStr _ _ => 1
  | EAttr _ e _ => 1 + size_e e
  | ECall _ f a => 1 + size_e f + size_args a
  | EBin _ _ l r => 1 + size_e l + size_e r
  | EUnary _ _ e => 1 + size_e e
  | ECompare _ l c => 1 + size_e l + size_cmps c
  | EBoolOp _ _ e1 e2 rest => 1 + size_e e1 + size_e e2 + size_es rest
  | EIfExp _ t b o => 1 + size_e t + size_e b + size_e o
  | ETuple _ es | EList _ es | ESet _ es => 1 + size_es es
  | EDict _ it => 1 + size_ditems it
  | ESubscript _ v i => 1 + size_e v + size_e i
  | ESlice _ a b c => 1 + size_oe a + size_oe b + size_oe c
  | EStar _ e => 1 + size_e e
  | ELambda _ ps b => 1 + size_params ps + size_e b
  | EConst _ _ | EEllipsis _ | EBytes _ _ | EFloat _ _ | EComplex _ _ _ => 1
  | EYield _ v => 1 + size_oe v
  | EYieldFrom _ e | EAwait _ e => 1 + size_e e
  | EWalrus _ _ _ v => 2 + size_e v
  | EComp _ _ elt g => 1 + size_e elt + size_gens g
  | EDictComp _ ky v g => 1 + size_e ky + size_e v + size_gens g
  end%nat
with size_es (es : exprs) : nat := match es with ENil => 0 | ECons e es' => size_e e + size_es es' end%nat
with size_args (a : args) : nat := match a with ANil => 0 | ACons _ e a' => size_e e + size_args a' end%nat
with size_cmps (c : cmps) : nat := match c with CNil => 0 | CCons _ e c' => size_e e + size_cmps c' end%nat
with size_oe (o : oexpr) : nat := match o with ONone => 0 | OSome e => size_e e end%nat
with size_ditems (d : ditems) : nat := match d with DNil => 0 | DCons k v r => size_oe k + size_e v + size_ditems r end%nat
with size_params (ps : params) : nat := match ps with PNil => 0 | PCons _ _ _ _ d r => size_oe d + size_params r end%nat
with size_gens (g : gens) : nat := match g with GNil => 0 | GCons t i c r => size_e t + size_e i + size_es c + size_gens r end%nat.

Scheme expr_mut := Induction for expr Sort Prop
  with exprs_mut := Induction for exprs Sort Prop
  with args_mut := Induction for args Sort Prop
  with cmps_mut := Induction for cmps Sort Prop
  with oexpr_mut := Induction for oexpr Sort Prop
  with ditems_mut := Induction for ditems Sort Prop
  with params_mut := Induction for params Sort Prop
  with gens_mut := Induction for gens Sort Prop.
Combined Scheme expr_all_mut from expr_mut, exprs_mut, args_mut, cmps_mut, oexpr_mut, ditems_mut, params_mut, gens_mut.

Definition Pe (e : expr) := forall f k, (size_e e <= f)%nat -> read_expr f (emit_e e k) = Some (nconv_e e, k).
Definition Pes (es : exprs) := forall f k, (size_es es <= f)%nat ->
  read_n (read_expr f) (len_es es) (emit_es es k) = Some (nconv_es es, k).
Definition Pargs (a : args) := forall f k, (size_args a <= f)%nat ->
  read_n (read_expr f) (len_args a) (emit_args a k) = Some (nconv_args a, k).
Definition Pcmps (c : cmps) := forall f k, (size_cmps c <= f)%nat ->
  read_n (read_expr f) (len_cmps c) (emit_cmps c k) = Some (nconv_cmps c, k).
Definition Poe (o : oexpr) := forall f k, (size_oe o <= f)%nat ->
  read_opt (read_expr f) (emit_oe o k) = Some (nconv_oe o, k).
Definition Pditems (d : ditems) := forall f k, (size_ditems d <= f)%nat ->
  read_n (read_opt (read_expr f)) (len_ditems d) (emit_dkeys d k) = Some (nconv_dkeys d, k) /\
  read_n (read_expr f) (len_ditems d) (emit_dvals d k) = Some (nconv_dvals d, k).
Definition Pparams (ps : params) := forall f k, (size_params ps <= f)%nat ->
  read_n (read_param_with (read_expr f)) (len_params ps) (emit_params ps k) = Some (nconv_params ps, k).

Definition Pgens (g : gens) := forall f k, (size_gens g <= f)%nat ->
  read_n (read_expr f) (len_gens g) (emit_gtargets g k) = Some (nconv_gtargets g, k) /\
  read_n (read_expr f) (len_gens g) (emit_giters g k) = Some (nconv_giters g, k) /\
  read_n (read_list_with (read_expr f)) (len_gens g) (emit_gifs g k) = Some (nconv_gifs g, k).

Lemma read_gasync_ok : forall g k, read_n read_bool (len_gens g) (gasync_k g k) = Some (gasync g, k).
Proof. induction g as [|t i c r IH]; intros; cbn [len_gens gasync_k gasync read_n read_bool]; [reflexivity|]. rewrite IH. reflexivity. Qed.

Lemma read_gens_ok : forall g f K, Pgens g -> (size_gens g <= f)%nat ->
  read_gens_with (read_expr f) (int_k (Z.of_nat (len_gens g)) (emit_gtargets g (emit_giters g (emit_gifs g (gasync_k g K)))))
  = Some ((nconv_gtargets g, nconv_giters g, nconv_gifs g, gasync g), K).
Proof.
  intros g f K H Hf. unfold read_gens_with, int_k. rewrite Nat2Z.id.
  destruct (H f (emit_giters g (emit_gifs g (gasync_k g K))) Hf) as [A _]. rewrite A.
  destruct (H f (emit_gifs g (gasync_k g K)) Hf) as [_ [B _]]. rewrite B.
  destruct (H f (gasync_k g K) Hf) as [_ [_ C]]. rewrite C. rewrite read_gasync_ok. reflexivity.
Qed.

Ltac red1 := cbv beta iota; unfold nat_k; rewrite ?Nat2Z.id.
Ltac fuel f := destruct f as [|f]; [cbn [size_e] in *; lia|].

Lemma read_expr_ok_all :
  (forall e, Pe e) /\ (forall es, Pes es) /\ (forall a, Pargs a) /\ (forall c, Pcmps c) /\ (forall o, Poe o) /\
  (forall d, Pditems d) /\ (forall ps, Pparams ps) /\ (forall g, Pgens g).
Proof.
  apply expr_all_mut; unfold Pe, Pes, Pargs, Pcmps, Poe, Pditems, Pparams.
  - (* EName *) intros p id f k Hf. fuel f. cbn [emit_e read_expr str_k]. apply loc_finish_ok.
  - (* EInt *) intros p v f k Hf. fuel f. cbn [emit_e read_expr int_k]. apply loc_finish_ok.
  - (* EStr *) intros p s f k Hf. fuel f. cbn [emit_e read_expr str_k]. apply loc_finish_ok.
  - (* EAttr *) intros p e IH a f k Hf. fuel f. cbn [size_e] in *. cbn [emit_e read_expr nconv_e].
    rewrite IH by lia. cbn [str_k]. apply loc_finish_ok.
  - (* ECall *) intros p fn IHf a IHa f k Hf. fuel f. cbn [size_e] in *.
    cbn [emit_e read_expr nconv_e]. rewrite IHf by lia. red1.
    rewrite IHa by lia. red1. rewrite read_kinds_ok. red1. rewrite read_names_ok. apply loc_finish_ok.
  - (* EBin *) intros p op l IHl r IHr f k Hf. fuel f. cbn [size_e] in *.
    cbn [emit_e read_expr int_k nconv_e]. rewrite read_binop_ok. rewrite IHl by lia. rewrite IHr by lia. reflexivity.
  - (* EUnary *) intros p op e IH f k Hf. fuel f. cbn [size_e] in *.
    cbn [emit_e read_expr int_k nconv_e]. rewrite read_unop_ok. rewrite IH by lia. apply loc_finish_ok.
  - (* ECompare *) intros p l IHl c IHc f k Hf. fuel f. cbn [size_e] in *.
    cbn [emit_e read_expr nconv_e]. rewrite IHl by lia. red1. rewrite read_cmpidx_ok. red1.
    rewrite IHc by lia. red1. rewrite len_cmp_strs, len_nconv_cmps, Nat.eqb_refl. apply loc_finish_ok.
  - (* EBoolOp *) intros p op e1 IH1 e2 IH2 rest IHr f k Hf. fuel f. cbn [size_e] in *.
    cbn [emit_e read_expr int_k nconv_e]. rewrite read_boolop_ok. red1. cbn [read_n].
    rewrite IH1 by lia. rewrite IH2 by lia. rewrite IHr by lia. red1. apply loc_finish_ok.
  - (* EIfExp *) intros p t IHt b IHb o IHo f k Hf. fuel f. cbn [size_e] in *.
    cbn [emit_e read_expr nconv_e]. rewrite IHb by lia. rewrite IHt by lia. rewrite IHo by lia. apply loc_finish_ok.
  - (* ETuple *) intros p es IH f k Hf. fuel f. cbn [size_e] in *. cbn [emit_e read_expr nconv_e].
    red1. rewrite IH by lia. apply loc_finish_ok.
  - (* EList *) intros p es IH f k Hf. fuel f. cbn [size_e] in *. cbn [emit_e read_expr nconv_e].
    red1. rewrite IH by lia. apply loc_finish_ok.
  - (* ESet *) intros p es IH f k Hf. fuel f. cbn [size_e] in *. cbn [emit_e read_expr nconv_e].
    red1. rewrite IH by lia. apply loc_finish_ok.
  - (* EDict *) intros p it IH f k Hf. fuel f. cbn [size_e] in *. cbn [emit_e read_expr nconv_e]. red1.
    destruct (IH f (T LIST_GEN :: I (Z.of_nat (len_ditems it)) :: emit_dvals it (loc_k p (T END_TAG :: k)))) as [Hk _]; [lia|].
    rewrite Hk. red1. destruct (IH f (loc_k p (T END_TAG :: k))) as [_ Hv]; [lia|]. rewrite Hv. apply loc_finish_ok.
  - (* ESubscript *) intros p v IHv i IHi f k Hf. fuel f. cbn [size_e] in *. cbn [emit_e read_expr nconv_e].
    rewrite IHv by lia. rewrite IHi by lia. apply loc_finish_ok.
  - (* ESlice *) intros p a IHa b IHb c IHc f k Hf. fuel f. cbn [size_e] in *. cbn [emit_e read_expr nconv_e].
    rewrite IHa by lia. rewrite IHb by lia. rewrite IHc by lia. apply loc_finish_ok.
  - (* EStar *) intros p e IH f k Hf. fuel f. cbn [size_e] in *. cbn [emit_e read_expr nconv_e].
    rewrite IH by lia. apply loc_finish_ok.
  - (* ELambda *) intros p ps IHps b IHb f k Hf. fuel f. cbn [size_e] in *. cbn [emit_e read_expr nconv_e]. red1.
    rewrite IHps by lia. red1. rewrite IHb by lia. rewrite read_loc_ok. apply loc_finish_ok.
  - (* EConst *) intros p c f k Hf. fuel f. cbn [emit_e read_expr str_k nconv_e]. apply loc_finish_ok.
  - (* EEllipsis *) intros p f k Hf. fuel f. cbn [emit_e read_expr nconv_e]. apply loc_finish_ok.
  - (* EComp *) intros p ck elt IHe g IHg f k Hf. fuel f. cbn [size_e] in *. cbn [emit_e nconv_e]. cbv zeta.
    destruct ck; cbn [read_expr]; rewrite IHe by lia; rewrite (read_gens_ok g f) by (auto; lia); apply loc_finish_ok.
  - (* EDictComp *) intros p ky IHk v IHv g IHg f k Hf. fuel f. cbn [size_e] in *. cbn [emit_e read_expr nconv_e].
    rewrite IHk by lia. rewrite IHv by lia. rewrite (read_gens_ok g f) by (auto; lia). apply loc_finish_ok.
  - (* EYield *) intros p v IH f k Hf. fuel f. cbn [size_e] in *. cbn [emit_e read_expr nconv_e]. rewrite IH by lia. apply loc_finish_ok.
  - (* EYieldFrom *) intros p e IH f k Hf. fuel f. cbn [size_e] in *. cbn [emit_e read_expr nconv_e]. rewrite IH by lia. apply loc_finish_ok.
  - (* EAwait *) intros p e IH f k Hf. fuel f. cbn [size_e] in *. cbn [emit_e read_expr nconv_e]. rewrite IH by lia. apply loc_finish_ok.
  - (* EWalrus *) intros p tp id v IH f k Hf. fuel f. cbn [size_e] in *. destruct f as [|f]; [lia|].
    cbn [emit_e nconv_e]. unfold str_k.
    change (read_expr (Datatypes.S (Datatypes.S f)) (T ASSIGNMENT_EXPR :: T NAME_EXPR :: T LITERAL_STR :: S id :: loc_k tp (T END_TAG :: emit_e v (loc_k p (T END_TAG :: k)))))
      with (match read_expr (Datatypes.S f) (T NAME_EXPR :: T LITERAL_STR :: S id :: loc_k tp (T END_TAG :: emit_e v (loc_k p (T END_TAG :: k)))) with
            | Some (MName tp0 id0, ts2) =>
                match read_expr (Datatypes.S f) ts2 with
                | Some (v0, ts3) => loc_finish (fun p0 => MAssignExpr p0 (MName tp0 id0) v0) ts3
                | None => None
                end
            | _ => None
            end).
    change (read_expr (Datatypes.S f) (T NAME_EXPR :: T LITERAL_STR :: S id :: loc_k tp (T END_TAG :: emit_e v (loc_k p (T END_TAG :: k)))))
      with (loc_finish (fun p0 => MName p0 id) (loc_k tp (T END_TAG :: emit_e v (loc_k p (T END_TAG :: k))))).
    rewrite loc_finish_ok. rewrite IH by lia. apply loc_finish_ok.
  - (* EBytes *) intros p s f k Hf. fuel f. cbn [emit_e read_expr str_k nconv_e]. apply loc_finish_ok.
  - (* EFloat *) intros p b f k Hf. fuel f. cbn [emit_e read_expr nconv_e]. apply loc_finish_ok.
  - (* EComplex *) intros p a b f k Hf. fuel f. cbn [emit_e read_expr nconv_e]. apply loc_finish_ok.
  - (* ENil *) intros f k _. reflexivity.
  - (* ECons *) intros e IHe es IHes f k Hf. cbn [size_es] in *.
    cbn [len_es emit_es read_n nconv_es]. rewrite IHe by lia. rewrite IHes by lia. reflexivity.
  - intros f k _. reflexivity.
  - intros kd e IHe a IHa f k Hf. cbn [size_args] in *.
    cbn [len_args emit_args read_n nconv_args]. rewrite IHe by lia. rewrite IHa by lia. reflexivity.
  - intros f k _. reflexivity.
  - intros op e IHe c IHc f k Hf. cbn [size_cmps] in *.
    cbn [len_cmps emit_cmps read_n nconv_cmps]. rewrite IHe by lia. rewrite IHc by lia. reflexivity.
  - (* ONone *) intros f k _. reflexivity.
  - (* OSome *) intros e IH f k Hf. cbn [size_oe] in *. cbn [emit_oe read_opt nconv_oe]. rewrite IH by lia. reflexivity.
  - (* DNil *) intros f k _. split; reflexivity.
  - (* DCons *) intros ky IHk v IHv r IHr f k Hf. cbn [size_ditems] in *.
    cbn [len_ditems emit_dkeys emit_dvals read_n nconv_dkeys nconv_dvals]. split.
    + rewrite IHk by lia. destruct (IHr f k) as [H _]; [lia|]. rewrite H. reflexivity.
    + rewrite IHv by lia. destruct (IHr f k) as [_ H]; [lia|]. rewrite H. reflexivity.
  - (* PNil *) intros f k _. reflexivity.
  - (* PCons *) intros p sp n kd d IHd r IHr f k Hf. cbn [size_params] in *.
    cbn [len_params emit_params read_n nconv_params]. unfold read_param_with at 1, str_k, int_k.
    rewrite nth_kind. rewrite IHd by lia. cbv beta iota. rewrite read_loc_ok. cbv beta iota.
    rewrite IHr by lia. reflexivity.
  - (* GNil *) intros f k _. repeat split.
  - (* GCons *) intros t IHt i IHi c IHc r IHr f k Hf. cbn [size_gens] in *.
    cbn [len_gens emit_gtargets emit_giters emit_gifs read_n nconv_gtargets nconv_giters nconv_gifs].
    destruct (IHr f k) as [A [B C]]; [lia|]. repeat split.
    + rewrite IHt by lia. rewrite A. reflexivity.
    + rewrite IHi by lia. rewrite B. reflexivity.
    + unfold read_list_with at 1, nat_k. rewrite Nat2Z.id. rewrite IHc by lia. rewrite C. reflexivity.
Qed.

Lemma read_expr_ok : forall e f k, (size_e e <= f)%nat -> read_expr f (emit_e e k) = Some (nconv_e e, k).
Proof. exact (proj1 read_expr_ok_all). Qed.
Lemma read_exprs_ok : forall es f k, (size_es es <= f)%nat ->
  read_n (read_expr f) (len_es es) (emit_es es k) = Some (nconv_es es, k).
Proof. exact (proj1 (proj2 read_expr_ok_all)). Qed.
Lemma read_oe_ok : forall o f k, (size_oe o <= f)%nat -> read_opt (read_expr f) (emit_oe o k) = Some (nconv_oe o, k).
Proof. exact (proj1 (proj2 (proj2 (proj2 (proj2 read_expr_ok_all))))). Qed.
Lemma read_params_ok : forall ps f k, (size_params ps <= f)%nat ->
  read_n (read_param_with (read_expr f)) (len_params ps) (emit_params ps k) = Some (nconv_params ps, k).
Proof. exact (proj1 (proj2 (proj2 (proj2 (proj2 (proj2 (proj2 read_expr_ok_all))))))). Qed.

(* ---------------------------------------------------------------- the type sublanguage *)
Fixpoint size_ty (t : ty) : nat :=
  match t with
  | TyName _ _ | TyNone _ => 1
  | TySub _ _ _ a => 1 + size_tys a
  | TyUnion _ l r => 1 + size_ty l + size_ty r
  end%nat
with size_tys (a : tys) : nat := match a with TNil => 0 | TCons t ts => size_ty t + size_tys ts end%nat.

Scheme ty_mut := Induction for ty Sort Prop with tys_mut := Induction for tys Sort Prop.
Combined Scheme ty_all_mut from ty_mut, tys_mut.

Lemma read_ty_ok_all :
  (forall t f k, (size_ty t <= f)%nat -> read_ty f (emit_ty t k) = Some (nconv_ty t, k)) /\
  (forall a f k, (size_tys a <= f)%nat -> read_n (read_ty f) (len_tys a) (emit_tys a k) = Some (nconv_tys a, k)).
Proof.
  apply ty_all_mut.
  - intros p n f k Hf. destruct f; [cbn in Hf; lia|]. cbn [emit_ty read_ty str_k Z.to_nat read_n nconv_ty]. apply loc_finish_ok.
  - intros p f k Hf. destruct f; [cbn in Hf; lia|]. cbn [emit_ty read_ty str_k Z.to_nat read_n nconv_ty]. apply loc_finish_ok.
  - intros p b tup a IH f k Hf. destruct f; [cbn in Hf; lia|]. cbn [size_ty] in Hf. cbn [emit_ty read_ty str_k nconv_ty]. red1.
    rewrite IH by lia. apply loc_finish_ok.
  - intros p l IHl r IHr f k Hf. destruct f; [cbn in Hf; lia|]. cbn [size_ty] in Hf. cbn [emit_ty read_ty nconv_ty].
    change (Z.to_nat 2) with 2%nat. cbn [read_n]. rewrite IHl by lia. rewrite IHr by lia. apply loc_finish_ok.
  - intros f k _. reflexivity.
  - intros t IHt ts IHts f k Hf. cbn [size_tys] in Hf. cbn [len_tys emit_tys read_n nconv_tys].
    rewrite IHt by lia. rewrite IHts by lia. reflexivity.
Qed.
Definition read_ty_ok := proj1 read_ty_ok_all.

(* an expression never reads as a TempNode *)
Lemma fix_temp_nconv : forall p e, fix_temp p (nconv_e e) = nconv_e e.
Proof.
  intros p e. destruct e; cbn [nconv_e fix_temp]; try reflexivity.
  - unfold mk_member. destruct (nconv_e e); try reflexivity. destruct m; try reflexivity.
    destruct (String.eqb name "super"); reflexivity.
  - unfold mk_boolop. cbn [split_last]. destruct (split_last (nconv_e e2) (nconv_es rest)) as [i x]. reflexivity.
  - destruct k; reflexivity.
Qed.
