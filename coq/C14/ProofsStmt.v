(* C14 (b): statements, blocks and the file level. *)
From Coq Require Import ZArith List String Bool Lia Arith.
From C14 Require Import Model Proofs.
Import ListNotations.
Open Scope Z_scope.

Fixpoint size_s (s : stmt) : nat :=
  match s with
  | SExpr _ e => 1 + size_e e
  | SAssign _ t v => 1 + size_es t + size_e v
  | SReturn _ v => 1 + match v with Some e => size_e e | None => 0 end
  | SPass _ => 1
  | SWhile _ t b0 bs o => 1 + size_e t + size_s b0 + size_ss bs + size_ss o
  | SFor _ t i b0 bs o => 1 + size_e t + size_e i + size_s b0 + size_ss bs + size_ss o
  | SIf _ t b0 bs el o => 1 + size_e t + size_s b0 + size_ss bs + size_el el + size_ss o
  end%nat
with size_ss (ss : stmts) : nat := match ss with SNil => 0 | SCons s ss' => size_s s + size_ss ss' end%nat
with size_el (el : elifs) : nat :=
  match el with LNil => 0 | LCons _ t b0 bs el' => 1 + size_e t + size_s b0 + size_ss bs + size_el el' end%nat.

Scheme stmt_mut := Induction for stmt Sort Prop
  with stmts_mut := Induction for stmts Sort Prop
  with elifs_mut := Induction for elifs Sort Prop.
Combined Scheme stmt_all_mut from stmt_mut, stmts_mut, elifs_mut.

Lemma mspos_conv : forall s, mspos (conv_s s) = spos s.
Proof. destruct s; reflexivity. Qed.
Lemma last_mspos_conv : forall ss s0, last_mspos (conv_s s0) (conv_ss ss) = last_spos s0 ss.
Proof. induction ss; intros; cbn [conv_ss last_mspos last_spos]; [apply mspos_conv | apply IHss]. Qed.

Lemma mk_block_conv : forall s0 ss,
  mk_block false (conv_s s0 :: conv_ss ss) = Some (MBlock (block_pos s0 ss) false (conv_s s0 :: conv_ss ss)).
Proof. intros. cbn [mk_block]. rewrite mspos_conv, last_mspos_conv. reflexivity. Qed.
Lemma mk_block_as_block : forall o, mk_block false (conv_ss o) = as_block o.
Proof. destruct o; [reflexivity|]. cbn [conv_ss as_block]. apply mk_block_conv. Qed.

Lemma read_block_ok : forall rs b0 bs K,
  read_n rs (Datatypes.S (len_ss bs)) (emit_s b0 (emit_ss bs (T END_TAG :: K))) = Some (conv_s b0 :: conv_ss bs, T END_TAG :: K) ->
  read_block_with rs (blk (Datatypes.S (len_ss bs)) (emit_s b0 (emit_ss bs (T END_TAG :: K))))
  = Some (MBlock (block_pos b0 bs) false (conv_s b0 :: conv_ss bs), K).
Proof.
  intros rs b0 bs K H. unfold blk, read_block_with. rewrite Nat2Z.id. cbv beta iota. rewrite H. cbv beta iota.
  rewrite mk_block_conv. reflexivity.
Qed.

Lemma read_oblock_ok : forall rs o K,
  read_n rs (len_ss o) (emit_ss o (T END_TAG :: K)) = Some (conv_ss o, T END_TAG :: K) ->
  read_optional_block_with rs (blk (len_ss o) (emit_ss o (T END_TAG :: K))) = Some (as_block o, K).
Proof.
  intros rs o K H. unfold blk, read_optional_block_with. rewrite Nat2Z.id. rewrite H. cbv beta iota.
  rewrite mk_block_as_block. reflexivity.
Qed.

Definition Ps (s : stmt) := wf_s s -> forall f k, (size_s s <= f)%nat -> read_stmt f (emit_s s k) = Some (conv_s s, k).
Definition Pss (ss : stmts) := wf_ss ss -> forall f k, (size_ss ss <= f)%nat ->
  read_n (read_stmt f) (len_ss ss) (emit_ss ss k) = Some (conv_ss ss, k).
Definition Pel (el : elifs) := True.

Ltac fuel f := destruct f as [|f]; [cbn [size_s] in *; lia|].
Ltac red1 := cbv beta iota zeta; rewrite ?Nat2Z.id.

(* reading a required block made of b0 :: bs, from the induction hypotheses of b0 and bs *)
Lemma block_from_IH : forall f b0 bs K, Ps b0 -> Pss bs -> wf_s b0 -> wf_ss bs -> (size_s b0 + size_ss bs <= f)%nat ->
  read_block_with (read_stmt f) (blk (Datatypes.S (len_ss bs)) (emit_s b0 (emit_ss bs (T END_TAG :: K))))
  = Some (MBlock (block_pos b0 bs) false (conv_s b0 :: conv_ss bs), K).
Proof.
  intros f b0 bs K H0 Hs W0 Ws Hf. apply read_block_ok. cbn [read_n].
  rewrite H0 by (auto; lia). rewrite Hs by (auto; lia). reflexivity.
Qed.
Lemma oblock_from_IH : forall f o K, Pss o -> wf_ss o -> (size_ss o <= f)%nat ->
  read_optional_block_with (read_stmt f) (blk (len_ss o) (emit_ss o (T END_TAG :: K))) = Some (as_block o, K).
Proof. intros f o K Ho Wo Hf. apply read_oblock_ok. apply Ho; auto. Qed.

Lemma read_stmt_ok_all : (forall s, Ps s) /\ (forall ss, Pss ss) /\ (forall el, Pel el).
Proof.
  apply stmt_all_mut; unfold Pel; try (intros; exact Logic.I).
  - (* SExpr *) intros p e Hw f k Hf. fuel f. cbn [wf_s size_s] in *. destruct Hw as [Hp He].
    cbn [emit_s read_stmt]. red1. rewrite read_expr_ok by (auto; lia). cbn [finish]. rewrite mepos_conv, <- Hp. reflexivity.
  - (* SAssign *) intros p t v Hw f k Hf. fuel f. cbn [wf_s size_s] in *. destruct Hw as [Ht Hv].
    cbn [emit_s read_stmt]. red1. rewrite read_exprs_ok by (auto; lia). red1. rewrite read_expr_ok by (auto; lia).
    red1. apply loc_finish_ok.
  - (* SReturn *) intros p v Hw f k Hf. fuel f. cbn [wf_s size_s] in *. destruct v as [e|].
    + cbn [emit_s read_stmt]. red1. rewrite read_expr_ok by (auto; lia). red1. apply loc_finish_ok.
    + cbn [emit_s read_stmt]. red1. apply loc_finish_ok.
  - (* SPass *) intros p _ f k Hf. fuel f. cbn [emit_s read_stmt]. red1. apply loc_finish_ok.
  - (* SWhile *) intros p t b0 IH0 bs IHs o IHo Hw f k Hf. fuel f. cbn [wf_s size_s] in *.
    destruct Hw as [Ht [W0 [Ws Wo]]]. cbn [emit_s read_stmt]. red1.
    rewrite read_expr_ok by (auto; lia). red1.
    rewrite (block_from_IH f b0 bs) by (auto; lia). red1.
    rewrite (oblock_from_IH f o) by (auto; lia). red1. apply loc_finish_ok.
  - (* SFor *) intros p t i b0 IH0 bs IHs o IHo Hw f k Hf. fuel f. cbn [wf_s size_s] in *.
    destruct Hw as [Ht [Hi [W0 [Ws Wo]]]]. cbn [emit_s read_stmt]. red1.
    rewrite read_expr_ok by (auto; lia). red1. rewrite read_expr_ok by (auto; lia). red1.
    rewrite (block_from_IH f b0 bs) by (auto; lia). red1.
    rewrite (oblock_from_IH f o) by (auto; lia). red1. apply loc_finish_ok.
  - (* SIf *) intros p t b0 IH0 bs IHs el _ o IHo Hw f k Hf. fuel f. cbn [wf_s size_s] in *.
    destruct Hw as [Hel [Ht [W0 [Ws Wo]]]]. subst el. cbn [emit_s read_stmt]. red1.
    rewrite read_expr_ok by (auto; lia). red1.
    rewrite (block_from_IH f b0 bs) by (auto; lia). red1.
    cbn [len_el emit_elifs int_k Z.of_nat Z.to_nat read_n]. red1.
    destruct o as [|s ss].
    + red1. rewrite loc_finish_ok. reflexivity.
    + red1. cbn [wf_ss size_ss] in *. destruct Wo as [Wo1 Wo2].
      rewrite read_block_ok.
      * red1. rewrite loc_finish_ok. reflexivity.
      * apply (IHo (conj Wo1 Wo2) f). cbn [size_ss]. lia.
  - (* SNil *) intros _ f k _. reflexivity.
  - (* SCons *) intros s IH ss IHs Hw f k Hf. cbn [wf_ss size_ss] in *. destruct Hw as [H1 H2].
    cbn [len_ss emit_ss read_n conv_ss]. rewrite IH by (auto; lia). rewrite IHs by (auto; lia). reflexivity.
Qed.

(* ---------------------------------------------------------------- enough fuel: the stream is at least as long as the tree *)
Definition Le (e : expr) := forall k, (size_e e + List.length k <= List.length (emit_e e k))%nat.
Definition Les (es : exprs) := forall k, (size_es es + List.length k <= List.length (emit_es es k))%nat.
Definition Largs (a : args) := forall k, (size_args a + List.length k <= List.length (emit_args a k))%nat.
Definition Lcmps (c : cmps) := forall k, (size_cmps c + List.length k <= List.length (emit_cmps c k))%nat.

Lemma len_kinds_k : forall a k, (List.length k <= List.length (kinds_k a k))%nat.
Proof. induction a; intros; cbn [kinds_k List.length]; [lia|]. specialize (IHa k0). lia. Qed.
Lemma len_names_k : forall a k, (List.length k <= List.length (names_k a k))%nat.
Proof. induction a; intros; cbn [names_k]; [lia|]. specialize (IHa k0). destruct (name_of k); cbn [List.length]; lia. Qed.
Lemma len_cmpidx_k : forall c k, (List.length k <= List.length (cmpidx_k c k))%nat.
Proof. induction c; intros; cbn [cmpidx_k List.length]; [lia|]. specialize (IHc k). lia. Qed.

Ltac len_step :=
  match goal with
  | H : forall k, (_ + List.length k <= List.length (?f ?x k))%nat |- context [List.length (?f ?x ?k0)] =>
      lazymatch goal with
      | _ : (_ + List.length k0 <= List.length (f x k0))%nat |- _ => fail
      | _ => pose proof (H k0)
      end
  end.
Ltac len_aux :=
  repeat match goal with
  | |- context [List.length (kinds_k ?a ?k)] => lazymatch goal with _ : (List.length k <= List.length (kinds_k a k))%nat |- _ => fail | _ => pose proof (len_kinds_k a k) end
  | |- context [List.length (names_k ?a ?k)] => lazymatch goal with _ : (List.length k <= List.length (names_k a k))%nat |- _ => fail | _ => pose proof (len_names_k a k) end
  | |- context [List.length (cmpidx_k ?a ?k)] => lazymatch goal with _ : (List.length k <= List.length (cmpidx_k a k))%nat |- _ => fail | _ => pose proof (len_cmpidx_k a k) end
  end.

Lemma emit_e_length_all : (forall e, Le e) /\ (forall es, Les es) /\ (forall a, Largs a) /\ (forall c, Lcmps c).
Proof.
  apply expr_all_mut; unfold Le, Les, Largs, Lcmps; intros;
    cbn [emit_e emit_es emit_args emit_cmps size_e size_es size_args size_cmps str_k int_k loc_k List.length];
    repeat (progress (repeat len_step; len_aux; cbn [List.length] in * )); lia.
Qed.

Definition Ls (s : stmt) := forall k, (size_s s + List.length k <= List.length (emit_s s k))%nat.
Definition Lss (ss : stmts) := forall k, (size_ss ss + List.length k <= List.length (emit_ss ss k))%nat.
Definition Lel (el : elifs) := forall k, (size_el el + List.length k <= List.length (emit_elifs el k))%nat.

Lemma emit_s_length_all : (forall s, Ls s) /\ (forall ss, Lss ss) /\ (forall el, Lel el).
Proof.
  destruct emit_e_length_all as [He [Hes _]].
  apply stmt_all_mut; unfold Ls, Lss, Lel; intros;
    cbn [emit_s emit_ss emit_elifs size_s size_ss size_el blk str_k int_k loc_k List.length];
    try match goal with v : option expr |- _ => destruct v end;
    try match goal with o : stmts |- context [match ?o with SNil => _ | SCons _ _ => _ end] => destruct o end;
    cbn [emit_s emit_ss emit_elifs size_s size_ss size_el blk str_k int_k loc_k List.length];
    repeat (progress (repeat len_step;
      repeat match goal with
      | |- context [List.length (emit_e ?e ?k0)] =>
          lazymatch goal with _ : (size_e e + List.length k0 <= _)%nat |- _ => fail | _ => pose proof (He e k0) end
      | |- context [List.length (emit_es ?e ?k0)] =>
          lazymatch goal with _ : (size_es e + List.length k0 <= _)%nat |- _ => fail | _ => pose proof (Hes e k0) end
      end; cbn [List.length] in * )); try lia.
Qed.

(* ---------------------------------------------------------------- the file level *)
Theorem read_native_emit : forall ss, wf_ss ss -> read_native (emit ss) = Some (convert ss).
Proof.
  intros ss Hw. unfold read_native, emit, read_file, int_k, convert. rewrite Nat2Z.id.
  destruct read_stmt_ok_all as [_ [Hss _]].
  rewrite (Hss ss Hw).
  - reflexivity.
  - pose proof (proj1 (proj2 emit_s_length_all) ss []) as HL. cbn [List.length] in *. lia.
Qed.
