(* C14 (b): statements, blocks and the file level. *)
From Coq Require Import ZArith List String Bool Lia Arith.
From C14 Require Import Model Proofs.
Import ListNotations.
Open Scope Z_scope.

Fixpoint size_params (ps : params) : nat :=
  match ps with
  | PNil => 0
  | PCons _ _ _ _ d r => (match d with Some e => size_e e | None => 0 end) + size_params r
  end%nat.

Fixpoint size_ckws (k : ckws) : nat := match k with KNil => 0 | KCons _ e r => size_e e + size_ckws r end%nat.

Fixpoint size_s (s : stmt) : nat :=
  match s with
  | SClass _ _ bases kws decos b0 bs => 1 + size_es bases + size_ckws kws + size_es decos + size_s b0 + size_ss bs
  | SDef _ _ ps b0 bs => 1 + size_params ps + size_s b0 + size_ss bs
  | SExpr _ e => 1 + size_e e
  | SAssign _ t v => 1 + size_es t + size_e v
  | SReturn _ v => 1 + match v with Some e => size_e e | None => 0 end
  | SPass _ => 1
  | SWhile _ t b0 bs o => 1 + size_e t + size_s b0 + size_ss bs + size_ss o
  | SFor _ t i b0 bs o => 1 + size_e t + size_e i + size_s b0 + size_ss bs + size_ss o
  | SIf _ t b0 bs el o => 1 + size_e t + size_s b0 + size_ss bs + size_el el + size_ss o
  end%nat
with size_ss (ss : stmts) : nat := match ss with SNil => 0 | SCons s ss' => size_s s + size_ss ss' end%nat
with size_el (el : elifs) : nat :=
  match el with LNil => 0 | LCons _ t b0 bs el' => 1 + size_e t + size_s b0 + size_ss bs + size_el el' end%nat.

Scheme stmt_mut := Induction for stmt Sort Prop
  with stmts_mut := Induction for stmts Sort Prop
  with elifs_mut := Induction for elifs Sort Prop.
Combined Scheme stmt_all_mut from stmt_mut, stmts_mut, elifs_mut.

Lemma mspos_conv : forall s, mspos (conv_s s) = spos s.
Proof. destruct s; reflexivity. Qed.
Lemma last_mspos_conv : forall ss s0, last_mspos (conv_s s0) (conv_ss ss) = last_spos s0 ss.
Proof. induction ss; intros; cbn [conv_ss last_mspos last_spos]; [apply mspos_conv | apply IHss]. Qed.

Lemma mk_block_conv : forall s0 ss,
  mk_block false (conv_s s0 :: conv_ss ss) = Some (MBlock (block_pos s0 ss) false (conv_s s0 :: conv_ss ss)).
Proof. intros. cbn [mk_block]. rewrite mspos_conv, last_mspos_conv. reflexivity. Qed.
Lemma mk_block_as_block : forall o, mk_block false (conv_ss o) = as_block o.
Proof. destruct o; [reflexivity|]. cbn [conv_ss as_block]. apply mk_block_conv. Qed.

Lemma read_block_ok : forall rs b0 bs K,
  read_n rs (Datatypes.S (len_ss bs)) (emit_s b0 (emit_ss bs (T END_TAG :: K))) = Some (conv_s b0 :: conv_ss bs, T END_TAG :: K) ->
  read_block_with rs (blk (Datatypes.S (len_ss bs)) (emit_s b0 (emit_ss bs (T END_TAG :: K))))
  = Some (MBlock (block_pos b0 bs) false (conv_s b0 :: conv_ss bs), K).
Proof.
  intros rs b0 bs K H. unfold blk, read_block_with. rewrite Nat2Z.id. cbv beta iota. rewrite H. cbv beta iota.
  rewrite mk_block_conv. reflexivity.
Qed.

Lemma read_oblock_ok : forall rs o K,
  read_n rs (len_ss o) (emit_ss o (T END_TAG :: K)) = Some (conv_ss o, T END_TAG :: K) ->
  read_optional_block_with rs (blk (len_ss o) (emit_ss o (T END_TAG :: K))) = Some (as_block o, K).
Proof.
  intros rs o K H. unfold blk, read_optional_block_with. rewrite Nat2Z.id. rewrite H. cbv beta iota.
  rewrite mk_block_as_block. reflexivity.
Qed.

Lemma nth_kind : forall k, nth_error ARG_KINDS (Z.to_nat (argkind_idx k)) = Some k.
Proof. destruct k; reflexivity. Qed.

Lemma read_param_ok : forall f p n kd d K,
  match d with Some e => wf_e e /\ (size_e e <= f)%nat | None => True end ->
  read_param_with (read_expr f)
    (str_k n (int_k (argkind_idx (param_kind kd d)) (B false ::
       match d with
       | Some e => B true :: emit_e e (B (emit_pos_only kd n) :: loc_k p K)
       | None => B false :: B (emit_pos_only kd n) :: loc_k p K
       end)))
  = Some (MArg p p n (param_kind kd d) (match d with Some e => Some (conv_e e) | None => None end) (emit_pos_only kd n), K).
Proof.
  intros f p n kd d K H. unfold read_param_with, str_k, int_k. destruct d as [e|].
  - destruct H as [Hw Hf]. rewrite nth_kind. rewrite read_expr_ok by auto. cbv beta iota. rewrite read_loc_ok. reflexivity.
  - rewrite nth_kind. cbv beta iota. rewrite read_loc_ok. reflexivity.
Qed.

Lemma read_params_ok : forall ps, wf_params ps -> forall f k, (size_params ps <= f)%nat ->
  read_n (read_param_with (read_expr f)) (len_params ps) (emit_params ps k) = Some (conv_params ps, k).
Proof.
  induction ps as [|p sp n kd d r IH]; intros Hw f k Hf; [reflexivity|].
  cbn [wf_params size_params] in *. destruct Hw as [Hsp [Hpo [Hd Hr]]]. subst sp.
  cbn [len_params emit_params read_n conv_params].
  rewrite read_param_ok.
  - rewrite IH by (auto; lia). rewrite Hpo. reflexivity.
  - destruct d; [split; [auto | lia] | exact Logic.I].
Qed.

Lemma read_ckws_ok : forall kw, wf_ckws kw -> forall f k, (size_ckws kw <= f)%nat ->
  read_n (read_ckw_with (read_expr f)) (len_ckws kw) (emit_ckws kw k) = Some (conv_ckws kw, k).
Proof.
  induction kw as [|n e r IH]; intros Hw f k Hf; [reflexivity|].
  cbn [wf_ckws size_ckws] in *. destruct Hw as [He Hr].
  cbn [len_ckws emit_ckws read_n conv_ckws]. unfold read_ckw_with at 1, str_k.
  rewrite read_expr_ok by (auto; lia). rewrite IH by (auto; lia). reflexivity.
Qed.

Definition Ps (s : stmt) := wf_s s -> forall f k, (size_s s <= f)%nat -> read_stmt f (emit_s s k) = Some (conv_s s, k).
Definition Pss (ss : stmts) := wf_ss ss -> forall f k, (size_ss ss <= f)%nat ->
  read_n (read_stmt f) (len_ss ss) (emit_ss ss k) = Some (conv_ss ss, k).
Definition Pel (el : elifs) := True.

Ltac fuel f := destruct f as [|f]; [cbn [size_s] in *; lia|].
Ltac red1 := cbv beta iota zeta; rewrite ?Nat2Z.id.

(* reading a required block made of b0 :: bs, from the induction hypotheses of b0 and bs *)
Lemma block_from_IH : forall f b0 bs K, Ps b0 -> Pss bs -> wf_s b0 -> wf_ss bs -> (size_s b0 + size_ss bs <= f)%nat ->
  read_block_with (read_stmt f) (blk (Datatypes.S (len_ss bs)) (emit_s b0 (emit_ss bs (T END_TAG :: K))))
  = Some (MBlock (block_pos b0 bs) false (conv_s b0 :: conv_ss bs), K).
Proof.
  intros f b0 bs K H0 Hs W0 Ws Hf. apply read_block_ok. cbn [read_n].
  rewrite H0 by (auto; lia). rewrite Hs by (auto; lia). reflexivity.
Qed.
Lemma oblock_from_IH : forall f o K, Pss o -> wf_ss o -> (size_ss o <= f)%nat ->
  read_optional_block_with (read_stmt f) (blk (len_ss o) (emit_ss o (T END_TAG :: K))) = Some (as_block o, K).
Proof. intros f o K Ho Wo Hf. apply read_oblock_ok. apply Ho; auto. Qed.

Lemma read_stmt_ok_all : (forall s, Ps s) /\ (forall ss, Pss ss) /\ (forall el, Pel el).
Proof.
  apply stmt_all_mut; unfold Pel; try (intros; exact Logic.I).
  - (* SClass *) intros p name bases kws decos b0 IH0 bs IHs Hw f k Hf. fuel f. cbn [wf_s size_s] in *.
    destruct Hw as [Wb [Wk [Wd [W0 Ws]]]]. cbn [emit_s read_stmt]. unfold str_k. red1.
    rewrite (block_from_IH f b0 bs) by (auto; lia). red1.
    rewrite read_exprs_ok by (auto; lia). red1.
    rewrite read_exprs_ok by (auto; lia). red1.
    rewrite read_ckws_ok by (auto; lia). red1. apply loc_finish_ok.
  - (* SDef *) intros p name ps b0 IH0 bs IHs Hw f k Hf. fuel f. cbn [wf_s size_s] in *.
    destruct Hw as [Wp [W0 Ws]]. cbn [emit_s read_stmt]. unfold str_k. red1.
    rewrite read_params_ok by (auto; lia). red1.
    rewrite (block_from_IH f b0 bs) by (auto; lia). red1. apply loc_finish_ok.
  - (* SExpr *) intros p e Hw f k Hf. fuel f. cbn [wf_s size_s] in *. destruct Hw as [Hp He].
    cbn [emit_s read_stmt]. red1. rewrite read_expr_ok by (auto; lia). cbn [finish]. rewrite mepos_conv, <- Hp. reflexivity.
  - (* SAssign *) intros p t v Hw f k Hf. fuel f. cbn [wf_s size_s] in *. destruct Hw as [Ht Hv].
    cbn [emit_s read_stmt]. red1. rewrite read_exprs_ok by (auto; lia). red1. rewrite read_expr_ok by (auto; lia).
    red1. apply loc_finish_ok.
  - (* SReturn *) intros p v Hw f k Hf. fuel f. cbn [wf_s size_s] in *. destruct v as [e|].
    + cbn [emit_s read_stmt]. red1. rewrite read_expr_ok by (auto; lia). red1. apply loc_finish_ok.
    + cbn [emit_s read_stmt]. red1. apply loc_finish_ok.
  - (* SPass *) intros p _ f k Hf. fuel f. cbn [emit_s read_stmt]. red1. apply loc_finish_ok.
  - (* SWhile *) intros p t b0 IH0 bs IHs o IHo Hw f k Hf. fuel f. cbn [wf_s size_s] in *.
    destruct Hw as [Ht [W0 [Ws Wo]]]. cbn [emit_s read_stmt]. red1.
    rewrite read_expr_ok by (auto; lia). red1.
    rewrite (block_from_IH f b0 bs) by (auto; lia). red1.
    rewrite (oblock_from_IH f o) by (auto; lia). red1. apply loc_finish_ok.
  - (* SFor *) intros p t i b0 IH0 bs IHs o IHo Hw f k Hf. fuel f. cbn [wf_s size_s] in *.
    destruct Hw as [Ht [Hi [W0 [Ws Wo]]]]. cbn [emit_s read_stmt]. red1.
    rewrite read_expr_ok by (auto; lia). red1. rewrite read_expr_ok by (auto; lia). red1.
    rewrite (block_from_IH f b0 bs) by (auto; lia). red1.
    rewrite (oblock_from_IH f o) by (auto; lia). red1. apply loc_finish_ok.
  - (* SIf *) intros p t b0 IH0 bs IHs el _ o IHo Hw f k Hf. fuel f. cbn [wf_s size_s] in *.
    destruct Hw as [Hel [Ht [W0 [Ws Wo]]]]. subst el. cbn [emit_s read_stmt]. red1.
    rewrite read_expr_ok by (auto; lia). red1.
    rewrite (block_from_IH f b0 bs) by (auto; lia). red1.
    cbn [len_el emit_elifs int_k Z.of_nat Z.to_nat read_n]. red1.
    destruct o as [|s ss].
    + red1. rewrite loc_finish_ok. reflexivity.
    + red1. cbn [wf_ss size_ss] in *. destruct Wo as [Wo1 Wo2].
      rewrite read_block_ok.
      * red1. rewrite loc_finish_ok. reflexivity.
      * apply (IHo (conj Wo1 Wo2) f). cbn [size_ss]. lia.
  - (* SNil *) intros _ f k _. reflexivity.
  - (* SCons *) intros s IH ss IHs Hw f k Hf. cbn [wf_ss size_ss] in *. destruct Hw as [H1 H2].
    cbn [len_ss emit_ss read_n conv_ss]. rewrite IH by (auto; lia). rewrite IHs by (auto; lia). reflexivity.
Qed.

(* ---------------------------------------------------------------- enough fuel: the stream is at least as long as the tree *)
Fixpoint ntok_names (a : args) : nat :=
  match a with ANil => 0 | ACons kd _ a' => (match name_of kd with Some _ => 2 | None => 1 end) + ntok_names a' end%nat.

Fixpoint ntok_e (e : expr) : nat :=
  match e with
  | EName _ _ | EInt _ _ | EStr _ _ => 9
  | EAttr _ e _ => 9 + ntok_e e
  | ECall _ f a => 13 + ntok_e f + ntok_args a + len_args a + ntok_names a
  | EBin _ _ l r => 4 + ntok_e l + ntok_e r
  | EUnary _ _ e => 9 + ntok_e e
  | ECompare _ l c => 11 + ntok_e l + len_cmps c + ntok_cmps c
  | EBoolOp _ _ e1 e2 rest => 11 + ntok_e e1 + ntok_e e2 + ntok_es rest
  | EIfExp _ t b o => 7 + ntok_e b + ntok_e t + ntok_e o
  | ETuple _ es | EList _ es => 9 + ntok_es es
  end%nat
with ntok_es (es : exprs) : nat := match es with ENil => 0 | ECons e es' => ntok_e e + ntok_es es' end%nat
with ntok_args (a : args) : nat := match a with ANil => 0 | ACons _ e a' => ntok_e e + ntok_args a' end%nat
with ntok_cmps (c : cmps) : nat := match c with CNil => 0 | CCons _ e c' => ntok_e e + ntok_cmps c' end%nat.

Lemma len_kinds_k : forall a k, List.length (kinds_k a k) = (len_args a + List.length k)%nat.
Proof. induction a; intros; cbn [kinds_k List.length len_args]; [lia|]. rewrite IHa. lia. Qed.
Lemma len_names_k : forall a k, List.length (names_k a k) = (ntok_names a + List.length k)%nat.
Proof. induction a; intros; cbn [names_k ntok_names]; [lia|]. destruct (name_of k); cbn [List.length]; rewrite IHa; lia. Qed.
Lemma len_cmpidx_k : forall c k, List.length (cmpidx_k c k) = (len_cmps c + List.length k)%nat.
Proof. induction c; intros; cbn [cmpidx_k List.length len_cmps]; [lia|]. rewrite IHc. lia. Qed.

Ltac len_rw :=
  repeat (cbn [List.length str_k int_k loc_k blk];
          first [ rewrite len_kinds_k | rewrite len_names_k | rewrite len_cmpidx_k
                | match goal with H : forall k : list tok, List.length _ = _ |- _ => rewrite H end ]).

Lemma emit_e_length_all :
  (forall e k, List.length (emit_e e k) = (ntok_e e + List.length k)%nat) /\ (forall es k, List.length (emit_es es k) = (ntok_es es + List.length k)%nat) /\ (forall a k, List.length (emit_args a k) = (ntok_args a + List.length k)%nat) /\ (forall c k, List.length (emit_cmps c k) = (ntok_cmps c + List.length k)%nat).
Proof.
  apply expr_all_mut; intros;
    cbn [emit_e emit_es emit_args emit_cmps ntok_e ntok_es ntok_args ntok_cmps];
    len_rw; unfold str_k, int_k, loc_k, blk; cbn [List.length len_es]; lia.
Qed.

Lemma size_le_ntok_all :
  (forall e, size_e e <= ntok_e e)%nat /\ (forall es, size_es es <= ntok_es es)%nat /\ (forall a, size_args a <= ntok_args a)%nat /\ (forall c, size_cmps c <= ntok_cmps c)%nat.
Proof. apply expr_all_mut; intros; cbn [size_e size_es size_args size_cmps ntok_e ntok_es ntok_args ntok_cmps]; lia. Qed.

Fixpoint ntok_params (ps : params) : nat :=
  match ps with
  | PNil => 0
  | PCons _ _ _ _ d r => 12 + (match d with Some e => ntok_e e | None => 0 end) + ntok_params r
  end%nat.

Lemma len_emit_params : forall ps k, List.length (emit_params ps k) = (ntok_params ps + List.length k)%nat.
Proof.
  induction ps as [|p sp n kd d r IH]; intros; cbn [emit_params ntok_params]; [lia|].
  unfold str_k, int_k, loc_k. destruct d; cbn [List.length]; rewrite ?(proj1 emit_e_length_all); cbn [List.length]; rewrite IH; lia.
Qed.
Lemma size_le_ntok_params : forall ps, (size_params ps <= ntok_params ps)%nat.
Proof.
  induction ps as [|p sp n kd d r IH]; cbn [size_params ntok_params]; [lia|].
  destruct d as [e|]; [pose proof (proj1 size_le_ntok_all e)|]; lia.
Qed.

Fixpoint ntok_ckws (k : ckws) : nat := match k with KNil => 0 | KCons _ e r => 2 + ntok_e e + ntok_ckws r end%nat.
Lemma len_emit_ckws : forall kw k, List.length (emit_ckws kw k) = (ntok_ckws kw + List.length k)%nat.
Proof.
  induction kw as [|n e r IH]; intros; cbn [emit_ckws ntok_ckws]; [lia|].
  unfold str_k. cbn [List.length]. rewrite (proj1 emit_e_length_all). rewrite IH. lia.
Qed.
Lemma size_le_ntok_ckws : forall kw, (size_ckws kw <= ntok_ckws kw)%nat.
Proof. induction kw as [|n e r IH]; cbn [size_ckws ntok_ckws]; [lia|]. pose proof (proj1 size_le_ntok_all e). lia. Qed.

Fixpoint ntok_s (s : stmt) : nat :=
  match s with
  | SClass _ _ bases kws decos b0 bs => 21 + ntok_es bases + ntok_ckws kws + ntok_es decos + ntok_s b0 + ntok_ss bs
  | SDef _ _ ps b0 bs => 19 + ntok_params ps + ntok_s b0 + ntok_ss bs
  | SExpr _ e => 2 + ntok_e e
  | SAssign _ t v => 11 + ntok_es t + ntok_e v
  | SReturn _ v => 8 + match v with Some e => ntok_e e | None => 0 end
  | SPass _ => 7
  | SWhile _ t b0 bs o => 17 + ntok_e t + ntok_s b0 + ntok_ss bs + ntok_ss o
  | SFor _ t i b0 bs o => 18 + ntok_e t + ntok_e i + ntok_s b0 + ntok_ss bs + ntok_ss o
  | SIf _ t b0 bs el o =>
      15 + ntok_e t + ntok_s b0 + ntok_ss bs + ntok_el el + match o with SNil => 0 | SCons _ _ => 5 + ntok_ss o end
  end%nat
with ntok_ss (ss : stmts) : nat := match ss with SNil => 0 | SCons s ss' => ntok_s s + ntok_ss ss' end%nat
with ntok_el (el : elifs) : nat :=
  match el with LNil => 0 | LCons _ t b0 bs el' => 5 + ntok_e t + ntok_s b0 + ntok_ss bs + ntok_el el' end%nat.

Lemma emit_s_length_all :
  (forall s k, List.length (emit_s s k) = (ntok_s s + List.length k)%nat) /\ (forall ss k, List.length (emit_ss ss k) = (ntok_ss ss + List.length k)%nat) /\ (forall el k, List.length (emit_elifs el k) = (ntok_el el + List.length k)%nat).
Proof.
  destruct emit_e_length_all as [He [Hes _]].
  apply stmt_all_mut; intros;
    cbn [emit_s emit_ss emit_elifs ntok_s ntok_ss ntok_el];
    try match goal with v : option expr |- _ => destruct v end;
    try match goal with |- context [match ?o with SNil => _ | SCons _ _ => _ end] => destruct o end;
    cbn [emit_s emit_ss emit_elifs ntok_s ntok_ss ntok_el];
    repeat match goal with H : forall k : list tok, List.length (emit_ss (SCons _ _) k) = _ |- _ => cbn [emit_ss ntok_ss] in H end;
    repeat (cbn [List.length str_k int_k loc_k blk];
            first [ rewrite He | rewrite Hes | rewrite len_emit_params | rewrite len_emit_ckws
                  | match goal with H : forall k : list tok, List.length _ = _ |- _ => rewrite H end ]);
    unfold str_k, int_k, loc_k, blk; cbn [List.length]; lia.
Qed.

Lemma size_le_ntok_s_all :
  (forall s, size_s s <= ntok_s s)%nat /\ (forall ss, size_ss ss <= ntok_ss ss)%nat /\ (forall el, size_el el <= ntok_el el)%nat.
Proof.
  destruct size_le_ntok_all as [He [Hes _]].
  apply stmt_all_mut; intros; cbn [size_s size_ss size_el ntok_s ntok_ss ntok_el];
    try match goal with |- context [size_params ?ps] => pose proof (size_le_ntok_params ps) end;
    try match goal with |- context [size_ckws ?ps] => pose proof (size_le_ntok_ckws ps) end;
    repeat match goal with
    | |- context [size_e ?e] => lazymatch goal with _ : (size_e e <= ntok_e e)%nat |- _ => fail | _ => pose proof (He e) end
    | |- context [size_es ?e] => lazymatch goal with _ : (size_es e <= ntok_es e)%nat |- _ => fail | _ => pose proof (Hes e) end
    end;
    try match goal with v : option expr |- _ => destruct v end;
    try match goal with |- context [match ?o with SNil => _ | SCons _ _ => _ end] => destruct o end;
    repeat match goal with
    | |- context [size_e ?e] => lazymatch goal with _ : (size_e e <= ntok_e e)%nat |- _ => fail | _ => pose proof (He e) end
    end;
    cbn [size_ss ntok_ss] in *; lia.
Qed.

(* ---------------------------------------------------------------- the file level *)
Theorem read_native_emit : forall ss, wf_ss ss -> read_native (emit ss) = Some (convert ss).
Proof.
  intros ss Hw. unfold read_native, emit, read_file, int_k, convert. rewrite Nat2Z.id.
  destruct read_stmt_ok_all as [_ [Hss _]].
  rewrite (Hss ss Hw).
  - reflexivity.
  - cbn [List.length]. rewrite (proj1 (proj2 emit_s_length_all) ss []). pose proof (proj1 (proj2 size_le_ntok_s_all) ss). lia.
Qed.
