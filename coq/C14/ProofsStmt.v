(* C14 (b): statements, blocks and the file level:  read_native (emit t) = Some (nconvert t)  for every tree. *)
From Coq Require Import ZArith List String Bool Lia Arith.
From Gen Require Import Magic.
From C14 Require Import Model Proofs.
Import ListNotations.
Open Scope Z_scope.

Fixpoint size_ckws (k : ckws) : nat := match k with KNil => 0 | KCons _ e r => size_e e + size_ckws r end%nat.
Fixpoint size_witems (w : witems) : nat := match w with WNil => 0 | WCons c t r => size_e c + size_oe t + size_witems r end%nat.

Fixpoint size_s (s : stmt) : nat :=
  match s with
  | SClass _ _ bases kws decos b0 bs => 1 + size_es bases + size_ckws kws + size_es decos + size_s b0 + size_ss bs
  | SDef _ _ ps decos _ b0 bs => 2 + size_params ps + size_es decos + size_s b0 + size_ss bs
  | SExpr _ e => 1 + size_e e
  | SAssign _ t v => 1 + size_es t + size_e v
  | SAnnAssign _ t a v => 2 + size_e t + size_ty a + size_oe v
  | SAugAssign _ _ t v => 1 + size_e t + size_e v
  | SReturn _ v => 1 + size_oe v
  | SPass _ | SBreak _ | SContinue _ | SGlobal _ _ | SNonlocal _ _ | SImport _ _ | SImportFrom _ _ _ _ | SImportAll _ _ _ => 1
  | SDel _ t0 ts => 2 + size_e t0 + size_es ts
  | SAssert _ t m => 1 + size_e t + size_oe m
  | SRaise _ e c => 1 + size_oe e + size_oe c
  | SWhile _ t b0 bs o => 1 + size_e t + size_s b0 + size_ss bs + size_ss o
  | SFor _ t i b0 bs o => 1 + size_e t + size_e i + size_s b0 + size_ss bs + size_ss o
  | SIf _ t b0 bs el o => 1 + size_e t + size_s b0 + size_ss bs + size_el el + size_ss o
  | SWith _ items b0 bs => 1 + size_witems items + size_s b0 + size_ss bs
  | STry _ b0 bs hs o f => 1 + size_s b0 + size_ss bs + size_hs hs + size_ss o + size_ss f
  end%nat
with size_ss (ss : stmts) : nat := match ss with SNil => 0 | SCons s ss' => size_s s + size_ss ss' end%nat
with size_el (el : elifs) : nat :=
  match el with LNil => 0 | LCons _ t b0 bs el' => 1 + size_e t + size_s b0 + size_ss bs + size_el el' end%nat
with size_hs (hs : handlers) : nat :=
  match hs with HNil => 0 | HCons _ ty _ b0 bs r => 1 + size_oe ty + size_s b0 + size_ss bs + size_hs r end%nat.

Scheme stmt_mut := Induction for stmt Sort Prop
  with stmts_mut := Induction for stmts Sort Prop
  with elifs_mut := Induction for elifs Sort Prop
  with handlers_mut := Induction for handlers Sort Prop.
Combined Scheme stmt_all_mut from stmt_mut, stmts_mut, elifs_mut, handlers_mut.

Ltac red1 := cbv beta iota zeta; unfold nat_k; rewrite ?Nat2Z.id.

Lemma read_ckws_ok : forall kw f k, (size_ckws kw <= f)%nat ->
  read_n (read_ckw_with (read_expr f)) (len_ckws kw) (emit_ckws kw k) = Some (nconv_ckws kw, k).
Proof.
  induction kw as [|n e r IH]; intros f k Hf; [reflexivity|]. cbn [size_ckws] in *.
  cbn [len_ckws emit_ckws read_n nconv_ckws]. unfold read_ckw_with at 1, str_k.
  rewrite read_expr_ok by lia. rewrite IH by lia. reflexivity.
Qed.
Lemma read_witems_ok : forall w f k, (size_witems w <= f)%nat ->
  read_n (read_pair_with (read_expr f) (read_opt (read_expr f))) (len_witems w) (emit_witems w k) = Some (nconv_witems w, k).
Proof.
  induction w as [|c t r IH]; intros f k Hf; [reflexivity|]. cbn [size_witems] in *.
  cbn [len_witems emit_witems read_n nconv_witems]. unfold read_pair_with at 1.
  rewrite read_expr_ok by lia. rewrite read_oe_ok by lia. rewrite IH by lia. reflexivity.
Qed.
Lemma read_htypes_ok : forall hs f k, (size_hs hs <= f)%nat ->
  read_n (read_opt (read_expr f)) (len_hs hs) (emit_htypes hs k) = Some (nconv_htypes hs, k).
Proof.
  induction hs as [|hp ty nm b0 bs r IH]; intros f k Hf; [reflexivity|]. cbn [size_hs] in *.
  cbn [len_hs emit_htypes read_n nconv_htypes]. rewrite read_oe_ok by lia. rewrite IH by lia. reflexivity.
Qed.
Lemma read_hvars_ok : forall hs k, read_n read_ovar (len_hs hs) (emit_hvars hs k) = Some (nconv_hvars hs, k).
Proof.
  induction hs as [|hp ty nm b0 bs r IH]; intros k; [reflexivity|].
  cbn [len_hs emit_hvars read_n nconv_hvars]. destruct nm as [[n np]|]; unfold read_ovar at 1, str_k.
  - rewrite read_loc_ok. rewrite IH. reflexivity.
  - rewrite IH. reflexivity.
Qed.

Definition Ps (s : stmt) := forall top f k, (size_s s <= f)%nat -> read_stmt f (emit_s top s k) = Some (nconv_s s, k).
Definition Pss (ss : stmts) := forall top f k, (size_ss ss <= f)%nat ->
  read_n (read_stmt f) (len_ss ss) (emit_ss top ss k) = Some (nconv_ss ss, k).
Definition Pel (el : elifs) := forall top f k, (size_el el <= f)%nat ->
  read_n (read_pair_with (read_expr f) (read_block_with (read_stmt f))) (len_el el) (emit_elifs top el k) = Some (nconv_elifs el, k).
Definition Phs (hs : handlers) := forall top f k, (size_hs hs <= f)%nat ->
  read_n (read_block_with (read_stmt f)) (len_hs hs) (emit_hbodies top hs k) = Some (nconv_hbodies hs, k).

Ltac fuel f := destruct f as [|f]; [cbn [size_s] in *; lia|].

(* a required block b0 :: bs *)
Lemma block_ok : forall top f b0 bs K, Ps b0 -> Pss bs -> (size_s b0 + size_ss bs <= f)%nat ->
  read_block_with (read_stmt f) (blk (Datatypes.S (len_ss bs)) (emit_s top b0 (emit_ss top bs (T END_TAG :: K))))
  = Some (mk_block_ne false (nconv_s b0) (nconv_ss bs), K).
Proof.
  intros top f b0 bs K H0 Hs Hf. unfold blk, read_block_with. rewrite Nat2Z.id. cbv beta iota. cbn [read_n].
  rewrite H0 by lia. rewrite Hs by lia. reflexivity.
Qed.
(* while/for else: read_optional_block *)
Lemma oblock_ok : forall top f o K, Pss o -> (size_ss o <= f)%nat ->
  read_optional_block_with (read_stmt f) (blk (len_ss o) (emit_ss top o (T END_TAG :: K))) = Some (mk_block false (nconv_ss o), K).
Proof. intros top f o K Ho Hf. unfold blk, read_optional_block_with. rewrite Nat2Z.id. rewrite Ho by lia. reflexivity. Qed.
(* if/try else, finally: has_x [read_block] *)
Lemma oblk_ok : forall top f o K, Pss o -> (size_ss o <= f)%nat ->
  read_opt (read_block_with (read_stmt f)) (emit_oblk top o K) = Some (mk_block false (nconv_ss o), K).
Proof.
  intros top f o K Ho Hf. destruct o as [|s ss]; [reflexivity|].
  cbn [emit_oblk read_opt]. unfold blk, read_block_with. rewrite Nat2Z.id. cbv beta iota.
  specialize (Ho top f (T END_TAG :: K) Hf). cbn [len_ss emit_ss nconv_ss] in Ho. rewrite Ho. reflexivity.
Qed.

(* the FUNC_DEF_STMT record (shared by plain and decorated defs) *)
Lemma funcdef_ok : forall f p name ps b0 bs K, Ps b0 -> Pss bs -> (size_params ps + size_s b0 + size_ss bs <= f)%nat ->
  read_stmt (Datatypes.S f)
    (T FUNC_DEF_STMT :: str_k name (T LIST_GEN :: I (Z.of_nat (len_params ps)) :: (emit_params ps
      (blk (Datatypes.S (len_ss bs)) (emit_s false b0 (emit_ss false bs (T END_TAG ::
         B false :: B false :: B false :: loc_k p (T END_TAG :: K))))))))
  = Some (MFuncDef p name (force_pos_only (special_function_elide_names name) (nconv_params ps))
            (mk_block_ne false (nconv_s b0) (nconv_ss bs)), K).
Proof.
  intros f p name ps b0 bs K H0 Hs Hf. cbn [read_stmt]. unfold str_k. red1.
  rewrite read_params_ok by lia. red1. rewrite (block_ok false f b0 bs) by (auto; lia). red1. apply loc_finish_ok.
Qed.

Lemma read_stmt_ok_all : (forall s, Ps s) /\ (forall ss, Pss ss) /\ (forall el, Pel el) /\ (forall hs, Phs hs).
Proof.
  apply stmt_all_mut.
  - (* SClass *) intros p name bases kws decos b0 IH0 bs IHs top f k Hf. fuel f. cbn [size_s] in *.
    cbn [emit_s read_stmt nconv_s]. unfold str_k. red1.
    rewrite (block_ok top f b0 bs) by (auto; lia). red1.
    rewrite read_exprs_ok by lia. red1. rewrite read_exprs_ok by lia. red1.
    rewrite read_ckws_ok by lia. red1. apply loc_finish_ok.
  - (* SDef *) intros p name ps decos dp b0 IH0 bs IHs top f k Hf. fuel f. cbn [size_s] in *.
    cbn [emit_s nconv_s]. destruct decos as [|d0 ds].
    + cbn [nconv_es]. unfold mk_funcdef, nat_k. cbv zeta. apply funcdef_ok; auto; lia.
    + cbv zeta. cbn [read_stmt]. red1. rewrite read_exprs_ok by lia. unfold int_k. red1.
      destruct f as [|f]; [cbn [size_es] in *; lia|].
      rewrite funcdef_ok by (auto; cbn [size_es] in *; lia). red1. cbn [finish nconv_es]. unfold mk_funcdef, span.
      cbn [p_line p_col p_eline p_ecol]. reflexivity.
  - (* SExpr *) intros p e top f k Hf. fuel f. cbn [size_s] in *. cbn [emit_s read_stmt nconv_s]. red1.
    rewrite read_expr_ok by lia. reflexivity.
  - (* SAssign *) intros p t v top f k Hf. fuel f. cbn [size_s] in *. cbn [emit_s read_stmt nconv_s]. red1.
    rewrite read_exprs_ok by lia. red1. rewrite read_expr_ok by lia. red1. rewrite loc_finish_ok, fix_temp_nconv. reflexivity.
  - (* SAnnAssign *) intros p t a v top f k Hf. fuel f. cbn [size_s] in *. cbn [emit_s read_stmt nconv_s].
    change (Z.to_nat 1) with 1%nat. cbn [read_n]. red1. rewrite read_expr_ok by lia. red1. destruct v as [|e].
    + destruct f as [|f]; [lia|]. cbn [read_expr finish]. red1. rewrite read_ty_ok by lia. red1. rewrite loc_finish_ok. reflexivity.
    + cbn [size_oe] in *. rewrite read_expr_ok by lia. red1. rewrite read_ty_ok by lia. red1.
      rewrite loc_finish_ok, fix_temp_nconv. reflexivity.
  - (* SAugAssign *) intros p op t v top f k Hf. fuel f. cbn [size_s] in *. cbn [emit_s read_stmt nconv_s]. unfold str_k. red1.
    rewrite read_expr_ok by lia. red1. rewrite read_expr_ok by lia. red1. apply loc_finish_ok.
  - (* SReturn *) intros p v top f k Hf. fuel f. cbn [size_s] in *. cbn [emit_s read_stmt nconv_s]. red1.
    rewrite read_oe_ok by lia. red1. apply loc_finish_ok.
  - (* SPass *) intros p top f k Hf. fuel f. cbn [emit_s read_stmt nconv_s]. red1. apply loc_finish_ok.
  - (* SBreak *) intros p top f k Hf. fuel f. cbn [emit_s read_stmt nconv_s]. red1. apply loc_finish_ok.
  - (* SContinue *) intros p top f k Hf. fuel f. cbn [emit_s read_stmt nconv_s]. red1. apply loc_finish_ok.
  - (* SGlobal *) intros p ns top f k Hf. fuel f. cbn [emit_s read_stmt nconv_s]. unfold int_k. red1.
    rewrite read_strs_ok. red1. apply loc_finish_ok.
  - (* SNonlocal *) intros p ns top f k Hf. fuel f. cbn [emit_s read_stmt nconv_s]. unfold int_k. red1.
    rewrite read_strs_ok. red1. apply loc_finish_ok.
  - (* SDel *) intros p t0 ts top f k Hf. fuel f. cbn [size_s] in *. destruct ts as [|t1 ts].
    + cbn [emit_s read_stmt nconv_s]. red1. rewrite read_expr_ok by lia. red1. apply loc_finish_ok.
    + cbn [emit_s read_stmt nconv_s]. red1. fuel f. cbn [read_expr]. red1. cbn [read_n]. rewrite read_expr_ok by lia.
      rewrite read_exprs_ok by lia. red1. rewrite loc_finish_ok. red1. apply loc_finish_ok.
  - (* SAssert *) intros p t m top f k Hf. fuel f. cbn [size_s] in *. cbn [emit_s read_stmt nconv_s]. red1.
    rewrite read_expr_ok by lia. red1. rewrite read_oe_ok by lia. red1. apply loc_finish_ok.
  - (* SRaise *) intros p e c top f k Hf. fuel f. cbn [size_s] in *. cbn [emit_s read_stmt nconv_s]. red1.
    rewrite read_oe_ok by lia. red1. rewrite read_oe_ok by lia. red1. apply loc_finish_ok.
  - (* SImport *) intros p ns top f k Hf. fuel f. cbn [emit_s read_stmt nconv_s]. unfold int_k at 1. red1.
    rewrite read_aliases_ok. red1. unfold import_finish, flags_k, int_k. rewrite read_loc_ok. reflexivity.
  - (* SImportFrom *) intros p lv m ns top f k Hf. fuel f. cbn [emit_s read_stmt nconv_s]. unfold int_k at 1 2, str_k. red1.
    rewrite read_aliases_ok. red1. unfold import_finish, flags_k, int_k. rewrite read_loc_ok. reflexivity.
  - (* SImportAll *) intros p lv m top f k Hf. fuel f. cbn [emit_s read_stmt nconv_s]. unfold str_k, int_k at 1. red1.
    unfold import_finish, flags_k, int_k. rewrite read_loc_ok. reflexivity.
  - (* SWhile *) intros p t b0 IH0 bs IHs o IHo top f k Hf. fuel f. cbn [size_s] in *. cbn [emit_s read_stmt nconv_s]. red1.
    rewrite read_expr_ok by lia. red1. rewrite (block_ok top f b0 bs) by (auto; lia). red1.
    rewrite (oblock_ok top f o) by (auto; lia). red1. apply loc_finish_ok.
  - (* SFor *) intros p t i b0 IH0 bs IHs o IHo top f k Hf. fuel f. cbn [size_s] in *. cbn [emit_s read_stmt nconv_s]. red1.
    rewrite read_expr_ok by lia. red1. rewrite read_expr_ok by lia. red1.
    rewrite (block_ok top f b0 bs) by (auto; lia). red1. rewrite (oblock_ok top f o) by (auto; lia). red1. apply loc_finish_ok.
  - (* SIf *) intros p t b0 IH0 bs IHs el IHel o IHo top f k Hf. fuel f. cbn [size_s] in *. cbn [emit_s read_stmt nconv_s]. red1.
    rewrite read_expr_ok by lia. red1. rewrite (block_ok top f b0 bs) by (auto; lia). unfold int_k. red1.
    rewrite IHel by lia. red1. rewrite (oblk_ok top f o) by (auto; lia). red1. apply loc_finish_ok.
  - (* SWith *) intros p items b0 IH0 bs IHs top f k Hf. fuel f. cbn [size_s] in *. cbn [emit_s read_stmt nconv_s]. unfold int_k. red1.
    rewrite read_witems_ok by lia. red1. rewrite (block_ok top f b0 bs) by (auto; lia). red1. apply loc_finish_ok.
  - (* STry *) intros p b0 IH0 bs IHs hs IHh o IHo fin IHf top f k Hf. fuel f. cbn [size_s] in *. cbn [emit_s read_stmt nconv_s]. red1.
    rewrite (block_ok top f b0 bs) by (auto; lia). unfold int_k. red1.
    rewrite read_htypes_ok by lia. red1. rewrite read_hvars_ok. red1. rewrite IHh by lia. red1.
    rewrite (oblk_ok top f o) by (auto; lia). red1. rewrite (oblk_ok top f fin) by (auto; lia). red1. apply loc_finish_ok.
  - (* SNil *) intros top f k _. reflexivity.
  - (* SCons *) intros s IH ss IHs top f k Hf. cbn [size_ss] in *.
    cbn [len_ss emit_ss read_n nconv_ss]. rewrite IH by lia. rewrite IHs by lia. reflexivity.
  - (* LNil *) intros top f k _. reflexivity.
  - (* LCons *) intros p t b0 IH0 bs IHs el IHel top f k Hf. cbn [size_el] in *.
    cbn [len_el emit_elifs read_n nconv_elifs]. unfold read_pair_with at 1.
    rewrite read_expr_ok by lia. rewrite (block_ok top f b0 bs) by (auto; lia). rewrite IHel by lia. reflexivity.
  - (* HNil *) intros top f k _. reflexivity.
  - (* HCons *) intros hp ty nm b0 IH0 bs IHs r IHr top f k Hf. cbn [size_hs] in *.
    cbn [len_hs emit_hbodies read_n nconv_hbodies].
    rewrite (block_ok top f b0 bs) by (auto; lia). rewrite IHr by lia. reflexivity.
Qed.
