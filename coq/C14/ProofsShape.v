(* C14 (b): for EVERY tree of the fragment the two converters yield the same tree up to positions
   (given only that no keyword-only / star parameter is called `__x`, where they differ in the pos_only flag). *)
From Coq Require Import ZArith List String Bool Lia Arith.
From Gen Require Import Magic.
From C14 Require Import Model Proofs ProofsStmt.
Import ListNotations.
Open Scope Z_scope.

Definition P0 : pos := P 0 0 0 0.

Fixpoint er_e (e : mexpr) : mexpr :=
  match e with
  | MName _ n => MName P0 n
  | MInt _ v => MInt P0 v
  | MStr _ s => MStr P0 s
  | MMember _ e n => MMember P0 (er_e e) n
  | MSuper _ n c => MSuper P0 n (er_e c)
  | MCall _ c a k n => MCall P0 (er_e c) (map er_e a) k n
  | MOp _ op l r => MOp P0 op (er_e l) (er_e r)
  | MUnary _ op e => MUnary P0 op (er_e e)
  | MCompare _ ops l => MCompare P0 ops (map er_e l)
  | MCond _ c a b => MCond P0 (er_e c) (er_e a) (er_e b)
  | MTuple _ l => MTuple P0 (map er_e l)
  | MList _ l => MList P0 (map er_e l)
  | MSet _ l => MSet P0 (map er_e l)
  | MDict _ items => MDict P0 (map (fun kv => (option_map er_e (fst kv), er_e (snd kv))) items)
  | MIndex _ b i => MIndex P0 (er_e b) (er_e i)
  | MSlice _ a b c => MSlice P0 (option_map er_e a) (option_map er_e b) (option_map er_e c)
  | MStar _ e => MStar P0 (er_e e)
  | MTemp _ => MTemp P0
  | MLambda _ args _ _ body => MLambda P0 (map er_arg args) P0 P0 (er_e body)
  | MEllipsis _ => MEllipsis P0
  | MYield _ e => MYield P0 (option_map er_e e)
  | MYieldFrom _ e => MYieldFrom P0 (er_e e)
  | MAwait _ e => MAwait P0 (er_e e)
  | MAssignExpr _ t v => MAssignExpr P0 (er_e t) (er_e v)
  | MBytes _ s => MBytes P0 s
  | MFloat _ b => MFloat P0 b
  | MComplex _ a b => MComplex P0 a b
  | MGenerator _ l i s c a => MGenerator P0 (er_e l) (map er_e i) (map er_e s) (map (map er_e) c) a
  | MListComp _ g => MListComp P0 (er_e g)
  | MSetComp _ g => MSetComp P0 (er_e g)
  | MDictComp _ k v i s c a => MDictComp P0 (er_e k) (er_e v) (map er_e i) (map er_e s) (map (map er_e) c) a
  end
with er_arg (a : marg) : marg :=
  match a with MArg _ _ n k i po => MArg P0 P0 n k (option_map er_e i) po end.

Fixpoint er_ty (t : mty) : mty :=
  match t with
  | MUnbound _ n a e => MUnbound P0 n (map er_ty a) e
  | MUnion _ items => MUnion P0 (map er_ty items)
  end.

Definition er_var (v : option (string * pos)) : option (string * pos) :=
  match v with Some (n, _) => Some (n, P0) | None => None end.

Fixpoint er_s (s : mstmt) : mstmt :=
  match s with
  | MClassDef _ n b bases m kws d =>
      MClassDef P0 n (er_b b) (map er_e bases) (option_map er_e m) (map (fun kv => (fst kv, er_e (snd kv))) kws) (map er_e d)
  | MFuncDef _ n a b => MFuncDef P0 n (map er_arg a) (er_b b)
  | MDecorator _ d f => MDecorator P0 (map er_e d) (er_s f)
  | MExprStmt _ e => MExprStmt P0 (er_e e)
  | MAssign _ l r ns => MAssign P0 (map er_e l) (er_e r) ns
  | MAnnAssign _ l r t ns => MAnnAssign P0 (map er_e l) (er_e r) (er_ty t) ns
  | MOpAssign _ op l r => MOpAssign P0 op (er_e l) (er_e r)
  | MReturn _ e => MReturn P0 (option_map er_e e)
  | MPass _ => MPass P0
  | MBreak _ => MBreak P0
  | MContinue _ => MContinue P0
  | MGlobal _ ns => MGlobal P0 ns
  | MNonlocal _ ns => MNonlocal P0 ns
  | MDel _ e => MDel P0 (er_e e)
  | MAssert _ e m => MAssert P0 (er_e e) (option_map er_e m)
  | MRaise _ e c => MRaise P0 (option_map er_e e) (option_map er_e c)
  | MImport _ ids => MImport P0 ids
  | MImportFrom _ m r ns => MImportFrom P0 m r ns
  | MImportAll _ m r => MImportAll P0 m r
  | MWhile _ e b ob => MWhile P0 (er_e e) (er_b b) (option_map er_b ob)
  | MFor _ i e b ob => MFor P0 (er_e i) (er_e e) (er_b b) (option_map er_b ob)
  | MIf _ e b ob => MIf P0 (er_e e) (er_b b) (option_map er_b ob)
  | MWith _ es ts b => MWith P0 (map er_e es) (map (option_map er_e) ts) (er_b b)
  | MTry _ b vs tys hs eb fb =>
      MTry P0 (er_b b) (map er_var vs) (map (option_map er_e) tys) (map er_b hs) (option_map er_b eb) (option_map er_b fb)
  end
with er_b (b : mblock) : mblock := match b with MBlock _ u l => MBlock P0 u (map er_s l) end.

(* ---------------------------------------------------------------- helper lemmas *)
Lemma er_mk_member : forall p e a, er_e (mk_member p e a) = mk_member P0 (er_e e) a.
Proof.
  intros. unfold mk_member. destruct e; try reflexivity. destruct e; try reflexivity.
  cbn [er_e]. destruct (String.eqb name "super"); reflexivity.
Qed.

(* right-nested `a op (b op (c ...))` without positions *)
Fixpoint rn (op : string) (v0 : mexpr) (l : list mexpr) : mexpr :=
  match l with [] => v0 | v1 :: l' => MOp P0 op v0 (rn op v1 l') end.
Lemma er_group : forall rest p op v0 v1, er_e (group p op v0 v1 rest) = rn op (er_e v0) (er_e v1 :: map er_e rest).
Proof. induction rest; intros; cbn [group er_e rn map]; [reflexivity|]. rewrite IHrest. reflexivity. Qed.
Lemma er_set_pos_op : forall p x, er_e (set_pos_op p x) = er_e x.
Proof. destruct x; reflexivity. Qed.
Lemma er_nest_split : forall op l v0,
  er_e (nest_bool op (fst (split_last v0 l)) (snd (split_last v0 l))) = rn op (er_e v0) (map er_e l).
Proof.
  induction l; intros; cbn [split_last fst snd nest_bool rn map]; [reflexivity|].
  specialize (IHl a). destruct (split_last a l) as [i x]. cbn [fst snd nest_bool er_e] in *. rewrite IHl. reflexivity.
Qed.
Lemma er_mk_boolop : forall p op v0 v1 vs, er_e (mk_boolop p op v0 v1 vs) = rn op (er_e v0) (er_e v1 :: map er_e vs).
Proof.
  intros. unfold mk_boolop. pose proof (er_nest_split op (v1 :: vs) v0) as H.
  destruct (split_last v0 (v1 :: vs)) as [i x]. cbn [fst snd] in H. rewrite er_set_pos_op. exact H.
Qed.

Lemma er_force : forall b l, map er_arg (force_pos_only b l) = force_pos_only b (map er_arg l).
Proof. destruct b; intros; cbn [force_pos_only]; [|reflexivity]. rewrite !map_map. apply map_ext. intros [? ? ? ? ? ?]. reflexivity. Qed.
Lemma er_find_metaclass : forall kws, option_map er_e (find_metaclass kws) = find_metaclass (map (fun kv => (fst kv, er_e (snd kv))) kws).
Proof.
  unfold find_metaclass. intros kws.
  assert (G : forall acc,
    option_map er_e (fold_left (fun acc kv => if String.eqb (fst kv) "metaclass" then Some (snd kv) else acc) kws acc) =
    fold_left (fun acc kv => if String.eqb (fst kv) "metaclass" then Some (snd kv) else acc)
              (map (fun kv => (fst kv, er_e (snd kv))) kws) (option_map er_e acc)).
  { induction kws as [|[n e] kws IH]; intros acc; cbn [fold_left map fst snd]; [reflexivity|].
    destruct (String.eqb n "metaclass"); rewrite IH; reflexivity. }
  exact (G None).
Qed.
Lemma er_mk_funcdef : forall p p' name a a' d d' dp dp' b b',
  map er_arg a = map er_arg a' -> map er_e d = map er_e d' -> er_b b = er_b b' ->
  er_s (mk_funcdef p name a d dp b) = er_s (mk_funcdef p' name a' d' dp' b').
Proof.
  intros p p' name a a' d d' dp dp' b b' Ha Hd Hb. unfold mk_funcdef.
  assert (F : er_s (MFuncDef p name (force_pos_only (special_function_elide_names name) a) b) =
              er_s (MFuncDef p' name (force_pos_only (special_function_elide_names name) a') b')).
  { cbn [er_s]. rewrite !er_force, Ha, Hb. reflexivity. }
  destruct d, d'; cbn [map] in Hd; try discriminate; [exact F|].
  change (MDecorator P0 (map er_e (m :: d)) (er_s (MFuncDef p name (force_pos_only (special_function_elide_names name) a) b)) =
          MDecorator P0 (map er_e (m0 :: d')) (er_s (MFuncDef p' name (force_pos_only (special_function_elide_names name) a') b'))).
  rewrite F. cbn [map]. rewrite Hd. reflexivity.
Qed.
Lemma er_flat : forall items, flat_map flat_union (map er_ty items) = map er_ty (flat_map flat_union items).
Proof.
  induction items as [|t items IH]; [reflexivity|]. cbn [map flat_map]. rewrite IH, map_app. f_equal.
  destruct t; reflexivity.
Qed.
Lemma er_mk_union : forall p items, er_ty (mk_union p items) = MUnion P0 (flat_map flat_union (map er_ty items)).
Proof. intros. unfold mk_union. cbn [er_ty]. rewrite er_flat. reflexivity. Qed.
Lemma er_set_col : forall c t, er_ty (set_col c t) = er_ty t.
Proof. intros c [[l c0 el ec] n a e|[l c0 el ec] i]; reflexivity. Qed.
Lemma er_block_ne : forall u s0 l, er_b (mk_block_ne u s0 l) = MBlock P0 u (map er_s (s0 :: l)).
Proof. reflexivity. Qed.
Lemma er_mk_block : forall l l', map er_s l = map er_s l' -> option_map er_b (mk_block false l) = option_map er_b (mk_block false l').
Proof. intros [|a l] [|a' l'] H; cbn [map] in H; try discriminate; [reflexivity|]. cbn [mk_block option_map]. rewrite !er_block_ne. cbn [map]. rewrite H. reflexivity. Qed.

(* ---------------------------------------------------------------- the side condition *)
Fixpoint ok_e (e : expr) : Prop :=
  match e with
  | EName _ _ | EInt _ _ | EStr _ _ => True
  | EAttr _ e _ | EUnary _ _ e | EStar _ e => ok_e e
  | ECall _ f a => ok_e f /\ ok_args a
  | EBin _ _ l r | ESubscript _ l r => ok_e l /\ ok_e r
  | ECompare _ l c => ok_e l /\ ok_cmps c
  | EBoolOp _ _ e1 e2 rest => ok_e e1 /\ ok_e e2 /\ ok_es rest
  | EIfExp _ t b o => ok_e t /\ ok_e b /\ ok_e o
  | ETuple _ es | EList _ es | ESet _ es => ok_es es
  | EDict _ it => ok_ditems it
  | ESlice _ a b c => ok_oe a /\ ok_oe b /\ ok_oe c
  | ELambda _ ps b => ok_params ps /\ ok_e b
  | EConst _ _ | EEllipsis _ | EBytes _ _ | EFloat _ _ | EComplex _ _ _ => True
  | EYield _ v => ok_oe v
  | EYieldFrom _ e | EAwait _ e | EWalrus _ _ _ e => ok_e e
  | EComp _ _ elt g => ok_e elt /\ ok_gens g
  | EDictComp _ ky v g => ok_e ky /\ ok_e v /\ ok_gens g
  end
with ok_es (es : exprs) : Prop := match es with ENil => True | ECons e es' => ok_e e /\ ok_es es' end
with ok_args (a : args) : Prop := match a with ANil => True | ACons _ e a' => ok_e e /\ ok_args a' end
with ok_cmps (c : cmps) : Prop := match c with CNil => True | CCons _ e c' => ok_e e /\ ok_cmps c' end
with ok_oe (o : oexpr) : Prop := match o with ONone => True | OSome e => ok_e e end
with ok_ditems (d : ditems) : Prop := match d with DNil => True | DCons k v r => ok_oe k /\ ok_e v /\ ok_ditems r end
(* the only non-positional difference of the fragment: `__x` as a keyword-only / star parameter *)
with ok_params (ps : params) : Prop :=
  match ps with PNil => True | PCons _ _ n k d r => emit_pos_only k n = param_pos_only k n /\ ok_oe d /\ ok_params r end
with ok_gens (g : gens) : Prop := match g with GNil => True | GCons t i c r => ok_e t /\ ok_e i /\ ok_es c /\ ok_gens r end.

Definition Se (e : expr) := ok_e e -> er_e (nconv_e e) = er_e (conv_e e).
Definition Ses (es : exprs) := ok_es es -> map er_e (nconv_es es) = map er_e (conv_es es).
Definition Sargs (a : args) := ok_args a -> map er_e (nconv_args a) = map er_e (conv_args a).
Definition Scmps (c : cmps) := ok_cmps c -> map er_e (nconv_cmps c) = map er_e (conv_cmps c).
Definition Soe (o : oexpr) := ok_oe o -> option_map er_e (nconv_oe o) = option_map er_e (conv_oe o).
Definition Sditems (d : ditems) := ok_ditems d ->
  map (fun kv => (option_map er_e (fst kv), er_e (snd kv))) (combine (nconv_dkeys d) (nconv_dvals d)) =
  map (fun kv => (option_map er_e (fst kv), er_e (snd kv))) (conv_ditems d).
Definition Sparams (ps : params) := ok_params ps -> map er_arg (nconv_params ps) = map er_arg (conv_params ps).
Definition Sgens (g : gens) := ok_gens g ->
  map er_e (nconv_gtargets g) = map er_e (conv_gtargets g) /\ map er_e (nconv_giters g) = map er_e (conv_giters g) /\
  map (map er_e) (nconv_gifs g) = map (map er_e) (conv_gifs g).

Lemma shape_e_all :
  (forall e, Se e) /\ (forall es, Ses es) /\ (forall a, Sargs a) /\ (forall c, Scmps c) /\ (forall o, Soe o) /\
  (forall d, Sditems d) /\ (forall ps, Sparams ps) /\ (forall g, Sgens g).
Proof.
  apply expr_all_mut; unfold Se, Ses, Sargs, Scmps, Soe, Sditems, Sparams, Sgens; intros;
    cbn [ok_e ok_es ok_args ok_cmps ok_oe ok_ditems ok_params ok_gens] in *;
    cbn [nconv_e nconv_es nconv_args nconv_cmps nconv_oe nconv_dkeys nconv_dvals nconv_params nconv_gtargets nconv_giters nconv_gifs
         conv_e conv_es conv_args conv_cmps conv_oe conv_ditems conv_params conv_gtargets conv_giters conv_gifs combine map option_map];
    try reflexivity.
  - (* EAttr *) rewrite !er_mk_member, H by auto. reflexivity.
  - (* ECall *) destruct H1. cbn [er_e]. rewrite H, H0 by auto. reflexivity.
  - (* EBin *) destruct H1. cbn [er_e]. rewrite H, H0 by auto. reflexivity.
  - (* EUnary *) cbn [er_e]. rewrite H by auto. reflexivity.
  - (* ECompare *) destruct H1. cbn [er_e map]. rewrite H, H0 by auto. reflexivity.
  - (* EBoolOp *) destruct H2 as [A [B C]]. rewrite er_mk_boolop, er_group, H, H0, H1 by auto. reflexivity.
  - (* EIfExp *) destruct H2 as [A [B C]]. cbn [er_e]. rewrite H, H0, H1 by auto. reflexivity.
  - cbn [er_e]. rewrite H by auto. reflexivity.
  - cbn [er_e]. rewrite H by auto. reflexivity.
  - cbn [er_e]. rewrite H by auto. reflexivity.
  - (* EDict *) cbn [er_e]. rewrite H by auto. reflexivity.
  - (* ESubscript *) destruct H1. cbn [er_e]. rewrite H, H0 by auto. reflexivity.
  - (* ESlice *) destruct H2 as [A [B C]]. cbn [er_e]. rewrite H, H0, H1 by auto. reflexivity.
  - (* EStar *) cbn [er_e]. rewrite H by auto. reflexivity.
  - (* ELambda *) destruct H1. cbn [er_e]. rewrite H, H0 by auto. reflexivity.
  - (* EComp *) destruct H1 as [A B]. destruct (H0 B) as [X [Y Z]]. cbv zeta. destruct k; cbn [er_e]; rewrite H, X, Y, Z by auto; reflexivity.
  - (* EDictComp *) destruct H2 as [A [B C]]. destruct (H1 C) as [X [Y Z]]. cbn [er_e]. rewrite H, H0, X, Y, Z by auto. reflexivity.
  - (* EYield *) cbn [er_e]. rewrite H by auto. reflexivity.
  - (* EYieldFrom *) cbn [er_e]. rewrite H by auto. reflexivity.
  - (* EAwait *) cbn [er_e]. rewrite H by auto. reflexivity.
  - (* EWalrus *) cbn [er_e]. rewrite H by auto. reflexivity.
  - (* ECons *) destruct H1. rewrite H, H0 by auto. reflexivity.
  - destruct H1. rewrite H, H0 by auto. reflexivity.
  - destruct H1. rewrite H, H0 by auto. reflexivity.
  - (* OSome *) rewrite H by auto. reflexivity.
  - (* DCons *) destruct H2 as [A [B C]]. cbn [fst snd]. rewrite H1 by auto. f_equal. f_equal; auto.
  - (* PCons *) destruct H1 as [Hpo [Hd Hr]]. cbn [er_arg]. rewrite H, H0, Hpo by auto. reflexivity.
  - (* GNil *) repeat split.
  - (* GCons *) destruct H3 as [A [B [C D]]]. destruct (H2 D) as [X [Y Z]]. rewrite H, H0, H1, X, Y, Z by auto. repeat split.
Qed.

Definition shape_e := proj1 shape_e_all.
Definition shape_es := proj1 (proj2 shape_e_all).
Definition shape_oe := proj1 (proj2 (proj2 (proj2 (proj2 shape_e_all)))).
Definition shape_params := proj1 (proj2 (proj2 (proj2 (proj2 (proj2 (proj2 shape_e_all)))))).

Lemma shape_ty_all :
  (forall t line, er_ty (nconv_ty t) = er_ty (conv_ty line t)) /\
  (forall a line, map er_ty (nconv_tys a) = map er_ty (conv_tys line a)).
Proof.
  apply ty_all_mut; intros; cbn [nconv_ty conv_ty nconv_tys conv_tys map]; try reflexivity.
  - cbn [er_ty]. rewrite (H line). reflexivity.
  - rewrite !er_mk_union. cbn [map]. rewrite (H line), (H0 line). reflexivity.
  - rewrite (H line), (H0 line). reflexivity.
Qed.

Fixpoint ok_ckws (k : ckws) : Prop := match k with KNil => True | KCons _ e r => ok_e e /\ ok_ckws r end.
Fixpoint ok_witems (w : witems) : Prop := match w with WNil => True | WCons c t r => ok_e c /\ ok_oe t /\ ok_witems r end.
Fixpoint ok_s (s : stmt) : Prop :=
  match s with
  | SClass _ _ bases kws decos b0 bs => ok_es bases /\ ok_ckws kws /\ ok_es decos /\ ok_s b0 /\ ok_ss bs
  | SDef _ _ ps decos _ b0 bs => ok_params ps /\ ok_es decos /\ ok_s b0 /\ ok_ss bs
  | SExpr _ e => ok_e e
  | SAssign _ t v => ok_es t /\ ok_e v
  | SAnnAssign _ t _ v => ok_e t /\ ok_oe v
  | SAugAssign _ _ t v => ok_e t /\ ok_e v
  | SReturn _ v => ok_oe v
  | SPass _ | SBreak _ | SContinue _ | SGlobal _ _ | SNonlocal _ _ | SImport _ _ | SImportFrom _ _ _ _ | SImportAll _ _ _ => True
  | SDel _ t0 ts => ok_e t0 /\ ok_es ts
  | SAssert _ t m => ok_e t /\ ok_oe m
  | SRaise _ e c => ok_oe e /\ ok_oe c
  | SWhile _ t b0 bs o => ok_e t /\ ok_s b0 /\ ok_ss bs /\ ok_ss o
  | SFor _ t i b0 bs o => ok_e t /\ ok_e i /\ ok_s b0 /\ ok_ss bs /\ ok_ss o
  | SIf _ t b0 bs el o => ok_e t /\ ok_s b0 /\ ok_ss bs /\ ok_el el /\ ok_ss o
  | SWith _ items b0 bs => ok_witems items /\ ok_s b0 /\ ok_ss bs
  | STry _ b0 bs hs o f => ok_s b0 /\ ok_ss bs /\ ok_hs hs /\ ok_ss o /\ ok_ss f
  end
with ok_ss (ss : stmts) : Prop := match ss with SNil => True | SCons s ss' => ok_s s /\ ok_ss ss' end
with ok_el (el : elifs) : Prop := match el with LNil => True | LCons _ t b0 bs r => ok_e t /\ ok_s b0 /\ ok_ss bs /\ ok_el r end
with ok_hs (hs : handlers) : Prop :=
  match hs with HNil => True | HCons _ ty _ b0 bs r => ok_oe ty /\ ok_s b0 /\ ok_ss bs /\ ok_hs r end.

Lemma shape_ckws : forall k, ok_ckws k ->
  map (fun kv => (fst kv, er_e (snd kv))) (nconv_ckws k) = map (fun kv => (fst kv, er_e (snd kv))) (conv_ckws k).
Proof. induction k; cbn [ok_ckws nconv_ckws conv_ckws map fst snd]; intros; [reflexivity|]. destruct H. rewrite shape_e, IHk by auto. reflexivity. Qed.
Lemma shape_witems : forall w, ok_witems w ->
  map er_e (map fst (nconv_witems w)) = map er_e (conv_wexprs w) /\
  map (option_map er_e) (map snd (nconv_witems w)) = map (option_map er_e) (conv_wtargets w).
Proof.
  induction w; cbn [ok_witems nconv_witems conv_wexprs conv_wtargets map fst snd]; intros; [split; reflexivity|].
  destruct H as [A [B C]]. destruct (IHw C) as [X Y]. rewrite shape_e, shape_oe, X, Y by auto. split; reflexivity.
Qed.

Definition Ss (s : stmt) := ok_s s -> er_s (nconv_s s) = er_s (conv_s s).
Definition Sss (ss : stmts) := ok_ss ss -> map er_s (nconv_ss ss) = map er_s (conv_ss ss).
Definition Sel (el : elifs) := ok_el el -> forall ob cb, option_map er_b ob = option_map er_b cb ->
  option_map er_b (build_elifs (nconv_elifs el) ob) = option_map er_b (conv_elifs el cb).
Definition Shs (hs : handlers) := ok_hs hs ->
  map er_b (nconv_hbodies hs) = map er_b (conv_hbodies hs) /\ map er_var (nconv_hvars hs) = map er_var (conv_hvars hs) /\
  map (option_map er_e) (nconv_htypes hs) = map (option_map er_e) (conv_htypes hs).

Lemma shape_block : forall b0 bs, er_s (nconv_s b0) = er_s (conv_s b0) -> map er_s (nconv_ss bs) = map er_s (conv_ss bs) ->
  er_b (mk_block_ne false (nconv_s b0) (nconv_ss bs)) = er_b (MBlock (block_pos b0 bs) false (conv_s b0 :: conv_ss bs)).
Proof. intros. rewrite er_block_ne. cbn [er_b map]. rewrite H, H0. reflexivity. Qed.
Lemma shape_oblock : forall o, map er_s (nconv_ss o) = map er_s (conv_ss o) ->
  option_map er_b (mk_block false (nconv_ss o)) = option_map er_b (as_block o).
Proof.
  intros o H. destruct o as [|s ss]; [reflexivity|]. cbn [nconv_ss conv_ss as_block mk_block option_map map] in *.
  rewrite er_block_ne. cbn [er_b map]. rewrite H. reflexivity.
Qed.

Lemma shape_s_all : (forall s, Ss s) /\ (forall ss, Sss ss) /\ (forall el, Sel el) /\ (forall hs, Shs hs).
Proof.
  apply stmt_all_mut; unfold Ss, Sss, Sel, Shs; intros;
    cbn [ok_s ok_ss ok_el ok_hs] in *;
    cbn [nconv_s nconv_ss nconv_elifs nconv_hbodies nconv_hvars nconv_htypes conv_s conv_ss conv_elifs conv_hbodies conv_hvars conv_htypes
         build_elifs map];
    try reflexivity.
  - (* SClass *) destruct H1 as [A [B [C [D E]]]]. cbn [er_s]. rewrite !er_find_metaclass, shape_block, !shape_es, shape_ckws by auto.
    reflexivity.
  - (* SDef *) destruct H1 as [A [B [C D]]]. apply er_mk_funcdef; [apply shape_params; auto | apply shape_es; auto | apply shape_block; auto].
  - (* SExpr *) cbn [er_s]. rewrite shape_e by auto. reflexivity.
  - (* SAssign *) destruct H. cbn [er_s]. rewrite shape_es, shape_e by auto. reflexivity.
  - (* SAnnAssign *) destruct H. cbn [er_s map]. rewrite shape_e, er_set_col, (proj1 shape_ty_all annotation (p_line p)) by auto.
    destruct value; cbn [ok_oe] in *; [reflexivity|]. rewrite (shape_e e) by auto. reflexivity.
  - (* SAugAssign *) destruct H. cbn [er_s]. rewrite !shape_e by auto. reflexivity.
  - (* SReturn *) cbn [er_s]. rewrite shape_oe by auto. reflexivity.
  - (* SDel *) destruct H. cbn [er_s]. destruct ts; [rewrite shape_e by auto; reflexivity|].
    cbn [er_e map]. rewrite shape_e, shape_es by auto. reflexivity.
  - (* SAssert *) destruct H. cbn [er_s]. rewrite shape_e, shape_oe by auto. reflexivity.
  - (* SRaise *) destruct H. cbn [er_s]. rewrite !shape_oe by auto. reflexivity.
  - (* SWhile *) destruct H2 as [A [B [C D]]]. cbn [er_s]. rewrite shape_e, shape_block, shape_oblock by auto. reflexivity.
  - (* SFor *) destruct H2 as [A [A' [B [C D]]]]. cbn [er_s]. rewrite !shape_e, shape_block, shape_oblock by auto. reflexivity.
  - (* SIf *) destruct H3 as [A [B [C [D E]]]]. cbn [er_s]. rewrite shape_e, shape_block by auto.
    rewrite (H1 D _ (as_block orelse)) by (apply shape_oblock; auto). reflexivity.
  - (* SWith *) destruct H1 as [A [B C]]. destruct (shape_witems items A) as [X Y]. cbn [er_s]. rewrite X, Y, shape_block by auto. reflexivity.
  - (* STry *) destruct H4 as [A [B [C [D E]]]]. destruct (H1 C) as [X [Y Z]]. cbn [er_s].
    rewrite shape_block, X, Y, Z, !shape_oblock by auto. reflexivity.
  - (* SCons *) destruct H1. rewrite H, H0 by auto. reflexivity.
  - (* LNil *) assumption.
  - (* LCons *) destruct H2 as [A [B [C D]]].
    specialize (H1 D ob cb H3).
    destruct (build_elifs (nconv_elifs el) ob) eqn:E1; destruct (conv_elifs el cb) eqn:E2; cbn [option_map] in H1; try discriminate;
      cbn [option_map er_b map er_s]; rewrite shape_e, shape_block by auto; cbn [option_map er_b map];
      try (injection H1 as H1; rewrite H1); reflexivity.
  - (* HNil *) repeat split.
  - (* HCons *) destruct H2 as [A [B [C D]]]. destruct (H1 D) as [X [Y Z]].
    rewrite shape_block, X, Y, Z, shape_oe by auto. repeat split. destruct name as [[n np]|]; reflexivity.
Qed.

Theorem same_shape : forall t, ok_ss t -> map er_s (nconvert t) = map er_s (convert t).
Proof. exact (proj1 (proj2 shape_s_all)). Qed.
